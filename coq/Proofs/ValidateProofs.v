(* Proofs/ValidateProofs.v -- the generated image of is_job_invalid() (Gen/GenValidate.v) against the
   declarative catalogue (Mgr/Validate.v), for ALL jobs (no bound on any length).

   Method.  [agree r rs j] relates the result [r] of a piece of the C image to a rule list:
       r = Some e  ->  some rule of rs mapped to e is violated by j
       r = None    ->  (j outside the known doc-vs-code discrepancies ->) all rules of rs hold.
   It is proved per case group of the two C switches ("family") by a GENERIC tactic that walks the
   generated if-chain one condition at a time ([walk]); at a [Some e] leaf it searches the rule list
   for a rule with that errno whose violation follows from the path condition ([pick_rule]), at the
   final [None] leaf it proves every rule from the negated conditions ([all_ok]); arithmetic by lia
   (masks turned into mod, Z.div_mod_to_equations).  Nothing in the scripts depends on the ORDER of
   the checks in the C; a changed bound, a dropped check or a wrong errno makes a leaf fail. *)
From Coq Require Import NArith List Bool Lia ZArith ZifyBool ZifyN String.
From IMB Require Import Lib.Bytes Gen.GenEnums Mgr.JobView Gen.GenValidate Mgr.Validate.
Import ListNotations.
Local Open Scope N_scope.
Ltac Zify.zify_post_hook ::= Z.div_mod_to_equations.

(* ------------------------------------------------------------------------------------------ *)
(* agreement relation and its algebra                                                          *)
(* ------------------------------------------------------------------------------------------ *)
Definition agree (r : option N) (rs : list rule) (j : job_view) : Prop :=
  match r with
  | Some e => violated_with e rs j = true
  | None => outside_known_discrepancies j = true -> rules_ok rs j = true
  end.

Lemma viol_here e r t j : r_err r = e -> holds (r_cond r) j = false -> violated_with e (r :: t) j = true.
Proof. intros He Hh. unfold violated_with. cbn [existsb]. rewrite He, Hh, N.eqb_refl. reflexivity. Qed.
Lemma viol_skip e r t j : violated_with e t j = true -> violated_with e (r :: t) j = true.
Proof. unfold violated_with. cbn [existsb]. intros ->. apply orb_true_r. Qed.
Lemma ok_cons r t j : holds (r_cond r) j = true -> rules_ok t j = true -> rules_ok (r :: t) j = true.
Proof. unfold rules_ok. cbn [forallb]. intros -> ->. reflexivity. Qed.
Lemma ok_nil j : rules_ok [] j = true. Proof. reflexivity. Qed.

Lemma violated_app e a b j : violated_with e (a ++ b) j = violated_with e a j || violated_with e b j.
Proof. unfold violated_with. apply existsb_app. Qed.
Lemma rules_ok_app a b j : rules_ok (a ++ b) j = rules_ok a j && rules_ok b j.
Proof. unfold rules_ok. apply forallb_app. Qed.

Lemma violated_not_ok e rs j : violated_with e rs j = true -> rules_ok rs j = false.
Proof.
  unfold violated_with, rules_ok. induction rs as [|r t IH]; cbn [existsb forallb]; [discriminate|].
  intros H. apply orb_true_iff in H. destruct H as [H|H].
  - apply andb_true_iff in H. destruct H as [_ H]. apply negb_true_iff in H. rewrite H. reflexivity.
  - rewrite (IH H). apply andb_false_r.
Qed.
Lemma violated_in e rs j : violated_with e rs j = true -> In e (violations_of rs j).
Proof.
  unfold violated_with, violations_of. induction rs as [|r t IH]; cbn [existsb flat_map]; [discriminate|].
  intros H. apply in_or_app. apply orb_true_iff in H. destruct H as [H|H].
  - left. apply andb_true_iff in H. destruct H as [He H]. apply negb_true_iff in H. rewrite H.
    apply N.eqb_eq in He. left. exact He.
  - right. exact (IH H).
Qed.

(* ------------------------------------------------------------------------------------------ *)
(* arithmetic normalisation: masks -> mod                                                      *)
(* ------------------------------------------------------------------------------------------ *)
Lemma land_1 x : N.land x 1 = x mod 2. Proof. change 1 with (N.ones 1). apply N.land_ones. Qed.
Lemma land_3 x : N.land x 3 = x mod 4. Proof. change 3 with (N.ones 2). apply N.land_ones. Qed.
Lemma land_7 x : N.land x 7 = x mod 8. Proof. change 7 with (N.ones 3). apply N.land_ones. Qed.
Lemma land_15 x : N.land x 15 = x mod 16. Proof. change 15 with (N.ones 4). apply N.land_ones. Qed.
Lemma land_m16 x : N.land x 65535 = x mod 65536. Proof. change 65535 with (N.ones 16). apply N.land_ones. Qed.
Lemma land_m32 x : N.land x 4294967295 = x mod 4294967296. Proof. change 4294967295 with (N.ones 32). apply N.land_ones. Qed.
Lemma land_m64 x : N.land x 18446744073709551615 = x mod 18446744073709551616.
Proof. change 18446744073709551615 with (N.ones 64). apply N.land_ones. Qed.

Ltac norm_arith :=
  unfold add64, sub64, mul64, sub32, shl64, w16, w32, w64, mask16, mask32, mask64 in *;
  rewrite ?land_1, ?land_3, ?land_7, ?land_15, ?land_m16, ?land_m32, ?land_m64 in *.
Ltac norm_arith_goal :=
  unfold add64, sub64, mul64, sub32, shl64, w16, w32, w64, mask16, mask32, mask64;
  rewrite ?land_1, ?land_3, ?land_7, ?land_15, ?land_m16, ?land_m32, ?land_m64.

(* the PON payload-length indication: a 16-bit quantity; abstract it (lia needs only its range) *)
Ltac abstract_pli :=
  try match goal with
  | |- context [N.shiftr ?x ?k mod 65536] => abs_pli x k
  | _ : context [N.shiftr ?x ?k mod 65536] |- _ => abs_pli x k
  end
with abs_pli x k :=
  let p := fresh "pli" in let Hp := fresh "Hpli" in
  assert (Hp : N.shiftr x k mod 65536 < 65536) by (apply N.mod_lt; discriminate);
  set (p := N.shiftr x k mod 65536) in *; clearbody p.

(* ------------------------------------------------------------------------------------------ *)
(* well-formedness as propositions                                                             *)
(* ------------------------------------------------------------------------------------------ *)
Definition two64 : N := 18446744073709551616.
Definition two32 : N := 4294967296.
Record widths (j : job_view) : Prop := mk_widths {
  wd_enc_keys : jv_enc_keys j < two64; wd_dec_keys : jv_dec_keys j < two64; wd_key_len : jv_key_len_in_bytes j < two64;
  wd_src : jv_src j < two64; wd_dst : jv_dst j < two64; wd_coff : jv_cipher_start_src_offset j < two64;
  wd_clen : jv_msg_len_to_cipher j < two64; wd_hoff : jv_hash_start_src_offset j < two64;
  wd_hlen : jv_msg_len_to_hash j < two64; wd_iv : jv_iv j < two64; wd_ivlen : jv_iv_len_in_bytes j < two64;
  wd_tag : jv_auth_tag_output j < two64; wd_taglen : jv_auth_tag_output_len j < two64;
  wd_u0 : jv_u0 j < two64; wd_u1 : jv_u1 j < two64; wd_u2 : jv_u2 j < two64;
  wd_cm : jv_cipher_mode j < two32; wd_dir : jv_cipher_direction j < two32; wd_ha : jv_hash_alg j < two32;
  wd_order : jv_chain_order j < two32; wd_sgl : jv_sgl_state j < two32; wd_next_iv : jv_next_iv j < two64;
  wd_xgem : jv_mem_xgem_hdr j < two64;
  wd_segs : forallb seg_ok (jv_sgl_segs j) = true }.

Lemma wf_widths j : well_formed j = true -> widths j.
Proof.
  unfold well_formed, widths_ok, u64_ok, u32_ok. intros H.
  apply andb_true_iff in H. destruct H as [H _].
  repeat match type of H with (_ && _ = true) => apply andb_true_iff in H; destruct H as [H ?] end.
  repeat match goal with H : (_ <? _) = true |- _ => apply N.ltb_lt in H end.
  constructor; assumption.
Qed.
Lemma wf_sgl j : well_formed j = true -> uses_sgl_array j = true -> sgl_view_ok j = true.
Proof.
  unfold well_formed. intros H U. apply andb_true_iff in H. destruct H as [_ H]. rewrite U in H. exact H.
Qed.

(* bring into the context the width facts about the fields that occur in the goal or hypotheses *)
Ltac pose_width W f lem :=
  lazymatch goal with
  | _ : f _ < _ |- _ => idtac
  | _ => first [ match goal with
                 | |- context [f _] => pose proof (lem _ W)
                 | _ : context [f _] |- _ => pose proof (lem _ W)
                 end | idtac ]
  end.
Ltac widths_in W :=
  pose_width W jv_key_len_in_bytes wd_key_len; pose_width W jv_src wd_src; pose_width W jv_dst wd_dst;
  pose_width W jv_cipher_start_src_offset wd_coff; pose_width W jv_msg_len_to_cipher wd_clen;
  pose_width W jv_hash_start_src_offset wd_hoff; pose_width W jv_msg_len_to_hash wd_hlen;
  pose_width W jv_iv_len_in_bytes wd_ivlen; pose_width W jv_auth_tag_output_len wd_taglen;
  pose_width W jv_u1 wd_u1; pose_width W jv_u2 wd_u2; pose_width W jv_mem_xgem_hdr wd_xgem;
  unfold two64, two32 in *.

(* ------------------------------------------------------------------------------------------ *)
(* the generic tactics                                                                         *)
(* ------------------------------------------------------------------------------------------ *)
(* walk the C image: one condition at a time, outermost first *)
Lemma oseq_assoc a b c : oseq (oseq a b) c = oseq a (oseq b c).
Proof. destruct a; reflexivity. Qed.

(* constant-table lookups with a literal index *)
Ltac eval_tables :=
  repeat match goal with
  | |- context [nth_N ?t ?i] => let v := eval vm_compute in (nth_N t i) in change (nth_N t i) with v
  end.

(* a condition that does not mention the job is a closed boolean: compute it instead of splitting *)
Ltac split_cond c :=
  lazymatch c with
  | context [jv_enc_keys] => let H := fresh "C" in destruct c eqn:H
  | context [mk_job_view] => let H := fresh "C" in destruct c eqn:H
  | _ => let v := eval vm_compute in c in
         lazymatch v with
         | true => change c with true; cbv iota
         | false => change c with false; cbv iota
         | _ => let H := fresh "C" in destruct c eqn:H
         end
  end.
(* the family hypotheses fix cipher_mode / hash_alg: substitute them wherever the body reads the job field *)
Ltac use_known_enums :=
  try match goal with H : jv_hash_alg _ = _ |- _ => rewrite H end;
  try match goal with H : jv_cipher_mode _ = _ |- _ => rewrite H end.
Ltac walk :=
  repeat lazymatch goal with
  | |- agree (if ?c then _ else _) _ _ => split_cond c
  | |- agree (oseq (if ?c then _ else _) _) _ _ => split_cond c
  | |- agree (oseq (oseq _ _) _) _ _ => rewrite oseq_assoc
  | |- agree (oseq (Some _) _) _ _ => unfold oseq at 1
  | |- agree (oseq None _) _ _ => unfold oseq at 1
  | |- agree (Some _) _ _ => fail
  | |- agree None _ _ => fail
  | |- agree (?f _ _ _ _ _) _ _ =>   (* a generated case-group body *)
      cbv beta zeta delta [f]; use_known_enums; norm_arith; gen_enums_unfold; eval_tables
  end.


(* catalogue vocabulary: everything that must be unfolded to see a rule as a boolean formula *)
Ltac cat :=
  cbn [holds r_cond r_err r_name existsb forallb app
       KeyLenIn IvLenIn IvLenBetween TagLenIn TagLenBetween CipherLenBetween CipherLenMultipleOf HashLenBetween
       PairedWithHash PairedWithCipher ChainOrderIs SglStateIn Encrypting Decrypting CipherLenNonZero HashLenNonZero
       HasAad SglPerSegment SglAll
       r_src r_dst r_iv r_src_if_len r_dst_if_len r_enc_keys r_enc_keys_if_enc r_dec_keys_if_dec r_key_len r_iv_len
       r_cipher_len_min r_cipher_len r_cipher_len_mult r_pair_hash r_pair_cipher r_tag r_tag_len r_tag_len_between
       r_hash_len r_hash_src r_hash_src_if_len r_aad r_cmac_keys] in *.

(* Relevance filter: lia's cost is exponential in the number of disjunctive hypotheses, so before
   each call every boolean/width hypothesis that shares no job field with the goal is cleared. *)
Ltac shares_field T G :=
  first
  [ lazymatch T with context [jv_enc_keys _] => lazymatch G with context [jv_enc_keys _] => idtac end end
  | lazymatch T with context [jv_dec_keys _] => lazymatch G with context [jv_dec_keys _] => idtac end end
  | lazymatch T with context [jv_key_len_in_bytes _] => lazymatch G with context [jv_key_len_in_bytes _] => idtac end end
  | lazymatch T with context [jv_src _] => lazymatch G with context [jv_src _] => idtac end end
  | lazymatch T with context [jv_dst _] => lazymatch G with context [jv_dst _] => idtac end end
  | lazymatch T with context [jv_cipher_start_src_offset _] => lazymatch G with context [jv_cipher_start_src_offset _] => idtac end end
  | lazymatch T with context [jv_msg_len_to_cipher _] => lazymatch G with context [jv_msg_len_to_cipher _] => idtac end end
  | lazymatch T with context [jv_hash_start_src_offset _] => lazymatch G with context [jv_hash_start_src_offset _] => idtac end end
  | lazymatch T with context [jv_msg_len_to_hash _] => lazymatch G with context [jv_msg_len_to_hash _] => idtac end end
  | lazymatch T with context [jv_iv_len_in_bytes _] => lazymatch G with context [jv_iv_len_in_bytes _] => idtac end end
  | lazymatch T with context [jv_iv _] => lazymatch G with context [jv_iv _] => idtac end end
  | lazymatch T with context [jv_auth_tag_output_len _] => lazymatch G with context [jv_auth_tag_output_len _] => idtac end end
  | lazymatch T with context [jv_auth_tag_output _] => lazymatch G with context [jv_auth_tag_output _] => idtac end end
  | lazymatch T with context [jv_u0 _] => lazymatch G with context [jv_u0 _] => idtac end end
  | lazymatch T with context [jv_u1 _] => lazymatch G with context [jv_u1 _] => idtac end end
  | lazymatch T with context [jv_u2 _] => lazymatch G with context [jv_u2 _] => idtac end end
  | lazymatch T with context [jv_cipher_mode _] => lazymatch G with context [jv_cipher_mode _] => idtac end end
  | lazymatch T with context [jv_cipher_direction _] => lazymatch G with context [jv_cipher_direction _] => idtac end end
  | lazymatch T with context [jv_hash_alg _] => lazymatch G with context [jv_hash_alg _] => idtac end end
  | lazymatch T with context [jv_chain_order _] => lazymatch G with context [jv_chain_order _] => idtac end end
  | lazymatch T with context [jv_cipher_func _] => lazymatch G with context [jv_cipher_func _] => idtac end end
  | lazymatch T with context [jv_hash_func _] => lazymatch G with context [jv_hash_func _] => idtac end end
  | lazymatch T with context [jv_sgl_state _] => lazymatch G with context [jv_sgl_state _] => idtac end end
  | lazymatch T with context [jv_next_iv _] => lazymatch G with context [jv_next_iv _] => idtac end end
  | lazymatch T with context [jv_enc_ks0 _] => lazymatch G with context [jv_enc_ks0 _] => idtac end end
  | lazymatch T with context [jv_enc_ks1 _] => lazymatch G with context [jv_enc_ks1 _] => idtac end end
  | lazymatch T with context [jv_enc_ks2 _] => lazymatch G with context [jv_enc_ks2 _] => idtac end end
  | lazymatch T with context [jv_dec_ks0 _] => lazymatch G with context [jv_dec_ks0 _] => idtac end end
  | lazymatch T with context [jv_dec_ks1 _] => lazymatch G with context [jv_dec_ks1 _] => idtac end end
  | lazymatch T with context [jv_dec_ks2 _] => lazymatch G with context [jv_dec_ks2 _] => idtac end end
  | lazymatch T with context [jv_mem_xgem_hdr _] => lazymatch G with context [jv_mem_xgem_hdr _] => idtac end end
  | lazymatch T with context [jv_sgl_segs _] => lazymatch G with context [jv_sgl_segs _] => idtac end end ].

Ltac relevant_only :=
  match goal with
  | j : job_view |- _ =>
    repeat match goal with
    | H : ?T |- ?G =>
        lazymatch T with
        | (_ = true) => idtac | (_ = false) => idtac | (_ < _) => idtac
        | (_ \/ _) => idtac
        end;
        (* hypotheses about no job field at all (loop totals, abstracted terms) are always kept *)
        lazymatch T with context [j] => idtac end;
        tryif shares_field T G then fail else clear H
    end
  end.

(* boolean sub-terms lia has no theory for: case-split on them (with the div/mod post-hook lia
   loses track of plain boolean variables, so they are eliminated rather than abstracted) *)
Ltac abstract_bools :=
  repeat match goal with
  | |- context [forallb ?f ?l] => let b := fresh "b" in set (b := forallb f l) in *; clearbody b; destruct b
  | _ : context [forallb ?f ?l] |- _ => let b := fresh "b" in set (b := forallb f l) in *; clearbody b; destruct b
  end.
(* value-level conditionals (c ? a : b in the C, if-then-else in the catalogue) *)
Ltac split_ifs :=
  repeat match goal with
  | |- context [if ?b then _ else _] => let E := fresh "E" in destruct b eqn:E
  | _ : context [if ?b then _ else _] |- _ => let E := fresh "E" in destruct b eqn:E
  end.
Ltac arith := unfold pon_pli, pon_payload_len, MB_MAX_LEN16, jv_num_sgl_io_segs, jv_sgl_io_segs; norm_arith_goal; gen_enums_unfold_goal; relevant_only; abstract_pli; abstract_bools; split_ifs; lia.

Ltac pick_rule :=
  first [ apply viol_here; [ reflexivity | cat; arith ]
        | apply viol_skip; pick_rule ].
(* a C condition `a || b` whose disjuncts violate DIFFERENT rules with the same errno *)
Ltac split_or_hyp :=
  match goal with
  | H : (_ || _) = true |- _ => apply orb_true_iff in H; destruct H as [H|H]
  | H : _ \/ _ |- _ => destruct H as [H|H]
  end.
Ltac pick_rule_cases := first [ pick_rule | split_or_hyp; pick_rule_cases ].
Ltac all_ok :=
  repeat (apply ok_cons; [ cat; arith | ]); apply ok_nil.

(* expose a rule list as an explicit cons list *)
Ltac open_rules :=
  cbv beta delta [
       rules_CBC rules_CBCS_1_9 rules_ECB rules_CNTR rules_CNTR_BITLEN rules_NULL rules_DOCSIS_SEC_BPI rules_GCM
       rules_GCM_SGL rules_SM4_GCM rules_CUSTOM rules_DES rules_DOCSIS_DES rules_DES3 rules_CCM rules_PON
       rules_ZUC_EEA3 rules_SNOW3G_UEA2 rules_KASUMI_UEA1 rules_CHACHA20 rules_CHACHA20_POLY1305
       rules_CHACHA20_POLY1305_SGL rules_SNOW_V rules_SNOW_V_AEAD rules_SM4_ECB rules_SM4_CBC rules_SM4_CNTR rules_CFB
       rules_HMAC rules_XCBC rules_AUTH_NULL rules_CRC rules_AES_GMAC rules_GCM_SGL_HASH rules_GMAC_STANDALONE
       rules_GHASH rules_AUTH_CUSTOM rules_AES_CCM rules_CMAC rules_CMAC_BITLEN rules_SHA rules_PON_CRC_BIP
       rules_ZUC_EIA3 rules_ZUC256_EIA3 rules_DOCSIS_CRC32 rules_SNOW3G_UIA2 rules_KASUMI_UIA1 rules_POLY1305
       rules_CHACHA20_POLY1305_HASH rules_CHACHA20_POLY1305_SGL_HASH rules_SNOW_V_AEAD_HASH rules_SM3 rules_HMAC_SM3
       rules_SM4_GCM_HASH];
  cbn [app sgl_rules].

Ltac open_outside H :=
  unfold outside_known_discrepancies, disc_D2_key_len_truncated, disc_D3_sgl_total_wraps,
         disc_D8_docsis_offset_wraps in H;
  try match goal with HU : uses_sgl_array _ = true |- _ => rewrite HU in H end;
  repeat match type of H with (_ && _ = true) => apply andb_true_iff in H; destruct H as [H ?] end.

Ltac leaf W :=
  unfold agree; open_rules;
  lazymatch goal with
  | |- violated_with _ _ _ = true => widths_in W; pick_rule_cases
  | |- _ -> rules_ok _ _ = true => let Ho := fresh "Hout" in intros Ho; open_outside Ho; gen_enums_unfold; widths_in W; all_ok
  end.

(* ------------------------------------------------------------------------------------------ *)
(* cipher-mode families                                                                        *)
(* ------------------------------------------------------------------------------------------ *)
Definition dir_ok (j : job_view) : Prop :=
  jv_cipher_direction j = IMB_DIR_ENCRYPT \/ jv_cipher_direction j = IMB_DIR_DECRYPT \/ jv_cipher_mode j = IMB_CIPHER_NULL.

(* the cipher switch of is_job_invalid with the actual arguments of the call sites *)
Definition csw (j : job_view) : option N :=
  is_job_invalid_sw1 j (jv_cipher_mode j) (jv_hash_alg j) (jv_cipher_direction j) (w32 (jv_key_len_in_bytes j)).
Definition hsw (j : job_view) : option N :=
  is_job_invalid_sw2 j (jv_cipher_mode j) (jv_hash_alg j) (jv_cipher_direction j) (w32 (jv_key_len_in_bytes j)).

Ltac cfamily :=
  let W := fresh "W" in
  intros Hwf Hdir Hcm; pose proof (wf_widths _ Hwf) as W; unfold dir_ok in Hdir;
  unfold csw; rewrite ?Hcm; cbv beta zeta delta [is_job_invalid_sw1]; norm_arith; gen_enums_unfold;
  walk; leaf W.

Lemma cfam_CBC j : well_formed j = true -> dir_ok j -> jv_cipher_mode j = IMB_CIPHER_CBC -> agree (csw j) rules_CBC j.
Proof. cfamily. Qed.

Lemma cfam_CBCS_1_9 j : well_formed j = true -> dir_ok j -> jv_cipher_mode j = IMB_CIPHER_CBCS_1_9 -> agree (csw j) rules_CBCS_1_9 j.
Proof. cfamily. Qed.

Lemma cfam_ECB j : well_formed j = true -> dir_ok j -> jv_cipher_mode j = IMB_CIPHER_ECB -> agree (csw j) rules_ECB j.
Proof. cfamily. Qed.

Lemma cfam_CNTR j : well_formed j = true -> dir_ok j -> jv_cipher_mode j = IMB_CIPHER_CNTR -> agree (csw j) rules_CNTR j.
Proof. cfamily. Qed.

Lemma cfam_CNTR_BITLEN j : well_formed j = true -> dir_ok j -> jv_cipher_mode j = IMB_CIPHER_CNTR_BITLEN -> agree (csw j) rules_CNTR_BITLEN j.
Proof. cfamily. Qed.

Lemma cfam_NULL j : well_formed j = true -> dir_ok j -> jv_cipher_mode j = IMB_CIPHER_NULL -> agree (csw j) rules_NULL j.
Proof. cfamily. Qed.

Lemma cfam_DOCSIS_SEC_BPI j : well_formed j = true -> dir_ok j -> jv_cipher_mode j = IMB_CIPHER_DOCSIS_SEC_BPI -> agree (csw j) rules_DOCSIS_SEC_BPI j.
Proof. cfamily. Qed.

Lemma cfam_GCM j : well_formed j = true -> dir_ok j -> jv_cipher_mode j = IMB_CIPHER_GCM -> agree (csw j) rules_GCM j.
Proof. cfamily. Qed.

Lemma cfam_SM4_GCM j : well_formed j = true -> dir_ok j -> jv_cipher_mode j = IMB_CIPHER_SM4_GCM -> agree (csw j) rules_SM4_GCM j.
Proof. cfamily. Qed.

Lemma cfam_CUSTOM j : well_formed j = true -> dir_ok j -> jv_cipher_mode j = IMB_CIPHER_CUSTOM -> agree (csw j) rules_CUSTOM j.
Proof. cfamily. Qed.

Lemma cfam_DES j : well_formed j = true -> dir_ok j -> jv_cipher_mode j = IMB_CIPHER_DES -> agree (csw j) rules_DES j.
Proof. cfamily. Qed.

Lemma cfam_DOCSIS_DES j : well_formed j = true -> dir_ok j -> jv_cipher_mode j = IMB_CIPHER_DOCSIS_DES -> agree (csw j) rules_DOCSIS_DES j.
Proof. cfamily. Qed.

Lemma cfam_CCM j : well_formed j = true -> dir_ok j -> jv_cipher_mode j = IMB_CIPHER_CCM -> agree (csw j) rules_CCM j.
Proof. cfamily. Qed.

Lemma cfam_DES3 j : well_formed j = true -> dir_ok j -> jv_cipher_mode j = IMB_CIPHER_DES3 -> agree (csw j) rules_DES3 j.
Proof. cfamily. Qed.

Lemma cfam_PON j : well_formed j = true -> dir_ok j -> jv_cipher_mode j = IMB_CIPHER_PON_AES_CNTR -> agree (csw j) rules_PON j.
Proof. cfamily. Qed.

(* ZUC: the IV rule depends on the key length the checker sees, i.e. on the TRUNCATED value: the
   errno is only guaranteed to name a violated rule when the 64-bit key length fits 32 bits (D2) *)
Lemma cfam_ZUC_EEA3 j : disc_D2_key_len_truncated j = false ->
  well_formed j = true -> dir_ok j -> jv_cipher_mode j = IMB_CIPHER_ZUC_EEA3 -> agree (csw j) rules_ZUC_EEA3 j.
Proof. intros HD2; unfold disc_D2_key_len_truncated in HD2. cfamily. Qed.

Lemma cfam_SNOW3G_UEA2 j : well_formed j = true -> dir_ok j -> jv_cipher_mode j = IMB_CIPHER_SNOW3G_UEA2_BITLEN -> agree (csw j) rules_SNOW3G_UEA2 j.
Proof. cfamily. Qed.

Lemma cfam_KASUMI_UEA1 j : well_formed j = true -> dir_ok j -> jv_cipher_mode j = IMB_CIPHER_KASUMI_UEA1_BITLEN -> agree (csw j) rules_KASUMI_UEA1 j.
Proof. cfamily. Qed.

Lemma cfam_CHACHA20 j : well_formed j = true -> dir_ok j -> jv_cipher_mode j = IMB_CIPHER_CHACHA20 -> agree (csw j) rules_CHACHA20 j.
Proof. cfamily. Qed.

Lemma cfam_CHACHA20_POLY1305 j : well_formed j = true -> dir_ok j -> jv_cipher_mode j = IMB_CIPHER_CHACHA20_POLY1305 -> agree (csw j) rules_CHACHA20_POLY1305 j.
Proof. cfamily. Qed.

Lemma cfam_SNOW_V j : well_formed j = true -> dir_ok j -> jv_cipher_mode j = IMB_CIPHER_SNOW_V -> agree (csw j) rules_SNOW_V j.
Proof. cfamily. Qed.

Lemma cfam_SNOW_V_AEAD j : well_formed j = true -> dir_ok j -> jv_cipher_mode j = IMB_CIPHER_SNOW_V_AEAD -> agree (csw j) rules_SNOW_V_AEAD j.
Proof. cfamily. Qed.

Lemma cfam_SM4_ECB j : well_formed j = true -> dir_ok j -> jv_cipher_mode j = IMB_CIPHER_SM4_ECB -> agree (csw j) rules_SM4_ECB j.
Proof. cfamily. Qed.

Lemma cfam_SM4_CBC j : well_formed j = true -> dir_ok j -> jv_cipher_mode j = IMB_CIPHER_SM4_CBC -> agree (csw j) rules_SM4_CBC j.
Proof. cfamily. Qed.

Lemma cfam_SM4_CNTR j : well_formed j = true -> dir_ok j -> jv_cipher_mode j = IMB_CIPHER_SM4_CNTR -> agree (csw j) rules_SM4_CNTR j.
Proof. cfamily. Qed.

Lemma cfam_CFB j : well_formed j = true -> dir_ok j -> jv_cipher_mode j = IMB_CIPHER_CFB -> agree (csw j) rules_CFB j.
Proof. cfamily. Qed.

(* ------------------------------------------------------------------------------------------ *)
(* hash-algorithm families                                                                     *)
(* ------------------------------------------------------------------------------------------ *)
(* what is known when the hash switch runs: the cipher switch fell through *)
Definition cipher_passed (j : job_view) : Prop :=
  outside_known_discrepancies j = true -> rules_ok (cipher_rules (jv_cipher_mode j)) j = true.

Ltac hfamily :=
  let W := fresh "W" in
  intros Hwf Hc Hha; pose proof (wf_widths _ Hwf) as W;
  unfold hsw; rewrite ?Hha; cbv beta zeta delta [is_job_invalid_sw2]; norm_arith; gen_enums_unfold;
  walk; leaf W.

Lemma hfam_HMAC_SHA_1 j : well_formed j = true -> cipher_passed j -> jv_hash_alg j = IMB_AUTH_HMAC_SHA_1 -> agree (hsw j) (rules_HMAC 12 20) j.
Proof. hfamily. Qed.

Lemma hfam_HMAC_SHA_224 j : well_formed j = true -> cipher_passed j -> jv_hash_alg j = IMB_AUTH_HMAC_SHA_224 -> agree (hsw j) (rules_HMAC 14 28) j.
Proof. hfamily. Qed.

Lemma hfam_HMAC_SHA_256 j : well_formed j = true -> cipher_passed j -> jv_hash_alg j = IMB_AUTH_HMAC_SHA_256 -> agree (hsw j) (rules_HMAC 16 32) j.
Proof. hfamily. Qed.

Lemma hfam_HMAC_SHA_384 j : well_formed j = true -> cipher_passed j -> jv_hash_alg j = IMB_AUTH_HMAC_SHA_384 -> agree (hsw j) (rules_HMAC 24 48) j.
Proof. hfamily. Qed.

Lemma hfam_HMAC_SHA_512 j : well_formed j = true -> cipher_passed j -> jv_hash_alg j = IMB_AUTH_HMAC_SHA_512 -> agree (hsw j) (rules_HMAC 32 64) j.
Proof. hfamily. Qed.

Lemma hfam_AES_XCBC j : well_formed j = true -> cipher_passed j -> jv_hash_alg j = IMB_AUTH_AES_XCBC -> agree (hsw j) (rules_XCBC) j.
Proof. hfamily. Qed.

Lemma hfam_MD5 j : well_formed j = true -> cipher_passed j -> jv_hash_alg j = IMB_AUTH_MD5 -> agree (hsw j) (rules_HMAC 12 16) j.
Proof. hfamily. Qed.

Lemma hfam_NULL j : well_formed j = true -> cipher_passed j -> jv_hash_alg j = IMB_AUTH_NULL -> agree (hsw j) (rules_AUTH_NULL) j.
Proof. hfamily. Qed.

Lemma hfam_AES_GMAC j : well_formed j = true -> cipher_passed j -> jv_hash_alg j = IMB_AUTH_AES_GMAC -> agree (hsw j) (rules_AES_GMAC) j.
Proof. hfamily. Qed.

Lemma hfam_CUSTOM j : well_formed j = true -> cipher_passed j -> jv_hash_alg j = IMB_AUTH_CUSTOM -> agree (hsw j) (rules_AUTH_CUSTOM) j.
Proof. hfamily. Qed.

Lemma hfam_AES_CCM j : well_formed j = true -> cipher_passed j -> jv_hash_alg j = IMB_AUTH_AES_CCM -> agree (hsw j) (rules_AES_CCM) j.
Proof. hfamily. Qed.

Lemma hfam_AES_CMAC j : well_formed j = true -> cipher_passed j -> jv_hash_alg j = IMB_AUTH_AES_CMAC -> agree (hsw j) (rules_CMAC) j.
Proof. hfamily. Qed.

Lemma hfam_SHA_1 j : well_formed j = true -> cipher_passed j -> jv_hash_alg j = IMB_AUTH_SHA_1 -> agree (hsw j) (rules_SHA 20) j.
Proof. hfamily. Qed.

Lemma hfam_SHA_224 j : well_formed j = true -> cipher_passed j -> jv_hash_alg j = IMB_AUTH_SHA_224 -> agree (hsw j) (rules_SHA 28) j.
Proof. hfamily. Qed.

Lemma hfam_SHA_256 j : well_formed j = true -> cipher_passed j -> jv_hash_alg j = IMB_AUTH_SHA_256 -> agree (hsw j) (rules_SHA 32) j.
Proof. hfamily. Qed.

Lemma hfam_SHA_384 j : well_formed j = true -> cipher_passed j -> jv_hash_alg j = IMB_AUTH_SHA_384 -> agree (hsw j) (rules_SHA 48) j.
Proof. hfamily. Qed.

Lemma hfam_SHA_512 j : well_formed j = true -> cipher_passed j -> jv_hash_alg j = IMB_AUTH_SHA_512 -> agree (hsw j) (rules_SHA 64) j.
Proof. hfamily. Qed.

Lemma hfam_AES_CMAC_BITLEN j : well_formed j = true -> cipher_passed j -> jv_hash_alg j = IMB_AUTH_AES_CMAC_BITLEN -> agree (hsw j) (rules_CMAC_BITLEN) j.
Proof. hfamily. Qed.

Lemma hfam_PON_CRC_BIP j : well_formed j = true -> cipher_passed j -> jv_hash_alg j = IMB_AUTH_PON_CRC_BIP -> agree (hsw j) (rules_PON_CRC_BIP) j.
Proof. hfamily. Qed.

Lemma hfam_ZUC_EIA3_BITLEN j : well_formed j = true -> cipher_passed j -> jv_hash_alg j = IMB_AUTH_ZUC_EIA3_BITLEN -> agree (hsw j) (rules_ZUC_EIA3) j.
Proof. hfamily. Qed.

Lemma hfam_SNOW3G_UIA2_BITLEN j : well_formed j = true -> cipher_passed j -> jv_hash_alg j = IMB_AUTH_SNOW3G_UIA2_BITLEN -> agree (hsw j) (rules_SNOW3G_UIA2) j.
Proof. hfamily. Qed.

Lemma hfam_KASUMI_UIA1 j : well_formed j = true -> cipher_passed j -> jv_hash_alg j = IMB_AUTH_KASUMI_UIA1 -> agree (hsw j) (rules_KASUMI_UIA1) j.
Proof. hfamily. Qed.

Lemma hfam_AES_GMAC_128 j : well_formed j = true -> cipher_passed j -> jv_hash_alg j = IMB_AUTH_AES_GMAC_128 -> agree (hsw j) (rules_GMAC_STANDALONE) j.
Proof. hfamily. Qed.

Lemma hfam_AES_GMAC_192 j : well_formed j = true -> cipher_passed j -> jv_hash_alg j = IMB_AUTH_AES_GMAC_192 -> agree (hsw j) (rules_GMAC_STANDALONE) j.
Proof. hfamily. Qed.

Lemma hfam_AES_GMAC_256 j : well_formed j = true -> cipher_passed j -> jv_hash_alg j = IMB_AUTH_AES_GMAC_256 -> agree (hsw j) (rules_GMAC_STANDALONE) j.
Proof. hfamily. Qed.

Lemma hfam_AES_CMAC_256 j : well_formed j = true -> cipher_passed j -> jv_hash_alg j = IMB_AUTH_AES_CMAC_256 -> agree (hsw j) (rules_CMAC) j.
Proof. hfamily. Qed.

Lemma hfam_POLY1305 j : well_formed j = true -> cipher_passed j -> jv_hash_alg j = IMB_AUTH_POLY1305 -> agree (hsw j) (rules_POLY1305) j.
Proof. hfamily. Qed.

Lemma hfam_CHACHA20_POLY1305 j : well_formed j = true -> cipher_passed j -> jv_hash_alg j = IMB_AUTH_CHACHA20_POLY1305 -> agree (hsw j) (rules_CHACHA20_POLY1305_HASH) j.
Proof. hfamily. Qed.

Lemma hfam_CHACHA20_POLY1305_SGL j : well_formed j = true -> cipher_passed j -> jv_hash_alg j = IMB_AUTH_CHACHA20_POLY1305_SGL -> agree (hsw j) (rules_CHACHA20_POLY1305_SGL_HASH) j.
Proof. hfamily. Qed.

Lemma hfam_ZUC256_EIA3_BITLEN j : well_formed j = true -> cipher_passed j -> jv_hash_alg j = IMB_AUTH_ZUC256_EIA3_BITLEN -> agree (hsw j) (rules_ZUC256_EIA3) j.
Proof. hfamily. Qed.

Lemma hfam_SNOW_V_AEAD j : well_formed j = true -> cipher_passed j -> jv_hash_alg j = IMB_AUTH_SNOW_V_AEAD -> agree (hsw j) (rules_SNOW_V_AEAD_HASH) j.
Proof. hfamily. Qed.

Lemma hfam_GCM_SGL j : well_formed j = true -> cipher_passed j -> jv_hash_alg j = IMB_AUTH_GCM_SGL -> agree (hsw j) (rules_GCM_SGL_HASH) j.
Proof. hfamily. Qed.

Lemma hfam_CRC32_ETHERNET_FCS j : well_formed j = true -> cipher_passed j -> jv_hash_alg j = IMB_AUTH_CRC32_ETHERNET_FCS -> agree (hsw j) (rules_CRC) j.
Proof. hfamily. Qed.

Lemma hfam_CRC32_SCTP j : well_formed j = true -> cipher_passed j -> jv_hash_alg j = IMB_AUTH_CRC32_SCTP -> agree (hsw j) (rules_CRC) j.
Proof. hfamily. Qed.

Lemma hfam_CRC32_WIMAX_OFDMA_DATA j : well_formed j = true -> cipher_passed j -> jv_hash_alg j = IMB_AUTH_CRC32_WIMAX_OFDMA_DATA -> agree (hsw j) (rules_CRC) j.
Proof. hfamily. Qed.

Lemma hfam_CRC24_LTE_A j : well_formed j = true -> cipher_passed j -> jv_hash_alg j = IMB_AUTH_CRC24_LTE_A -> agree (hsw j) (rules_CRC) j.
Proof. hfamily. Qed.

Lemma hfam_CRC24_LTE_B j : well_formed j = true -> cipher_passed j -> jv_hash_alg j = IMB_AUTH_CRC24_LTE_B -> agree (hsw j) (rules_CRC) j.
Proof. hfamily. Qed.

Lemma hfam_CRC16_X25 j : well_formed j = true -> cipher_passed j -> jv_hash_alg j = IMB_AUTH_CRC16_X25 -> agree (hsw j) (rules_CRC) j.
Proof. hfamily. Qed.

Lemma hfam_CRC16_FP_DATA j : well_formed j = true -> cipher_passed j -> jv_hash_alg j = IMB_AUTH_CRC16_FP_DATA -> agree (hsw j) (rules_CRC) j.
Proof. hfamily. Qed.

Lemma hfam_CRC11_FP_HEADER j : well_formed j = true -> cipher_passed j -> jv_hash_alg j = IMB_AUTH_CRC11_FP_HEADER -> agree (hsw j) (rules_CRC) j.
Proof. hfamily. Qed.

Lemma hfam_CRC10_IUUP_DATA j : well_formed j = true -> cipher_passed j -> jv_hash_alg j = IMB_AUTH_CRC10_IUUP_DATA -> agree (hsw j) (rules_CRC) j.
Proof. hfamily. Qed.

Lemma hfam_CRC8_WIMAX_OFDMA_HCS j : well_formed j = true -> cipher_passed j -> jv_hash_alg j = IMB_AUTH_CRC8_WIMAX_OFDMA_HCS -> agree (hsw j) (rules_CRC) j.
Proof. hfamily. Qed.

Lemma hfam_CRC7_FP_HEADER j : well_formed j = true -> cipher_passed j -> jv_hash_alg j = IMB_AUTH_CRC7_FP_HEADER -> agree (hsw j) (rules_CRC) j.
Proof. hfamily. Qed.

Lemma hfam_CRC6_IUUP_HEADER j : well_formed j = true -> cipher_passed j -> jv_hash_alg j = IMB_AUTH_CRC6_IUUP_HEADER -> agree (hsw j) (rules_CRC) j.
Proof. hfamily. Qed.

Lemma hfam_GHASH j : well_formed j = true -> cipher_passed j -> jv_hash_alg j = IMB_AUTH_GHASH -> agree (hsw j) (rules_GHASH) j.
Proof. hfamily. Qed.

Lemma hfam_SM3 j : well_formed j = true -> cipher_passed j -> jv_hash_alg j = IMB_AUTH_SM3 -> agree (hsw j) (rules_SM3) j.
Proof. hfamily. Qed.

Lemma hfam_HMAC_SM3 j : well_formed j = true -> cipher_passed j -> jv_hash_alg j = IMB_AUTH_HMAC_SM3 -> agree (hsw j) (rules_HMAC_SM3) j.
Proof. hfamily. Qed.

Lemma hfam_SM4_GCM j : well_formed j = true -> cipher_passed j -> jv_hash_alg j = IMB_AUTH_SM4_GCM -> agree (hsw j) (rules_SM4_GCM_HASH) j.
Proof. hfamily. Qed.

(* ------------------------------------------------------------------------------------------ *)
(* the SGL segment loops                                                                       *)
(* ------------------------------------------------------------------------------------------ *)
(* what one run of the generated loop function establishes, for a segment list that is the tail
   (from index i) of an array of [jv_dst j] segments lying inside the address space *)
Definition loop_post (j : job_view) (segs : list sgl_seg) (i t : N) (res : option N * N) : Prop :=
  match res with
  | (None, t') =>
      forallb seg_in_ok segs = true /\ forallb seg_out_ok segs = true /\
      t' = (t + sgl_total segs) mod 18446744073709551616 /\
      (N.of_nat (length segs) <> 0 -> jv_src j + 24 * i <> 0)
  | (Some e, _) =>
      (e = IMB_ERR_JOB_NULL_SRC /\
       ((jv_src j + 24 * i = 0 /\ N.of_nat (length segs) <> 0) \/ forallb seg_in_ok segs = false)) \/
      (e = IMB_ERR_JOB_NULL_DST /\ forallb seg_out_ok segs = false)
  end.

Lemma add64_small a b : a + b < 18446744073709551616 -> add64 a b = a + b.
Proof. intros. unfold add64, w64, mask64. rewrite land_m64. apply N.mod_small. assumption. Qed.
Lemma mul64_small a b : a * b < 18446744073709551616 -> mul64 a b = a * b.
Proof. intros. unfold mul64, w64, mask64. rewrite land_m64. apply N.mod_small. assumption. Qed.
Lemma add64_mod a b : add64 a b = (a + b) mod 18446744073709551616.
Proof. unfold add64, w64, mask64. apply land_m64. Qed.

Ltac loop_proof L :=
  intros j cm ha cd kl segs; induction segs as [|s segs IH]; intros i t Hlen Harr Hsegs Ht;
  [ cbn [length] in Hlen; cbn [L];
    replace (i <? jv_dst j) with false by (symmetry; apply N.ltb_ge; lia);
    unfold loop_post; cbn [forallb sgl_total fold_right length]; repeat split; try lia;
    rewrite N.add_0_r, N.mod_small by lia; reflexivity
  | cbn [length] in Hlen; cbn [L];
    replace (i <? jv_dst j) with true by (symmetry; apply N.ltb_lt; lia);
    cbn [forallb] in Hsegs; apply andb_true_iff in Hsegs; destruct Hsegs as [Hs Hsegs];
    unfold seg_ok, u64_ok in Hs; cbv zeta;
    rewrite (mul64_small i 24) by lia; rewrite (add64_small (jv_src j)) by lia;
    replace (i * 24) with (24 * i) by lia;
    destruct (jv_src j + 24 * i =? 0) eqn:E0;
    [ unfold loop_post; left; split; [reflexivity|]; left; cbn [length]; split; lia |];
    destruct (negb (seg_len s =? 0) && (seg_in s =? 0)) eqn:E1;
    [ unfold loop_post; left; split; [reflexivity|]; right; cbn [forallb]; unfold seg_in_ok at 1; lia |];
    destruct (negb (seg_len s =? 0) && (seg_out s =? 0)) eqn:E2;
    [ unfold loop_post; right; split; [reflexivity|]; cbn [forallb]; unfold seg_out_ok at 1; lia |];
    rewrite (add64_small i 1) by lia;
    assert (Ht' : add64 t (seg_len s) < 18446744073709551616) by (rewrite add64_mod; apply N.mod_lt; discriminate);
    specialize (IH (i + 1) (add64 t (seg_len s)) ltac:(lia) Harr Hsegs Ht');
    destruct (L j cm ha cd kl segs (i + 1) (add64 t (seg_len s))) as [[e|] t'];
    unfold loop_post in *;
    [ destruct IH as [[He [[Hz _]|Hin]]|[He Hout]];
      [ lia
      | left; split; [exact He|]; right; cbn [forallb]; rewrite Hin; apply andb_false_r
      | right; split; [exact He|]; cbn [forallb]; rewrite Hout; apply andb_false_r ]
    | destruct IH as (Hin & Hout & Htot & _); repeat split;
      [ cbn [forallb]; rewrite Hin; unfold seg_in_ok; lia
      | cbn [forallb]; rewrite Hout; unfold seg_out_ok; lia
      | rewrite Htot; rewrite add64_mod; rewrite N.add_mod_idemp_l by discriminate;
        cbn [sgl_total fold_right]; f_equal; fold (sgl_total segs); lia
      | intros _; lia ] ] ].

Lemma loop1_spec : forall j cm ha cd kl segs i t,
  N.of_nat (length segs) + i = jv_dst j -> jv_src j + 24 * jv_dst j < 18446744073709551616 ->
  forallb seg_ok segs = true -> t < 18446744073709551616 ->
  loop_post j segs i t (is_job_invalid_for1 j cm ha cd kl segs i t).
Proof. loop_proof is_job_invalid_for1. Qed.
Lemma loop2_spec : forall j cm ha cd kl segs i t,
  N.of_nat (length segs) + i = jv_dst j -> jv_src j + 24 * jv_dst j < 18446744073709551616 ->
  forallb seg_ok segs = true -> t < 18446744073709551616 ->
  loop_post j segs i t (is_job_invalid_for2 j cm ha cd kl segs i t).
Proof. loop_proof is_job_invalid_for2. Qed.

(* an SGL family: walk to the loop, replace the loop by its post-condition, continue *)
Ltac sgl_loop Hwf Hcm W :=
  lazymatch goal with
  | |- agree (oseq (let '(_, _) := ?L ?j ?cm ?ha ?cd ?kl ?segs 0 0 in _) _) _ _ =>
      let HU := fresh "HU" in let HV := fresh "HV" in let HV1 := fresh "HV1" in let HV2 := fresh "HV2" in
      let HL := fresh "HL" in
      assert (HU : uses_sgl_array j = true) by (unfold uses_sgl_array; rewrite Hcm; gen_enums_unfold; lia);
      pose proof (wf_sgl _ Hwf HU) as HV; unfold sgl_view_ok, jv_sgl_io_segs, jv_num_sgl_io_segs in HV;
      apply andb_true_iff in HV; destruct HV as [HV1 HV2]; apply N.eqb_eq in HV1; apply N.ltb_lt in HV2;
      lazymatch L with
      | is_job_invalid_for1 => pose proof (loop1_spec j cm ha cd kl segs 0 0 ltac:(lia) HV2 (wd_segs _ W) ltac:(lia)) as HL
      | is_job_invalid_for2 => pose proof (loop2_spec j cm ha cd kl segs 0 0 ltac:(lia) HV2 (wd_segs _ W) ltac:(lia)) as HL
      end;
      unfold loop_post in HL; revert HL;
      destruct (L j cm ha cd kl segs 0 0) as [[e|] tot]; cbv beta iota; intros HL;
      [ destruct HL as [[He HL]|[He HL]]; subst e | destruct HL as (HLin & HLout & HLtot & HLnz) ]
  end.

Ltac cfamily_sgl :=
  let W := fresh "W" in
  intros Hwf Hdir Hcm; pose proof (wf_widths _ Hwf) as W; unfold dir_ok in Hdir;
  unfold csw; rewrite ?Hcm; cbv beta zeta delta [is_job_invalid_sw1]; norm_arith; gen_enums_unfold;
  walk; try sgl_loop Hwf Hcm W; gen_enums_unfold; walk; leaf W.

Lemma cfam_GCM_SGL j : well_formed j = true -> dir_ok j -> jv_cipher_mode j = IMB_CIPHER_GCM_SGL -> agree (csw j) rules_GCM_SGL j.
Proof. cfamily_sgl. Qed.
Lemma cfam_CHACHA20_POLY1305_SGL j : well_formed j = true -> dir_ok j -> jv_cipher_mode j = IMB_CIPHER_CHACHA20_POLY1305_SGL ->
  agree (csw j) rules_CHACHA20_POLY1305_SGL j.
Proof. cfamily_sgl. Qed.

(* DOCSIS CRC32: the only hash family that needs to know that the cipher switch fell through
   (msg_len_to_cipher <= 65534, so that msg_len_to_cipher + 8 cannot wrap) *)
Lemma hfam_DOCSIS_CRC32 j : well_formed j = true -> cipher_passed j -> jv_hash_alg j = IMB_AUTH_DOCSIS_CRC32 ->
  agree (hsw j) rules_DOCSIS_CRC32 j.
Proof.
  intros Hwf Hc Hha; pose proof (wf_widths _ Hwf) as W;
  unfold hsw; rewrite ?Hha; cbv beta zeta delta [is_job_invalid_sw2]; norm_arith; gen_enums_unfold;
  walk.
  all: try (leaf W).
  (* the accepting leaf with both lengths non-zero *)
  unfold agree; intros Hout; pose proof (Hc Hout) as Hcr.
  assert (Hcm : jv_cipher_mode j = IMB_CIPHER_DOCSIS_SEC_BPI) by (gen_enums_unfold; lia).
  rewrite Hcm in Hcr. replace (cipher_rules IMB_CIPHER_DOCSIS_SEC_BPI) with rules_DOCSIS_SEC_BPI in Hcr by reflexivity.
  unfold rules_ok in Hcr; revert Hcr; open_rules; cbn [forallb]; intros Hcr; cat; unfold MB_MAX_LEN16 in Hcr.
  open_outside Hout; gen_enums_unfold; open_rules; widths_in W; all_ok.
Qed.

(* ------------------------------------------------------------------------------------------ *)
(* the two switches as a whole                                                                 *)
(* ------------------------------------------------------------------------------------------ *)
Lemma agree_cons_ok r0 r rs j : holds (r_cond r0) j = true -> agree r rs j -> agree r (r0 :: rs) j.
Proof.
  intros H0. destruct r as [e|]; cbn [agree].
  - apply viol_skip.
  - intros H Ho. apply ok_cons; [exact H0 | exact (H Ho)].
Qed.

(* one known enumerator: select the family lemma *)
Ltac known_cipher j L lem :=
  let E := fresh "E" in
  destruct (N.eq_dec (jv_cipher_mode j) L) as [E|?];
  [ replace (cipher_rules (jv_cipher_mode j)) with (cipher_rules L) by (rewrite E; reflexivity);
    apply agree_cons_ok;
    [ cbn [holds r_cond r_common_mode]; rewrite E; reflexivity
    | first [ apply lem; assumption | apply lem; auto ] ]
  | ].
Ltac known_hash j L lem :=
  let E := fresh "E" in
  destruct (N.eq_dec (jv_hash_alg j) L) as [E|?];
  [ replace (hash_rules (jv_hash_alg j)) with (hash_rules L) by (rewrite E; reflexivity);
    apply agree_cons_ok;
    [ cbn [holds r_cond r_common_hash]; rewrite E; reflexivity
    | apply lem; assumption ]
  | ].
(* none of the known enumerators: every test of the switch skeleton is false -> default group *)
Ltac default_group :=
  gen_enums_unfold;
  repeat lazymatch goal with
  | |- agree (if ?c then _ else _) _ _ =>
      let C := fresh "C" in destruct c eqn:C; [ exfalso; lia | clear C ]
  end.

Lemma cipher_agree j :
  well_formed j = true -> dir_ok j ->
  (jv_cipher_mode j = IMB_CIPHER_ZUC_EEA3 -> disc_D2_key_len_truncated j = false) ->
  agree (csw j) (r_common_mode :: cipher_rules (jv_cipher_mode j)) j.
Proof.
  intros Hwf Hdir Hz.
  known_cipher j IMB_CIPHER_CBC cfam_CBC.
  known_cipher j IMB_CIPHER_CBCS_1_9 cfam_CBCS_1_9.
  known_cipher j IMB_CIPHER_ECB cfam_ECB.
  known_cipher j IMB_CIPHER_CNTR cfam_CNTR.
  known_cipher j IMB_CIPHER_CNTR_BITLEN cfam_CNTR_BITLEN.
  known_cipher j IMB_CIPHER_NULL cfam_NULL.
  known_cipher j IMB_CIPHER_DOCSIS_SEC_BPI cfam_DOCSIS_SEC_BPI.
  known_cipher j IMB_CIPHER_GCM cfam_GCM.
  known_cipher j IMB_CIPHER_GCM_SGL cfam_GCM_SGL.
  known_cipher j IMB_CIPHER_SM4_GCM cfam_SM4_GCM.
  known_cipher j IMB_CIPHER_CUSTOM cfam_CUSTOM.
  known_cipher j IMB_CIPHER_DES cfam_DES.
  known_cipher j IMB_CIPHER_DOCSIS_DES cfam_DOCSIS_DES.
  known_cipher j IMB_CIPHER_CCM cfam_CCM.
  known_cipher j IMB_CIPHER_DES3 cfam_DES3.
  known_cipher j IMB_CIPHER_PON_AES_CNTR cfam_PON.
  known_cipher j IMB_CIPHER_SNOW3G_UEA2_BITLEN cfam_SNOW3G_UEA2.
  known_cipher j IMB_CIPHER_KASUMI_UEA1_BITLEN cfam_KASUMI_UEA1.
  known_cipher j IMB_CIPHER_CHACHA20 cfam_CHACHA20.
  known_cipher j IMB_CIPHER_CHACHA20_POLY1305 cfam_CHACHA20_POLY1305.
  known_cipher j IMB_CIPHER_CHACHA20_POLY1305_SGL cfam_CHACHA20_POLY1305_SGL.
  known_cipher j IMB_CIPHER_SNOW_V cfam_SNOW_V.
  known_cipher j IMB_CIPHER_SNOW_V_AEAD cfam_SNOW_V_AEAD.
  known_cipher j IMB_CIPHER_SM4_ECB cfam_SM4_ECB.
  known_cipher j IMB_CIPHER_SM4_CBC cfam_SM4_CBC.
  known_cipher j IMB_CIPHER_SM4_CNTR cfam_SM4_CNTR.
  known_cipher j IMB_CIPHER_CFB cfam_CFB.
  known_cipher j IMB_CIPHER_ZUC_EEA3 cfam_ZUC_EEA3.
  (* unsupported mode *)
  unfold csw; cbv beta delta [is_job_invalid_sw1].
  assert (Hn : existsb (N.eqb (jv_cipher_mode j)) (map fst cipher_catalogue) = false).
  { let l := eval vm_compute in (map fst cipher_catalogue) in change (map fst cipher_catalogue) with l.
    cbn [existsb]. gen_enums_unfold. lia. }
  default_group.
  cbv beta delta [is_job_invalid_sw1_default]. cbn [agree].
  apply viol_here; [reflexivity | cbn [holds r_cond r_common_mode]; exact Hn].
Qed.

Lemma hash_agree j :
  well_formed j = true -> cipher_passed j ->
  agree (hsw j) (r_common_hash :: hash_rules (jv_hash_alg j)) j.
Proof.
  intros Hwf Hc.
  known_hash j IMB_AUTH_HMAC_SHA_1 hfam_HMAC_SHA_1.
  known_hash j IMB_AUTH_HMAC_SHA_224 hfam_HMAC_SHA_224.
  known_hash j IMB_AUTH_HMAC_SHA_256 hfam_HMAC_SHA_256.
  known_hash j IMB_AUTH_HMAC_SHA_384 hfam_HMAC_SHA_384.
  known_hash j IMB_AUTH_HMAC_SHA_512 hfam_HMAC_SHA_512.
  known_hash j IMB_AUTH_AES_XCBC hfam_AES_XCBC.
  known_hash j IMB_AUTH_MD5 hfam_MD5.
  known_hash j IMB_AUTH_NULL hfam_NULL.
  known_hash j IMB_AUTH_AES_GMAC hfam_AES_GMAC.
  known_hash j IMB_AUTH_CUSTOM hfam_CUSTOM.
  known_hash j IMB_AUTH_AES_CCM hfam_AES_CCM.
  known_hash j IMB_AUTH_AES_CMAC hfam_AES_CMAC.
  known_hash j IMB_AUTH_SHA_1 hfam_SHA_1.
  known_hash j IMB_AUTH_SHA_224 hfam_SHA_224.
  known_hash j IMB_AUTH_SHA_256 hfam_SHA_256.
  known_hash j IMB_AUTH_SHA_384 hfam_SHA_384.
  known_hash j IMB_AUTH_SHA_512 hfam_SHA_512.
  known_hash j IMB_AUTH_AES_CMAC_BITLEN hfam_AES_CMAC_BITLEN.
  known_hash j IMB_AUTH_PON_CRC_BIP hfam_PON_CRC_BIP.
  known_hash j IMB_AUTH_ZUC_EIA3_BITLEN hfam_ZUC_EIA3_BITLEN.
  known_hash j IMB_AUTH_DOCSIS_CRC32 hfam_DOCSIS_CRC32.
  known_hash j IMB_AUTH_SNOW3G_UIA2_BITLEN hfam_SNOW3G_UIA2_BITLEN.
  known_hash j IMB_AUTH_KASUMI_UIA1 hfam_KASUMI_UIA1.
  known_hash j IMB_AUTH_AES_GMAC_128 hfam_AES_GMAC_128.
  known_hash j IMB_AUTH_AES_GMAC_192 hfam_AES_GMAC_192.
  known_hash j IMB_AUTH_AES_GMAC_256 hfam_AES_GMAC_256.
  known_hash j IMB_AUTH_AES_CMAC_256 hfam_AES_CMAC_256.
  known_hash j IMB_AUTH_POLY1305 hfam_POLY1305.
  known_hash j IMB_AUTH_CHACHA20_POLY1305 hfam_CHACHA20_POLY1305.
  known_hash j IMB_AUTH_CHACHA20_POLY1305_SGL hfam_CHACHA20_POLY1305_SGL.
  known_hash j IMB_AUTH_ZUC256_EIA3_BITLEN hfam_ZUC256_EIA3_BITLEN.
  known_hash j IMB_AUTH_SNOW_V_AEAD hfam_SNOW_V_AEAD.
  known_hash j IMB_AUTH_GCM_SGL hfam_GCM_SGL.
  known_hash j IMB_AUTH_CRC32_ETHERNET_FCS hfam_CRC32_ETHERNET_FCS.
  known_hash j IMB_AUTH_CRC32_SCTP hfam_CRC32_SCTP.
  known_hash j IMB_AUTH_CRC32_WIMAX_OFDMA_DATA hfam_CRC32_WIMAX_OFDMA_DATA.
  known_hash j IMB_AUTH_CRC24_LTE_A hfam_CRC24_LTE_A.
  known_hash j IMB_AUTH_CRC24_LTE_B hfam_CRC24_LTE_B.
  known_hash j IMB_AUTH_CRC16_X25 hfam_CRC16_X25.
  known_hash j IMB_AUTH_CRC16_FP_DATA hfam_CRC16_FP_DATA.
  known_hash j IMB_AUTH_CRC11_FP_HEADER hfam_CRC11_FP_HEADER.
  known_hash j IMB_AUTH_CRC10_IUUP_DATA hfam_CRC10_IUUP_DATA.
  known_hash j IMB_AUTH_CRC8_WIMAX_OFDMA_HCS hfam_CRC8_WIMAX_OFDMA_HCS.
  known_hash j IMB_AUTH_CRC7_FP_HEADER hfam_CRC7_FP_HEADER.
  known_hash j IMB_AUTH_CRC6_IUUP_HEADER hfam_CRC6_IUUP_HEADER.
  known_hash j IMB_AUTH_GHASH hfam_GHASH.
  known_hash j IMB_AUTH_SM3 hfam_SM3.
  known_hash j IMB_AUTH_HMAC_SM3 hfam_HMAC_SM3.
  known_hash j IMB_AUTH_SM4_GCM hfam_SM4_GCM.
  unfold hsw; cbv beta delta [is_job_invalid_sw2].
  assert (Hn : existsb (N.eqb (jv_hash_alg j)) (map fst hash_catalogue) = false).
  { let l := eval vm_compute in (map fst hash_catalogue) in change (map fst hash_catalogue) with l.
    cbn [existsb]. gen_enums_unfold. lia. }
  default_group.
  cbv beta delta [is_job_invalid_sw2_default]. cbn [agree].
  apply viol_here; [reflexivity | cbn [holds r_cond r_common_hash]; exact Hn].
Qed.

(* ------------------------------------------------------------------------------------------ *)
(* the whole checker against the whole catalogue                                               *)
(* ------------------------------------------------------------------------------------------ *)
Lemma violated_common_dir e j : violated_with e [r_common_dir] j = true -> violated_with e (all_rules j) j = true.
Proof.
  intros H. unfold all_rules, common_rules. change [r_common_dir; r_common_mode; r_common_hash] with ([r_common_dir] ++ [r_common_mode; r_common_hash]).
  rewrite <- app_assoc, violated_app, H. reflexivity.
Qed.
Lemma violated_cipher_part e j :
  violated_with e (r_common_mode :: cipher_rules (jv_cipher_mode j)) j = true -> violated_with e (all_rules j) j = true.
Proof.
  unfold all_rules, common_rules, violated_with. cbn [existsb app]. rewrite !existsb_app.
  intros H. apply orb_true_iff in H. destruct H as [H|H]; rewrite H; rewrite ?orb_true_r; reflexivity.
Qed.
Lemma violated_hash_part e j :
  violated_with e (r_common_hash :: hash_rules (jv_hash_alg j)) j = true -> violated_with e (all_rules j) j = true.
Proof.
  unfold all_rules, common_rules, violated_with. cbn [existsb app]. rewrite !existsb_app.
  intros H. apply orb_true_iff in H. destruct H as [H|H]; rewrite H; rewrite ?orb_true_r; reflexivity.
Qed.
Lemma all_rules_ok_intro j :
  holds (r_cond r_common_dir) j = true ->
  rules_ok (r_common_mode :: cipher_rules (jv_cipher_mode j)) j = true ->
  rules_ok (r_common_hash :: hash_rules (jv_hash_alg j)) j = true ->
  rules_ok (all_rules j) j = true.
Proof.
  unfold all_rules, common_rules, rules_ok. cbn [forallb app]. rewrite !forallb_app.
  intros H1 H2 H3. apply andb_true_iff in H2. destruct H2 as [H2 H2']. apply andb_true_iff in H3. destruct H3 as [H3 H3'].
  rewrite H1, H2, H2', H3, H3'. reflexivity.
Qed.

Lemma is_job_invalid_unfold j :
  is_job_invalid j =
  oseq (if negb (jv_cipher_direction j =? IMB_DIR_DECRYPT) && negb (jv_cipher_direction j =? IMB_DIR_ENCRYPT) &&
           negb (jv_cipher_mode j =? IMB_CIPHER_NULL) then Some IMB_ERR_JOB_CIPH_DIR else None)
       (oseq (csw j) (oseq (hsw j) None)).
Proof. reflexivity. Qed.

Theorem agree_all j :
  well_formed j = true ->
  (jv_cipher_mode j = IMB_CIPHER_ZUC_EEA3 -> disc_D2_key_len_truncated j = false) ->
  agree (is_job_invalid j) (all_rules j) j.
Proof.
  intros Hwf Hz. rewrite is_job_invalid_unfold.
  destruct (negb (jv_cipher_direction j =? IMB_DIR_DECRYPT) && negb (jv_cipher_direction j =? IMB_DIR_ENCRYPT) &&
            negb (jv_cipher_mode j =? IMB_CIPHER_NULL)) eqn:Cd.
  - cbn [oseq agree]. apply violated_common_dir. apply viol_here; [reflexivity|].
    cbn [holds r_cond r_common_dir existsb]. gen_enums_unfold. lia.
  - assert (Hdir : dir_ok j) by (unfold dir_ok; gen_enums_unfold; lia).
    assert (Hdirb : holds (r_cond r_common_dir) j = true) by (cbn [holds r_cond r_common_dir existsb]; gen_enums_unfold; lia).
    pose proof (cipher_agree j Hwf Hdir Hz) as HC.
    cbn [oseq]. destruct (csw j) as [e|].
    + cbn [oseq agree] in *. apply violated_cipher_part. exact HC.
    + cbn [agree] in HC. cbn [oseq].
      assert (Hcp : cipher_passed j).
      { intros Ho. specialize (HC Ho). unfold rules_ok in *. cbn [forallb] in HC. apply andb_true_iff in HC. tauto. }
      pose proof (hash_agree j Hwf Hcp) as HH.
      destruct (hsw j) as [e|]; cbn [oseq agree] in *.
      * apply violated_hash_part. exact HH.
      * intros Ho. apply all_rules_ok_intro; [exact Hdirb | exact (HC Ho) | exact (HH Ho)].
Qed.

(* ---- the three property theorems ---- *)
Theorem validate_complete : forall j, well_formed j = true -> job_ok j = true -> is_job_invalid j = None.
Proof.
  intros j Hwf Hok.
  assert (Hz : jv_cipher_mode j = IMB_CIPHER_ZUC_EEA3 -> disc_D2_key_len_truncated j = false).
  { intros E. unfold job_ok, all_rules in Hok. rewrite !rules_ok_app in Hok.
    apply andb_true_iff in Hok. destruct Hok as [_ Hok]. apply andb_true_iff in Hok. destruct Hok as [Hok _].
    rewrite E in Hok. replace (cipher_rules IMB_CIPHER_ZUC_EEA3) with rules_ZUC_EEA3 in Hok by reflexivity.
    unfold rules_ok in Hok. revert Hok. open_rules. cbn [forallb]. intros Hok. cat.
    unfold disc_D2_key_len_truncated. lia. }
  pose proof (agree_all j Hwf Hz) as HA.
  destruct (is_job_invalid j) as [e|]; [|reflexivity].
  cbn [agree] in HA. apply violated_not_ok in HA. unfold job_ok in Hok. congruence.
Qed.

Theorem validate_errno_names_a_violation_partial : forall j e,
  well_formed j = true ->
  (jv_cipher_mode j = IMB_CIPHER_ZUC_EEA3 -> disc_D2_key_len_truncated j = false) ->
  is_job_invalid j = Some e -> In e (violations j).
Proof.
  intros j e Hwf Hz He. pose proof (agree_all j Hwf Hz) as HA. rewrite He in HA. cbn [agree] in HA.
  apply violated_in. exact HA.
Qed.

Theorem validate_sound_partial : forall j,
  well_formed j = true -> outside_known_discrepancies j = true -> is_job_invalid j = None -> job_ok j = true.
Proof.
  intros j Hwf Ho Hn.
  assert (Hz : jv_cipher_mode j = IMB_CIPHER_ZUC_EEA3 -> disc_D2_key_len_truncated j = false).
  { intros _. unfold outside_known_discrepancies in Ho.
    repeat (apply andb_true_iff in Ho; destruct Ho as [Ho ?]).
    repeat match goal with H : negb ?b = true |- ?b = false => apply negb_true_iff in H; exact H end. }
  pose proof (agree_all j Hwf Hz) as HA. rewrite Hn in HA. cbn [agree] in HA. exact (HA Ho).
Qed.

(* The unrestricted statements, kept visible; the first and the third are FALSE on the unchanged
   tree (refuted below by concrete jobs = documentation-vs-code discrepancies D2, D3, D8). *)
Definition validate_sound_statement : Prop :=
  forall j, well_formed j = true -> is_job_invalid j = None -> job_ok j = true.
Definition validate_errno_names_a_violation_statement : Prop :=
  forall j e, well_formed j = true -> is_job_invalid j = Some e -> In e (violations j).

(* ---- witnesses ---- *)
Definition ex_valid_cbc_hmac_sha1 : job_view := mk_job_view
  (* jv_enc_keys *) 17592186048512
  (* jv_dec_keys *) 17592186056704
  (* jv_key_len_in_bytes *) 16
  (* jv_src *) 17592186306560
  (* jv_dst *) 17592186437632
  (* jv_cipher_start_src_offset *) 0
  (* jv_msg_len_to_cipher *) 64
  (* jv_hash_start_src_offset *) 0
  (* jv_msg_len_to_hash *) 61
  (* jv_iv *) 17592186064896
  (* jv_iv_len_in_bytes *) 16
  (* jv_auth_tag_output *) 17592186066944
  (* jv_auth_tag_output_len *) 12
  (* jv_u0 *) 17592186068992
  (* jv_u1 *) 17592186077184
  (* jv_u2 *) 0
  (* jv_cipher_mode *) 1
  (* jv_cipher_direction *) 1
  (* jv_hash_alg *) 1
  (* jv_chain_order *) 1
  (* jv_cipher_func *) 0
  (* jv_hash_func *) 0
  (* jv_sgl_state *) 0
  (* jv_next_iv *) 17592186093568
  (* jv_enc_ks0 *) 17592186097664
  (* jv_enc_ks1 *) 17592186098176
  (* jv_enc_ks2 *) 17592186098688
  (* jv_dec_ks0 *) 17592186099200
  (* jv_dec_ks1 *) 17592186099712
  (* jv_dec_ks2 *) 17592186100224
  (* jv_mem_xgem_hdr *) 13590307137180020736
  [].

Definition ex_invalid_null_src : job_view := mk_job_view
  (* jv_enc_keys *) 17592186048512
  (* jv_dec_keys *) 17592186056704
  (* jv_key_len_in_bytes *) 16
  (* jv_src *) 0
  (* jv_dst *) 17592186437632
  (* jv_cipher_start_src_offset *) 0
  (* jv_msg_len_to_cipher *) 64
  (* jv_hash_start_src_offset *) 0
  (* jv_msg_len_to_hash *) 61
  (* jv_iv *) 17592186064896
  (* jv_iv_len_in_bytes *) 16
  (* jv_auth_tag_output *) 17592186066944
  (* jv_auth_tag_output_len *) 12
  (* jv_u0 *) 17592186068992
  (* jv_u1 *) 17592186077184
  (* jv_u2 *) 0
  (* jv_cipher_mode *) 1
  (* jv_cipher_direction *) 1
  (* jv_hash_alg *) 1
  (* jv_chain_order *) 1
  (* jv_cipher_func *) 0
  (* jv_hash_func *) 0
  (* jv_sgl_state *) 0
  (* jv_next_iv *) 17592186093568
  (* jv_enc_ks0 *) 17592186097664
  (* jv_enc_ks1 *) 17592186098176
  (* jv_enc_ks2 *) 17592186098688
  (* jv_dec_ks0 *) 17592186099200
  (* jv_dec_ks1 *) 17592186099712
  (* jv_dec_ks2 *) 17592186100224
  (* jv_mem_xgem_hdr *) 13590307137180020736
  [].

Definition ex_invalid_len_over_limit : job_view := mk_job_view
  (* jv_enc_keys *) 17592186048512
  (* jv_dec_keys *) 17592186056704
  (* jv_key_len_in_bytes *) 16
  (* jv_src *) 17592186306560
  (* jv_dst *) 17592186437632
  (* jv_cipher_start_src_offset *) 0
  (* jv_msg_len_to_cipher *) 65552
  (* jv_hash_start_src_offset *) 0
  (* jv_msg_len_to_hash *) 61
  (* jv_iv *) 17592186064896
  (* jv_iv_len_in_bytes *) 16
  (* jv_auth_tag_output *) 17592186066944
  (* jv_auth_tag_output_len *) 12
  (* jv_u0 *) 17592186068992
  (* jv_u1 *) 17592186077184
  (* jv_u2 *) 0
  (* jv_cipher_mode *) 1
  (* jv_cipher_direction *) 1
  (* jv_hash_alg *) 1
  (* jv_chain_order *) 1
  (* jv_cipher_func *) 0
  (* jv_hash_func *) 0
  (* jv_sgl_state *) 0
  (* jv_next_iv *) 17592186093568
  (* jv_enc_ks0 *) 17592186097664
  (* jv_enc_ks1 *) 17592186098176
  (* jv_enc_ks2 *) 17592186098688
  (* jv_dec_ks0 *) 17592186099200
  (* jv_dec_ks1 *) 17592186099712
  (* jv_dec_ks2 *) 17592186100224
  (* jv_mem_xgem_hdr *) 13590307137180020736
  [].

Definition wit_D1_chacha_pairing : job_view := mk_job_view
  (* jv_enc_keys *) 17592186048512
  (* jv_dec_keys *) 17592186056704
  (* jv_key_len_in_bytes *) 32
  (* jv_src *) 17592186306560
  (* jv_dst *) 17592186437632
  (* jv_cipher_start_src_offset *) 0
  (* jv_msg_len_to_cipher *) 61
  (* jv_hash_start_src_offset *) 0
  (* jv_msg_len_to_hash *) 61
  (* jv_iv *) 17592186064896
  (* jv_iv_len_in_bytes *) 12
  (* jv_auth_tag_output *) 17592186066944
  (* jv_auth_tag_output_len *) 12
  (* jv_u0 *) 17592186068992
  (* jv_u1 *) 17592186077184
  (* jv_u2 *) 0
  (* jv_cipher_mode *) 19
  (* jv_cipher_direction *) 1
  (* jv_hash_alg *) 1
  (* jv_chain_order *) 1
  (* jv_cipher_func *) 0
  (* jv_hash_func *) 0
  (* jv_sgl_state *) 0
  (* jv_next_iv *) 17592186093568
  (* jv_enc_ks0 *) 17592186097664
  (* jv_enc_ks1 *) 17592186098176
  (* jv_enc_ks2 *) 17592186098688
  (* jv_dec_ks0 *) 17592186099200
  (* jv_dec_ks1 *) 17592186099712
  (* jv_dec_ks2 *) 17592186100224
  (* jv_mem_xgem_hdr *) 13590307137180020736
  [].

Definition wit_D2_key_len_truncated : job_view := mk_job_view
  (* jv_enc_keys *) 17592186048512
  (* jv_dec_keys *) 17592186056704
  (* jv_key_len_in_bytes *) 4294967312
  (* jv_src *) 17592186306560
  (* jv_dst *) 17592186437632
  (* jv_cipher_start_src_offset *) 0
  (* jv_msg_len_to_cipher *) 64
  (* jv_hash_start_src_offset *) 0
  (* jv_msg_len_to_hash *) 0
  (* jv_iv *) 17592186064896
  (* jv_iv_len_in_bytes *) 16
  (* jv_auth_tag_output *) 17592186066944
  (* jv_auth_tag_output_len *) 0
  (* jv_u0 *) 0
  (* jv_u1 *) 0
  (* jv_u2 *) 0
  (* jv_cipher_mode *) 1
  (* jv_cipher_direction *) 1
  (* jv_hash_alg *) 8
  (* jv_chain_order *) 1
  (* jv_cipher_func *) 0
  (* jv_hash_func *) 0
  (* jv_sgl_state *) 0
  (* jv_next_iv *) 17592186093568
  (* jv_enc_ks0 *) 17592186097664
  (* jv_enc_ks1 *) 17592186098176
  (* jv_enc_ks2 *) 17592186098688
  (* jv_dec_ks0 *) 17592186099200
  (* jv_dec_ks1 *) 17592186099712
  (* jv_dec_ks2 *) 17592186100224
  (* jv_mem_xgem_hdr *) 13590307137180020736
  [].

Definition wit_D3_sgl_total_wraps : job_view := mk_job_view
  (* jv_enc_keys *) 17592186048512
  (* jv_dec_keys *) 17592186056704
  (* jv_key_len_in_bytes *) 16
  (* jv_src *) 17592186105856
  (* jv_dst *) 3
  (* jv_cipher_start_src_offset *) 0
  (* jv_msg_len_to_cipher *) 61
  (* jv_hash_start_src_offset *) 0
  (* jv_msg_len_to_hash *) 61
  (* jv_iv *) 17592186064896
  (* jv_iv_len_in_bytes *) 12
  (* jv_auth_tag_output *) 17592186066944
  (* jv_auth_tag_output_len *) 16
  (* jv_u0 *) 17592186068992
  (* jv_u1 *) 12
  (* jv_u2 *) 17592186085376
  (* jv_cipher_mode *) 23
  (* jv_cipher_direction *) 1
  (* jv_hash_alg *) 33
  (* jv_chain_order *) 1
  (* jv_cipher_func *) 0
  (* jv_hash_func *) 0
  (* jv_sgl_state *) 3
  (* jv_next_iv *) 17592186093568
  (* jv_enc_ks0 *) 17592186097664
  (* jv_enc_ks1 *) 17592186098176
  (* jv_enc_ks2 *) 17592186098688
  (* jv_dec_ks0 *) 17592186099200
  (* jv_dec_ks1 *) 17592186099712
  (* jv_dec_ks2 *) 17592186100224
  (* jv_mem_xgem_hdr *) 13590307137180020736
  [mk_seg 17592186109952 17592186142720 9223372036854775808; mk_seg 17592186114048 17592186146816 0; mk_seg 17592186118144 17592186150912 9223372036854775808].

Definition wit_D4_cbcs_key_len : job_view := mk_job_view
  (* jv_enc_keys *) 17592186048512
  (* jv_dec_keys *) 17592186056704
  (* jv_key_len_in_bytes *) 32
  (* jv_src *) 17592186306560
  (* jv_dst *) 17592186437632
  (* jv_cipher_start_src_offset *) 0
  (* jv_msg_len_to_cipher *) 160
  (* jv_hash_start_src_offset *) 0
  (* jv_msg_len_to_hash *) 0
  (* jv_iv *) 17592186064896
  (* jv_iv_len_in_bytes *) 16
  (* jv_auth_tag_output *) 17592186066944
  (* jv_auth_tag_output_len *) 0
  (* jv_u0 *) 0
  (* jv_u1 *) 0
  (* jv_u2 *) 0
  (* jv_cipher_mode *) 17
  (* jv_cipher_direction *) 1
  (* jv_hash_alg *) 8
  (* jv_chain_order *) 1
  (* jv_cipher_func *) 0
  (* jv_hash_func *) 0
  (* jv_sgl_state *) 0
  (* jv_next_iv *) 17592186093568
  (* jv_enc_ks0 *) 17592186097664
  (* jv_enc_ks1 *) 17592186098176
  (* jv_enc_ks2 *) 17592186098688
  (* jv_dec_ks0 *) 17592186099200
  (* jv_dec_ks1 *) 17592186099712
  (* jv_dec_ks2 *) 17592186100224
  (* jv_mem_xgem_hdr *) 13590307137180020736
  [].

Definition wit_D6_sm4_key_len : job_view := mk_job_view
  (* jv_enc_keys *) 17592186048512
  (* jv_dec_keys *) 17592186056704
  (* jv_key_len_in_bytes *) 32
  (* jv_src *) 17592186306560
  (* jv_dst *) 17592186437632
  (* jv_cipher_start_src_offset *) 0
  (* jv_msg_len_to_cipher *) 64
  (* jv_hash_start_src_offset *) 0
  (* jv_msg_len_to_hash *) 0
  (* jv_iv *) 17592186064896
  (* jv_iv_len_in_bytes *) 0
  (* jv_auth_tag_output *) 17592186066944
  (* jv_auth_tag_output_len *) 0
  (* jv_u0 *) 0
  (* jv_u1 *) 0
  (* jv_u2 *) 0
  (* jv_cipher_mode *) 24
  (* jv_cipher_direction *) 1
  (* jv_hash_alg *) 8
  (* jv_chain_order *) 1
  (* jv_cipher_func *) 0
  (* jv_hash_func *) 0
  (* jv_sgl_state *) 0
  (* jv_next_iv *) 17592186093568
  (* jv_enc_ks0 *) 17592186097664
  (* jv_enc_ks1 *) 17592186098176
  (* jv_enc_ks2 *) 17592186098688
  (* jv_dec_ks0 *) 17592186099200
  (* jv_dec_ks1 *) 17592186099712
  (* jv_dec_ks2 *) 17592186100224
  (* jv_mem_xgem_hdr *) 13590307137180020736
  [].

Definition wit_D8_docsis_offset_wraps : job_view := mk_job_view
  (* jv_enc_keys *) 17592186048512
  (* jv_dec_keys *) 17592186056704
  (* jv_key_len_in_bytes *) 16
  (* jv_src *) 17592186306560
  (* jv_dst *) 17592186306572
  (* jv_cipher_start_src_offset *) 12
  (* jv_msg_len_to_cipher *) 61
  (* jv_hash_start_src_offset *) 18446744073709551604
  (* jv_msg_len_to_hash *) 80
  (* jv_iv *) 17592186064896
  (* jv_iv_len_in_bytes *) 16
  (* jv_auth_tag_output *) 17592186066944
  (* jv_auth_tag_output_len *) 4
  (* jv_u0 *) 0
  (* jv_u1 *) 0
  (* jv_u2 *) 0
  (* jv_cipher_mode *) 4
  (* jv_cipher_direction *) 1
  (* jv_hash_alg *) 21
  (* jv_chain_order *) 2
  (* jv_cipher_func *) 0
  (* jv_hash_func *) 0
  (* jv_sgl_state *) 0
  (* jv_next_iv *) 17592186093568
  (* jv_enc_ks0 *) 17592186097664
  (* jv_enc_ks1 *) 17592186098176
  (* jv_enc_ks2 *) 17592186098688
  (* jv_dec_ks0 *) 17592186099200
  (* jv_dec_ks1 *) 17592186099712
  (* jv_dec_ks2 *) 17592186100224
  (* jv_mem_xgem_hdr *) 13590307137180020736
  [].

Definition wit_errno_zuc_truncated_key : job_view := mk_job_view
  (* jv_enc_keys *) 17592186048512
  (* jv_dec_keys *) 17592186056704
  (* jv_key_len_in_bytes *) 4294967328
  (* jv_src *) 17592186306560
  (* jv_dst *) 17592186437632
  (* jv_cipher_start_src_offset *) 0
  (* jv_msg_len_to_cipher *) 61
  (* jv_hash_start_src_offset *) 0
  (* jv_msg_len_to_hash *) 0
  (* jv_iv *) 17592186064896
  (* jv_iv_len_in_bytes *) 16
  (* jv_auth_tag_output *) 17592186066944
  (* jv_auth_tag_output_len *) 0
  (* jv_u0 *) 0
  (* jv_u1 *) 0
  (* jv_u2 *) 0
  (* jv_cipher_mode *) 14
  (* jv_cipher_direction *) 1
  (* jv_hash_alg *) 8
  (* jv_chain_order *) 1
  (* jv_cipher_func *) 0
  (* jv_hash_func *) 0
  (* jv_sgl_state *) 0
  (* jv_next_iv *) 17592186093568
  (* jv_enc_ks0 *) 17592186097664
  (* jv_enc_ks1 *) 17592186098176
  (* jv_enc_ks2 *) 17592186098688
  (* jv_dec_ks0 *) 17592186099200
  (* jv_dec_ks1 *) 17592186099712
  (* jv_dec_ks2 *) 17592186100224
  (* jv_mem_xgem_hdr *) 13590307137180020736
  [].

Ltac refute_sound w := exists w; vm_compute; repeat split; reflexivity.

Theorem validate_sound_refuted_D2_key_len_truncated :
  exists j, well_formed j = true /\ is_job_invalid j = None /\ job_ok j = false /\ violations j = [IMB_ERR_JOB_KEY_LEN].
Proof. refute_sound wit_D2_key_len_truncated. Qed.
Theorem validate_sound_refuted_D3_sgl_total_wraps :
  exists j, well_formed j = true /\ is_job_invalid j = None /\ job_ok j = false /\ violations j = [IMB_ERR_JOB_CIPH_LEN].
Proof. refute_sound wit_D3_sgl_total_wraps. Qed.
Theorem validate_sound_refuted_D8_docsis_offset_wraps :
  exists j, well_formed j = true /\ is_job_invalid j = None /\ job_ok j = false /\ violations j = [IMB_ERR_JOB_SRC_OFFSET].
Proof. refute_sound wit_D8_docsis_offset_wraps. Qed.
Theorem validate_sound_statement_is_false : ~ validate_sound_statement.
Proof.
  intros H. specialize (H wit_D2_key_len_truncated). vm_compute in H. specialize (H eq_refl eq_refl). discriminate.
Qed.
Theorem validate_errno_refuted_zuc_truncated_key :
  exists j, well_formed j = true /\ is_job_invalid j = Some IMB_ERR_JOB_IV_LEN /\ violations j = [IMB_ERR_JOB_KEY_LEN].
Proof. exists wit_errno_zuc_truncated_key. vm_compute. repeat split; reflexivity. Qed.
Theorem validate_errno_statement_is_false : ~ validate_errno_names_a_violation_statement.
Proof.
  intros H. specialize (H wit_errno_zuc_truncated_key IMB_ERR_JOB_IV_LEN). vm_compute in H.
  specialize (H eq_refl eq_refl). destruct H as [H|[]]. discriminate.
Qed.

(* repaired upstream (abc1c04, 84bae2a, 6544d54): the former D1 / D4 / D6 witnesses are now rejected *)
Example former_D1_witness_now_rejected : is_job_invalid wit_D1_chacha_pairing = Some IMB_ERR_HASH_ALGO.
Proof. vm_compute. reflexivity. Qed.
Example former_D4_witness_now_rejected : is_job_invalid wit_D4_cbcs_key_len = Some IMB_ERR_JOB_KEY_LEN.
Proof. vm_compute. reflexivity. Qed.
Example former_D6_witness_now_rejected : is_job_invalid wit_D6_sm4_key_len = Some IMB_ERR_JOB_KEY_LEN.
Proof. vm_compute. reflexivity. Qed.

(* ---- the hypotheses are satisfiable ---- *)
Example valid_cbc_hmac_sha1_is_ok :
  well_formed ex_valid_cbc_hmac_sha1 = true /\ outside_known_discrepancies ex_valid_cbc_hmac_sha1 = true /\
  job_ok ex_valid_cbc_hmac_sha1 = true /\ is_job_invalid ex_valid_cbc_hmac_sha1 = None.
Proof. vm_compute. repeat split; reflexivity. Qed.
Example null_src_is_rejected :
  well_formed ex_invalid_null_src = true /\ is_job_invalid ex_invalid_null_src = Some IMB_ERR_JOB_NULL_SRC /\
  violations ex_invalid_null_src = [IMB_ERR_JOB_NULL_SRC; IMB_ERR_JOB_NULL_SRC].
Proof. vm_compute. repeat split; reflexivity. Qed.
Example over_limit_len_is_rejected :
  well_formed ex_invalid_len_over_limit = true /\ is_job_invalid ex_invalid_len_over_limit = Some IMB_ERR_JOB_CIPH_LEN /\
  violations ex_invalid_len_over_limit = [IMB_ERR_JOB_CIPH_LEN].
Proof. vm_compute. repeat split; reflexivity. Qed.

(* ------------------------------------------------------------------------------------------ *)
(* the checked asynchronous burst submission                                                   *)
(* ------------------------------------------------------------------------------------------ *)
(* the generated index computation (shifts, masks, 32/64-bit wrap-around) is the documented
   "cipher_mode x 4 + key-size index + 128 x encrypt bit" *)
Lemma calc_cipher_tab_index_spec j :
  jv_cipher_mode j < 4294967296 -> jv_cipher_direction j < 4294967296 -> jv_key_len_in_bytes j < 18446744073709551616 ->
  calc_cipher_tab_index j = suite_cipher_index j.
Proof.
  intros Hcm Hd Hk. unfold calc_cipher_tab_index, suite_cipher_index, key_size_index.
  unfold shl32, add64, sub64, w32, w64, mask32, mask64, IMB_DIR_ENCRYPT.
  rewrite !N.shiftl_mul_pow2, !N.shiftr_div_pow2, land_1, land_3, !land_m32, !land_m64.
  change (2 ^ 2) with 4. change (2 ^ 3) with 8. change (2 ^ 7) with 128.
  rewrite (N.mod_small 1) by lia.
  set (ki := ((jv_key_len_in_bytes j + 18446744073709551616 - 1) mod 18446744073709551616 / 8) mod 4).
  assert (Hki : ki < 4) by (apply N.mod_lt; discriminate).
  set (d := jv_cipher_direction j mod 2). assert (Hdd : d < 2) by (apply N.mod_lt; discriminate).
  clearbody ki d. lia.
Qed.

Lemma wf_entry_widths e :
  well_formed (be_job e) = true ->
  jv_cipher_mode (be_job e) < 4294967296 /\ jv_cipher_direction (be_job e) < 4294967296 /\
  jv_key_len_in_bytes (be_job e) < 18446744073709551616.
Proof.
  unfold well_formed, widths_ok, u64_ok, u32_ok. intros H.
  apply andb_true_iff in H. destruct H as [H _].
  repeat match type of H with (_ && _ = true) => apply andb_true_iff in H; destruct H as [H ?] end.
  repeat match goal with H : (_ <? _) = true |- _ => apply N.ltb_lt in H end.
  repeat split; assumption.
Qed.

Definition entries_wf (es : list burst_entry) : bool :=
  forallb (fun e => well_formed (be_job e) && u32_ok (be_suite0 e) && u32_ok (be_suite1 e)) es.

(* one pass of the generated loop over the tail [es] of the array starting at index i *)
Lemma burst_loop_accept_iff : forall es i n,
  N.of_nat (length es) + i = n -> n < 4294967296 -> entries_wf es = true ->
  (submit_burst_check_loop es i n = BurstAccept <-> forallb burst_entry_ok es = true).
Proof.
  induction es as [|e es IH]; intros i n Hlen Hn Hwf; cbn [length] in Hlen; cbn [submit_burst_check_loop forallb].
  - replace (i <? n) with false by (symmetry; apply N.ltb_ge; lia). tauto.
  - replace (i <? n) with true by (symmetry; apply N.ltb_lt; lia).
    cbn [entries_wf forallb] in Hwf. apply andb_true_iff in Hwf. destruct Hwf as [He Hwf].
    apply andb_true_iff in He. destruct He as [He _]. apply andb_true_iff in He. destruct He as [He _].
    destruct (wf_entry_widths e He) as (W1 & W2 & W3).
    unfold burst_entry_ok, job_check_passes, suite_hash_index.
    cbv zeta. unfold set_cipher_suite_id_0, set_cipher_suite_id_1. cbv zeta.
    rewrite (calc_cipher_tab_index_spec _ W1 W2 W3).
    assert (Hi : add32 i 1 = i + 1) by (unfold add32, w32, mask32; rewrite land_m32; apply N.mod_small; lia).
    rewrite Hi.
    specialize (IH (i + 1) n ltac:(lia) Hn Hwf).
    destruct (be_null e); [ cbn; split; [discriminate | intros H; discriminate] |].
    destruct (be_in_order e); [| cbn; split; [discriminate | intros H; discriminate]].
    destruct (is_job_invalid (be_job e)); [ cbn; split; [discriminate | intros H; discriminate] |].
    destruct (be_suite0 e =? suite_cipher_index (be_job e)); destruct (be_suite1 e =? jv_hash_alg (be_job e));
      cbn [negb orb andb]; try (split; [discriminate | intros H; discriminate]).
    exact IH.
Qed.

Theorem burst_accept_iff : forall b,
  burst_well_formed b = true -> (submit_burst_check b = BurstAccept <-> burst_ok b = true).
Proof.
  intros b Hwf. unfold burst_well_formed in Hwf.
  apply andb_true_iff in Hwf. destruct Hwf as [Hwf He].
  apply andb_true_iff in Hwf. destruct Hwf as [Hwf Hq].
  apply andb_true_iff in Hwf. destruct Hwf as [Hl Hn].
  apply N.eqb_eq in Hl. unfold u32_ok in Hn, Hq. apply N.ltb_lt in Hn.
  unfold submit_burst_check, burst_ok, IMB_MAX_BURST_SIZE. cbv zeta.
  destruct (bv_jobs_null b); [ cbn; split; [discriminate | intros H; discriminate] |].
  destruct (128 <? bv_n_jobs b) eqn:E1.
  { replace (bv_n_jobs b <=? 128) with false by lia. cbn. split; [discriminate | intros H; discriminate]. }
  replace (bv_n_jobs b <=? 128) with true by lia.
  destruct (bv_queue_space b <? bv_n_jobs b) eqn:E2.
  { replace (bv_n_jobs b <=? bv_queue_space b) with false by lia. cbn. split; [discriminate | intros H; discriminate]. }
  replace (bv_n_jobs b <=? bv_queue_space b) with true by lia. cbn [negb andb].
  apply burst_loop_accept_iff; [lia | exact Hn | exact He].
Qed.

(* a rejection names something that is wrong with the burst *)
Lemma burst_loop_reject_errno : forall es i n e k,
  N.of_nat (length es) + i = n -> n < 4294967296 -> entries_wf es = true ->
  submit_burst_check_loop es i n = BurstReject e k -> In e (flat_map burst_entry_violations es).
Proof.
  induction es as [|x es IH]; intros i n e k Hlen Hn Hwf; cbn [length] in Hlen; cbn [submit_burst_check_loop flat_map].
  - replace (i <? n) with false by (symmetry; apply N.ltb_ge; lia). discriminate.
  - replace (i <? n) with true by (symmetry; apply N.ltb_lt; lia).
    cbn [entries_wf forallb] in Hwf. apply andb_true_iff in Hwf. destruct Hwf as [He Hwf].
    apply andb_true_iff in He. destruct He as [He _]. apply andb_true_iff in He. destruct He as [He _].
    destruct (wf_entry_widths x He) as (W1 & W2 & W3).
    cbv zeta. unfold set_cipher_suite_id_0, set_cipher_suite_id_1. cbv zeta.
    rewrite (calc_cipher_tab_index_spec _ W1 W2 W3).
    assert (Hi : add32 i 1 = i + 1) by (unfold add32, w32, mask32; rewrite land_m32; apply N.mod_small; lia).
    rewrite Hi. intros H. apply in_or_app. unfold burst_entry_violations, suite_hash_index.
    destruct (be_null x). { injection H as <- _. left. cbn. left. reflexivity. }
    destruct (be_in_order x); [| injection H as <- _; left; cbn; left; reflexivity ].
    destruct (is_job_invalid (be_job x)) as [err|]. { injection H as <- _. left. cbn. left. reflexivity. }
    destruct (be_suite0 x =? suite_cipher_index (be_job x)); destruct (be_suite1 x =? jv_hash_alg (be_job x));
      cbn [negb orb andb] in *; try (injection H as <- _; left; cbn; left; reflexivity).
    right. exact (IH (i + 1) n e k ltac:(lia) Hn Hwf H).
Qed.

Theorem burst_reject_errno_names_a_violation : forall b e k,
  burst_well_formed b = true -> submit_burst_check b = BurstReject e k -> In e (burst_violations b).
Proof.
  intros b e k Hwf. unfold burst_well_formed in Hwf.
  apply andb_true_iff in Hwf. destruct Hwf as [Hwf He].
  apply andb_true_iff in Hwf. destruct Hwf as [Hwf Hq].
  apply andb_true_iff in Hwf. destruct Hwf as [Hl Hn].
  apply N.eqb_eq in Hl. unfold u32_ok in Hn. apply N.ltb_lt in Hn.
  unfold submit_burst_check, burst_violations, IMB_MAX_BURST_SIZE. cbv zeta.
  destruct (bv_jobs_null b). { intros H. injection H as <- _. cbn. left. reflexivity. }
  cbn [app].
  destruct (128 <? bv_n_jobs b) eqn:E1.
  { replace (bv_n_jobs b <=? 128) with false by lia. intros H. injection H as <- _. cbn. left. reflexivity. }
  replace (bv_n_jobs b <=? 128) with true by lia. cbn [app].
  destruct (bv_queue_space b <? bv_n_jobs b) eqn:E2.
  { replace (bv_n_jobs b <=? bv_queue_space b) with false by lia. intros H. injection H as <- _. cbn. left. reflexivity. }
  replace (bv_n_jobs b <=? bv_queue_space b) with true by lia. cbn [app].
  intros H. apply (burst_loop_reject_errno (bv_entries b) 0 (bv_n_jobs b) e k); [lia | exact Hn | exact He | exact H].
Qed.

(* ---- burst examples: a two-job burst whose descriptors carry the right suite id is accepted; with
   ONE stale suite word (either one) the burst is rejected with IMB_ERR_BURST_SUITE_ID at that job ---- *)
Definition ex_entry (s0 s1 : N) : burst_entry := mk_burst_entry false true ex_valid_cbc_hmac_sha1 s0 s1.
Definition ex_burst (s0 s1 : N) : burst_view := mk_burst_view false 2 255 [ex_entry 133 1; ex_entry s0 s1].
Example burst_right_suite_accepted :
  burst_well_formed (ex_burst 133 1) = true /\ submit_burst_check (ex_burst 133 1) = BurstAccept /\ burst_ok (ex_burst 133 1) = true.
Proof. vm_compute. repeat split; reflexivity. Qed.
Example burst_stale_cipher_word_rejected :   (* 137 = AES-CTR-128 encrypt: a valid index of another suite *)
  submit_burst_check (ex_burst 137 1) = BurstReject IMB_ERR_BURST_SUITE_ID (Some 1) /\ burst_ok (ex_burst 137 1) = false.
Proof. vm_compute. split; reflexivity. Qed.
Example burst_stale_hash_word_rejected :     (* 3 = HMAC-SHA-256 *)
  submit_burst_check (ex_burst 133 3) = BurstReject IMB_ERR_BURST_SUITE_ID (Some 1) /\ burst_ok (ex_burst 133 3) = false.
Proof. vm_compute. split; reflexivity. Qed.
Example burst_both_words_stale_rejected :
  submit_burst_check (ex_burst 137 3) = BurstReject IMB_ERR_BURST_SUITE_ID (Some 1).
Proof. vm_compute. reflexivity. Qed.
