(* Proofs/ValidateProofs.v -- the generated image of is_job_invalid() (Gen/GenValidate.v) against the
   declarative catalogue (Mgr/Validate.v), for ALL jobs (no bound on any length).

   Method.  [agree r rs j] relates the result [r] of a piece of the C image to a rule list:
       r = Some e  ->  some rule of rs mapped to e is violated by j
       r = None    ->  (j outside the known doc-vs-code discrepancies ->) all rules of rs hold.
   It is proved per case group of the two C switches ("family") by a GENERIC tactic that walks the
   generated if-chain one condition at a time ([walk]); at a [Some e] leaf it searches the rule list
   for a rule with that errno whose violation follows from the path condition ([pick_rule]), at the
   final [None] leaf it proves every rule from the negated conditions ([all_ok]); arithmetic by lia
   (masks turned into mod, Z.div_mod_to_equations).  Nothing in the scripts depends on the ORDER of
   the checks in the C; a changed bound, a dropped check or a wrong errno makes a leaf fail. *)
From Coq Require Import NArith List Bool Lia ZArith ZifyBool ZifyN String.
From IMB Require Import Lib.Bytes Gen.GenEnums Mgr.JobView Gen.GenValidate Mgr.Validate.
Import ListNotations.
Local Open Scope N_scope.
Ltac Zify.zify_post_hook ::= Z.div_mod_to_equations.

(* ------------------------------------------------------------------------------------------ *)
(* agreement relation and its algebra                                                          *)
(* ------------------------------------------------------------------------------------------ *)
Definition agree (r : option N) (rs : list rule) (j : job_view) : Prop :=
  match r with
  | Some e => violated_with e rs j = true
  | None => outside_known_discrepancies j = true -> rules_ok rs j = true
  end.

Lemma viol_here e r t j : r_err r = e -> holds (r_cond r) j = false -> violated_with e (r :: t) j = true.
Proof. intros He Hh. unfold violated_with. cbn [existsb]. rewrite He, Hh, N.eqb_refl. reflexivity. Qed.
Lemma viol_skip e r t j : violated_with e t j = true -> violated_with e (r :: t) j = true.
Proof. unfold violated_with. cbn [existsb]. intros ->. apply orb_true_r. Qed.
Lemma ok_cons r t j : holds (r_cond r) j = true -> rules_ok t j = true -> rules_ok (r :: t) j = true.
Proof. unfold rules_ok. cbn [forallb]. intros -> ->. reflexivity. Qed.
Lemma ok_nil j : rules_ok [] j = true. Proof. reflexivity. Qed.

Lemma violated_app e a b j : violated_with e (a ++ b) j = violated_with e a j || violated_with e b j.
Proof. unfold violated_with. apply existsb_app. Qed.
Lemma rules_ok_app a b j : rules_ok (a ++ b) j = rules_ok a j && rules_ok b j.
Proof. unfold rules_ok. apply forallb_app. Qed.

Lemma violated_not_ok e rs j : violated_with e rs j = true -> rules_ok rs j = false.
Proof.
  unfold violated_with, rules_ok. induction rs as [|r t IH]; cbn [existsb forallb]; [discriminate|].
  intros H. apply orb_true_iff in H. destruct H as [H|H].
  - apply andb_true_iff in H. destruct H as [_ H]. apply negb_true_iff in H. rewrite H. reflexivity.
  - rewrite (IH H). apply andb_false_r.
Qed.
Lemma violated_in e rs j : violated_with e rs j = true -> In e (violations_of rs j).
Proof.
  unfold violated_with, violations_of. induction rs as [|r t IH]; cbn [existsb flat_map]; [discriminate|].
  intros H. apply in_or_app. apply orb_true_iff in H. destruct H as [H|H].
  - left. apply andb_true_iff in H. destruct H as [He H]. apply negb_true_iff in H. rewrite H.
    apply N.eqb_eq in He. left. exact He.
  - right. exact (IH H).
Qed.

(* ------------------------------------------------------------------------------------------ *)
(* arithmetic normalisation: masks -> mod                                                      *)
(* ------------------------------------------------------------------------------------------ *)
Lemma land_1 x : N.land x 1 = x mod 2. Proof. change 1 with (N.ones 1). apply N.land_ones. Qed.
Lemma land_3 x : N.land x 3 = x mod 4. Proof. change 3 with (N.ones 2). apply N.land_ones. Qed.
Lemma land_7 x : N.land x 7 = x mod 8. Proof. change 7 with (N.ones 3). apply N.land_ones. Qed.
Lemma land_15 x : N.land x 15 = x mod 16. Proof. change 15 with (N.ones 4). apply N.land_ones. Qed.
Lemma land_m16 x : N.land x 65535 = x mod 65536. Proof. change 65535 with (N.ones 16). apply N.land_ones. Qed.
Lemma land_m32 x : N.land x 4294967295 = x mod 4294967296. Proof. change 4294967295 with (N.ones 32). apply N.land_ones. Qed.
Lemma land_m64 x : N.land x 18446744073709551615 = x mod 18446744073709551616.
Proof. change 18446744073709551615 with (N.ones 64). apply N.land_ones. Qed.

Ltac norm_arith :=
  unfold add64, sub64, mul64, sub32, shl64, w16, w32, w64, mask16, mask32, mask64 in *;
  rewrite ?land_1, ?land_3, ?land_7, ?land_15, ?land_m16, ?land_m32, ?land_m64 in *.
Ltac norm_arith_goal :=
  unfold add64, sub64, mul64, sub32, shl64, w16, w32, w64, mask16, mask32, mask64;
  rewrite ?land_1, ?land_3, ?land_7, ?land_15, ?land_m16, ?land_m32, ?land_m64.

(* the PON payload-length indication: a 16-bit quantity; abstract it (lia needs only its range) *)
Ltac abstract_pli :=
  try match goal with
  | |- context [N.shiftr ?x ?k mod 65536] => abs_pli x k
  | _ : context [N.shiftr ?x ?k mod 65536] |- _ => abs_pli x k
  end
with abs_pli x k :=
  let p := fresh "pli" in let Hp := fresh "Hpli" in
  assert (Hp : N.shiftr x k mod 65536 < 65536) by (apply N.mod_lt; discriminate);
  set (p := N.shiftr x k mod 65536) in *; clearbody p.

(* ------------------------------------------------------------------------------------------ *)
(* well-formedness as propositions                                                             *)
(* ------------------------------------------------------------------------------------------ *)
Definition two64 : N := 18446744073709551616.
Definition two32 : N := 4294967296.
Record widths (j : job_view) : Prop := mk_widths {
  wd_enc_keys : jv_enc_keys j < two64; wd_dec_keys : jv_dec_keys j < two64; wd_key_len : jv_key_len_in_bytes j < two64;
  wd_src : jv_src j < two64; wd_dst : jv_dst j < two64; wd_coff : jv_cipher_start_src_offset j < two64;
  wd_clen : jv_msg_len_to_cipher j < two64; wd_hoff : jv_hash_start_src_offset j < two64;
  wd_hlen : jv_msg_len_to_hash j < two64; wd_iv : jv_iv j < two64; wd_ivlen : jv_iv_len_in_bytes j < two64;
  wd_tag : jv_auth_tag_output j < two64; wd_taglen : jv_auth_tag_output_len j < two64;
  wd_u0 : jv_u0 j < two64; wd_u1 : jv_u1 j < two64; wd_u2 : jv_u2 j < two64;
  wd_cm : jv_cipher_mode j < two32; wd_dir : jv_cipher_direction j < two32; wd_ha : jv_hash_alg j < two32;
  wd_order : jv_chain_order j < two32; wd_sgl : jv_sgl_state j < two32; wd_next_iv : jv_next_iv j < two64;
  wd_xgem : jv_mem_xgem_hdr j < two64;
  wd_segs : forallb seg_ok (jv_sgl_segs j) = true }.

Lemma wf_widths j : well_formed j = true -> widths j.
Proof.
  unfold well_formed, widths_ok, u64_ok, u32_ok. intros H.
  apply andb_true_iff in H. destruct H as [H _].
  repeat match type of H with (_ && _ = true) => apply andb_true_iff in H; destruct H as [H ?] end.
  repeat match goal with H : (_ <? _) = true |- _ => apply N.ltb_lt in H end.
  constructor; assumption.
Qed.
Lemma wf_sgl j : well_formed j = true -> uses_sgl_array j = true -> sgl_view_ok j = true.
Proof.
  unfold well_formed. intros H U. apply andb_true_iff in H. destruct H as [_ H]. rewrite U in H. exact H.
Qed.

(* bring into the context the width facts about the fields that occur in the goal or hypotheses *)
Ltac pose_width W f lem :=
  lazymatch goal with
  | _ : f _ < _ |- _ => idtac
  | _ => first [ match goal with
                 | |- context [f _] => pose proof (lem _ W)
                 | _ : context [f _] |- _ => pose proof (lem _ W)
                 end | idtac ]
  end.
Ltac widths_in W :=
  pose_width W jv_key_len_in_bytes wd_key_len; pose_width W jv_src wd_src; pose_width W jv_dst wd_dst;
  pose_width W jv_cipher_start_src_offset wd_coff; pose_width W jv_msg_len_to_cipher wd_clen;
  pose_width W jv_hash_start_src_offset wd_hoff; pose_width W jv_msg_len_to_hash wd_hlen;
  pose_width W jv_iv_len_in_bytes wd_ivlen; pose_width W jv_auth_tag_output_len wd_taglen;
  pose_width W jv_u1 wd_u1; pose_width W jv_u2 wd_u2; pose_width W jv_mem_xgem_hdr wd_xgem;
  unfold two64, two32 in *.

(* ------------------------------------------------------------------------------------------ *)
(* the generic tactics                                                                         *)
(* ------------------------------------------------------------------------------------------ *)
(* walk the C image: one condition at a time, outermost first *)
Lemma oseq_assoc a b c : oseq (oseq a b) c = oseq a (oseq b c).
Proof. destruct a; reflexivity. Qed.

(* constant-table lookups with a literal index *)
Ltac eval_tables :=
  repeat match goal with
  | |- context [nth_N ?t ?i] => let v := eval vm_compute in (nth_N t i) in change (nth_N t i) with v
  end.

(* a condition that does not mention the job is a closed boolean: compute it instead of splitting *)
Ltac split_cond c :=
  lazymatch c with
  | context [jv_enc_keys] => let H := fresh "C" in destruct c eqn:H
  | context [mk_job_view] => let H := fresh "C" in destruct c eqn:H
  | _ => let v := eval vm_compute in c in
         lazymatch v with
         | true => change c with true; cbv iota
         | false => change c with false; cbv iota
         | _ => let H := fresh "C" in destruct c eqn:H
         end
  end.
(* the family hypotheses fix cipher_mode / hash_alg: substitute them wherever the body reads the job field *)
Ltac use_known_enums :=
  try match goal with H : jv_hash_alg _ = _ |- _ => rewrite H end;
  try match goal with H : jv_cipher_mode _ = _ |- _ => rewrite H end.
Ltac walk :=
  repeat lazymatch goal with
  | |- agree (if ?c then _ else _) _ _ => split_cond c
  | |- agree (oseq (if ?c then _ else _) _) _ _ => split_cond c
  | |- agree (oseq (oseq _ _) _) _ _ => rewrite oseq_assoc
  | |- agree (oseq (Some _) _) _ _ => unfold oseq at 1
  | |- agree (oseq None _) _ _ => unfold oseq at 1
  | |- agree (Some _) _ _ => fail
  | |- agree None _ _ => fail
  | |- agree (?f _ _ _ _ _) _ _ =>   (* a generated case-group body *)
      cbv beta zeta delta [f]; use_known_enums; norm_arith; gen_enums_unfold; eval_tables
  end.


(* catalogue vocabulary: everything that must be unfolded to see a rule as a boolean formula *)
Ltac cat :=
  cbn [holds r_cond r_err r_name existsb forallb app
       KeyLenIn IvLenIn IvLenBetween TagLenIn TagLenBetween CipherLenBetween CipherLenMultipleOf HashLenBetween
       PairedWithHash PairedWithCipher ChainOrderIs SglStateIn Encrypting Decrypting CipherLenNonZero HashLenNonZero
       HasAad SglPerSegment SglAll
       r_src r_dst r_iv r_src_if_len r_dst_if_len r_enc_keys r_enc_keys_if_enc r_dec_keys_if_dec r_key_len r_iv_len
       r_cipher_len_min r_cipher_len r_cipher_len_mult r_pair_hash r_pair_cipher r_tag r_tag_len r_tag_len_between
       r_hash_len r_hash_src r_hash_src_if_len r_aad r_cmac_keys] in *.

(* Relevance filter: lia's cost is exponential in the number of disjunctive hypotheses, so before
   each call every boolean/width hypothesis that shares no job field with the goal is cleared. *)
Ltac shares_field T G :=
  first
  [ lazymatch T with context [jv_enc_keys _] => lazymatch G with context [jv_enc_keys _] => idtac end end
  | lazymatch T with context [jv_dec_keys _] => lazymatch G with context [jv_dec_keys _] => idtac end end
  | lazymatch T with context [jv_key_len_in_bytes _] => lazymatch G with context [jv_key_len_in_bytes _] => idtac end end
  | lazymatch T with context [jv_src _] => lazymatch G with context [jv_src _] => idtac end end
  | lazymatch T with context [jv_dst _] => lazymatch G with context [jv_dst _] => idtac end end
  | lazymatch T with context [jv_cipher_start_src_offset _] => lazymatch G with context [jv_cipher_start_src_offset _] => idtac end end
  | lazymatch T with context [jv_msg_len_to_cipher _] => lazymatch G with context [jv_msg_len_to_cipher _] => idtac end end
  | lazymatch T with context [jv_hash_start_src_offset _] => lazymatch G with context [jv_hash_start_src_offset _] => idtac end end
  | lazymatch T with context [jv_msg_len_to_hash _] => lazymatch G with context [jv_msg_len_to_hash _] => idtac end end
  | lazymatch T with context [jv_iv_len_in_bytes _] => lazymatch G with context [jv_iv_len_in_bytes _] => idtac end end
  | lazymatch T with context [jv_iv _] => lazymatch G with context [jv_iv _] => idtac end end
  | lazymatch T with context [jv_auth_tag_output_len _] => lazymatch G with context [jv_auth_tag_output_len _] => idtac end end
  | lazymatch T with context [jv_auth_tag_output _] => lazymatch G with context [jv_auth_tag_output _] => idtac end end
  | lazymatch T with context [jv_u0 _] => lazymatch G with context [jv_u0 _] => idtac end end
  | lazymatch T with context [jv_u1 _] => lazymatch G with context [jv_u1 _] => idtac end end
  | lazymatch T with context [jv_u2 _] => lazymatch G with context [jv_u2 _] => idtac end end
  | lazymatch T with context [jv_cipher_mode _] => lazymatch G with context [jv_cipher_mode _] => idtac end end
  | lazymatch T with context [jv_cipher_direction _] => lazymatch G with context [jv_cipher_direction _] => idtac end end
  | lazymatch T with context [jv_hash_alg _] => lazymatch G with context [jv_hash_alg _] => idtac end end
  | lazymatch T with context [jv_chain_order _] => lazymatch G with context [jv_chain_order _] => idtac end end
  | lazymatch T with context [jv_cipher_func _] => lazymatch G with context [jv_cipher_func _] => idtac end end
  | lazymatch T with context [jv_hash_func _] => lazymatch G with context [jv_hash_func _] => idtac end end
  | lazymatch T with context [jv_sgl_state _] => lazymatch G with context [jv_sgl_state _] => idtac end end
  | lazymatch T with context [jv_next_iv _] => lazymatch G with context [jv_next_iv _] => idtac end end
  | lazymatch T with context [jv_enc_ks0 _] => lazymatch G with context [jv_enc_ks0 _] => idtac end end
  | lazymatch T with context [jv_enc_ks1 _] => lazymatch G with context [jv_enc_ks1 _] => idtac end end
  | lazymatch T with context [jv_enc_ks2 _] => lazymatch G with context [jv_enc_ks2 _] => idtac end end
  | lazymatch T with context [jv_dec_ks0 _] => lazymatch G with context [jv_dec_ks0 _] => idtac end end
  | lazymatch T with context [jv_dec_ks1 _] => lazymatch G with context [jv_dec_ks1 _] => idtac end end
  | lazymatch T with context [jv_dec_ks2 _] => lazymatch G with context [jv_dec_ks2 _] => idtac end end
  | lazymatch T with context [jv_mem_xgem_hdr _] => lazymatch G with context [jv_mem_xgem_hdr _] => idtac end end
  | lazymatch T with context [jv_sgl_segs _] => lazymatch G with context [jv_sgl_segs _] => idtac end end ].

Ltac relevant_only :=
  match goal with
  | j : job_view |- _ =>
    repeat match goal with
    | H : ?T |- ?G =>
        lazymatch T with
        | (_ = true) => idtac | (_ = false) => idtac | (_ < _) => idtac
        | (_ \/ _) => idtac
        end;
        (* hypotheses about no job field at all (loop totals, abstracted terms) are always kept *)
        lazymatch T with context [j] => idtac end;
        tryif shares_field T G then fail else clear H
    end
  end.

(* boolean sub-terms lia has no theory for: case-split on them (with the div/mod post-hook lia
   loses track of plain boolean variables, so they are eliminated rather than abstracted) *)
Ltac abstract_bools :=
  repeat match goal with
  | |- context [forallb ?f ?l] => let b := fresh "b" in set (b := forallb f l) in *; clearbody b; destruct b
  | _ : context [forallb ?f ?l] |- _ => let b := fresh "b" in set (b := forallb f l) in *; clearbody b; destruct b
  end.
Ltac arith := unfold pon_pli, MB_MAX_LEN16, jv_num_sgl_io_segs, jv_sgl_io_segs; norm_arith_goal; gen_enums_unfold_goal; relevant_only; abstract_pli; abstract_bools; lia.

Ltac pick_rule :=
  first [ apply viol_here; [ reflexivity | cat; arith ]
        | apply viol_skip; pick_rule ].
(* a C condition `a || b` whose disjuncts violate DIFFERENT rules with the same errno *)
Ltac split_or_hyp :=
  match goal with
  | H : (_ || _) = true |- _ => apply orb_true_iff in H; destruct H as [H|H]
  | H : _ \/ _ |- _ => destruct H as [H|H]
  end.
Ltac pick_rule_cases := first [ pick_rule | split_or_hyp; pick_rule_cases ].
Ltac all_ok :=
  repeat (apply ok_cons; [ cat; arith | ]); apply ok_nil.

(* expose a rule list as an explicit cons list *)
Ltac open_rules :=
  cbv beta delta [
       rules_CBC rules_CBCS_1_9 rules_ECB rules_CNTR rules_CNTR_BITLEN rules_NULL rules_DOCSIS_SEC_BPI rules_GCM
       rules_GCM_SGL rules_SM4_GCM rules_CUSTOM rules_DES rules_DOCSIS_DES rules_DES3 rules_CCM rules_PON
       rules_ZUC_EEA3 rules_SNOW3G_UEA2 rules_KASUMI_UEA1 rules_CHACHA20 rules_CHACHA20_POLY1305
       rules_CHACHA20_POLY1305_SGL rules_SNOW_V rules_SNOW_V_AEAD rules_SM4_ECB rules_SM4_CBC rules_SM4_CNTR rules_CFB
       rules_HMAC rules_XCBC rules_AUTH_NULL rules_CRC rules_AES_GMAC rules_GCM_SGL_HASH rules_GMAC_STANDALONE
       rules_GHASH rules_AUTH_CUSTOM rules_AES_CCM rules_CMAC rules_CMAC_BITLEN rules_SHA rules_PON_CRC_BIP
       rules_ZUC_EIA3 rules_ZUC256_EIA3 rules_DOCSIS_CRC32 rules_SNOW3G_UIA2 rules_KASUMI_UIA1 rules_POLY1305
       rules_CHACHA20_POLY1305_HASH rules_CHACHA20_POLY1305_SGL_HASH rules_SNOW_V_AEAD_HASH rules_SM3 rules_HMAC_SM3
       rules_SM4_GCM_HASH];
  cbn [app sgl_rules].

Ltac open_outside H :=
  unfold outside_known_discrepancies, disc_D1_chacha_pairing, disc_D2_key_len_truncated, disc_D3_sgl_total_wraps,
         disc_D4_cbcs_key_len, disc_D6_sm4_key_len, disc_D8_docsis_offset_wraps in H;
  try match goal with HU : uses_sgl_array _ = true |- _ => rewrite HU in H end;
  repeat match type of H with (_ && _ = true) => apply andb_true_iff in H; destruct H as [H ?] end.

Ltac leaf W :=
  unfold agree; open_rules;
  lazymatch goal with
  | |- violated_with _ _ _ = true => widths_in W; pick_rule_cases
  | |- _ -> rules_ok _ _ = true => let Ho := fresh "Hout" in intros Ho; open_outside Ho; gen_enums_unfold; widths_in W; all_ok
  end.

(* ------------------------------------------------------------------------------------------ *)
(* cipher-mode families                                                                        *)
(* ------------------------------------------------------------------------------------------ *)
Definition dir_ok (j : job_view) : Prop :=
  jv_cipher_direction j = IMB_DIR_ENCRYPT \/ jv_cipher_direction j = IMB_DIR_DECRYPT \/ jv_cipher_mode j = IMB_CIPHER_NULL.

(* the cipher switch of is_job_invalid with the actual arguments of the call sites *)
Definition csw (j : job_view) : option N :=
  is_job_invalid_sw1 j (jv_cipher_mode j) (jv_hash_alg j) (jv_cipher_direction j) (w32 (jv_key_len_in_bytes j)).
Definition hsw (j : job_view) : option N :=
  is_job_invalid_sw2 j (jv_cipher_mode j) (jv_hash_alg j) (jv_cipher_direction j) (w32 (jv_key_len_in_bytes j)).

Ltac cfamily :=
  let W := fresh "W" in
  intros Hwf Hdir Hcm; pose proof (wf_widths _ Hwf) as W; unfold dir_ok in Hdir;
  unfold csw; rewrite ?Hcm; cbv beta zeta delta [is_job_invalid_sw1]; norm_arith; gen_enums_unfold;
  walk; leaf W.

Lemma cfam_CBC j : well_formed j = true -> dir_ok j -> jv_cipher_mode j = IMB_CIPHER_CBC -> agree (csw j) rules_CBC j.
Proof. Time cfamily. Qed.

Lemma cfam_CBCS_1_9 j : well_formed j = true -> dir_ok j -> jv_cipher_mode j = IMB_CIPHER_CBCS_1_9 -> agree (csw j) rules_CBCS_1_9 j.
Proof. Time cfamily. Qed.

Lemma cfam_ECB j : well_formed j = true -> dir_ok j -> jv_cipher_mode j = IMB_CIPHER_ECB -> agree (csw j) rules_ECB j.
Proof. Time cfamily. Qed.

Lemma cfam_CNTR j : well_formed j = true -> dir_ok j -> jv_cipher_mode j = IMB_CIPHER_CNTR -> agree (csw j) rules_CNTR j.
Proof. Time cfamily. Qed.

Lemma cfam_CNTR_BITLEN j : well_formed j = true -> dir_ok j -> jv_cipher_mode j = IMB_CIPHER_CNTR_BITLEN -> agree (csw j) rules_CNTR_BITLEN j.
Proof. Time cfamily. Qed.

Lemma cfam_NULL j : well_formed j = true -> dir_ok j -> jv_cipher_mode j = IMB_CIPHER_NULL -> agree (csw j) rules_NULL j.
Proof. Time cfamily. Qed.

Lemma cfam_DOCSIS_SEC_BPI j : well_formed j = true -> dir_ok j -> jv_cipher_mode j = IMB_CIPHER_DOCSIS_SEC_BPI -> agree (csw j) rules_DOCSIS_SEC_BPI j.
Proof. Time cfamily. Qed.

Lemma cfam_GCM j : well_formed j = true -> dir_ok j -> jv_cipher_mode j = IMB_CIPHER_GCM -> agree (csw j) rules_GCM j.
Proof. Time cfamily. Qed.

Lemma cfam_SM4_GCM j : well_formed j = true -> dir_ok j -> jv_cipher_mode j = IMB_CIPHER_SM4_GCM -> agree (csw j) rules_SM4_GCM j.
Proof. Time cfamily. Qed.

Lemma cfam_CUSTOM j : well_formed j = true -> dir_ok j -> jv_cipher_mode j = IMB_CIPHER_CUSTOM -> agree (csw j) rules_CUSTOM j.
Proof. Time cfamily. Qed.

Lemma cfam_DES j : well_formed j = true -> dir_ok j -> jv_cipher_mode j = IMB_CIPHER_DES -> agree (csw j) rules_DES j.
Proof. Time cfamily. Qed.

Lemma cfam_DOCSIS_DES j : well_formed j = true -> dir_ok j -> jv_cipher_mode j = IMB_CIPHER_DOCSIS_DES -> agree (csw j) rules_DOCSIS_DES j.
Proof. Time cfamily. Qed.

Lemma cfam_CCM j : well_formed j = true -> dir_ok j -> jv_cipher_mode j = IMB_CIPHER_CCM -> agree (csw j) rules_CCM j.
Proof. Time cfamily. Qed.

Lemma cfam_DES3 j : well_formed j = true -> dir_ok j -> jv_cipher_mode j = IMB_CIPHER_DES3 -> agree (csw j) rules_DES3 j.
Proof. Time cfamily. Qed.

Lemma cfam_PON j : well_formed j = true -> dir_ok j -> jv_cipher_mode j = IMB_CIPHER_PON_AES_CNTR -> agree (csw j) rules_PON j.
Proof. Time cfamily. Qed.

(* ZUC: the IV rule depends on the key length the checker sees, i.e. on the TRUNCATED value: the
   errno is only guaranteed to name a violated rule when the 64-bit key length fits 32 bits (D2) *)
Lemma cfam_ZUC_EEA3 j : disc_D2_key_len_truncated j = false ->
  well_formed j = true -> dir_ok j -> jv_cipher_mode j = IMB_CIPHER_ZUC_EEA3 -> agree (csw j) rules_ZUC_EEA3 j.
Proof. intros HD2; unfold disc_D2_key_len_truncated in HD2. Time cfamily. Qed.

Lemma cfam_SNOW3G_UEA2 j : well_formed j = true -> dir_ok j -> jv_cipher_mode j = IMB_CIPHER_SNOW3G_UEA2_BITLEN -> agree (csw j) rules_SNOW3G_UEA2 j.
Proof. Time cfamily. Qed.

Lemma cfam_KASUMI_UEA1 j : well_formed j = true -> dir_ok j -> jv_cipher_mode j = IMB_CIPHER_KASUMI_UEA1_BITLEN -> agree (csw j) rules_KASUMI_UEA1 j.
Proof. Time cfamily. Qed.

Lemma cfam_CHACHA20 j : well_formed j = true -> dir_ok j -> jv_cipher_mode j = IMB_CIPHER_CHACHA20 -> agree (csw j) rules_CHACHA20 j.
Proof. Time cfamily. Qed.

Lemma cfam_CHACHA20_POLY1305 j : well_formed j = true -> dir_ok j -> jv_cipher_mode j = IMB_CIPHER_CHACHA20_POLY1305 -> agree (csw j) rules_CHACHA20_POLY1305 j.
Proof. Time cfamily. Qed.

Lemma cfam_SNOW_V j : well_formed j = true -> dir_ok j -> jv_cipher_mode j = IMB_CIPHER_SNOW_V -> agree (csw j) rules_SNOW_V j.
Proof. Time cfamily. Qed.

Lemma cfam_SNOW_V_AEAD j : well_formed j = true -> dir_ok j -> jv_cipher_mode j = IMB_CIPHER_SNOW_V_AEAD -> agree (csw j) rules_SNOW_V_AEAD j.
Proof. Time cfamily. Qed.

Lemma cfam_SM4_ECB j : well_formed j = true -> dir_ok j -> jv_cipher_mode j = IMB_CIPHER_SM4_ECB -> agree (csw j) rules_SM4_ECB j.
Proof. Time cfamily. Qed.

Lemma cfam_SM4_CBC j : well_formed j = true -> dir_ok j -> jv_cipher_mode j = IMB_CIPHER_SM4_CBC -> agree (csw j) rules_SM4_CBC j.
Proof. Time cfamily. Qed.

Lemma cfam_SM4_CNTR j : well_formed j = true -> dir_ok j -> jv_cipher_mode j = IMB_CIPHER_SM4_CNTR -> agree (csw j) rules_SM4_CNTR j.
Proof. Time cfamily. Qed.

Lemma cfam_CFB j : well_formed j = true -> dir_ok j -> jv_cipher_mode j = IMB_CIPHER_CFB -> agree (csw j) rules_CFB j.
Proof. Time cfamily. Qed.

(* ------------------------------------------------------------------------------------------ *)
(* hash-algorithm families                                                                     *)
(* ------------------------------------------------------------------------------------------ *)
(* what is known when the hash switch runs: the cipher switch fell through *)
Definition cipher_passed (j : job_view) : Prop :=
  outside_known_discrepancies j = true -> rules_ok (cipher_rules (jv_cipher_mode j)) j = true.

Ltac hfamily :=
  let W := fresh "W" in
  intros Hwf Hc Hha; pose proof (wf_widths _ Hwf) as W;
  unfold hsw; rewrite ?Hha; cbv beta zeta delta [is_job_invalid_sw2]; norm_arith; gen_enums_unfold;
  walk; leaf W.

Lemma hfam_HMAC_SHA_1 j : well_formed j = true -> cipher_passed j -> jv_hash_alg j = IMB_AUTH_HMAC_SHA_1 -> agree (hsw j) (rules_HMAC 12 20) j.
Proof. Time hfamily. Qed.

Lemma hfam_HMAC_SHA_224 j : well_formed j = true -> cipher_passed j -> jv_hash_alg j = IMB_AUTH_HMAC_SHA_224 -> agree (hsw j) (rules_HMAC 14 28) j.
Proof. Time hfamily. Qed.

Lemma hfam_HMAC_SHA_256 j : well_formed j = true -> cipher_passed j -> jv_hash_alg j = IMB_AUTH_HMAC_SHA_256 -> agree (hsw j) (rules_HMAC 16 32) j.
Proof. Time hfamily. Qed.

Lemma hfam_HMAC_SHA_384 j : well_formed j = true -> cipher_passed j -> jv_hash_alg j = IMB_AUTH_HMAC_SHA_384 -> agree (hsw j) (rules_HMAC 24 48) j.
Proof. Time hfamily. Qed.

Lemma hfam_HMAC_SHA_512 j : well_formed j = true -> cipher_passed j -> jv_hash_alg j = IMB_AUTH_HMAC_SHA_512 -> agree (hsw j) (rules_HMAC 32 64) j.
Proof. Time hfamily. Qed.

Lemma hfam_AES_XCBC j : well_formed j = true -> cipher_passed j -> jv_hash_alg j = IMB_AUTH_AES_XCBC -> agree (hsw j) (rules_XCBC) j.
Proof. Time hfamily. Qed.

Lemma hfam_MD5 j : well_formed j = true -> cipher_passed j -> jv_hash_alg j = IMB_AUTH_MD5 -> agree (hsw j) (rules_HMAC 12 16) j.
Proof. Time hfamily. Qed.

Lemma hfam_NULL j : well_formed j = true -> cipher_passed j -> jv_hash_alg j = IMB_AUTH_NULL -> agree (hsw j) (rules_AUTH_NULL) j.
Proof. Time hfamily. Qed.

Lemma hfam_AES_GMAC j : well_formed j = true -> cipher_passed j -> jv_hash_alg j = IMB_AUTH_AES_GMAC -> agree (hsw j) (rules_AES_GMAC) j.
Proof. Time hfamily. Qed.

Lemma hfam_CUSTOM j : well_formed j = true -> cipher_passed j -> jv_hash_alg j = IMB_AUTH_CUSTOM -> agree (hsw j) (rules_AUTH_CUSTOM) j.
Proof. Time hfamily. Qed.

Lemma hfam_AES_CCM j : well_formed j = true -> cipher_passed j -> jv_hash_alg j = IMB_AUTH_AES_CCM -> agree (hsw j) (rules_AES_CCM) j.
Proof. Time hfamily. Qed.

Lemma hfam_AES_CMAC j : well_formed j = true -> cipher_passed j -> jv_hash_alg j = IMB_AUTH_AES_CMAC -> agree (hsw j) (rules_CMAC) j.
Proof. Time hfamily. Qed.

Lemma hfam_SHA_1 j : well_formed j = true -> cipher_passed j -> jv_hash_alg j = IMB_AUTH_SHA_1 -> agree (hsw j) (rules_SHA 20) j.
Proof. Time hfamily. Qed.

Lemma hfam_SHA_224 j : well_formed j = true -> cipher_passed j -> jv_hash_alg j = IMB_AUTH_SHA_224 -> agree (hsw j) (rules_SHA 28) j.
Proof. Time hfamily. Qed.

Lemma hfam_SHA_256 j : well_formed j = true -> cipher_passed j -> jv_hash_alg j = IMB_AUTH_SHA_256 -> agree (hsw j) (rules_SHA 32) j.
Proof. Time hfamily. Qed.

Lemma hfam_SHA_384 j : well_formed j = true -> cipher_passed j -> jv_hash_alg j = IMB_AUTH_SHA_384 -> agree (hsw j) (rules_SHA 48) j.
Proof. Time hfamily. Qed.

Lemma hfam_SHA_512 j : well_formed j = true -> cipher_passed j -> jv_hash_alg j = IMB_AUTH_SHA_512 -> agree (hsw j) (rules_SHA 64) j.
Proof. Time hfamily. Qed.

Lemma hfam_AES_CMAC_BITLEN j : well_formed j = true -> cipher_passed j -> jv_hash_alg j = IMB_AUTH_AES_CMAC_BITLEN -> agree (hsw j) (rules_CMAC_BITLEN) j.
Proof. Time hfamily. Qed.

Lemma hfam_PON_CRC_BIP j : well_formed j = true -> cipher_passed j -> jv_hash_alg j = IMB_AUTH_PON_CRC_BIP -> agree (hsw j) (rules_PON_CRC_BIP) j.
Proof. Time hfamily. Qed.

Lemma hfam_ZUC_EIA3_BITLEN j : well_formed j = true -> cipher_passed j -> jv_hash_alg j = IMB_AUTH_ZUC_EIA3_BITLEN -> agree (hsw j) (rules_ZUC_EIA3) j.
Proof. Time hfamily. Qed.

Lemma hfam_SNOW3G_UIA2_BITLEN j : well_formed j = true -> cipher_passed j -> jv_hash_alg j = IMB_AUTH_SNOW3G_UIA2_BITLEN -> agree (hsw j) (rules_SNOW3G_UIA2) j.
Proof. Time hfamily. Qed.

Lemma hfam_KASUMI_UIA1 j : well_formed j = true -> cipher_passed j -> jv_hash_alg j = IMB_AUTH_KASUMI_UIA1 -> agree (hsw j) (rules_KASUMI_UIA1) j.
Proof. Time hfamily. Qed.

Lemma hfam_AES_GMAC_128 j : well_formed j = true -> cipher_passed j -> jv_hash_alg j = IMB_AUTH_AES_GMAC_128 -> agree (hsw j) (rules_GMAC_STANDALONE) j.
Proof. Time hfamily. Qed.

Lemma hfam_AES_GMAC_192 j : well_formed j = true -> cipher_passed j -> jv_hash_alg j = IMB_AUTH_AES_GMAC_192 -> agree (hsw j) (rules_GMAC_STANDALONE) j.
Proof. Time hfamily. Qed.

Lemma hfam_AES_GMAC_256 j : well_formed j = true -> cipher_passed j -> jv_hash_alg j = IMB_AUTH_AES_GMAC_256 -> agree (hsw j) (rules_GMAC_STANDALONE) j.
Proof. Time hfamily. Qed.

Lemma hfam_AES_CMAC_256 j : well_formed j = true -> cipher_passed j -> jv_hash_alg j = IMB_AUTH_AES_CMAC_256 -> agree (hsw j) (rules_CMAC) j.
Proof. Time hfamily. Qed.

Lemma hfam_POLY1305 j : well_formed j = true -> cipher_passed j -> jv_hash_alg j = IMB_AUTH_POLY1305 -> agree (hsw j) (rules_POLY1305) j.
Proof. Time hfamily. Qed.

Lemma hfam_CHACHA20_POLY1305 j : well_formed j = true -> cipher_passed j -> jv_hash_alg j = IMB_AUTH_CHACHA20_POLY1305 -> agree (hsw j) (rules_CHACHA20_POLY1305_HASH) j.
Proof. Time hfamily. Qed.

Lemma hfam_CHACHA20_POLY1305_SGL j : well_formed j = true -> cipher_passed j -> jv_hash_alg j = IMB_AUTH_CHACHA20_POLY1305_SGL -> agree (hsw j) (rules_CHACHA20_POLY1305_SGL_HASH) j.
Proof. Time hfamily. Qed.

Lemma hfam_ZUC256_EIA3_BITLEN j : well_formed j = true -> cipher_passed j -> jv_hash_alg j = IMB_AUTH_ZUC256_EIA3_BITLEN -> agree (hsw j) (rules_ZUC256_EIA3) j.
Proof. Time hfamily. Qed.

Lemma hfam_SNOW_V_AEAD j : well_formed j = true -> cipher_passed j -> jv_hash_alg j = IMB_AUTH_SNOW_V_AEAD -> agree (hsw j) (rules_SNOW_V_AEAD_HASH) j.
Proof. Time hfamily. Qed.

Lemma hfam_GCM_SGL j : well_formed j = true -> cipher_passed j -> jv_hash_alg j = IMB_AUTH_GCM_SGL -> agree (hsw j) (rules_GCM_SGL_HASH) j.
Proof. Time hfamily. Qed.

Lemma hfam_CRC32_ETHERNET_FCS j : well_formed j = true -> cipher_passed j -> jv_hash_alg j = IMB_AUTH_CRC32_ETHERNET_FCS -> agree (hsw j) (rules_CRC) j.
Proof. Time hfamily. Qed.

Lemma hfam_CRC32_SCTP j : well_formed j = true -> cipher_passed j -> jv_hash_alg j = IMB_AUTH_CRC32_SCTP -> agree (hsw j) (rules_CRC) j.
Proof. Time hfamily. Qed.

Lemma hfam_CRC32_WIMAX_OFDMA_DATA j : well_formed j = true -> cipher_passed j -> jv_hash_alg j = IMB_AUTH_CRC32_WIMAX_OFDMA_DATA -> agree (hsw j) (rules_CRC) j.
Proof. Time hfamily. Qed.

Lemma hfam_CRC24_LTE_A j : well_formed j = true -> cipher_passed j -> jv_hash_alg j = IMB_AUTH_CRC24_LTE_A -> agree (hsw j) (rules_CRC) j.
Proof. Time hfamily. Qed.

Lemma hfam_CRC24_LTE_B j : well_formed j = true -> cipher_passed j -> jv_hash_alg j = IMB_AUTH_CRC24_LTE_B -> agree (hsw j) (rules_CRC) j.
Proof. Time hfamily. Qed.

Lemma hfam_CRC16_X25 j : well_formed j = true -> cipher_passed j -> jv_hash_alg j = IMB_AUTH_CRC16_X25 -> agree (hsw j) (rules_CRC) j.
Proof. Time hfamily. Qed.

Lemma hfam_CRC16_FP_DATA j : well_formed j = true -> cipher_passed j -> jv_hash_alg j = IMB_AUTH_CRC16_FP_DATA -> agree (hsw j) (rules_CRC) j.
Proof. Time hfamily. Qed.

Lemma hfam_CRC11_FP_HEADER j : well_formed j = true -> cipher_passed j -> jv_hash_alg j = IMB_AUTH_CRC11_FP_HEADER -> agree (hsw j) (rules_CRC) j.
Proof. Time hfamily. Qed.

Lemma hfam_CRC10_IUUP_DATA j : well_formed j = true -> cipher_passed j -> jv_hash_alg j = IMB_AUTH_CRC10_IUUP_DATA -> agree (hsw j) (rules_CRC) j.
Proof. Time hfamily. Qed.

Lemma hfam_CRC8_WIMAX_OFDMA_HCS j : well_formed j = true -> cipher_passed j -> jv_hash_alg j = IMB_AUTH_CRC8_WIMAX_OFDMA_HCS -> agree (hsw j) (rules_CRC) j.
Proof. Time hfamily. Qed.

Lemma hfam_CRC7_FP_HEADER j : well_formed j = true -> cipher_passed j -> jv_hash_alg j = IMB_AUTH_CRC7_FP_HEADER -> agree (hsw j) (rules_CRC) j.
Proof. Time hfamily. Qed.

Lemma hfam_CRC6_IUUP_HEADER j : well_formed j = true -> cipher_passed j -> jv_hash_alg j = IMB_AUTH_CRC6_IUUP_HEADER -> agree (hsw j) (rules_CRC) j.
Proof. Time hfamily. Qed.

Lemma hfam_GHASH j : well_formed j = true -> cipher_passed j -> jv_hash_alg j = IMB_AUTH_GHASH -> agree (hsw j) (rules_GHASH) j.
Proof. Time hfamily. Qed.

Lemma hfam_SM3 j : well_formed j = true -> cipher_passed j -> jv_hash_alg j = IMB_AUTH_SM3 -> agree (hsw j) (rules_SM3) j.
Proof. Time hfamily. Qed.

Lemma hfam_HMAC_SM3 j : well_formed j = true -> cipher_passed j -> jv_hash_alg j = IMB_AUTH_HMAC_SM3 -> agree (hsw j) (rules_HMAC_SM3) j.
Proof. Time hfamily. Qed.

Lemma hfam_SM4_GCM j : well_formed j = true -> cipher_passed j -> jv_hash_alg j = IMB_AUTH_SM4_GCM -> agree (hsw j) (rules_SM4_GCM_HASH) j.
Proof. Time hfamily. Qed.

