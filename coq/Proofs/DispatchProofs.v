(* Proofs/DispatchProofs.v -- proofs about Mgr/Dispatch.v (property C06). *)
From Coq Require Import NArith List Bool String Lia.
From IMB Require Import Lib.Bytes Gen.GenEnums Mgr.JobView Gen.GenValidate Gen.GenTables Gen.GenKnownC06 Mgr.Dispatch.
Import ListNotations.
Local Open Scope N_scope.

(* ================================================================================== *)
(* A. Index arithmetic (for ALL values, no sweep)                                       *)
(* ================================================================================== *)

Lemma w32_mod : forall x, w32 x = x mod 2 ^ 32.
Proof. intro x. unfold w32. change mask32 with (N.ones 32). apply N.land_ones. Qed.

Lemma w64_mod : forall x, w64 x = x mod 2 ^ 64.
Proof. intro x. unfold w64. change mask64 with (N.ones 64). apply N.land_ones. Qed.

Lemma land3_mod : forall x, N.land x 3 = x mod 4.
Proof. intro x. change 3 with (N.ones 2). rewrite N.land_ones. reflexivity. Qed.

Lemma land1_mod : forall x, N.land x 1 = x mod 2.
Proof. intro x. change 1 with (N.ones 1). rewrite N.land_ones. reflexivity. Qed.

Lemma key_class_lt4 : forall k, key_class k < 4.
Proof. intro k. unfold key_class. rewrite land3_mod. apply N.mod_lt. discriminate. Qed.

Lemma enc_bit_le1 : forall d, enc_bit d <= 1.
Proof.
  intro d. unfold enc_bit. change IMB_DIR_ENCRYPT with 1. rewrite land1_mod.
  assert (d mod 2 < 2) by (apply N.mod_lt; discriminate). lia.
Qed.

(* the key-size class of a key of 1..32 bytes is (klen-1)/8: 1..8 -> 0, 9..16 -> 1, 17..24 -> 2, 25..32 -> 3 *)
Lemma key_class_small : forall k, 1 <= k <= 32 -> key_class k = (k - 1) / 8.
Proof.
  intros k Hk. unfold key_class, sub64. rewrite land3_mod, !w64_mod, N.shiftr_div_pow2.
  change (1 mod 2 ^ 64) with 1. change (2 ^ 3) with 8.
  replace (k + 18446744073709551616 - 1) with ((k - 1) + 1 * 2 ^ 64) by (change (2 ^ 64) with 18446744073709551616; lia).
  rewrite N.mod_add by discriminate.
  rewrite (N.mod_small (k - 1)) by (change (2 ^ 64) with 18446744073709551616; lia).
  apply N.mod_small. assert ((k - 1) / 8 <= 31 / 8) by (apply N.div_le_mono; [discriminate | lia]).
  change (31 / 8) with 3 in H. lia.
Qed.

(* closed form of the index while nothing overflows *)
Lemma calc_index_closed : forall mode klen dir,
  mode < 2 ^ 24 -> calc_cipher_tab_index mode klen dir = 4 * mode + key_class klen + 128 * enc_bit dir.
Proof.
  intros mode klen dir Hm. unfold calc_cipher_tab_index. fold (enc_bit dir).
  pose proof (key_class_lt4 klen) as Hk. pose proof (enc_bit_le1 dir) as He.
  rewrite !N.shiftl_mul_pow2. change (2 ^ 2) with 4. change (2 ^ 7) with 128.
  change (2 ^ 24) with 16777216 in Hm.
  rewrite !w32_mod. change (2 ^ 32) with 4294967296.
  rewrite (N.mod_small (mode * 4)) by lia.
  rewrite (N.mod_small (enc_bit dir * 128)) by lia.
  rewrite N.mod_small by lia. lia.
Qed.

(* the hand model is the machine translation of the C expression (Gen/GenTables.v) *)
Theorem calc_index_matches_source : forall mode klen dir,
  mode < 2 ^ 24 ->
  gen_calc_cipher_tab_index IMB_DIR_ENCRYPT IMB_DIR_DECRYPT mode klen dir = calc_cipher_tab_index mode klen dir.
Proof.
  intros mode klen dir Hm. rewrite calc_index_closed by assumption.
  unfold gen_calc_cipher_tab_index, c_add, c_shl, c_and, c_shr, c_sub, c_mask.
  pose proof (key_class_lt4 klen) as Hk. pose proof (enc_bit_le1 dir) as He.
  assert (Hkc : N.land (N.shiftr (N.land (klen + N.shiftl 1 64 - N.land 1 (N.ones 64)) (N.ones 64)) 3) 3 = key_class klen).
  { unfold key_class, sub64, w64. reflexivity. }
  rewrite Hkc. fold (enc_bit dir).
  rewrite !N.land_ones, !N.shiftl_mul_pow2.
  change (2 ^ 2) with 4. change (2 ^ 7) with 128. change (2 ^ 24) with 16777216 in Hm.
  change (2 ^ 32) with 4294967296. change (2 ^ 64) with 18446744073709551616.
  rewrite (N.mod_small (mode * 4)) by lia.
  rewrite (N.mod_small (enc_bit dir * 128)) by lia.
  rewrite (N.mod_small (mode * 4 + key_class klen)) by lia.
  rewrite (N.mod_small (mode * 4 + key_class klen + enc_bit dir * 128)) by lia.
  rewrite N.mod_small by lia. lia.
Qed.

(* every mode below the encrypt/decrypt gap indexes inside the 256-entry tables *)
Theorem index_in_bounds_arith : forall mode klen dir,
  mode < ENCRYPT_DECRYPT_GAP -> calc_cipher_tab_index mode klen dir < 8 * ENCRYPT_DECRYPT_GAP.
Proof.
  intros mode klen dir Hm. change ENCRYPT_DECRYPT_GAP with 32 in *.
  rewrite calc_index_closed by (change (2 ^ 24) with 16777216; lia).
  pose proof (key_class_lt4 klen). pose proof (enc_bit_le1 dir). lia.
Qed.

(* distinct (mode, key class, direction bit) give distinct indices, and conversely *)
Theorem index_injective_arith : forall m1 k1 d1 m2 k2 d2,
  m1 < ENCRYPT_DECRYPT_GAP -> m2 < ENCRYPT_DECRYPT_GAP ->
  calc_cipher_tab_index m1 k1 d1 = calc_cipher_tab_index m2 k2 d2 ->
  m1 = m2 /\ key_class k1 = key_class k2 /\ enc_bit d1 = enc_bit d2.
Proof.
  intros m1 k1 d1 m2 k2 d2 H1 H2. change ENCRYPT_DECRYPT_GAP with 32 in *.
  rewrite !calc_index_closed by (change (2 ^ 24) with 16777216; lia).
  pose proof (key_class_lt4 k1). pose proof (key_class_lt4 k2).
  pose proof (enc_bit_le1 d1). pose proof (enc_bit_le1 d2). lia.
Qed.

Theorem index_congruent : forall m k1 d1 k2 d2,
  key_class k1 = key_class k2 -> enc_bit d1 = enc_bit d2 ->
  calc_cipher_tab_index m k1 d1 = calc_cipher_tab_index m k2 d2.
Proof.
  intros m k1 d1 k2 d2 Hk Hd. unfold calc_cipher_tab_index. fold (enc_bit d1) (enc_bit d2).
  rewrite Hk, Hd. reflexivity.
Qed.

(* the two directions occupy the two halves of the table; the halves are ENCRYPT_DECRYPT_GAP rows apart *)
Theorem index_halves : forall m k,
  m < ENCRYPT_DECRYPT_GAP ->
  calc_cipher_tab_index m k IMB_DIR_ENCRYPT = calc_cipher_tab_index m k IMB_DIR_DECRYPT + 4 * ENCRYPT_DECRYPT_GAP /\
  calc_cipher_tab_index m k IMB_DIR_DECRYPT < 4 * ENCRYPT_DECRYPT_GAP.
Proof.
  intros m k Hm. change ENCRYPT_DECRYPT_GAP with 32 in *.
  rewrite !calc_index_closed by (change (2 ^ 24) with 16777216; lia).
  change (enc_bit IMB_DIR_ENCRYPT) with 1. change (enc_bit IMB_DIR_DECRYPT) with 0.
  pose proof (key_class_lt4 k). lia.
Qed.

(* ================================================================================== *)
(* B. Suite identifiers and the burst API                                               *)
(* ================================================================================== *)

Theorem suite_id_congruence_arith : forall m k1 d1 k2 d2 h,
  key_class k1 = key_class k2 -> enc_bit d1 = enc_bit d2 ->
  set_cipher_suite_id m k1 d1 h = set_cipher_suite_id m k2 d2 h.
Proof.
  intros. unfold set_cipher_suite_id. rewrite (index_congruent m k1 d1 k2 d2) by assumption. reflexivity.
Qed.

Theorem suite_id_injective_arith : forall m1 k1 d1 h1 m2 k2 d2 h2,
  m1 < ENCRYPT_DECRYPT_GAP -> m2 < ENCRYPT_DECRYPT_GAP -> h1 < 2 ^ 32 -> h2 < 2 ^ 32 ->
  set_cipher_suite_id m1 k1 d1 h1 = set_cipher_suite_id m2 k2 d2 h2 ->
  m1 = m2 /\ key_class k1 = key_class k2 /\ enc_bit d1 = enc_bit d2 /\ h1 = h2.
Proof.
  intros m1 k1 d1 h1 m2 k2 d2 h2 Hm1 Hm2 Hh1 Hh2 H. unfold set_cipher_suite_id in H.
  injection H as Hi Hh. rewrite !w32_mod, !N.mod_small in Hh by assumption.
  destruct (index_injective_arith _ _ _ _ _ _ Hm1 Hm2 Hi) as (A & B & C). auto.
Qed.

(* CALL_SUBMIT_* / CALL_FLUSH_* through the suite id written by set_cipher_suite_id() reach the same four
   table entries as SUBMIT_JOB_* / FLUSH_JOB_* computed from the descriptor *)
Theorem burst_eq_job_dispatch : forall vt m k d h,
  h < 2 ^ 32 -> burst_dispatch vt (set_cipher_suite_id m k d h) = job_dispatch vt m k d h.
Proof.
  intros vt m k d h Hh. unfold burst_dispatch, job_dispatch, set_cipher_suite_id. simpl fst. simpl snd.
  rewrite w32_mod, N.mod_small by assumption. reflexivity.
Qed.

(* ================================================================================== *)
(* C. Stage sequencing                                                                  *)
(* ================================================================================== *)

Definition jstate_eqb (a b : jstate) : bool :=
  (js_status a =? js_status b) &&
  match js_held a, js_held b with
  | None, None => true | Some x, Some y => stage_eqb x y | _, _ => false end &&
  (fix leq (l1 l2 : list stage) := match l1, l2 with
     | [], [] => true | x :: t1, y :: t2 => stage_eqb x y && leq t1 t2 | _, _ => false end) (js_log a) (js_log b).

(* the (at most four) states a job goes through, by regime *)
Definition trace_states (combined : bool) (mode order : N) : list jstate :=
  if mode =? IMB_CIPHER_GCM then
    if combined then [mk_js 0 (Some Cipher) [Cipher]; mk_js 3 None [Cipher]]
    else [mk_js 0 (Some Cipher) [Cipher]; mk_js 1 None [Cipher]; mk_js 3 None [Cipher; Hash]]
  else if order =? IMB_ORDER_CIPHER_HASH then
    if combined then [mk_js 0 (Some Cipher) [Cipher]; mk_js 3 None [Cipher]]
    else [mk_js 0 (Some Cipher) [Cipher]; mk_js 1 (Some Hash) [Cipher; Hash]; mk_js 3 None [Cipher; Hash]]
  else [mk_js 0 (Some Hash) [Hash]; mk_js 2 (Some Cipher) [Hash; Cipher]; mk_js 3 None [Hash; Cipher]].

Ltac js_cases H :=
  repeat match type of H with
         | In _ (_ :: _) => destruct H as [H | H]; [subst | ]
         | In _ [] => contradiction
         end.

Lemma jreach_in_trace : forall combined mode order j,
  jreach combined false mode order j -> In j (trace_states combined mode order).
Proof.
  intros combined mode order j H. induction H.
  - unfold trace_states, js_init, first_stage.
    destruct (mode =? IMB_CIPHER_GCM); [destruct combined; left; reflexivity |].
    destruct (order =? IMB_ORDER_CIPHER_HASH); [destruct combined; left; reflexivity |]. left; reflexivity.
  - unfold trace_states in *. unfold resubmits_after_first in H0.
    destruct (mode =? IMB_CIPHER_GCM) eqn:Eg.
    + destruct combined; js_cases IHjreach;
        inversion H0; subst; simpl in *; try discriminate;
        repeat match goal with H : Some _ = Some _ |- _ => injection H as H; subst end;
        unfold release, resubmit_choice, resubmits_after_first; simpl; rewrite ?Eg; simpl; auto 6.
    + destruct (order =? IMB_ORDER_CIPHER_HASH) eqn:Eo.
      * destruct combined; js_cases IHjreach;
          inversion H0; subst; simpl in *; try discriminate;
          repeat match goal with H : Some _ = Some _ |- _ => injection H as H; subst end;
          unfold release, resubmit_choice, resubmits_after_first; simpl; rewrite ?Eg; simpl; auto 6.
      * js_cases IHjreach;
          inversion H0; subst; simpl in *; try discriminate;
          repeat match goal with H : Some _ = Some _ |- _ => injection H as H; subst end;
          unfold release, resubmit_choice, resubmits_after_first; destruct combined; simpl; rewrite ?Eg; simpl; auto 6.
Qed.

Fixpoint is_prefix (a b : list stage) : bool :=
  match a, b with
  | [], _ => true
  | x :: a', y :: b' => stage_eqb x y && is_prefix a' b'
  | _ :: _, [] => false
  end.

(* every stage invocation ever made for a job is the next one of the demanded sequence; a finished job has
   made exactly the demanded sequence: each stage once, in chain order (one combined stage for the AEAD
   kernels in cipher-first order) *)
Theorem stages_once_in_order_all : forall combined mode order j,
  jreach combined false mode order j ->
  is_prefix (js_log j) (expected_stages combined mode order) = true /\
  NoDup (js_log j) /\
  (js_done j -> js_log j = expected_stages combined mode order /\ js_status j = IMB_STATUS_COMPLETED).
Proof.
  intros combined mode order j H. apply jreach_in_trace in H.
  unfold trace_states, expected_stages, first_stage, js_done in *.
  destruct (mode =? IMB_CIPHER_GCM); [| destruct (order =? IMB_ORDER_CIPHER_HASH)];
    destruct combined; js_cases H; simpl;
    (split; [reflexivity | split; [repeat constructor; simpl; intuition discriminate | ]]);
    intros [Hh Hs]; simpl in *; try discriminate; try (split; reflexivity);
    try (exfalso; apply Hs; reflexivity).
Qed.

(* an unfinished job always has its next event: nobody can get stuck between the stages *)
Theorem stages_progress : forall combined mode order j,
  jreach combined false mode order j -> js_status j < IMB_STATUS_COMPLETED -> exists j', jstep combined false mode j j'.
Proof.
  intros combined mode order j H Hlt. apply jreach_in_trace in H.
  unfold trace_states in H.
  destruct (mode =? IMB_CIPHER_GCM); [| destruct (order =? IMB_ORDER_CIPHER_HASH)];
    destruct combined; js_cases H; simpl in Hlt;
    try (exfalso; revert Hlt; apply N.lt_irrefl);
    try (eexists; eapply js_release; reflexivity);
    try (eexists; eapply js_flush_pickup; reflexivity).
Qed.

(* What a flush entry that hands back jobs it does not hold does to the property: the job of a
   cipher-first suite that waits in the hash manager is submitted to the hash a second time. *)
Theorem reentry_runs_a_stage_twice :
  exists j, jreach false true IMB_CIPHER_CUSTOM IMB_ORDER_CIPHER_HASH j /\ js_log j = [Cipher; Hash; Hash].
Proof.
  exists (mk_js 1 (Some Hash) [Cipher; Hash; Hash]). split; [| reflexivity].
  eapply jr_step. eapply jr_step. apply jr_init.
  - apply (js_release false true IMB_CIPHER_CUSTOM (mk_js 0 (Some Cipher) [Cipher]) Cipher). reflexivity.
  - apply (js_flush_reentry false true IMB_CIPHER_CUSTOM (mk_js 1 (Some Hash) [Cipher; Hash]) Hash Hash); reflexivity.
Qed.

(* ================================================================================== *)
(* D. The finite domain is complete                                                     *)
(* ================================================================================== *)

Lemma N_range_aux_In : forall n from x, In x (N_range_aux n from) <-> from <= x < from + N.of_nat n.
Proof.
  induction n; intros from x; simpl.
  - split; [contradiction | lia].
  - rewrite IHn. split.
    + intros [H | H]; lia.
    + intro H. destruct (N.eq_dec from x); [left; assumption | right; lia].
Qed.

Lemma N_range_In : forall lo hi x, lo <= hi -> (In x (N_range lo hi) <-> lo <= x < hi).
Proof.
  intros lo hi x H. unfold N_range. rewrite N_range_aux_In, N2Nat.id. lia.
Qed.

(* every enumerator of IMB_CIPHER_MODE / IMB_HASH_ALG other than the _NUM sentinel is in the domain (aliases such as
   IMB_CIPHER_CTR share a value), and the domain contains nothing else: it is the interval 1 .. NUM-1 *)
Lemma modes_cover_enum :
  forallb (fun '(_, v) => (v =? IMB_CIPHER_NUM) || existsb (N.eqb v) all_modes) all_cipher_modes = true /\
  forallb (fun m => existsb (fun '(_, v) => v =? m) all_cipher_modes) all_modes = true.
Proof. split; vm_compute; reflexivity. Qed.

Lemma hashes_cover_enum :
  forallb (fun '(_, v) => (v =? IMB_AUTH_NUM) || existsb (N.eqb v) all_hashes) all_hash_algs = true /\
  forallb (fun h => existsb (fun '(_, v) => v =? h) all_hash_algs) all_hashes = true.
Proof. split; vm_compute; reflexivity. Qed.

Lemma In_all_cells : forall m k d h o,
  In m all_modes -> In k all_klens -> In d all_dirs -> In h all_hashes -> In o all_orders ->
  In (mk_cell m k d h o) all_cells.
Proof.
  intros. unfold all_cells.
  apply in_flat_map; exists m; split; [assumption |].
  apply in_flat_map; exists k; split; [assumption |].
  apply in_flat_map; exists d; split; [assumption |].
  apply in_flat_map; exists h; split; [assumption |].
  apply in_map. assumption.
Qed.

Lemma all_cells_inv : forall c, In c all_cells ->
  In (c_mode c) all_modes /\ In (c_klen c) all_klens /\ In (c_dir c) all_dirs /\
  In (c_hash c) all_hashes /\ In (c_order c) all_orders.
Proof.
  intros c H. unfold all_cells in H.
  apply in_flat_map in H; destruct H as (m & Hm & H).
  apply in_flat_map in H; destruct H as (k & Hk & H).
  apply in_flat_map in H; destruct H as (d & Hd & H).
  apply in_flat_map in H; destruct H as (h & Hh & H).
  apply in_map_iff in H; destruct H as (o & Heq & Ho). subst c. simpl. auto.
Qed.

(* the cell domain is the full product of the enum ranges *)
Theorem all_cells_complete : forall m k d h o,
  1 <= m < IMB_CIPHER_NUM -> In k [IMB_KEY_64_BYTES; IMB_KEY_128_BYTES; IMB_KEY_192_BYTES; IMB_KEY_256_BYTES] ->
  In d [IMB_DIR_ENCRYPT; IMB_DIR_DECRYPT] -> 1 <= h < IMB_AUTH_NUM ->
  In o [IMB_ORDER_CIPHER_HASH; IMB_ORDER_HASH_CIPHER] ->
  In (mk_cell m k d h o) all_cells.
Proof.
  intros. apply In_all_cells; try assumption.
  - apply N_range_In; [discriminate | assumption].
  - apply N_range_In; [discriminate | assumption].
Qed.

Lemma all_modes_lt_gap : forall m, In m all_modes -> m < ENCRYPT_DECRYPT_GAP.
Proof.
  intros m H. apply N_range_In in H; [| discriminate].
  change IMB_CIPHER_NUM with 29 in H. change ENCRYPT_DECRYPT_GAP with 32. lia.
Qed.

(* the IMB_ASSERT of SUBMIT_JOB_CIPHER, as a fact about the regenerated constants *)
Lemma gap_covers_modes : IMB_CIPHER_NUM <= ENCRYPT_DECRYPT_GAP.
Proof. vm_compute. discriminate. Qed.

(* ================================================================================== *)
(* E. The tables (finite, complete over the generated tables x all cells)               *)
(* ================================================================================== *)

Definition alg_eqb (a b : N * N * N) : bool :=
  let '(a1, a2, a3) := a in let '(b1, b2, b3) := b in (a1 =? b1) && (a2 =? b2) && (a3 =? b3).

Lemma alg_eqb_eq : forall a b, alg_eqb a b = true -> a = b.
Proof.
  intros [[a1 a2] a3] [[b1 b2] b3] H. simpl in H.
  apply andb_true_iff in H; destruct H as [H H3]. apply andb_true_iff in H; destruct H as [H1 H2].
  apply N.eqb_eq in H1, H2, H3. subst. reflexivity.
Qed.

Definition cipher_alg_ok_everywhere (a : N * N * N) : bool :=
  let '(m, k, d) := a in forallb (fun vt => cipher_side_ok vt m k d) all_variant_tables.

Definition good_cipher_algs : list (N * N * N) := filter cipher_alg_ok_everywhere all_cipher_algs.

Definition hash_ok_everywhere (h : N) : bool := forallb (fun vt => hash_side_ok vt h) all_variant_tables.
Definition good_hashes : list N := filter hash_ok_everywhere all_hashes.

Definition cell_facts (good : list (N * N * N)) (goodh : list N) (c : cell) : bool :=
  implb (accepted c && negb (excepted c))
        (pairing_ok (c_mode c) (c_hash c) && existsb (alg_eqb (c_mode c, c_klen c, c_dir c)) good &&
         existsb (N.eqb (c_hash c)) goodh).

(* ONE pass over the 21952 cells: acceptance by the generated validation, pairing, cipher and hash side of every variant *)
Lemma all_cells_checked :
  (let good := good_cipher_algs in let goodh := good_hashes in forallb (cell_facts good goodh) all_cells) = true.
Proof. vm_cast_no_check (eq_refl true). Qed.

Lemma cell_checked : forall c, In c all_cells -> accepted c = true -> excepted c = false ->
  pairing_ok (c_mode c) (c_hash c) = true /\
  forall vt, In vt all_variant_tables ->
    cipher_side_ok vt (c_mode c) (c_klen c) (c_dir c) = true /\ hash_side_ok vt (c_hash c) = true.
Proof.
  intros c Hin Ha He. pose proof all_cells_checked as H. cbv zeta in H.
  rewrite forallb_forall in H. specialize (H c Hin). unfold cell_facts in H.
  rewrite Ha, He in H. cbn [implb andb negb] in H. apply andb_true_iff in H. destruct H as [H Hh].
  apply andb_true_iff in H. destruct H as [Hp Hg]. split; [assumption |].
  apply existsb_exists in Hg. destruct Hg as (a & Hga & Heq). apply alg_eqb_eq in Heq. subst a.
  unfold good_cipher_algs in Hga. apply (proj1 (filter_In cipher_alg_ok_everywhere _ all_cipher_algs)) in Hga. destruct Hga as [_ Hok].
  unfold cipher_alg_ok_everywhere in Hok. rewrite forallb_forall in Hok.
  apply existsb_exists in Hh. destruct Hh as (h & Hgh & Heq). apply N.eqb_eq in Heq. subst h.
  unfold good_hashes in Hgh. apply (proj1 (filter_In hash_ok_everywhere _ all_hashes)) in Hgh. destruct Hgh as [_ Hokh].
  unfold hash_ok_everywhere in Hokh. rewrite forallb_forall in Hokh.
  intros vt Hvt. split; [apply Hok | apply Hokh]; assumption.
Qed.

Theorem accepted_cell_dispatch_all : forall vt c,
  In vt all_variant_tables -> In c all_cells -> accepted c = true -> excepted c = false ->
  cipher_side_ok vt (c_mode c) (c_klen c) (c_dir c) = true /\ hash_side_ok vt (c_hash c) = true.
Proof.
  intros vt c Hvt Hc Ha He. destruct (cell_checked c Hc Ha He) as [_ H]. apply H. assumption.
Qed.

(* the flush entries an accepted cell reaches never hand back a job they do not hold: the stage machine of
   these cells runs with [reenter] = false, the case [stages_once_in_order_all] is about *)
Theorem accepted_cell_no_flush_reentry : forall vt c,
  In vt all_variant_tables -> In c all_cells -> accepted c = true -> excepted c = false ->
  exists wfc wfh,
    tab_get (vt_flush_cipher vt) (calc_cipher_tab_index (c_mode c) (c_klen c) (c_dir c)) = Some wfc /\
    tab_get (vt_flush_hash vt) (c_hash c) = Some wfh /\
    flush_reenters wfc = false /\ flush_reenters wfh = false.
Proof.
  intros vt c Hvt Hc Ha He. destruct (accepted_cell_dispatch_all vt c Hvt Hc Ha He) as [H1 H2].
  unfold cipher_side_ok in H1. unfold hash_side_ok, hash_side_ok_gen in H2.
  destruct (find_variant_family vt); [| discriminate].
  destruct (cipher_names _ _ _); [| discriminate]. destruct (hash_names _); [| discriminate].
  destruct (tab_get (vt_submit_cipher vt) _); [| discriminate].
  destruct (tab_get (vt_flush_cipher vt) _) as [wfc |]; [| discriminate].
  destruct (tab_get (vt_submit_hash vt) _); [| discriminate].
  destruct (tab_get (vt_flush_hash vt) _) as [wfh |]; [| discriminate].
  exists wfc, wfh. split; [reflexivity |]. split; [reflexivity |].
  apply andb_true_iff in H1. destruct H1 as [_ H1]. apply andb_true_iff in H2. destruct H2 as [_ H2].
  cbn [negb orb] in H2. split; apply negb_true_iff; assumption.
Qed.

Theorem aead_pairs_all : forall c,
  In c all_cells -> accepted c = true -> excepted c = false -> pairing_ok (c_mode c) (c_hash c) = true.
Proof. intros c Hc Ha He. destruct (cell_checked c Hc Ha He). assumption. Qed.

(* what [entry_ok] says in terms of the naming relation *)
Lemma suffixes_incl : forall f x, In x (suffixes_of f) -> In x all_suffixes.
Proof.
  intros f x H. unfold all_suffixes. destruct f; unfold suffixes_of in *.
  - apply in_or_app. left. assumption.
  - apply in_app_or in H. destruct H as [H | H]; apply in_or_app; [left; assumption |].
    right. apply in_or_app. left. assumption.
  - assumption.
Qed.

Lemma pat_matches_mono : forall f p s, pat_matches (suffixes_of f) p s = true -> pat_matches all_suffixes p s = true.
Proof.
  intros f p s H. unfold pat_matches in *. destruct (p_kind p); [assumption |].
  apply andb_true_iff in H. destruct H as [Hp Hs]. apply andb_true_iff. split; [assumption |].
  unfold str_mem in *. apply existsb_exists in Hs. destruct Hs as (x & Hx & Hxe).
  apply existsb_exists. exists x. split; [| assumption]. eapply suffixes_incl; eassumption.
Qed.

Lemma entry_ok_groups_named : forall f n w, entry_ok f n w = true ->
  forall g, In g (n_groups n) -> exists callee p, In callee (w_calls w) /\ In p g /\ pat_matches all_suffixes p callee = true.
Proof.
  intros f n w H g Hg. unfold entry_ok in H.
  apply andb_true_iff in H. destruct H as [H _]. apply andb_true_iff in H. destruct H as [_ H].
  rewrite forallb_forall in H. specialize (H g Hg).
  apply existsb_exists in H. destruct H as (p & Hp & H). apply existsb_exists in H. destruct H as (c & Hc & H).
  exists c, p. repeat split; try assumption. eapply pat_matches_mono; eassumption.
Qed.

Lemma entry_ok_calls_named : forall f n w, entry_ok f n w = true ->
  forall callee, In callee (w_calls w) ->
  exists p, In p (names_pats n ++ n_aux n ++ neutral_helpers) /\ pat_matches all_suffixes p callee = true.
Proof.
  intros f n w H c Hc. unfold entry_ok in H.
  apply andb_true_iff in H. destruct H as [H _]. apply andb_true_iff in H. destruct H as [H _].
  rewrite forallb_forall in H. specialize (H c Hc).
  apply existsb_exists in H. destruct H as (p & Hp & H). exists p. split; [assumption |].
  eapply pat_matches_mono; eassumption.
Qed.

(* the submit entry of an accepted cell exists and every kernel group of the named cipher is called by it:
   in terms of [names_alg] *)
Theorem accepted_cell_calls_named : forall vt c,
  In vt all_variant_tables -> In c all_cells -> accepted c = true -> excepted c = false ->
  exists ws n, tab_get (vt_submit_cipher vt) (calc_cipher_tab_index (c_mode c) (c_klen c) (c_dir c)) = Some ws /\
    cipher_names (c_mode c) (c_klen c) (c_dir c =? IMB_DIR_ENCRYPT) = Some n /\
    (forall g, In g (n_groups n) -> exists callee, In callee (w_calls ws) /\ names_alg callee (c_mode c, c_klen c, c_dir c) = true) /\
    (forall callee, In callee (w_calls ws) ->
       names_alg callee (c_mode c, c_klen c, c_dir c) = true \/
       exists p, In p (n_aux n ++ neutral_helpers) /\ pat_matches all_suffixes p callee = true).
Proof.
  intros vt c Hvt Hc Ha He.
  destruct (accepted_cell_dispatch_all vt c Hvt Hc Ha He) as [H _].
  unfold cipher_side_ok in H.
  destruct (find_variant_family vt) as [f |]; [| discriminate].
  destruct (cipher_names (c_mode c) (c_klen c) (c_dir c =? IMB_DIR_ENCRYPT)) as [n |] eqn:En; [| discriminate].
  destruct (tab_get (vt_submit_cipher vt) _) as [ws |]; [| discriminate].
  destruct (tab_get (vt_flush_cipher vt) _) as [wf |]; [| discriminate].
  apply andb_true_iff in H. destruct H as [H _]. apply andb_true_iff in H. destruct H as [H _].
  exists ws, n. split; [reflexivity |]. split; [reflexivity |]. split.
  - intros g Hg. destruct (entry_ok_groups_named f n ws H g Hg) as (callee & p & Hcal & Hp & Hm).
    exists callee. split; [assumption |]. unfold names_alg. rewrite En.
    apply existsb_exists. exists p. split; [| assumption].
    unfold names_pats. apply in_concat. exists g. split; assumption.
  - intros callee Hcal. destruct (entry_ok_calls_named f n ws H callee Hcal) as (p & Hp & Hm).
    apply in_app_or in Hp. destruct Hp as [Hp | Hp].
    + left. unfold names_alg. rewrite En. apply existsb_exists. exists p. split; assumption.
    + right. exists p. split; assumption.
Qed.

(* ---- rows are in enumerator order, the two halves are in place, nothing is transposed ---- *)
Definition slot_belongs (vt : variant_tables) (m kc d : N) : bool :=
  let idx := 4 * m + kc + 128 * enc_bit d in
  match find_variant_family vt, tab_get (vt_submit_cipher vt) idx, tab_get (vt_flush_cipher vt) idx with
  | Some f, Some ws, Some wf =>
      (* either the do-nothing entry (a key-size class the mode does not have) ... *)
      (match w_calls ws, w_mgrs ws, w_calls wf with [], [], [] => true | _, _, _ => false end) ||
      (* ... or an entry of THIS mode and direction for one of its key sizes *)
      existsb (fun k => match cipher_names m k (d =? IMB_DIR_ENCRYPT) with
                        | Some n => entry_ok f n ws && flush_entry_ok false f n ws wf
                        | None => false end) all_klens
  | _, _, _ => false
  end.

Definition table_shape_ok (vt : variant_tables) : bool :=
  (N.of_nat (length (vt_submit_cipher vt)) =? 8 * ENCRYPT_DECRYPT_GAP) &&
  (N.of_nat (length (vt_flush_cipher vt)) =? 8 * ENCRYPT_DECRYPT_GAP) &&
  (N.of_nat (length (vt_submit_hash vt)) =? IMB_AUTH_NUM) &&
  (N.of_nat (length (vt_flush_hash vt)) =? IMB_AUTH_NUM) &&
  (* rows of enumerator values that do not exist are empty in both halves, in both cipher tables *)
  forallb (fun m => forallb (fun kc => forallb (fun e =>
     is_none (tab_get (vt_submit_cipher vt) (4 * m + kc + 128 * e)) &&
     is_none (tab_get (vt_flush_cipher vt) (4 * m + kc + 128 * e))) [0; 1]) [0; 1; 2; 3])
     (0 :: N_range IMB_CIPHER_NUM ENCRYPT_DECRYPT_GAP) &&
  is_none (tab_get (vt_submit_hash vt) 0) && is_none (tab_get (vt_flush_hash vt) 0).

Theorem enum_table_order_match_all :
  forallb (fun vt =>
    table_shape_ok vt &&
    forallb (fun m => forallb (fun kc => forallb (fun d => slot_belongs vt m kc d) all_dirs) [0; 1; 2; 3]) all_modes &&
    forallb (fun h => hash_side_ok_gen false vt h) all_hashes) all_variant_tables = true.
Proof. vm_cast_no_check (eq_refl true). Qed.

(* accepted cells hit a non-NULL entry inside the tables *)
Theorem index_in_bounds_all : forall vt c,
  In vt all_variant_tables -> In c all_cells -> accepted c = true -> excepted c = false ->
  calc_cipher_tab_index (c_mode c) (c_klen c) (c_dir c) < N.of_nat (length (vt_submit_cipher vt)) /\
  c_hash c < N.of_nat (length (vt_submit_hash vt)) /\
  tab_get (vt_submit_cipher vt) (calc_cipher_tab_index (c_mode c) (c_klen c) (c_dir c)) <> None /\
  tab_get (vt_flush_cipher vt) (calc_cipher_tab_index (c_mode c) (c_klen c) (c_dir c)) <> None /\
  tab_get (vt_submit_hash vt) (c_hash c) <> None /\ tab_get (vt_flush_hash vt) (c_hash c) <> None.
Proof.
  intros vt c Hvt Hc Ha He.
  destruct (accepted_cell_dispatch_all vt c Hvt Hc Ha He) as [H1 H2].
  pose proof enum_table_order_match_all as HS. rewrite forallb_forall in HS. specialize (HS vt Hvt).
  apply andb_true_iff in HS. destruct HS as [HS _]. apply andb_true_iff in HS. destruct HS as [HS _].
  unfold table_shape_ok in HS.
  apply andb_true_iff in HS; destruct HS as [HS _]. apply andb_true_iff in HS; destruct HS as [HS _].
  apply andb_true_iff in HS; destruct HS as [HS _]. apply andb_true_iff in HS; destruct HS as [HS _].
  apply andb_true_iff in HS; destruct HS as [HS H3]. apply andb_true_iff in HS; destruct HS as [HS _].
  apply N.eqb_eq in HS. apply N.eqb_eq in H3.
  pose proof (all_cells_inv c Hc) as (Hm & _ & _ & Hh & _).
  split; [rewrite HS; apply index_in_bounds_arith; apply all_modes_lt_gap; assumption |].
  split; [rewrite H3; apply N_range_In in Hh; [tauto | discriminate] |].
  unfold cipher_side_ok in H1. unfold hash_side_ok, hash_side_ok_gen in H2.
  destruct (find_variant_family vt); [| discriminate].
  destruct (cipher_names _ _ _); [| discriminate]. destruct (hash_names _); [| discriminate].
  destruct (tab_get (vt_submit_cipher vt) _); [| discriminate].
  destruct (tab_get (vt_flush_cipher vt) _); [| discriminate].
  destruct (tab_get (vt_submit_hash vt) _); [| discriminate].
  destruct (tab_get (vt_flush_hash vt) _); [| discriminate].
  repeat split; discriminate.
Qed.

(* ---- "exactly": over all symbols any table entry calls, a kernel names one algorithm (up to the documented sharing) ---- *)
Definition algs_named_by (sym : string) : list (N * N * N) := filter (names_alg sym) all_cipher_algs.
Definition hashes_named_by (sym : string) : list N := filter (names_hash sym) all_hashes.

Lemma names_exact_checked :
  forallb (fun sym =>
     (let l := algs_named_by sym in forallb (fun a => forallb (fun b => share_ok a b) l) l) &&
     (let l := hashes_named_by sym in forallb (fun a => forallb (fun b => hash_share_ok a b) l) l))
    all_called_symbols = true.
Proof. vm_cast_no_check (eq_refl true). Qed.

Theorem names_alg_exact : forall sym a b,
  In sym all_called_symbols -> In a all_cipher_algs -> In b all_cipher_algs ->
  names_alg sym a = true -> names_alg sym b = true -> share_ok a b = true.
Proof.
  intros sym a b Hs Ha Hb Na Nb. pose proof names_exact_checked as H.
  rewrite forallb_forall in H. specialize (H sym Hs). apply andb_true_iff in H. destruct H as [H _].
  cbv zeta in H. rewrite forallb_forall in H.
  assert (Ia : In a (algs_named_by sym)) by (apply filter_In; split; assumption).
  assert (Ib : In b (algs_named_by sym)) by (apply filter_In; split; assumption).
  specialize (H a Ia). rewrite forallb_forall in H. apply H. assumption.
Qed.

Theorem names_hash_exact : forall sym a b,
  In sym all_called_symbols -> In a all_hashes -> In b all_hashes ->
  names_hash sym a = true -> names_hash sym b = true -> hash_share_ok a b = true.
Proof.
  intros sym a b Hs Ha Hb Na Nb. pose proof names_exact_checked as H.
  rewrite forallb_forall in H. specialize (H sym Hs). apply andb_true_iff in H. destruct H as [_ H].
  cbv zeta in H. rewrite forallb_forall in H.
  assert (Ia : In a (hashes_named_by sym)) by (apply filter_In; split; assumption).
  assert (Ib : In b (hashes_named_by sym)) by (apply filter_In; split; assumption).
  specialize (H a Ia). rewrite forallb_forall in H. apply H. assumption.
Qed.

(* cipher modes with a combined kernel are exactly the cipher halves of the dedicated pairings other than CCM
   (whose MAC is a separate hash stage) -- sanity of [combined_cipher] against [aead_pairs] *)
Lemma combined_cipher_pairs :
  forallb (fun m => Bool.eqb (combined_cipher m)
                             (existsb (fun '(m', _) => (m =? m') && negb (m =? IMB_CIPHER_CCM)) aead_pairs)) all_modes = true.
Proof. vm_cast_no_check (eq_refl true). Qed.
