(* Proofs/StreamLemmas.v — lemmas shared by the C10 streaming proofs:
   lists (chunks / firstn / skipn / xor_bytes), 64-bit mask arithmetic, and the generic
   "block stream with carried leftover" theory (Section BlockStream) used for both the ChaCha20
   key stream (64-byte blocks, last_ks / remain_ks_bytes) and the GCM counter mode (16-byte
   blocks, partial_block_enc_key / partial_block_length). *)
From Coq Require Import List NArith Bool Lia Arith.
From IMB Require Import Lib.Bytes.
Import ListNotations.

(* ---------------------------------------------------------------------------------------- *)
(* lists *)

Lemma firstn_skipn_len : forall (A : Type) n (l : list A), length (firstn n l) = Nat.min n (length l).
Proof. intros. apply firstn_length. Qed.

Lemma skipn_all_ge : forall (A : Type) n (l : list A), length l <= n -> skipn n l = [].
Proof. intros. apply skipn_all2. assumption. Qed.

Lemma firstn_all_ge : forall (A : Type) n (l : list A), length l <= n -> firstn n l = l.
Proof. intros. apply firstn_all2. assumption. Qed.

Lemma skipn_nil_iff : forall (A : Type) n (l : list A), skipn n l = [] <-> length l <= n.
Proof.
  intros A n l. split.
  - intro H. assert (L := skipn_length n l). rewrite H in L. simpl in L. lia.
  - apply skipn_all2.
Qed.

Lemma skipn_skipn_add : forall (A : Type) a b (l : list A), skipn a (skipn b l) = skipn (b + a) l.
Proof.
  intros A a b. revert a. induction b; intros a l; simpl.
  - reflexivity.
  - destruct l; simpl. { now rewrite skipn_nil. } apply IHb.
Qed.

Lemma firstn_skipn_split : forall (A : Type) a b (l : list A),
  firstn (a + b) l = firstn a l ++ firstn b (skipn a l).
Proof.
  intros A a. induction a; intros b l; simpl.
  - reflexivity.
  - destruct l; simpl. { now rewrite firstn_nil. } f_equal. apply IHa.
Qed.

Lemma skipn_app_exact : forall (A : Type) (a b : list A) n, n = length a -> skipn n (a ++ b) = b.
Proof. intros. subst. rewrite skipn_app, Nat.sub_diag, skipn_all. reflexivity. Qed.

Lemma firstn_app_exact : forall (A : Type) (a b : list A) n, n = length a -> firstn n (a ++ b) = a.
Proof. intros. subst. rewrite firstn_app, Nat.sub_diag, firstn_all. simpl. apply app_nil_r. Qed.

(* ---------------------------------------------------------------------------------------- *)
(* chunks *)

Lemma chunks_fuel_indep : forall n f1 f2 l, 0 < n -> length l <= f1 -> length l <= f2 ->
  chunks_fuel f1 n l = chunks_fuel f2 n l.
Proof.
  intros n f1. induction f1; intros f2 l Hn H1 H2.
  - destruct l; simpl in *; [|lia]. destruct f2; reflexivity.
  - destruct l as [|x t]. { destruct f2; reflexivity. }
    destruct f2; simpl in H2; [lia|].
    cbn [chunks_fuel]. f_equal.
    assert (length (skipn n (x :: t)) <= length t).
    { rewrite skipn_length. cbn [length]. lia. }
    simpl in H1. apply IHf1; lia.
Qed.

Lemma chunks_nil : forall n, chunks n [] = [].
Proof. reflexivity. Qed.

Lemma chunks_cons : forall n l, 0 < n -> l <> [] ->
  chunks n l = firstn n l :: chunks n (skipn n l).
Proof.
  intros n l Hn Hl. unfold chunks. destruct l as [|x t]; [congruence|].
  cbn [length chunks_fuel]. f_equal.
  apply chunks_fuel_indep; auto.
  rewrite skipn_length. cbn [length]. lia.
Qed.

Lemma chunks_short : forall n l, 0 < n -> l <> [] -> length l <= n -> chunks n l = [l].
Proof.
  intros. rewrite chunks_cons by assumption.
  rewrite firstn_all2, skipn_all2 by assumption. reflexivity.
Qed.

(* strong induction on a list by chunks of n *)
Lemma chunk_ind : forall n, 0 < n -> forall (P : bytes -> Prop),
  P [] ->
  (forall l, l <> [] -> P (skipn n l) -> P l) ->
  forall l, P l.
Proof.
  intros n Hn P H0 Hs l.
  remember (length l) as k eqn:Hk. revert l Hk.
  induction k as [k IH] using lt_wf_ind. intros l Hk.
  destruct l as [|x t]. { exact H0. }
  apply Hs. { discriminate. }
  apply (IH (length (skipn n (x :: t)))); [|reflexivity].
  rewrite skipn_length. subst k. cbn [length]. lia.
Qed.

Lemma chunks_app : forall n a b k, 0 < n -> length a = n * k ->
  chunks n (a ++ b) = chunks n a ++ chunks n b.
Proof.
  intros n a b k Hn. revert a. induction k; intros a Ha.
  - rewrite Nat.mul_0_r in Ha. destruct a; [reflexivity|discriminate].
  - assert (Hlen : n <= length a) by nia.
    assert (Hne : a <> []) by (destruct a; simpl in *; [lia|discriminate]).
    rewrite (chunks_cons n a) by assumption.
    rewrite (chunks_cons n (a ++ b)) by (auto; destruct a; simpl; congruence).
    rewrite firstn_app, skipn_app.
    replace (n - length a) with 0 by lia. simpl firstn. simpl skipn. rewrite app_nil_r.
    cbn [app]. f_equal. apply IHk. rewrite skipn_length. nia.
Qed.

Lemma chunks_concat : forall n l, 0 < n -> concat (chunks n l) = l.
Proof.
  intros n l Hn. induction l using (chunk_ind n Hn); [reflexivity|].
  rewrite chunks_cons by assumption. simpl. rewrite IHl. apply firstn_skipn.
Qed.

Lemma chunks_length_mul : forall n l k, 0 < n -> length l = n * k -> length (chunks n l) = k.
Proof.
  intros n l k Hn. revert l. induction k; intros l Hl.
  - rewrite Nat.mul_0_r in Hl. destruct l; [reflexivity|discriminate].
  - rewrite chunks_cons; [|assumption|destruct l; simpl in *; [lia|discriminate]].
    simpl. f_equal. apply IHk. rewrite skipn_length. nia.
Qed.

Lemma chunks_eq_nil : forall n l, 0 < n -> chunks n l = [] -> l = [].
Proof.
  intros n l Hn H. destruct l; [reflexivity|].
  rewrite chunks_cons in H by (auto; discriminate). discriminate.
Qed.

Lemma chunks_last : forall n, 0 < n -> forall l, l <> [] ->
  last (chunks n l) [] <> [] /\ length (last (chunks n l) []) <= n.
Proof.
  intros n Hn l0.
  apply (chunk_ind n Hn (fun l => l <> [] ->
           last (chunks n l) [] <> [] /\ length (last (chunks n l) []) <= n)); [congruence|].
  intros l Hne IH _.
  rewrite chunks_cons by assumption.
  destruct (skipn n l) as [|y r] eqn:Es.
  - rewrite chunks_nil. cbn [last]. split.
    + destruct l; [congruence|]. destruct n; [lia|]. discriminate.
    + rewrite firstn_length. lia.
  - specialize (IH ltac:(discriminate)).
    destruct (chunks n (y :: r)) as [|c0 cs] eqn:Ec.
    + apply chunks_eq_nil in Ec; [discriminate|assumption].
    + exact IH.
Qed.

Lemma Forall_chunks16 : forall l k, length l = 16 * k -> Forall (fun b => length b = 16) (chunks 16 l).
Proof.
  intros l k. revert l. induction k; intros l Hl.
  - destruct l; [constructor|simpl in Hl; lia].
  - rewrite chunks_cons; [|lia|destruct l; simpl in *; [lia|discriminate]].
    constructor.
    + rewrite firstn_length. lia.
    + apply IHk. rewrite skipn_length. lia.
Qed.

Lemma N_to_le_length : forall n x, length (N_to_le n x) = n.
Proof. induction n; intros x; simpl; [reflexivity|]. now rewrite IHn. Qed.

Lemma N_to_be_length : forall n x, length (N_to_be n x) = n.
Proof. intros. unfold N_to_be. rewrite rev_length. apply N_to_le_length. Qed.

(* ---------------------------------------------------------------------------------------- *)
(* xor_bytes *)

Lemma xor_bytes_nil_r : forall a, xor_bytes a [] = [].
Proof. destruct a; reflexivity. Qed.

Lemma xor_bytes_length : forall a b, length (xor_bytes a b) = Nat.min (length a) (length b).
Proof.
  induction a; intros b; simpl; [reflexivity|].
  destruct b; simpl; [reflexivity|]. now rewrite IHa.
Qed.

Lemma xor_bytes_app : forall a1 a2 b1 b2, length a1 = length b1 ->
  xor_bytes (a1 ++ a2) (b1 ++ b2) = xor_bytes a1 b1 ++ xor_bytes a2 b2.
Proof.
  induction a1; intros a2 b1 b2 H; destruct b1; simpl in *; try discriminate.
  - reflexivity.
  - f_equal. apply IHa1. lia.
Qed.

Lemma xor_bytes_firstn_r : forall a b, xor_bytes a b = xor_bytes a (firstn (length a) b).
Proof.
  induction a; intros b; simpl; [reflexivity|].
  destruct b; simpl; [reflexivity|]. f_equal. apply IHa.
Qed.

Lemma xor_bytes_split : forall a b n,
  xor_bytes a b = xor_bytes (firstn n a) b ++ xor_bytes (skipn n a) (skipn n b).
Proof.
  intros a b n. revert a b. induction n; intros a b; simpl.
  - reflexivity.
  - destruct a; simpl; [reflexivity|]. destruct b; simpl.
    + now rewrite xor_bytes_nil_r.
    + f_equal. apply IHn.
Qed.

(* ---------------------------------------------------------------------------------------- *)
(* masks *)
Local Open Scope N_scope.

Lemma w64_mod : forall x, w64 x = x mod 2 ^ 64.
Proof. intros. unfold w64, mask64. change 18446744073709551615 with (N.ones 64). apply N.land_ones. Qed.

Lemma w32_mod : forall x, w32 x = x mod 2 ^ 32.
Proof. intros. unfold w32, mask32. change 4294967295 with (N.ones 32). apply N.land_ones. Qed.

Lemma land15_mod : forall x, N.land x 15 = x mod 16.
Proof. intros. change 15 with (N.ones 4). rewrite N.land_ones. reflexivity. Qed.

(* x & 0xfffffffffffffff0 = x - x mod 16 for a 64-bit x *)
Lemma land_clamp : forall x, x < 2 ^ 64 -> N.land x 18446744073709551600 = x - x mod 16.
Proof.
  intros x Hx.
  assert (E1 : x - x mod 16 = N.shiftl (N.shiftr x 4) 4).
  { rewrite N.shiftl_mul_pow2, N.shiftr_div_pow2. change (2 ^ 4) with 16.
    pose proof (N.div_mod x 16 ltac:(lia)) as D. pose proof (N.mod_lt x 16 ltac:(lia)). lia. }
  rewrite E1. apply N.bits_inj. intro n.
  rewrite N.land_spec.
  destruct (N.ltb_spec n 4) as [Hn|Hn].
  - rewrite N.shiftl_spec_low by assumption.
    change 18446744073709551600 with (N.shiftl (N.ones 60) 4).
    rewrite N.shiftl_spec_low by assumption. apply andb_false_r.
  - rewrite N.shiftl_spec_high' by assumption. rewrite N.shiftr_spec'.
    replace (n - 4 + 4) with n by lia.
    change 18446744073709551600 with (N.shiftl (N.ones 60) 4).
    rewrite N.shiftl_spec_high' by assumption.
    destruct (N.ltb_spec (n - 4) 60) as [Hm|Hm].
    + rewrite N.ones_spec_low by assumption. apply andb_true_r.
    + rewrite N.ones_spec_high by assumption. rewrite andb_false_r.
      symmetry. destruct (N.eq_dec x 0) as [->|Hx0]. { apply N.bits_0. }
      apply N.bits_above_log2.
      assert (N.log2 x < 64). { apply N.log2_lt_pow2; lia. }
      lia.
Qed.

(* ---------------------------------------------------------------------------------------- *)
(* Block stream with leftover.  [blk c] is the key-stream block of counter value [c] (always
   [bs] bytes), [nxt] the counter increment.  A state is (c, buf): the last counter used and the
   unused tail of its block. *)
Local Close Scope N_scope.

Section BlockStream.
  Variable bs : nat.
  Hypothesis bs_pos : 0 < bs.
  Variable blk : N -> bytes.
  Hypothesis blk_len : forall c, length (blk c) = bs.
  Variable nxt : N -> N.

  (* whole / partial chunks xored with the blocks of counters c, nxt c, ... *)
  Fixpoint str_chunks (c : N) (cs : list bytes) : bytes :=
    match cs with
    | [] => []
    | x :: t => xor_bytes x (blk c) ++ str_chunks (nxt c) t
    end.

  (* byte-level reference: consume the buffer, refill from the next block when it is empty *)
  Fixpoint ref (c : N) (buf : bytes) (msg : bytes) : bytes * (N * bytes) :=
    match msg with
    | [] => ([], (c, buf))
    | m :: t =>
        let '(c1, buf1) := match buf with [] => (nxt c, blk (nxt c)) | _ :: _ => (c, buf) end in
        match buf1 with
        | [] => ([], (c1, []))          (* unreachable: blocks are never empty *)
        | k :: buf2 => let '(o, st) := ref c1 buf2 t in (N.lxor m k :: o, st)
        end
    end.

  Definition ref_out c buf msg := fst (ref c buf msg).
  Definition ref_st c buf msg := snd (ref c buf msg).

  Lemma blk_cons : forall c, exists k t, blk c = k :: t.
  Proof.
    intro c. specialize (blk_len c). destruct (blk c) as [|k t]; simpl in *; [lia|]. eauto.
  Qed.

  Lemma ref_app : forall a b c buf,
    ref c buf (a ++ b) =
    (ref_out c buf a ++ ref_out (fst (ref_st c buf a)) (snd (ref_st c buf a)) b,
     ref_st (fst (ref_st c buf a)) (snd (ref_st c buf a)) b).
  Proof.
    unfold ref_out, ref_st.
    induction a as [|m t IH]; intros b c buf.
    - simpl. destruct (ref c buf b); reflexivity.
    - cbn [app ref].
      destruct buf as [|k0 buf0].
      + destruct (blk_cons (nxt c)) as (k & r & Hk). rewrite Hk.
        rewrite IH. destruct (ref (nxt c) r t) as [o st]. reflexivity.
      + rewrite IH. destruct (ref c buf0 t) as [o st]. reflexivity.
  Qed.

  (* consuming no more than the buffer *)
  Lemma ref_within : forall msg c buf, length msg <= length buf ->
    ref c buf msg = (xor_bytes msg buf, (c, skipn (length msg) buf)).
  Proof.
    induction msg as [|m t IH]; intros c buf H.
    - reflexivity.
    - destruct buf as [|k r]; simpl in H; [lia|].
      cbn [ref]. rewrite IH by lia. reflexivity.
  Qed.

  (* an empty buffer and at most one block of text *)
  Lemma ref_one_block : forall msg c, msg <> [] -> length msg <= bs ->
    ref c [] msg = (xor_bytes msg (blk (nxt c)), (nxt c, skipn (length msg) (blk (nxt c)))).
  Proof.
    intros msg c Hne Hlen. destruct msg as [|m t]; [congruence|].
    cbn [ref]. destruct (blk_cons (nxt c)) as (k & r & Hk). rewrite Hk.
    assert (length (k :: r) = bs) by (rewrite <- Hk; apply blk_len).
    simpl in *. rewrite ref_within by lia. reflexivity.
  Qed.

  Fixpoint iter_nxt (n : nat) (c : N) : N :=
    match n with O => c | S k => iter_nxt k (nxt c) end.

  Lemma iter_nxt_S : forall n c, iter_nxt (S n) c = iter_nxt n (nxt c).
  Proof. reflexivity. Qed.

  (* an empty buffer and any text: chunk-wise description *)
  Lemma ref_chunks : forall msg c, msg <> [] ->
    ref c [] msg =
    (str_chunks (nxt c) (chunks bs msg),
     (iter_nxt (length (chunks bs msg)) c,
      skipn (length (last (chunks bs msg) [])) (blk (iter_nxt (length (chunks bs msg)) c)))).
  Proof.
    intro msg0.
    apply (chunk_ind bs bs_pos (fun msg => forall c, msg <> [] ->
      ref c [] msg =
      (str_chunks (nxt c) (chunks bs msg),
       (iter_nxt (length (chunks bs msg)) c,
        skipn (length (last (chunks bs msg) [])) (blk (iter_nxt (length (chunks bs msg)) c))))));
      [intros c Hc; exfalso; apply Hc; reflexivity|].
    clear msg0. intros msg Hne IHmsg c _.
    rewrite chunks_cons by assumption.
    destruct (Nat.le_gt_cases (length msg) bs) as [Hs|Hl].
    - (* single (possibly partial) block *)
      rewrite skipn_all2 by assumption. rewrite firstn_all2 by assumption.
      rewrite chunks_nil. cbn [str_chunks length last]. rewrite app_nil_r.
      rewrite ref_one_block by assumption. reflexivity.
    - assert (Hsk : skipn bs msg <> []).
      { intro E. apply skipn_nil_iff in E. lia. }
      rewrite <- (firstn_skipn bs msg) at 1.
      rewrite ref_app. unfold ref_out, ref_st.
      rewrite ref_one_block; [| intro E; apply (f_equal (@length _)) in E; rewrite firstn_length in E; simpl in E; lia
                              | rewrite firstn_length; lia].
      cbn [fst snd]. rewrite firstn_length. replace (Nat.min bs (length msg)) with bs by lia.
      rewrite skipn_all2 by (rewrite blk_len; lia).
      rewrite (IHmsg _ Hsk). cbn [fst snd str_chunks length].
      rewrite iter_nxt_S.
      f_equal. f_equal. f_equal.
      destruct (chunks bs (skipn bs msg)) eqn:Ec.
      + apply chunks_eq_nil in Ec; [congruence|exact bs_pos].
      + reflexivity.
  Qed.

  (* the step both assembly kernels implement: leftover first, then chunks *)
  Definition carry_step (c : N) (lo : bytes) (src : bytes) : bytes * (N * bytes) :=
    let n := Nat.min (length src) (length lo) in
    let out1 := xor_bytes (firstn n src) lo in
    let src2 := skipn n src in
    match src2 with
    | [] => (out1, (c, skipn n lo))
    | _ :: _ =>
        let cs := chunks bs src2 in
        let c' := iter_nxt (length cs) c in
        (out1 ++ str_chunks (nxt c) cs, (c', skipn (length (last cs [])) (blk c')))
    end.

  Lemma carry_step_ref : forall c lo src, carry_step c lo src = ref c lo src.
  Proof.
    intros c lo src. unfold carry_step.
    set (n := Nat.min (length src) (length lo)).
    replace (ref c lo src) with (ref c lo (firstn n src ++ skipn n src)) by (now rewrite firstn_skipn).
    rewrite ref_app. unfold ref_out, ref_st.
    assert (Hf : length (firstn n src) = n) by (rewrite firstn_length; unfold n; lia).
    rewrite ref_within by (rewrite Hf; unfold n; lia).
    cbn [fst snd]. rewrite Hf.
    destruct (skipn n src) as [|y r] eqn:Es.
    - simpl. rewrite app_nil_r. reflexivity.
    - assert (Hlo : skipn n lo = []).
      { apply skipn_all2. apply (f_equal (@length _)) in Es. rewrite skipn_length in Es.
        simpl in Es. unfold n in *. lia. }
      rewrite Hlo. rewrite ref_chunks by discriminate. reflexivity.
  Qed.

  (* position bookkeeping: after p bytes from a fresh state the counter has advanced
     ceil(p/bs) times and the buffer holds the unused tail of that block *)
  Definition pos_inv (c0 : N) (p : nat) (st : N * bytes) : Prop :=
    exists k, fst st = iter_nxt k c0 /\ length (snd st) + p = bs * k /\ length (snd st) < bs /\
              (snd st <> [] -> snd st = skipn (bs - length (snd st)) (blk (fst st))).

  Lemma iter_nxt_succ : forall k c, nxt (iter_nxt k c) = iter_nxt (S k) c.
  Proof. induction k; intros c; [reflexivity|]. simpl. rewrite IHk. reflexivity. Qed.

  Lemma ref_pos_inv : forall msg c0 p c buf, pos_inv c0 p (c, buf) ->
    pos_inv c0 (p + length msg) (ref_st c buf msg).
  Proof.
    unfold ref_st.
    induction msg as [|m t IH]; intros c0 p c buf Hinv.
    - simpl. rewrite Nat.add_0_r. exact Hinv.
    - cbn [ref]. destruct Hinv as (k & Hc & Hp & Hlt & Hb). cbn [fst snd] in *.
      destruct buf as [|k0 buf0].
      + destruct (blk_cons (nxt c)) as (kk & r & Hk). rewrite Hk.
        assert (Hr : length (kk :: r) = bs) by (rewrite <- Hk; apply blk_len).
        specialize (IH c0 (S p) (nxt c) r).
        destruct (ref (nxt c) r t) as [o st]. cbn [snd].
        replace (p + length (m :: t)) with (S p + length t) by (simpl; lia).
        apply IH. exists (S k). cbn [fst snd]. simpl in Hr, Hp.
        repeat split.
        * rewrite Hc. apply iter_nxt_succ.
        * nia.
        * lia.
        * intros _. rewrite Hk. replace (bs - length r) with 1 by lia. reflexivity.
      + specialize (IH c0 (S p) c buf0).
        destruct (ref c buf0 t) as [o st]. cbn [snd].
        replace (p + length (m :: t)) with (S p + length t) by (simpl; lia).
        apply IH. exists k. cbn [fst snd]. simpl in Hp, Hlt.
        repeat split; try assumption; try lia.
        intros Hne. specialize (Hb ltac:(discriminate)).
        simpl length in Hb.
        assert (E : skipn 1 (k0 :: buf0) = buf0) by reflexivity.
        rewrite Hb in E. rewrite skipn_skipn_add in E.
        transitivity (skipn (bs - S (length buf0) + 1) (blk c)); [symmetry; exact E | f_equal; lia].
  Qed.

  Lemma pos_inv_init : forall c0, pos_inv c0 0 (c0, []).
  Proof.
    intros. exists 0. cbn. repeat split; try lia. congruence.
  Qed.
End BlockStream.
