(* Proofs/GeomProofs.v — C03 structural proofs, part 5: position arithmetic of the CRC / BIP
   fields inside DOCSIS and PON frames (Spec/CRC.v docsis_*, Spec/PON.v), for every accepted
   geometry / PLI / length, and the two directions: decrypt(encrypt) restores the frame (with
   its inserted CRC) and reproduces the identical tag.  Generic in the cipher. *)
From Coq Require Import List NArith ZArith Bool Lia Arith PeanoNat ZifyNat ZifyN.
From IMB Require Import Lib.Bytes Proofs.BytesLemmas Proofs.HashProofs Proofs.GcmFormatProofs
                        Spec.CRC Spec.PON.
Import ListNotations.

Ltac Zify.zify_post_hook ::= Z.div_mod_to_equations.

(* ------------------------------------------------------------------------- *)
(* splice / slice                                                             *)
(* ------------------------------------------------------------------------- *)

Lemma splice_length buf off data : off + length data <= length buf ->
  length (splice buf off data) = length buf.
Proof.
  intros H. unfold splice. rewrite !app_length, firstn_length_le, skipn_length by lia. lia.
Qed.

Lemma slice_length buf off len : off + len <= length buf -> length (slice buf off len) = len.
Proof. intros H. unfold slice. rewrite firstn_length_le; [reflexivity|]. rewrite skipn_length. lia. Qed.

Lemma slice_splice_same buf off data : off + length data <= length buf ->
  slice (splice buf off data) off (length data) = data.
Proof.
  intros H. unfold slice, splice.
  rewrite skipn_app_l by (rewrite firstn_length_le; lia).
  apply firstn_app_l. reflexivity.
Qed.

Lemma splice_firstn buf off data n : n <= off -> off <= length buf ->
  firstn n (splice buf off data) = firstn n buf.
Proof.
  intros Hn Ho. unfold splice. rewrite firstn_app, firstn_firstn.
  rewrite firstn_length_le by lia. replace (n - off) with 0 by lia.
  rewrite firstn_O, app_nil_r. f_equal. lia.
Qed.

Lemma splice_skipn buf off data : off + length data <= length buf ->
  skipn (off + length data) (splice buf off data) = skipn (off + length data) buf.
Proof.
  intros H. unfold splice. rewrite app_assoc. apply skipn_app_l.
  rewrite app_length, firstn_length_le by lia. reflexivity.
Qed.

Lemma slice_splice_before buf off data a n : a + n <= off -> off <= length buf ->
  slice (splice buf off data) a n = slice buf a n.
Proof.
  intros H Ho. unfold slice. rewrite !firstn_skipn_comm.
  rewrite (splice_firstn buf off data (a + n)) by lia. reflexivity.
Qed.

Lemma splice_splice buf off d1 d2 : length d1 = length d2 -> off + length d1 <= length buf ->
  splice (splice buf off d1) off d2 = splice buf off d2.
Proof.
  intros Hl H. unfold splice at 1 3.
  rewrite (splice_firstn buf off d1 off) by lia.
  rewrite <- Hl, splice_skipn by lia. reflexivity.
Qed.

Lemma splice_slice_id buf off len : off + len <= length buf ->
  splice buf off (slice buf off len) = buf.
Proof.
  intros H. unfold splice. rewrite slice_length by exact H. unfold slice.
  rewrite <- (firstn_skipn off buf) at 4. f_equal.
  rewrite <- (firstn_skipn len (skipn off buf)) at 2. f_equal.
  rewrite skipn_skipn. f_equal. lia.
Qed.

(* ------------------------------------------------------------------------- *)
(* DOCSIS                                                                     *)
(* ------------------------------------------------------------------------- *)

Lemma le32_length x : length (le32 x) = 4.
Proof. apply N_to_le_length. Qed.

(* THEOREM docsis_crc_geometry *)
Theorem docsis_crc_geometry_thm buf ho hl co cl :
  (* what the job checker guarantees *)
  (docsis_job_geometry_accepted ho hl co cl = true -> cl <> 0 -> hl <> 0 ->
     cl + 8 <= hl /\ ho + 12 <= co) /\
  (* CRC computed and inserted iff the hashed region has at least 14 bytes *)
  (docsis_crc_enabled hl = true <-> 14 <= hl) /\
  (docsis_crc_enabled hl = false ->
     docsis_crc_insert buf ho hl = buf /\ docsis_crc_tag buf ho hl = None) /\
  (* when enabled and the 4 bytes after the hashed region are inside the buffer: exactly those
     4 bytes change, they hold the little-endian CRC of the hashed region, which itself is
     untouched *)
  (docsis_crc_enabled hl = true -> ho + hl + 4 <= length buf ->
     let buf1 := docsis_crc_insert buf ho hl in
     let crc := le32 (docsis_crc32 (slice buf ho hl)) in
     length buf1 = length buf /\
     slice buf1 (ho + hl) 4 = crc /\
     firstn (ho + hl) buf1 = firstn (ho + hl) buf /\
     skipn (ho + hl + 4) buf1 = skipn (ho + hl + 4) buf /\
     slice buf1 ho hl = slice buf ho hl /\
     docsis_crc_tag buf ho hl = Some crc) /\
  (* standard geometry: the ciphered region starts after DA+SA and ends exactly with the CRC
     field; the whole CRC is ciphered as soon as at least 4 bytes are *)
  (docsis_geometry_std ho hl co cl = true -> cl <> 0 -> docsis_crc_enabled hl = true ->
     ho + 12 <= co /\ (4 <= cl -> co <= ho + hl) /\ co + cl = ho + hl + 4).
Proof.
  repeat split.
  - unfold docsis_job_geometry_accepted in H.
    destruct (Nat.eqb_spec cl 0); [contradiction|]. destruct (Nat.eqb_spec hl 0); [contradiction|].
    cbn [orb] in H. apply andb_prop in H. destruct H as [H _]. apply Nat.leb_le in H. exact H.
  - unfold docsis_job_geometry_accepted in H.
    destruct (Nat.eqb_spec cl 0); [contradiction|]. destruct (Nat.eqb_spec hl 0); [contradiction|].
    cbn [orb] in H. apply andb_prop in H. destruct H as [_ H]. apply Nat.leb_le in H. exact H.
  - unfold docsis_crc_enabled, docsis_crc_min_len. intros H. apply Nat.leb_le in H. exact H.
  - unfold docsis_crc_enabled, docsis_crc_min_len. intros H. apply Nat.leb_le. exact H.
  - unfold docsis_crc_insert. rewrite H. reflexivity.
  - unfold docsis_crc_tag. rewrite H. reflexivity.
  - unfold docsis_crc_insert. rewrite H. apply splice_length. rewrite le32_length. lia.
  - unfold docsis_crc_insert. rewrite H.
    rewrite <- (le32_length (docsis_crc32 (slice buf ho hl))) at 1.
    apply slice_splice_same. rewrite le32_length. lia.
  - unfold docsis_crc_insert. rewrite H. apply splice_firstn; lia.
  - unfold docsis_crc_insert. rewrite H.
    rewrite <- (le32_length (docsis_crc32 (slice buf ho hl))).
    apply splice_skipn. rewrite le32_length. lia.
  - unfold docsis_crc_insert. rewrite H. apply slice_splice_before; lia.
  - unfold docsis_crc_tag. rewrite H. reflexivity.
  - unfold docsis_geometry_std in H. rewrite H1 in H.
    destruct (Nat.eqb_spec cl 0); [contradiction|]. cbn [negb orb] in H.
    apply andb_prop in H. destruct H as [H _]. apply Nat.leb_le in H. exact H.
  - unfold docsis_geometry_std in H. rewrite H1 in H.
    destruct (Nat.eqb_spec cl 0); [contradiction|]. cbn [negb orb] in H.
    apply andb_prop in H. destruct H as [Ha Hb]. apply Nat.leb_le in Ha. apply Nat.eqb_eq in Hb.
    lia.
  - unfold docsis_geometry_std in H. rewrite H1 in H.
    destruct (Nat.eqb_spec cl 0); [contradiction|]. cbn [negb orb] in H.
    apply andb_prop in H. destruct H as [_ Hb]. apply Nat.eqb_eq in Hb. exact Hb.
Qed.

(* THEOREM docsis_dec_enc: for any BPI cipher pair that is length preserving and mutually
   inverse, any geometry inside the buffer: decrypting the encrypted frame gives back the frame
   with its CRC inserted, and the decrypt job reports the identical CRC tag *)
Theorem docsis_dec_enc_thm bpi_enc bpi_dec key iv buf ho hl co cl :
  (forall m, length (bpi_enc key iv m) = length m) ->
  (forall m, length (bpi_dec key iv m) = length m) ->
  (forall m, bpi_dec key iv (bpi_enc key iv m) = m) ->
  co + cl <= length buf ->
  (docsis_crc_enabled hl = true -> ho + hl + 4 <= length buf) ->
  docsis_crc_dec bpi_dec key iv (fst (docsis_crc_enc bpi_enc key iv buf ho hl co cl)) ho hl co cl =
  (docsis_crc_insert buf ho hl, snd (docsis_crc_enc bpi_enc key iv buf ho hl co cl)).
Proof.
  intros Le Ld Inv Hc Hh. unfold docsis_crc_dec, docsis_crc_enc. cbn [fst snd].
  set (buf1 := docsis_crc_insert buf ho hl).
  assert (Hl1 : length buf1 = length buf).
  { unfold buf1, docsis_crc_insert. destruct (docsis_crc_enabled hl) eqn:En; [|reflexivity].
    apply splice_length. rewrite le32_length. specialize (Hh eq_refl). lia. }
  assert (Hs1 : slice buf1 ho hl = slice buf ho hl).
  { unfold buf1, docsis_crc_insert. destruct (docsis_crc_enabled hl) eqn:En; [|reflexivity].
    specialize (Hh eq_refl). apply slice_splice_before; lia. }
  assert (Hr : docsis_cipher_region (bpi_dec key iv)
                 (docsis_cipher_region (bpi_enc key iv) buf1 co cl) co cl = buf1).
  { unfold docsis_cipher_region.
    set (P := slice buf1 co cl).
    assert (HP : length P = cl) by (apply slice_length; lia).
    set (X := firstn cl (bpi_enc key iv P)).
    assert (EX : X = bpi_enc key iv P) by (apply firstn_ge_all; rewrite Le, HP; lia).
    assert (HX : length X = cl) by (rewrite EX, Le; exact HP).
    rewrite <- HX at 2. rewrite slice_splice_same by (rewrite HX; lia).
    rewrite EX at 2. rewrite Inv.
    rewrite (firstn_ge_all P cl) by lia.
    rewrite splice_splice by (rewrite ?HX, ?HP; lia || reflexivity).
    apply splice_slice_id. lia. }
  rewrite Hr. f_equal. unfold docsis_crc_tag. rewrite Hs1. reflexivity.
Qed.

(* ------------------------------------------------------------------------- *)
(* bounds through bit positions                                                *)
(* ------------------------------------------------------------------------- *)

Definition hi_zero (n x : N) : Prop := forall i, (n <= i)%N -> N.testbit x i = false.

Lemma hi_zero_lt n x : hi_zero n x -> (x < 2 ^ n)%N.
Proof.
  intros H. destruct (N.eq_dec x 0) as [->|Hx]; [apply N.neq_0_lt_0, N.pow_nonzero; discriminate|].
  apply N.log2_lt_pow2; [lia|].
  destruct (N.lt_ge_cases (N.log2 x) n) as [Hl|Hl]; [exact Hl|].
  specialize (H (N.log2 x) Hl). rewrite N.bit_log2 in H by exact Hx. discriminate.
Qed.

Lemma lt_hi_zero n x : (x < 2 ^ n)%N -> hi_zero n x.
Proof.
  intros H i Hi. destruct (N.eq_dec x 0) as [->|Hx]; [apply N.bits_0|].
  apply N.bits_above_log2. apply N.log2_lt_pow2 in H; lia.
Qed.

Lemma hi_zero_lor n a b : hi_zero n a -> hi_zero n b -> hi_zero n (N.lor a b).
Proof. intros Ha Hb i Hi. rewrite N.lor_spec, Ha, Hb by exact Hi. reflexivity. Qed.

Lemma hi_zero_lxor n a b : hi_zero n a -> hi_zero n b -> hi_zero n (N.lxor a b).
Proof. intros Ha Hb i Hi. rewrite N.lxor_spec, Ha, Hb by exact Hi. reflexivity. Qed.

Lemma hi_zero_land_ones n x : hi_zero n (N.land x (N.ones n)).
Proof. intros i Hi. rewrite N.land_spec, N.ones_spec_high by exact Hi. apply andb_false_r. Qed.

Lemma hi_zero_shiftl n k a : hi_zero n a -> hi_zero (n + k) (N.shiftl a k).
Proof.
  intros Ha i Hi. rewrite N.shiftl_spec_high' by lia. apply Ha. lia.
Qed.

Lemma hi_zero_mono n m x : (n <= m)%N -> hi_zero n x -> hi_zero m x.
Proof. intros H Hx i Hi. apply Hx. lia. Qed.

Lemma w8_hi_zero x : hi_zero 8 (w8 x).
Proof. unfold w8. rewrite mask8_ones. apply hi_zero_land_ones. Qed.

Lemma be_to_N_hi_zero l : hi_zero (8 * N.of_nat (length l)) (be_to_N l).
Proof.
  induction l as [|b l IH]; [intros i _; apply N.bits_0|].
  cbn [be_to_N]. apply hi_zero_lor.
  - replace (8 * N.of_nat (length (b :: l)))%N with (8 + 8 * N.of_nat (length l))%N
      by (cbn [length]; lia).
    apply hi_zero_shiftl, w8_hi_zero.
  - eapply hi_zero_mono; [|exact IH]. cbn [length]. lia.
Qed.

Lemma shiftr_small x k : hi_zero k x -> N.shiftr x k = 0%N.
Proof.
  intros H. apply N.bits_inj. intros i. rewrite N.shiftr_spec', N.bits_0. apply H. lia.
Qed.

(* the leading n bytes of a big-endian string = the integer shifted right *)
Lemma be_to_N_firstn l n : n <= length l ->
  be_to_N (firstn n l) = N.shiftr (be_to_N l) (8 * N.of_nat (length l - n)).
Proof.
  intros H. rewrite <- (firstn_skipn n l) at 2. rewrite be_to_N_app, skipn_length.
  rewrite N.shiftr_lor, N.shiftr_shiftl_l by lia.
  rewrite N.sub_diag, N.shiftl_0_r.
  rewrite (shiftr_small (be_to_N (skipn n l))).
  - rewrite N.lor_0_r. reflexivity.
  - rewrite <- skipn_length. apply be_to_N_hi_zero.
Qed.

(* ------------------------------------------------------------------------- *)
(* PON                                                                        *)
(* ------------------------------------------------------------------------- *)

Lemma pon_pli_as_shift buf : 8 <= length buf ->
  pon_pli buf = N.shiftr (be_to_N (firstn 8 buf)) 50.
Proof.
  intros H. unfold pon_pli.
  assert (E : firstn 2 buf = firstn 2 (firstn 8 buf)) by (rewrite firstn_firstn; reflexivity).
  rewrite E, be_to_N_firstn by (rewrite firstn_length_le; lia).
  rewrite firstn_length_le by lia. rewrite N.shiftr_shiftr. reflexivity.
Qed.

(* PLI is a 14-bit field *)
Lemma pon_pli_lt buf : (pon_pli buf < 2 ^ 14)%N.
Proof.
  apply hi_zero_lt. unfold pon_pli. intros i Hi. rewrite N.shiftr_spec'.
  assert (Hl : length (firstn 2 buf) <= 2) by (rewrite firstn_length; lia).
  apply (hi_zero_mono (8 * N.of_nat (length (firstn 2 buf))) 16); [lia|apply be_to_N_hi_zero|lia].
Qed.

Lemma crc_bit_12_hi_zero reg bit : hi_zero 12 (crc_bit 12 4095 1337 reg bit).
Proof.
  unfold crc_bit. change 4095%N with (N.ones 12).
  destruct (xorb _ bit).
  - apply hi_zero_lxor; [apply hi_zero_land_ones|]. apply lt_hi_zero. reflexivity.
  - apply hi_zero_land_ones.
Qed.

Lemma hec_crc12_hi_zero n : forall v reg, hi_zero 12 reg -> hi_zero 12 (hec_crc12 n v reg).
Proof.
  induction n as [|n IH]; intros v reg H; cbn [hec_crc12]; [exact H|].
  apply IH. apply crc_bit_12_hi_zero.
Qed.

Lemma parity_le_1 x : hi_zero 1 (parity x).
Proof. unfold parity. change 1%N with (N.ones 1) at 2. apply hi_zero_land_ones. Qed.

(* the HEC update rewrites only the low 13 bits *)
Lemma hec_update_high n h : N.shiftr (hec_update n h) 13 = N.shiftr h 13.
Proof.
  unfold hec_update. set (v := N.shiftr h 13).
  set (c := hec_crc12 (n - 13) v 0).
  assert (Hc : hi_zero 13 (N.shiftl c 1)).
  { change 13%N with (12 + 1)%N. apply hi_zero_shiftl. apply hec_crc12_hi_zero.
    intros i _. apply N.bits_0. }
  rewrite !N.shiftr_lor. rewrite N.shiftr_shiftl_l by lia.
  rewrite N.sub_diag, N.shiftl_0_r.
  rewrite (shiftr_small _ 13 Hc).
  rewrite (shiftr_small (parity _) 13) by (eapply hi_zero_mono; [|apply parity_le_1]; lia).
  rewrite !N.lor_0_r. reflexivity.
Qed.

Lemma hec_64_length h : length (hec_64 h) = 8.
Proof. apply N_to_be_length. Qed.

(* the encrypt direction's HEC rewrite leaves the PLI unchanged *)
Lemma pon_pli_hec buf rest : 8 <= length buf ->
  pon_pli (hec_64 (firstn pon_hdr_len buf) ++ rest) = pon_pli buf.
Proof.
  intros H. unfold pon_hdr_len.
  rewrite pon_pli_as_shift by (rewrite app_length, hec_64_length; lia).
  rewrite firstn_app_l by (symmetry; apply hec_64_length).
  rewrite (pon_pli_as_shift buf H).
  unfold hec_64. rewrite firstn_firstn. change (Nat.min 8 8) with 8.
  set (h := be_to_N (firstn 8 buf)).
  rewrite be_to_N_N_to_be. change (8 * N.of_nat 8)%N with 64%N.
  (* shifting by 50 < 64 drops the mask *)
  apply N.bits_inj. intros i. rewrite !N.shiftr_spec', N.land_spec.
  replace (i + 50)%N with (i + 37 + 13)%N by lia.
  rewrite <- !N.shiftr_spec', hec_update_high, !N.shiftr_spec'.
  replace (i + 37 + 13)%N with (i + 50)%N by lia.
  destruct (N.ltb_spec (i + 50) 64).
  - rewrite N.ones_spec_low by lia. apply andb_true_r.
  - rewrite N.ones_spec_high by lia. rewrite andb_false_r.
    symmetry.
    assert (Hh : hi_zero 64 h).
    { unfold h. eapply hi_zero_mono; [|apply be_to_N_hi_zero].
      rewrite firstn_length_le by lia. reflexivity. }
    apply Hh. lia.
Qed.

Lemma pon_bip_aux_length : forall n l a b c d, length l <= n -> length (pon_bip_aux l a b c d) = 4.
Proof.
  induction n as [|n IH]; intros l a b c d H.
  - destruct l; [reflexivity|cbn [length] in H; lia].
  - destruct l as [|x0 [|x1 [|x2 [|x3 t]]]]; try reflexivity.
    cbn [pon_bip_aux]. apply IH. cbn [length] in H. lia.
Qed.

Lemma pon_bip_length frame : length (pon_bip frame) = 4.
Proof. unfold pon_bip. apply (pon_bip_aux_length (length frame)). lia. Qed.

(* THEOREM pon_geometry: for every frame of at least 8 bytes whose PLI is consistent with the
   payload (PLI <= 4 or PLI <= |payload|, what the library checks), and any length-preserving
   counter-mode function *)
Theorem pon_geometry_thm ctr key iv buf :
  8 <= length buf ->
  (forall m, length (ctr key iv m) = length m) ->
  let payload := skipn pon_hdr_len buf in
  let pli := pon_pli buf in
  ((pli <= 4)%N \/ (pli <= N.of_nat (length payload))%N) ->
  (* PLI is 14 bits; CRC present iff PLI > 4 *)
  (pli < 2 ^ 14)%N /\
  (pon_crc_enabled buf = true <-> (4 < pli)%N) /\
  (* the CRC covers payload[0, PLI-4) and sits in payload[PLI-4, PLI), i.e. at frame offset
     PLI+4 .. PLI+8, inside the frame *)
  (pon_crc_enabled buf = true ->
     pon_crc_len buf + 4 = N.to_nat pli /\ pon_crc_len buf + 4 <= length payload /\
     pon_hdr_len + pon_crc_len buf + 4 <= length buf) /\
  (* output frame has the input's length; tag = BIP(4) ++ CRC(4) or BIP(4) *)
  length (fst (pon_enc ctr key iv buf)) = length buf /\
  length (snd (pon_enc ctr key iv buf)) = (if pon_crc_enabled buf then 8 else 4) /\
  length (fst (pon_dec ctr key iv buf)) = length buf /\
  length (snd (pon_dec ctr key iv buf)) = (if pon_crc_enabled buf then 8 else 4).
Proof.
  intros Hlen Hctr payload pli Hpli.
  assert (Hp : length payload = length buf - 8) by (unfold payload, pon_hdr_len; apply skipn_length).
  assert (Hen : pon_crc_enabled buf = true <-> (4 < pli)%N).
  { unfold pon_crc_enabled. fold pli. apply N.ltb_lt. }
  assert (Hcrc : pon_crc_enabled buf = true ->
     pon_crc_len buf + 4 = N.to_nat pli /\ pon_crc_len buf + 4 <= length payload /\
     pon_hdr_len + pon_crc_len buf + 4 <= length buf).
  { intros En. apply Hen in En. unfold pon_crc_len, pon_hdr_len. fold pli.
    destruct Hpli as [Hs|Hs]; [lia|]. lia. }
  repeat split; try (apply Hen); try (apply Hcrc; assumption).
  - apply pon_pli_lt.
  - (* enc frame length *)
    unfold pon_enc. cbn [fst]. fold payload. rewrite app_length, hec_64_length.
    rewrite firstn_length_le; [lia|].
    rewrite Hctr. destruct (pon_crc_enabled buf) eqn:En; [|lia].
    rewrite splice_length; [lia|]. rewrite le32_length. apply Hcrc. reflexivity.
  - (* enc tag length *)
    unfold pon_enc. cbn [snd]. destruct (pon_crc_enabled buf); unfold pon_tag.
    + rewrite app_length, pon_bip_length, le32_length. reflexivity.
    + apply pon_bip_length.
  - unfold pon_dec. cbn [fst]. fold payload. rewrite app_length.
    unfold pon_hdr_len. rewrite firstn_length_le by lia.
    rewrite firstn_length_le; [lia|]. rewrite Hctr. lia.
  - unfold pon_dec. cbn [snd]. destruct (pon_crc_enabled buf); unfold pon_tag.
    + rewrite app_length, pon_bip_length, le32_length. reflexivity.
    + apply pon_bip_length.
Qed.

(* no-cipher variant: the payload is only CRC-patched *)
Theorem pon_no_ctr_payload key iv buf : 8 <= length buf ->
  (pon_crc_enabled buf = true -> pon_crc_len buf + 4 <= length buf - 8) ->
  skipn 8 (fst (pon_enc pon_no_ctr key iv buf)) =
  (if pon_crc_enabled buf
   then splice (skipn 8 buf) (pon_crc_len buf)
          (le32 (crc32_ethernet_fcs (firstn (pon_crc_len buf) (skipn 8 buf))))
   else skipn 8 buf).
Proof.
  intros H Hc. unfold pon_enc, pon_no_ctr, pon_hdr_len. cbn [fst].
  rewrite skipn_app_l by (symmetry; apply hec_64_length).
  destruct (pon_crc_enabled buf) eqn:En.
  - apply firstn_ge_all. rewrite splice_length; [lia|].
    rewrite le32_length, skipn_length. specialize (Hc eq_refl). lia.
  - apply firstn_ge_all. lia.
Qed.

(* THEOREM pon_dec_enc: both directions — decrypting what encrypt produced gives the frame with
   updated HEC and inserted CRC, the identical tag (BIP over the ciphertext frame, CRC over the
   plaintext), and the receiver's CRC comparison succeeds *)
Theorem pon_dec_enc_thm ctr key iv buf :
  8 <= length buf ->
  (forall m, length (ctr key iv m) = length m) ->
  (forall m, ctr key iv (ctr key iv m) = m) ->
  ((pon_pli buf <= 4)%N \/ (pon_pli buf <= N.of_nat (length buf - 8))%N) ->
  let enc := pon_enc ctr key iv buf in
  let payload := skipn pon_hdr_len buf in
  let n := pon_crc_len buf in
  let payload1 := if pon_crc_enabled buf
                  then splice payload n (le32 (crc32_ethernet_fcs (firstn n payload)))
                  else payload in
  pon_dec ctr key iv (fst enc) = (hec_64 (firstn pon_hdr_len buf) ++ payload1, snd enc).
Proof.
  intros Hlen Hctr Hinv Hpli enc payload n payload1.
  assert (Hp : length payload = length buf - 8) by (unfold payload, pon_hdr_len; apply skipn_length).
  assert (Hn : pon_crc_enabled buf = true -> n + 4 <= length payload).
  { intros En. unfold pon_crc_enabled in En. apply N.ltb_lt in En. unfold n, pon_crc_len. lia. }
  assert (Hp1 : length payload1 = length payload).
  { unfold payload1. destruct (pon_crc_enabled buf) eqn:En; [|reflexivity].
    apply splice_length. rewrite le32_length. apply Hn. reflexivity. }
  set (hdr' := hec_64 (firstn pon_hdr_len buf)).
  set (C := ctr key iv payload1).
  assert (HC : length C = length payload) by (unfold C; rewrite Hctr; exact Hp1).
  assert (Eout : fst enc = hdr' ++ C).
  { unfold enc, pon_enc. cbn [fst]. fold payload n. fold hdr'.
    f_equal. replace (match (if pon_crc_enabled buf
                              then Some (crc32_ethernet_fcs (firstn n payload)) else None) with
                      | Some c => splice payload n (le32 c) | None => payload end)
      with payload1 by (unfold payload1; destruct (pon_crc_enabled buf); reflexivity).
    fold C. apply firstn_ge_all. lia. }
  assert (Epli : pon_pli (hdr' ++ C) = pon_pli buf) by (apply pon_pli_hec; exact Hlen).
  unfold pon_dec. rewrite Eout.
  assert (Eh : firstn pon_hdr_len (hdr' ++ C) = hdr')
    by (apply firstn_app_l; symmetry; apply hec_64_length).
  assert (Es : skipn pon_hdr_len (hdr' ++ C) = C)
    by (apply skipn_app_l; symmetry; apply hec_64_length).
  rewrite Eh, Es.
  assert (Ept : firstn (length C) (ctr key iv C) = payload1).
  { unfold C at 2. rewrite Hinv. apply firstn_ge_all. lia. }
  rewrite Ept.
  assert (Een : pon_crc_enabled (hdr' ++ C) = pon_crc_enabled buf)
    by (unfold pon_crc_enabled; rewrite Epli; reflexivity).
  assert (Ecl : pon_crc_len (hdr' ++ C) = n) by (unfold n, pon_crc_len; rewrite Epli; reflexivity).
  rewrite Een, Ecl. f_equal.
  unfold enc, pon_enc. cbn [snd]. fold payload n hdr'.
  replace (match (if pon_crc_enabled buf
                   then Some (crc32_ethernet_fcs (firstn n payload)) else None) with
           | Some c => splice payload n (le32 c) | None => payload end)
    with payload1 by (unfold payload1; destruct (pon_crc_enabled buf); reflexivity).
  fold C. rewrite (firstn_ge_all C) by lia.
  f_equal. destruct (pon_crc_enabled buf) eqn:En; [|reflexivity].
  f_equal. f_equal. unfold payload1.
  apply splice_firstn; [lia|]. specialize (Hn eq_refl). lia.
Qed.
