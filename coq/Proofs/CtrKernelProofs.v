(* Proofs/CtrKernelProofs.v — C01: the counter blocks the CTR kernels compute
   (Struct/CtrKernel.v: byte-swapped register + paddd / paddq lane add; AVX2-VAES low-byte
   fast path with slow-path fallback) are the counter blocks of the specification, for ALL
   16-byte counter blocks and ALL block indices.  Proved from byte-level lemmas
   (be_to_N / N_to_be round trips, lane decomposition, carry analysis) — no sweeps. *)
From Coq Require Import List NArith Bool Lia Arith.
From IMB Require Import Lib.Bytes Struct.CtrKernel Proofs.C01Lists.
Import ListNotations.
Local Open Scope N_scope.

(* ---------------------------------------------------------------------------------------- *)
(* lanes, generic in the lane modulus B *)
Section Lanes.
  Variable B : N.
  Hypothesis B_pos : 0 < B.

  Lemma lane_lt : forall j x, lane B j x < B.
  Proof. intros. unfold lane. apply N.mod_lt. lia. Qed.

  Lemma lane0 : forall x, lane B 0 x = x mod B.
  Proof. intros. unfold lane. cbn [N.of_nat]. now rewrite N.pow_0_r, N.div_1_r. Qed.

  Lemma pow_ge_B : forall j, B <= B ^ N.of_nat (S j).
  Proof.
    intros j. rewrite Nat2N.inj_succ, N.pow_succ_r'.
    assert (1 <= B ^ N.of_nat j) by (apply N.neq_0_lt_0 in B_pos; pose proof (N.pow_nonzero B (N.of_nat j)); lia).
    nia.
  Qed.

  Lemma laneS_small : forall j i, i < B -> lane B (S j) i = 0.
  Proof.
    intros j i Hi. unfold lane. rewrite N.div_small; [apply N.mod_0_l; lia|].
    pose proof (pow_ge_B j). lia.
  Qed.

  Lemma padd_lane_zero : forall j x i, i < B -> padd_lane B (S j) x i = lane B (S j) x * B ^ N.of_nat (S j).
  Proof.
    intros j x i Hi. unfold padd_lane. rewrite (laneS_small j i) by assumption.
    rewrite N.add_0_r, N.mod_small by apply lane_lt. reflexivity.
  Qed.

  Lemma padd_lane0 : forall x i, i < B -> padd_lane B 0 x i = (x mod B + i) mod B.
  Proof.
    intros. unfold padd_lane. rewrite !lane0. cbn [N.of_nat].
    rewrite N.pow_0_r, N.mul_1_r. now rewrite (N.mod_small i B).
  Qed.

  Lemma div_pow_step : forall x j, x / B ^ N.of_nat (S j) = x / B ^ N.of_nat j / B.
  Proof.
    intros. rewrite Nat2N.inj_succ, N.pow_succ_r', N.mul_comm.
    rewrite N.div_div; [reflexivity|apply N.pow_nonzero; lia|lia].
  Qed.

  (* x / B^j = lane_j x + B * (x / B^(j+1)) *)
  Lemma lane_step : forall x j, x / B ^ N.of_nat j = lane B j x + B * (x / B ^ N.of_nat (S j)).
  Proof.
    intros. unfold lane. rewrite div_pow_step.
    pose proof (N.div_mod (x / B ^ N.of_nat j) B ltac:(lia)). lia.
  Qed.

  (* two lanes *)
  Lemma lanes2 : forall x, x < B ^ 2 -> lane B 1 x * B ^ N.of_nat 1 = x / B * B.
  Proof.
    intros x Hx. cbn [N.of_nat Pos.of_succ_nat]. rewrite N.pow_1_r. f_equal.
    unfold lane. cbn [N.of_nat Pos.of_succ_nat]. rewrite N.pow_1_r.
    apply N.mod_small. apply N.div_lt_upper_bound; [lia|]. now rewrite <- N.pow_2_r.
  Qed.

  (* four lanes *)
  Lemma lanes4 : forall x, x < B ^ 4 ->
    lane B 1 x * B ^ N.of_nat 1 + lane B 2 x * B ^ N.of_nat 2 + lane B 3 x * B ^ N.of_nat 3
    = x / B * B.
  Proof.
    intros x Hx.
    pose proof (lane_step x 1) as S1. pose proof (lane_step x 2) as S2.
    pose proof (lane_step x 3) as S3.
    assert (Z : x / B ^ N.of_nat 4 = 0).
    { apply N.div_small. exact Hx. }
    rewrite Z, N.mul_0_r, N.add_0_r in S3.
    change (N.of_nat 1) with 1 in *. change (N.of_nat 2) with 2 in *.
    change (N.of_nat 3) with 3 in *.
    rewrite N.pow_1_r in *.
    replace (B ^ 3) with (B * B ^ 2) in * by (change 3 with (N.succ 2); now rewrite N.pow_succ_r').
    rewrite N.pow_2_r in *.
    set (q1 := x / B) in *. set (q2 := x / (B * B)) in *. set (q3 := x / (B * (B * B))) in *.
    set (l1 := lane B 1 x) in *. set (l2 := lane B 2 x) in *. set (l3 := lane B 3 x) in *.
    rewrite S1, S2, S3. lia.
  Qed.
End Lanes.

Lemma B32_pos : 0 < B32. Proof. reflexivity. Qed.
Lemma B64_pos : 0 < B64. Proof. reflexivity. Qed.

(* paddd with a constant below 2^32 in the low lane: only the low lane changes, modulo 2^32 *)
Theorem paddd_low : forall x i, x < 2 ^ 128 -> i < 2 ^ 32 ->
  paddd x i = x / 2 ^ 32 * 2 ^ 32 + (x mod 2 ^ 32 + i) mod 2 ^ 32.
Proof.
  intros x i Hx Hi. unfold paddd. fold B32 in Hi |- *.
  rewrite !(padd_lane_zero B32 B32_pos) by exact Hi.
  rewrite (padd_lane0 B32) by exact Hi.
  rewrite <- (lanes4 B32 B32_pos x) by exact Hx. lia.
Qed.

(* paddq with a constant below 2^64 in the low lane *)
Theorem paddq_low : forall x i, x < 2 ^ 128 -> i < 2 ^ 64 ->
  paddq x i = x / 2 ^ 64 * 2 ^ 64 + (x mod 2 ^ 64 + i) mod 2 ^ 64.
Proof.
  intros x i Hx Hi. unfold paddq. fold B64 in Hi |- *.
  rewrite (padd_lane_zero B64 B64_pos) by exact Hi.
  rewrite (padd_lane0 B64) by exact Hi.
  rewrite <- (lanes2 B64 B64_pos x) by exact Hx. lia.
Qed.

(* ---------------------------------------------------------------------------------------- *)
(* registers and byte strings *)

Lemma le_to_N_be_rev : forall l, le_to_N l = be_to_N (rev l).
Proof. intros. symmetry. apply be_to_N_rev_le. Qed.

Lemma bswap128_be : forall x, bswap128 x = be_to_N (N_to_le 16 x).
Proof. intros. unfold bswap128. now rewrite le_to_N_be_rev, rev_involutive. Qed.

Lemma store16_bswap128 : forall x, store16 (bswap128 x) = N_to_be 16 x.
Proof.
  intros. unfold store16. rewrite bswap128_be.
  rewrite <- (rev_involutive (N_to_le 16 x)) at 1.
  replace 16%nat with (length (rev (N_to_le 16 x))) at 1 by (now rewrite rev_length, N_to_le_length).
  rewrite N_to_le_be_to_N_rev by (apply bytes_ok_rev, N_to_le_ok). reflexivity.
Qed.

Lemma store16_load16 : forall c, length c = 16%nat -> bytes_ok c = true -> store16 (load16 c) = c.
Proof.
  intros c L O. unfold store16, load16. rewrite le_to_N_be_rev, <- L.
  now apply N_to_le_be_to_N_rev.
Qed.

Lemma ctr_reg_be : forall c, length c = 16%nat -> bytes_ok c = true -> ctr_reg c = be_to_N c.
Proof.
  intros c L O. unfold ctr_reg. rewrite bswap128_be.
  change (N_to_le 16 (load16 c)) with (store16 (load16 c)). now rewrite store16_load16.
Qed.

Lemma lor_shiftl_add : forall P v k, v < 2 ^ k -> N.lor (N.shiftl P k) v = P * 2 ^ k + v.
Proof.
  intros P v k Hv. rewrite <- N.shiftl_mul_pow2.
  assert (Z : N.land (N.shiftl P k) v = 0).
  { apply N.bits_inj. intro i. rewrite N.land_spec, N.bits_0.
    destruct (N.lt_ge_cases i k) as [L|L].
    - now rewrite N.shiftl_spec_low.
    - destruct (N.eq_dec v 0) as [->|Hv0]; [now rewrite N.bits_0, andb_false_r|].
      rewrite (N.bits_above_log2 v i), andb_false_r; [reflexivity|].
      assert (N.log2 v < k) by (apply N.log2_lt_pow2; lia). lia. }
  now rewrite N.add_nocarry_lxor, N.lxor_lor by exact Z.
Qed.

(* splitting a byte string: value of prefix * 2^(8 |suffix|) + value of suffix *)
Lemma be_to_N_split : forall n c,
  be_to_N c = be_to_N (firstn n c) * 2 ^ (8 * N.of_nat (length (skipn n c))) + be_to_N (skipn n c).
Proof.
  intros n c. rewrite <- (firstn_skipn n c) at 1. rewrite be_to_N_app.
  apply lor_shiftl_add. apply be_to_N_lt.
Qed.

Lemma N_to_le_split : forall a b x,
  N_to_le (a + b) x = N_to_le a x ++ N_to_le b (N.shiftr x (8 * N.of_nat a)).
Proof.
  induction a as [|a IH]; intros b x.
  - cbn [Nat.add N_to_le app N.of_nat]. now rewrite N.shiftr_0_r.
  - cbn [Nat.add N_to_le app]. f_equal. rewrite IH. f_equal. f_equal.
    rewrite N.shiftr_shiftr. f_equal. lia.
Qed.

(* N_to_be (a + b) (Q * 2^(8b) + v) = N_to_be a Q ++ N_to_be b v  for v < 2^(8b) *)
Lemma N_to_be_split : forall a b Q v, v < 2 ^ (8 * N.of_nat b) ->
  N_to_be (a + b) (Q * 2 ^ (8 * N.of_nat b) + v) = N_to_be a Q ++ N_to_be b v.
Proof.
  intros a b Q v Hv. unfold N_to_be. rewrite Nat.add_comm, N_to_le_split, rev_app_distr.
  set (k := 8 * N.of_nat b) in *.
  assert (Hk : 2 ^ k <> 0) by (apply N.pow_nonzero; lia).
  f_equal.
  - f_equal. rewrite N.shiftr_div_pow2. rewrite N.div_add_l by exact Hk.
    rewrite (N.div_small v) by exact Hv. now rewrite N.add_0_r.
  - f_equal. rewrite <- (N_to_le_land b). f_equal. fold k. rewrite N.land_ones.
    rewrite N.add_comm, N.mod_add by exact Hk. now apply N.mod_small.
Qed.

(* ---------------------------------------------------------------------------------------- *)
(* the paddd / paddq paths *)

Lemma firstn_skipn_lengths : forall (c : bytes) n, (n <= length c)%nat ->
  length (firstn n c) = n /\ length (skipn n c) = (length c - n)%nat.
Proof. intros. rewrite firstn_length, skipn_length. lia. Qed.

(* generic: register = be_to_N c, low lane of nb bytes *)
Lemma ctr_blk_lane_generic : forall (nb : nat) c i r,
  length c = 16%nat -> bytes_ok c = true -> (nb <= 16)%nat ->
  let W := 2 ^ (8 * N.of_nat nb) in
  r = be_to_N c / W * W + (be_to_N c mod W + i) mod W ->
  N_to_be 16 r = firstn (16 - nb) c ++ N_to_be nb ((be_to_N (skipn (16 - nb) c) + i) mod W).
Proof.
  intros nb c i r L O Hnb W Hr.
  destruct (firstn_skipn_lengths c (16 - nb) ltac:(lia)) as [L1 L2].
  assert (Hs : length (skipn (16 - nb) c) = nb) by lia.
  assert (HW : W <> 0) by (apply N.pow_nonzero; lia).
  pose proof (be_to_N_split (16 - nb) c) as Hc. rewrite Hs in Hc. fold W in Hc.
  assert (Hv : be_to_N (skipn (16 - nb) c) < W).
  { pose proof (be_to_N_lt (skipn (16 - nb) c)) as H. now rewrite Hs in H. }
  assert (Hq : be_to_N c / W = be_to_N (firstn (16 - nb) c)).
  { rewrite Hc, N.div_add_l by exact HW. rewrite (N.div_small _ _ Hv). apply N.add_0_r. }
  assert (Hm : be_to_N c mod W = be_to_N (skipn (16 - nb) c)).
  { rewrite Hc, N.add_comm, N.mod_add by exact HW. now apply N.mod_small. }
  rewrite Hr, Hq, Hm.
  replace 16%nat with ((16 - nb) + nb)%nat at 1 by lia.
  unfold W. rewrite N_to_be_split by (apply N.mod_lt; exact HW).
  f_equal. rewrite <- L1 at 1. apply N_to_be_be_to_N. now apply bytes_ok_firstn.
Qed.

Lemma be_to_N_16_lt : forall c, length c = 16%nat -> be_to_N c < 2 ^ 128.
Proof. intros c L. pose proof (be_to_N_lt c) as H. now rewrite L in H. Qed.

Theorem ctr_blk_paddd_eq_spec : forall c i, length c = 16%nat -> bytes_ok c = true ->
  i < 2 ^ 32 -> ctr_blk_paddd c i = ctr_blk_spec32 c i.
Proof.
  intros c i L O Hi. unfold ctr_blk_paddd, ctr_lane32, ctr_blk_spec32, ddq_add.
  rewrite store16_bswap128, ctr_reg_be by assumption.
  apply (ctr_blk_lane_generic 4 c i); try assumption; [lia|].
  apply paddd_low; [now apply be_to_N_16_lt|exact Hi].
Qed.

Theorem ctr_blk_paddq_eq_spec : forall c i, length c = 16%nat -> bytes_ok c = true ->
  i < 2 ^ 64 -> ctr_blk_paddq c i = ctr_blk_spec64 c i.
Proof.
  intros c i L O Hi. unfold ctr_blk_paddq, ctr_lane64, ctr_blk_spec64, ddq_add.
  rewrite store16_bswap128, ctr_reg_be by assumption.
  apply (ctr_blk_lane_generic 8 c i); try assumption; [lia|].
  apply paddq_low; [now apply be_to_N_16_lt|exact Hi].
Qed.

(* the running register: after advancing by a, lane i is block a + i (all mod 2^32) *)
Lemma paddd_lt : forall x i, x < 2 ^ 128 -> i < 2 ^ 32 -> paddd x i < 2 ^ 128.
Proof.
  intros x i Hx Hi. rewrite paddd_low by assumption.
  assert (x / 2 ^ 32 < 2 ^ 96).
  { apply N.div_lt_upper_bound; [discriminate|]. now rewrite <- N.pow_add_r. }
  assert ((x mod 2 ^ 32 + i) mod 2 ^ 32 < 2 ^ 32) by (apply N.mod_lt; discriminate).
  change (2 ^ 128) with (2 ^ 96 * 2 ^ 32). nia.
Qed.

Theorem paddd_paddd : forall x a i, x < 2 ^ 128 -> a < 2 ^ 32 -> i < 2 ^ 32 ->
  paddd (paddd x a) i = paddd x ((a + i) mod 2 ^ 32).
Proof.
  intros x a i Hx Ha Hi.
  assert (HB : 2 ^ 32 <> 0) by discriminate.
  rewrite (paddd_low (paddd x a)) by (try apply paddd_lt; assumption).
  rewrite (paddd_low x a), (paddd_low x ((a + i) mod 2 ^ 32))
    by (try apply N.mod_lt; assumption).
  set (v := (x mod 2 ^ 32 + a) mod 2 ^ 32).
  assert (Hv : v < 2 ^ 32) by (apply N.mod_lt; exact HB).
  rewrite N.div_add_l by exact HB. rewrite (N.div_small v) by exact Hv. rewrite N.add_0_r.
  f_equal.
  rewrite (N.add_comm (x / 2 ^ 32 * 2 ^ 32)), N.mod_add by exact HB.
  rewrite (N.mod_small v) by exact Hv. unfold v.
  rewrite N.add_mod_idemp_l, N.add_mod_idemp_r by exact HB. f_equal. lia.
Qed.

(* ---------------------------------------------------------------------------------------- *)
(* the AVX2-VAES low-byte fast path: carry analysis *)

(* paddd with a constant in lane 3 only and no overflow of that lane = plain addition *)
Lemma paddd_lane3_nocarry : forall x k, x < 2 ^ 128 -> k < 2 ^ 32 ->
  x / 2 ^ 96 + k < 2 ^ 32 -> paddd x (k * 2 ^ 96) = x + k * 2 ^ 96.
Proof.
  intros x k Hx Hk Hno. unfold paddd, padd_lane.
  assert (HB : B32 <> 0) by discriminate.
  assert (Y0 : lane B32 0 (k * 2 ^ 96) = 0).
  { rewrite (lane0 B32). change (2 ^ 96) with (2 ^ 64 * B32).
    rewrite N.mul_assoc. now apply N.mod_mul. }
  assert (Y1 : lane B32 1 (k * 2 ^ 96) = 0).
  { unfold lane. change (B32 ^ N.of_nat 1) with B32. change (2 ^ 96) with (2 ^ 32 * B32 * B32).
    rewrite !N.mul_assoc, N.div_mul by exact HB. now apply N.mod_mul. }
  assert (Y2 : lane B32 2 (k * 2 ^ 96) = 0).
  { unfold lane. change (B32 ^ N.of_nat 2) with (2 ^ 64). change (2 ^ 96) with (B32 * 2 ^ 64).
    rewrite N.mul_assoc, N.div_mul by discriminate. now apply N.mod_mul. }
  assert (Y3 : lane B32 3 (k * 2 ^ 96) = k).
  { unfold lane. change (B32 ^ N.of_nat 3) with (2 ^ 96). rewrite N.div_mul by discriminate.
    now apply N.mod_small. }
  assert (X3 : lane B32 3 x = x / 2 ^ 96).
  { unfold lane. change (B32 ^ N.of_nat 3) with (2 ^ 96). apply N.mod_small.
    apply N.div_lt_upper_bound; [discriminate|]. exact Hx. }
  rewrite Y0, Y1, Y2, Y3, !N.add_0_r.
  rewrite !(N.mod_small (lane B32 _ x)) by apply (lane_lt B32 B32_pos).
  rewrite X3, (N.mod_small _ B32) by exact Hno.
  pose proof (lanes4 B32 B32_pos x Hx) as S4.
  pose proof (N.div_mod x B32 HB) as D. rewrite <- (lane0 B32) in D.
  rewrite X3 in S4. change (B32 ^ N.of_nat 0) with 1. change (B32 ^ N.of_nat 3) with (2 ^ 96) in *.
  lia.
Qed.

Lemma le_to_N_snoc : forall p z, le_to_N (p ++ [z]) =
  be_to_N (rev p) + w8 z * 2 ^ (8 * N.of_nat (length p)).
Proof.
  intros p z. rewrite le_to_N_be_rev, rev_app_distr. cbn [rev app be_to_N].
  rewrite rev_length, N.add_comm. apply lor_shiftl_add.
  pose proof (be_to_N_lt (rev p)) as H. now rewrite rev_length in H.
Qed.

Lemma split_last16 : forall c : bytes, length c = 16%nat -> c = firstn 15 c ++ [nth 15 c 0].
Proof.
  intros c L. rewrite <- (firstn_skipn 15 c) at 1. f_equal.
  do 16 (destruct c as [|? c]; [discriminate L|]). destruct c; [reflexivity|discriminate L].
Qed.

Theorem ctr_blk_fast_eq : forall c i, length c = 16%nat -> bytes_ok c = true ->
  nth 15 c 0 + i <= 255 ->
  ctr_blk_fast c i = firstn 15 c ++ [nth 15 c 0 + i].
Proof.
  intros c i L O Hno.
  set (p := firstn 15 c). set (z := nth 15 c 0) in *.
  assert (Ec : c = p ++ [z]) by (now apply split_last16).
  assert (Lp : length p = 15%nat) by (unfold p; rewrite firstn_length; lia).
  assert (Op : bytes_ok p = true) by (now apply bytes_ok_firstn).
  assert (Hz : z < 256) by (now apply bytes_ok_nth).
  assert (Hi : i < 256) by lia.
  unfold ctr_blk_fast, ddq_add_be, load16.
  assert (Hx : le_to_N c = be_to_N (rev p) + z * 2 ^ 120).
  { rewrite Ec at 1. rewrite le_to_N_snoc, Lp, w8_small by exact Hz. reflexivity. }
  assert (HP : be_to_N (rev p) < 2 ^ 120).
  { pose proof (be_to_N_lt (rev p)) as H. now rewrite rev_length, Lp in H. }
  assert (Hx128 : le_to_N c < 2 ^ 128).
  { rewrite Hx. change (2 ^ 128) with (256 * 2 ^ 120). nia. }
  change (2 ^ 120) with (2 ^ 24 * 2 ^ 96) at 1. rewrite N.mul_assoc.
  rewrite paddd_lane3_nocarry; [|exact Hx128|change (2 ^ 32) with (256 * 2 ^ 24); nia|].
  - (* the register now holds p ++ [z + i] *)
    replace (le_to_N c + i * 2 ^ 24 * 2 ^ 96) with (le_to_N (p ++ [z + i])).
    + apply store16_load16.
      * rewrite app_length, Lp. reflexivity.
      * apply bytes_ok_app. split; [exact Op|]. apply bytes_ok_cons. split; [lia|reflexivity].
    + rewrite le_to_N_snoc, Lp, w8_small by lia. rewrite Hx.
      change (8 * N.of_nat 15) with 120. change (2 ^ 120) with (2 ^ 24 * 2 ^ 96). lia.
  - (* no carry out of lane 3 *)
    assert (Hd : le_to_N c / 2 ^ 96 < (z + 1) * 2 ^ 24).
    { apply N.div_lt_upper_bound; [discriminate|]. rewrite Hx.
      change (2 ^ 120) with (2 ^ 96 * 2 ^ 24) in *. nia. }
    change (2 ^ 32) with (256 * 2 ^ 24). nia.
Qed.

Lemma be_to_N_snoc : forall m z, z < 256 -> be_to_N (m ++ [z]) = be_to_N m * 256 + z.
Proof.
  intros m z Hz. rewrite be_to_N_app. cbn [be_to_N length].
  change (8 * N.of_nat 0) with 0. rewrite N.shiftl_0_r, N.lor_0_r, w8_small by exact Hz.
  change (8 * N.of_nat 1) with 8. change 256 with (2 ^ 8). now apply lor_shiftl_add.
Qed.

Theorem ctr_blk_spec32_nocarry : forall c i, length c = 16%nat -> bytes_ok c = true ->
  nth 15 c 0 + i <= 255 ->
  ctr_blk_spec32 c i = firstn 15 c ++ [nth 15 c 0 + i].
Proof.
  intros c i L O Hno. unfold ctr_blk_spec32.
  set (z := nth 15 c 0) in *.
  assert (Hz : z < 256) by (now apply bytes_ok_nth).
  set (m := firstn 3 (skipn 12 c)).
  assert (Es : skipn 12 c = m ++ [z]).
  { unfold m, z. do 16 (destruct c as [|? c]; [discriminate L|]).
    destruct c; [reflexivity|discriminate L]. }
  assert (Lm : length m = 3%nat).
  { unfold m. rewrite firstn_length, skipn_length. lia. }
  assert (Om : bytes_ok m = true) by (unfold m; now apply bytes_ok_firstn, bytes_ok_skipn).
  assert (E15 : firstn 15 c = firstn 12 c ++ m).
  { unfold m. change 15%nat with (12 + 3)%nat. apply firstn_skipn_split. }
  rewrite E15, <- app_assoc. f_equal.
  rewrite Es, be_to_N_snoc by exact Hz.
  replace (be_to_N m * 256 + z + i) with (be_to_N (m ++ [z + i]))
    by (rewrite be_to_N_snoc by lia; lia).
  assert (L4 : length (m ++ [z + i]) = 4%nat) by (rewrite app_length, Lm; reflexivity).
  rewrite N.mod_small by (pose proof (be_to_N_lt (m ++ [z + i])) as H; now rewrite L4 in H).
  unfold be32. rewrite <- L4. apply N_to_be_be_to_N.
  apply bytes_ok_app. split; [exact Om|]. apply bytes_ok_cons. split; [lia|reflexivity].
Qed.

(* the low-byte code: fast path when the low byte cannot carry over the whole group, slow
   (= paddd) path otherwise; lane i <= span *)
Theorem ctr_blk_lowbyte_eq_spec : forall span c i, length c = 16%nat -> bytes_ok c = true ->
  i <= span -> i < 2 ^ 32 -> ctr_blk_lowbyte span c i = ctr_blk_spec32 c i.
Proof.
  intros span c i L O Hs Hi. unfold ctr_blk_lowbyte.
  destruct (N.leb_spec (nth 15 c 0 + span) 255) as [Hle|Hgt].
  - rewrite ctr_blk_fast_eq, ctr_blk_spec32_nocarry by (try assumption; lia). reflexivity.
  - now apply ctr_blk_paddd_eq_spec.
Qed.

(* ---------------------------------------------------------------------------------------- *)
(* C01 theorem: for ALL 16-byte counter blocks c and ALL i < 2^32, the kernel's i-th counter
   block — paddd path, and low-byte fast path with slow-path fallback for any group span —
   is  c[0..12) || be32((be32 c[12..16) + i) mod 2^32). *)
Theorem ctr_counter_kernel_eq_spec : forall c i, length c = 16%nat -> bytes_ok c = true ->
  i < 2 ^ 32 ->
  ctr_blk_paddd c i = firstn 12 c ++ be32 ((be_to_N (skipn 12 c) + i) mod 2 ^ 32)
  /\ (forall span, i <= span ->
        ctr_blk_lowbyte span c i = firstn 12 c ++ be32 ((be_to_N (skipn 12 c) + i) mod 2 ^ 32)).
Proof.
  intros c i L O Hi. split.
  - now apply ctr_blk_paddd_eq_spec.
  - intros span Hs. now apply ctr_blk_lowbyte_eq_spec.
Qed.

(* CNTR_BITLEN: paddq, 64-bit counter *)
Theorem ctr64_counter_kernel_eq_spec : forall c i, length c = 16%nat -> bytes_ok c = true ->
  i < 2 ^ 64 ->
  ctr_blk_paddq c i = firstn 8 c ++ be64 ((be_to_N (skipn 8 c) + i) mod 2 ^ 64).
Proof. exact ctr_blk_paddq_eq_spec. Qed.
