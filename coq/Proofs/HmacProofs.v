(* Proofs/HmacProofs.v — C02 structural proofs, part 2: the HMAC lane geometry of
   Struct/HmacPad.v produces exactly the Merkle–Damgård padding of (ipad block ‖ message), the
   outer block is the padding of (opad block ‖ inner digest), and the precomputed-state job
   semantics (Spec.HMAC.hmac_precomp / hmac_lib) equals RFC 2104 HMAC. *)
From Coq Require Import List NArith Bool Lia Arith PeanoNat.
From IMB Require Import Lib.Bytes Struct.MemOps Struct.HmacPad Proofs.BytesLemmas Proofs.HashProofs
                        Spec.SHA Spec.MD5 Spec.SM3 Spec.HMAC.
Import ListNotations.

(* what the three geometries of the library satisfy *)
Definition geom_ok (g : hmac_geom) : Prop :=
  8 <= hg_L g /\ hg_L g + 1 <= hg_B g /\ (hg_be g = false -> hg_L g = 8).

Lemma geom_ok_sha1_256 : geom_ok G_SHA1_256.
Proof. unfold geom_ok; cbn; repeat split; try lia; discriminate. Qed.
Lemma geom_ok_sha512 : geom_ok G_SHA512.
Proof. unfold geom_ok; cbn; repeat split; try lia; discriminate. Qed.
Lemma geom_ok_md5 : geom_ok G_MD5.
Proof. unfold geom_ok; cbn; repeat split; try lia. Qed.

(* the 8-byte length store represents the standard's L-byte length: always for L = 8 (the
   64-bit wrap of the register is the standard's truncation), and for L = 16 as long as the bit
   length fits 64 bits (the upper 8 bytes of the field are the zero background) *)
Definition len_ok (g : hmac_geom) (len : nat) : Prop :=
  hg_L g = 8 \/ (8 * N.of_nat (hg_B g + len) < 2 ^ 64)%N.

Section HmacLaneProofs.
  Variable g : hmac_geom.
  Let B := hg_B g.
  Let L := hg_L g.
  Hypothesis Hg : geom_ok g.

  Let HB : 0 < B.
  Proof. destruct Hg as (H1 & H2 & _). unfold B. lia. Qed.
  Let HL8 : 8 <= L.
  Proof. destruct Hg as (H1 & _). exact H1. Qed.
  Let HLB : L + 1 <= B.
  Proof. destruct Hg as (_ & H2 & _). exact H2. Qed.

  Lemma last_len_lt len : last_len g len < B.
  Proof. apply mod_lt. exact HB. Qed.

  Lemma last_len_small len : len < B -> last_len g len = len.
  Proof. intros. apply Nat.mod_small. assumption. Qed.

  (* the asm's (last_len + 9 + 63) >> 6 is the 1-or-2 case split of the standard *)
  Lemma extra_blocks_eq len : extra_blocks g len = md_tail_blocks B L (last_len g len).
  Proof.
    unfold extra_blocks, md_tail_blocks. fold B L.
    pose proof (last_len_lt len) as Hr. set (r := last_len g len) in *.
    destruct (Nat.leb_spec (r + 1 + L) B).
    - apply div_unique_1. lia.
    - apply div_unique_2. lia.
  Qed.

  Lemma extra_blocks_1_or_2 len : extra_blocks g len = 1 \/ extra_blocks g len = 2.
  Proof.
    rewrite extra_blocks_eq. unfold md_tail_blocks. destruct (Nat.leb _ _); [left|right]; reflexivity.
  Qed.

  (* message = whole blocks ++ tail of last_len bytes *)
  Lemma msg_split msg :
    let len := length msg in
    let r := last_len g len in
    msg = lane_src_bytes g msg ++ skipn (len - r) msg /\
    length (lane_src_bytes g msg) = (len / B) * B /\
    length (skipn (len - r) msg) = r /\
    len - r = B * (len / B).
  Proof.
    intros len r.
    pose proof (div_mod_eq len B HB) as E. change (len mod B) with r in E.
    assert (Hs : len - r = B * (len / B)) by lia.
    unfold lane_src_bytes. fold B len. rewrite Hs. repeat split.
    - symmetry. apply firstn_skipn.
    - rewrite firstn_length_le by (fold len; lia). lia.
    - rewrite skipn_length. fold len. lia.
  Qed.

  (* after the copy the buffer is  Y ++ tail ++ 0x80 ++ zeros  with |Y| = start_offset *)
  Lemma copy_tail_form stale msg : length stale = B ->
    let len := length msg in
    let r := last_len g len in
    exists Y, length Y = B - r /\
      copy_tail g msg (extra_block_idle g stale) =
      Y ++ skipn (len - r) msg ++ 128%N :: zeros (B + L - 1).
  Proof.
    intros Hs len r. unfold copy_tail, extra_block_idle. fold B L len.
    pose proof (last_len_lt len) as Hr. fold r in Hr.
    destruct (Nat.leb_spec B len) as [Hge|Hlt].
    - (* fast_copy *)
      exists (firstn (B - r) (skipn (len - B) msg)). split.
      + apply firstn_length_le. rewrite skipn_length. fold len. lia.
      + rewrite write_at_0 by (rewrite skipn_length; fold len; lia).
        rewrite app_assoc. f_equal.
        rewrite (list_split_at (skipn (len - B) msg) (B - r)) at 1. f_equal.
        rewrite skipn_skipn. f_equal. lia.
    - (* copy_lt64 *)
      assert (Er : r = len) by (apply last_len_small; assumption).
      exists (firstn (B - len) stale). split.
      + rewrite firstn_length_le by lia. lia.
      + rewrite Er, Nat.sub_diag. cbn [skipn].
        rewrite (list_split_at stale (B - len)) at 1. rewrite <- app_assoc.
        apply write_at_middle.
        * rewrite firstn_length_le by lia. reflexivity.
        * rewrite skipn_length. fold len. lia.
  Qed.

  Lemma len_field_length len : length (len_field g len) = 8.
  Proof. unfold len_field. destruct (hg_be g); [apply N_to_be_length|apply N_to_le_length]. Qed.

  Lemma len_field_enc len : len_ok g len ->
    zeros (L - 8) ++ len_field g len = md_len_enc L (hg_be g) (B + len).
  Proof.
    intros Hok. unfold len_field, md_len_enc. fold B.
    replace (8 * N.of_nat (B + len))%N with (8 * N.of_nat B + 8 * N.of_nat len)%N by lia.
    set (v := (8 * N.of_nat B + 8 * N.of_nat len)%N).
    destruct (hg_be g) eqn:Ebe.
    - rewrite N_to_be_w64. destruct Hok as [E8|Hlt].
      + fold L in E8. rewrite E8. reflexivity.
      + symmetry. apply N_to_be_wide; [exact HL8|].
        unfold v. fold B in Hlt. lia.
    - destruct Hg as (_ & _ & Hle). specialize (Hle Ebe). fold L in Hle. rewrite Hle.
      cbn [Nat.sub zeros repeat app]. apply N_to_le_w64.
  Qed.

  (* extra_block after submit, fully explicit *)
  Lemma extra_block_submit_form stale msg : length stale = B ->
    let len := length msg in
    let r := last_len g len in
    let eb := extra_blocks g len in
    exists Y, length Y = B - r /\
      extra_block_submit g stale msg =
      Y ++ (skipn (len - r) msg ++ 128%N :: zeros (eb * B - r - 9) ++ len_field g len)
        ++ zeros (B + L - (eb * B - r)).
  Proof.
    intros Hs len r eb.
    destruct (copy_tail_form stale msg Hs) as (Y & HY & HC). fold len r in HY, HC.
    exists Y. split; [exact HY|].
    unfold extra_block_submit. fold len. rewrite HC. unfold size_offset. fold B eb r.
    pose proof (last_len_lt len) as Hr. fold r in Hr.
    assert (Ht : length (skipn (len - r) msg) = r) by apply (msg_split msg).
    assert (Heb : (eb = 1 /\ r + 1 + L <= B) \/ (eb = 2 /\ B < r + 1 + L)).
    { unfold eb. rewrite extra_blocks_eq. fold r. unfold md_tail_blocks.
      destruct (Nat.leb_spec (r + 1 + L) B); [left|right]; split; (reflexivity || assumption). }
    replace (zeros (B + L - 1))
      with (zeros (eb * B - r - 9) ++ zeros 8 ++ zeros (B + L - (eb * B - r))).
    2:{ rewrite <- !zeros_app. f_equal. destruct Heb as [[-> ?]|[-> ?]]; lia. }
    set (z1 := zeros (eb * B - r - 9)). set (z2 := zeros (B + L - (eb * B - r))).
    set (tail := skipn (len - r) msg) in *.
    replace (Y ++ tail ++ 128%N :: z1 ++ zeros 8 ++ z2)
      with ((Y ++ tail ++ 128%N :: z1) ++ zeros 8 ++ z2).
    2:{ rewrite <- !app_assoc. reflexivity. }
    rewrite write_at_middle.
    - rewrite <- !app_assoc. cbn [app]. rewrite <- !app_assoc. reflexivity.
    - rewrite !app_length. cbn [length]. unfold z1. rewrite zeros_length, HY, Ht.
      destruct Heb as [[-> ?]|[-> ?]]; lia.
    - rewrite len_field_length, zeros_length. reflexivity.
  Qed.

  (* THEOREM hmac_extra_block_is_padding: for every message length the B*extra_blocks bytes at
     extra_block + start_offset are the last last_len message bytes followed by the
     Merkle–Damgård padding of a (B + len)-byte message. *)
  Theorem hmac_extra_block_is_padding_thm stale msg :
    length stale = B -> len_ok g (length msg) ->
    let len := length msg in
    lane_extra_bytes g stale msg =
      md_pad B L (hg_be g) (B + len) (skipn (len - last_len g len) msg) /\
    length (lane_extra_bytes g stale msg) = B * extra_blocks g len.
  Proof.
    intros Hs Hok len.
    destruct (extra_block_submit_form stale msg Hs) as (Y & HY & HE). fold len in HY, HE.
    set (r := last_len g len) in *. set (eb := extra_blocks g len) in *.
    pose proof (last_len_lt len) as Hr. fold r in Hr.
    set (tail := skipn (len - r) msg) in *.
    assert (Ht : length tail = r) by apply (msg_split msg).
    assert (Heb : (eb = 1 /\ r + 1 + L <= B) \/ (eb = 2 /\ B < r + 1 + L)).
    { unfold eb. rewrite extra_blocks_eq. fold len r. unfold md_tail_blocks.
      destruct (Nat.leb_spec (r + 1 + L) B); [left|right]; split; (reflexivity || assumption). }
    assert (Hx : lane_extra_bytes g stale msg =
                 tail ++ 128%N :: zeros (eb * B - r - 9) ++ len_field g len).
    { unfold lane_extra_bytes, read_at. fold len. rewrite HE. unfold start_offset. fold B len r eb.
      rewrite skipn_app_l by (symmetry; exact HY).
      apply firstn_app_l. rewrite app_length. cbn [length].
      rewrite app_length, zeros_length, len_field_length, Ht.
      destruct Heb as [[-> ?]|[-> ?]]; lia. }
    split.
    - rewrite Hx. rewrite md_pad_tail_explicit by (try assumption; rewrite Ht; exact Hr).
      rewrite Ht. f_equal. f_equal.
      rewrite <- (len_field_enc len Hok). rewrite app_assoc, <- zeros_app. f_equal. f_equal.
      fold eb in Heb. unfold eb at 1. rewrite extra_blocks_eq. fold len r.
      unfold md_tail_blocks.
      destruct (Nat.leb_spec (r + 1 + L) B); lia.
    - rewrite Hx. rewrite app_length. cbn [length].
      rewrite app_length, zeros_length, len_field_length, Ht.
      destruct Heb as [[-> ?]|[-> ?]]; lia.
  Qed.

  (* THEOREM hmac_lane_eq_spec: whole-block prefix of the message followed by the extra blocks
     = md_pad of the message with total length B + len, i.e. md_pad (ipad block ‖ msg) minus
     the first block *)
  Theorem hmac_lane_stream_eq_pad stale msg :
    length stale = B -> len_ok g (length msg) ->
    lane_stream g stale msg = md_pad B L (hg_be g) (B + length msg) msg.
  Proof.
    intros Hs Hok. unfold lane_stream.
    destruct (hmac_extra_block_is_padding_thm stale msg Hs Hok) as [Hp _]. rewrite Hp.
    destruct (msg_split msg) as (E & Hl & _ & _).
    remember (lane_src_bytes g msg) as pre.
    remember (skipn (length msg - last_len g (length msg)) msg) as tail.
    remember (length msg) as n. rewrite E.
    symmetry. apply (md_pad_app_blocks B L (hg_be g) _ _ _ (n / B) HB Hl).
  Qed.

  Theorem hmac_lane_with_ipad_block stale msg kblk :
    length stale = B -> len_ok g (length msg) -> length kblk = B ->
    kblk ++ lane_stream g stale msg =
    md_pad B L (hg_be g) (length (kblk ++ msg)) (kblk ++ msg).
  Proof.
    intros Hs Hok Hk. rewrite (hmac_lane_stream_eq_pad stale msg Hs Hok).
    rewrite app_length, Hk. symmetry.
    apply (md_pad_app_blocks B L (hg_be g) _ kblk msg 1 HB). lia.
  Qed.

  (* the two phases of the lane (blocks from src, then blocks from extra_block) fed to any
     compression function give the fold over the standard's padded message *)
  Theorem hmac_lane_blocks_eq_spec f st stale msg :
    length stale = B -> len_ok g (length msg) ->
    md_blocks B f (md_blocks B f st (lane_src_bytes g msg)) (lane_extra_bytes g stale msg) =
    md_blocks B f st (md_pad B L (hg_be g) (B + length msg) msg).
  Proof.
    intros Hs Hok. rewrite <- (hmac_lane_stream_eq_pad stale msg Hs Hok). unfold lane_stream.
    symmetry. destruct (msg_split msg) as (_ & Hl & _ & _).
    apply (md_blocks_app_thm B f st _ _ (length msg / B) HB Hl).
  Qed.

  (* proc_outer's zero store re-establishes the idle contents, so the next job on this lane
     again starts from  stale' ++ 0x80 ++ zeros *)
  Theorem hmac_extra_block_restored stale msg : length stale = B ->
    exists stale', length stale' = B /\
      extra_block_after_outer g stale msg = extra_block_idle g stale'.
  Proof.
    intros Hs.
    destruct (extra_block_submit_form stale msg Hs) as (Y & HY & HE).
    set (len := length msg) in *. set (r := last_len g len) in *.
    set (eb := extra_blocks g len) in *.
    pose proof (last_len_lt len) as Hr. fold r in Hr.
    set (tail := skipn (len - r) msg) in *.
    assert (Ht : length tail = r) by apply (msg_split msg).
    assert (Heb : (eb = 1 /\ r + 1 + L <= B) \/ (eb = 2 /\ B < r + 1 + L)).
    { unfold eb. rewrite extra_blocks_eq. fold len r. unfold md_tail_blocks.
      destruct (Nat.leb_spec (r + 1 + L) B); [left|right]; split; (reflexivity || assumption). }
    exists (Y ++ tail). split; [rewrite app_length; lia|].
    unfold extra_block_after_outer. fold len. rewrite HE. unfold size_offset. fold B len r eb.
    set (z1 := zeros (eb * B - r - 9)). set (z2 := zeros (B + L - (eb * B - r))).
    replace (Y ++ (tail ++ 128%N :: z1 ++ len_field g len) ++ z2)
      with ((Y ++ tail ++ 128%N :: z1) ++ len_field g len ++ z2).
    2:{ rewrite <- !app_assoc. cbn [app]. rewrite <- !app_assoc. reflexivity. }
    rewrite write_at_middle.
    - unfold extra_block_idle. fold B L. rewrite <- !app_assoc. cbn [app]. f_equal. f_equal. f_equal.
      unfold z1, z2. rewrite <- !zeros_app. f_equal. destruct Heb as [[-> ?]|[-> ?]]; lia.
    - rewrite !app_length. cbn [length]. unfold z1. rewrite zeros_length, HY, Ht.
      destruct Heb as [[-> ?]|[-> ?]]; lia.
    - rewrite len_field_length, zeros_length. reflexivity.
  Qed.
End HmacLaneProofs.

(* the thresholds of the asm, spelled out *)
Lemma extra_blocks_sha1_256 len :
  extra_blocks G_SHA1_256 len = if Nat.leb (len mod 64) 55 then 1 else 2.
Proof.
  rewrite (extra_blocks_eq G_SHA1_256 geom_ok_sha1_256). unfold md_tail_blocks, last_len. cbn [hg_B hg_L G_SHA1_256].
  destruct (Nat.leb_spec (len mod 64 + 1 + 8) 64), (Nat.leb_spec (len mod 64) 55); (reflexivity || lia).
Qed.

Lemma extra_blocks_sha512 len :
  extra_blocks G_SHA512 len = if Nat.leb (len mod 128) 111 then 1 else 2.
Proof.
  rewrite (extra_blocks_eq G_SHA512 geom_ok_sha512). unfold md_tail_blocks, last_len. cbn [hg_B hg_L G_SHA512].
  destruct (Nat.leb_spec (len mod 128 + 1 + 16) 128), (Nat.leb_spec (len mod 128) 111); (reflexivity || lia).
Qed.

(* ------------------------------------------------------------------------- *)
(* Outer block                                                                *)
(* ------------------------------------------------------------------------- *)

Lemma write_at_app_r a m off d : length a <= off ->
  write_at off d (a ++ m) = a ++ write_at (off - length a) d m.
Proof.
  intros H. unfold write_at.
  rewrite firstn_app, (firstn_ge_all a off H), skipn_app, (skipn_ge_nil a) by lia.
  cbn [app]. rewrite <- app_assoc. f_equal. f_equal. f_equal. f_equal. lia.
Qed.

(* the part of outer_block after the digest, as reset leaves it, is the padding of a
   (B + dlen)-byte message — closed computation per configuration *)
Lemma outer_tail_is_padding c : In c all_outer_cfgs ->
  write_at (oc_len_off c - oc_dlen c) (oc_len_bytes c)
           (128%N :: zeros (hg_B (oc_geom c) - oc_dlen c - 1)) =
  128%N :: zeros (md_pad_k (hg_B (oc_geom c)) (hg_L (oc_geom c)) (oc_dlen c))
    ++ md_len_enc (hg_L (oc_geom c)) (hg_be (oc_geom c)) (hg_B (oc_geom c) + oc_dlen c).
Proof.
  intros H. cbn [all_outer_cfgs In] in H.
  repeat (destruct H as [<-|H]; [vm_compute; reflexivity|]). contradiction.
Qed.

(* THEOREM hmac_outer_eq_spec: for each of the six managers, the block hashed in the outer pass
   is the Merkle–Damgård padding of the inner digest as the tail of a (B + dlen)-byte message *)
Theorem hmac_outer_eq_spec_thm c stale inner : In c all_outer_cfgs ->
  length stale = oc_dlen c -> length inner = oc_dlen c ->
  let g := oc_geom c in
  outer_block_filled c stale inner =
    md_pad (hg_B g) (hg_L g) (hg_be g) (hg_B g + oc_dlen c) inner /\
  length (outer_block_filled c stale inner) = hg_B g.
Proof.
  intros Hc Hs Hi g. subst g.
  assert (E : outer_block_filled c stale inner =
              md_pad (hg_B (oc_geom c)) (hg_L (oc_geom c)) (hg_be (oc_geom c))
                     (hg_B (oc_geom c) + oc_dlen c) inner).
  { rewrite md_pad_unfold, Hi. rewrite <- (outer_tail_is_padding c Hc).
    unfold outer_block_filled, outer_block_idle.
    set (T := write_at (oc_len_off c - oc_dlen c) (oc_len_bytes c)
                       (128%N :: zeros (hg_B (oc_geom c) - oc_dlen c - 1))).
    destruct (oc_fix c) as [[off v]|] eqn:Ef.
    - (* SHA-224 *)
      cbn [all_outer_cfgs In] in Hc.
      assert (c = OC_SHA224) as ->.
      { repeat (destruct Hc as [<-|Hc]; [try discriminate Ef; try reflexivity|]). contradiction. }
      injection Ef as <- <-. subst T.
      cbn [oc_len_off oc_dlen oc_len_bytes OC_SHA224 oc_geom hg_B G_SHA1_256] in *.
      change (write_at (62 - 28) [2%N; 224%N] (128%N :: zeros (64 - 28 - 1)))
        with ([128%N; 0%N; 0%N; 0%N] ++ write_at 30 [2%N; 224%N] (zeros 32)).
      cbn [length].
      rewrite app_assoc, write_at_0 by (rewrite !app_length, zeros_length; cbn [length]; lia).
      rewrite <- app_assoc. apply (write_at_middle inner (zeros 4)); [symmetry; exact Hi|reflexivity].
    - apply write_at_0. lia. }
  split; [exact E|]. rewrite E.
  rewrite md_pad_total_length, Hi.
  cbn [all_outer_cfgs In] in Hc.
  repeat (destruct Hc as [<-|Hc]; [vm_compute; reflexivity|]). contradiction.
Qed.
