(* Proofs/C02Summary.v — combined statements of the C02 property theorems (conjunctions of the
   lemmas proved in HashProofs / HmacProofs / HmacSpecProofs / HashInstProofs / ShaMbProofs /
   CmacProofs / GhashProofs), so that Props/Properties_C02.v only contains `exact`. *)
From Coq Require Import List NArith Bool Arith.
From IMB Require Import Lib.Bytes Struct.MemOps Struct.HmacPad Struct.ShaMb Struct.CmacLast
                        Spec.SHA Spec.MD5 Spec.SM3 Spec.HMAC Spec.AES Spec.CMAC Spec.GF128
                        Mgr.Ooo Mgr.OooInst Proofs.OooProofs Proofs.OooInstProofs
                        Proofs.HashProofs Proofs.HmacProofs Proofs.HmacSpecProofs
                        Proofs.HashInstProofs Proofs.ShaMbProofs Proofs.CmacProofs
                        Proofs.GhashProofs.
Import ListNotations.

Lemma hmac_extra_blocks_thresholds_sum :
  forall len,
  extra_blocks G_SHA1_256 len = (if Nat.leb (len mod 64) 55 then 1 else 2) /\
  extra_blocks G_MD5 len = (if Nat.leb (len mod 64) 55 then 1 else 2) /\
  extra_blocks G_SHA512 len = (if Nat.leb (len mod 128) 111 then 1 else 2).
Proof.
  intros len. split; [exact (extra_blocks_sha1_256 len)|].
  split; [exact (extra_blocks_sha1_256 len)|exact (extra_blocks_sha512 len)].
Qed.

Lemma hmac_lane_eq_spec_sum :
  forall g, geom_ok g -> forall stale msg kblk f st,
  length stale = hg_B g -> len_ok g (length msg) -> length kblk = hg_B g ->
  kblk ++ lane_stream g stale msg =
    md_pad (hg_B g) (hg_L g) (hg_be g) (length (kblk ++ msg)) (kblk ++ msg) /\
  md_blocks (hg_B g) f (md_blocks (hg_B g) f st (lane_src_bytes g msg))
            (lane_extra_bytes g stale msg) =
    md_blocks (hg_B g) f st (md_pad (hg_B g) (hg_L g) (hg_be g) (hg_B g + length msg) msg).
Proof.
  intros g Hg stale msg kblk f st Hs Hok Hk. split.
  - exact (hmac_lane_with_ipad_block g Hg stale msg kblk Hs Hok Hk).
  - exact (hmac_lane_blocks_eq_spec g Hg f st stale msg Hs Hok).
Qed.

Lemma hmac_precomp_eq_hmac_sum :
  forall X, In X all_md_hashes -> forall key msg,
  hmac_lib X key msg =
    (if Nat.ltb (md_block X) (length key) && negb (md_ipad_long_key X) then None
     else Some (hmac_md X key msg)) /\
  (forall i o, hmac_ipad_state X key = Some i -> hmac_opad_state X key = Some o ->
     hmac_precomp X i o msg = hmac_md X key msg).
Proof.
  intros X HX key msg. pose proof (all_md_hashes_wf X HX) as WF. split.
  - exact (hmac_lib_eq_hmac_thm X WF key msg).
  - intros i o. exact (hmac_precomp_eq_hmac_thm X WF key msg i o).
Qed.

Lemma tag_truncation_sum :
  forall t1 t2 d, t1 <= t2 ->
  (t2 <= length d -> length (tag_store t2 d) = t2) /\
  tag_store (length d) d = d /\
  tag_store t1 (tag_store t2 d) = tag_store t1 d /\
  (exists rest, tag_store t2 d = tag_store t1 d ++ rest).
Proof.
  intros t1 t2 d H. split; [exact (tag_store_length t2 d)|].
  split; [exact (tag_store_full d)|].
  split; [exact (tag_store_prefix t1 t2 d H)|exact (tag_store_is_prefix t1 t2 d H)].
Qed.

Lemma sha_mb_extra_blocks_eq_pad_sum :
  forall c, sha_mb_cfg_ok c -> forall msg, sha_mb_len_ok c (length msg) ->
  let len := length msg in
  sha_mb_extra_bytes c msg =
    md_pad (sm_B c) (sm_pad c) true len (skipn (len - sha_mb_r c len) msg) /\
  length (sha_mb_extra_bytes c msg) = sha_mb_xblk_size c len /\
  sha_mb_stream c msg = md_pad (sm_B c) (sm_pad c) true len msg.
Proof.
  intros c Hc msg Hok len.
  destruct (sha_mb_extra_blocks_eq_pad_thm c Hc msg Hok) as [H1 H2].
  split; [exact H1|]. split; [exact H2|exact (sha_mb_stream_eq_pad c Hc msg Hok)].
Qed.

Lemma cmac_lane_eq_cmac_aes_sum :
  forall key msg bits,
  cmac_lane_bytes (aes_enc_rk (aes_key_expand key)) (fst (cmac_subkeys key))
                  (snd (cmac_subkeys key)) msg = cmac key msg /\
  (cmac_len_bytes bits <= length msg ->
   cmac_lane (aes_enc_rk (aes_key_expand key)) (fst (cmac_subkeys key))
             (snd (cmac_subkeys key)) msg bits = cmac_bits key msg bits).
Proof.
  intros key msg bits. split.
  - exact (cmac_lane_eq_cmac key msg).
  - intros H. exact (cmac_lane_eq_cmac_bits key msg bits H).
Qed.

Lemma ghash_horner_eq_powersum_sum :
  forall (R : Type) (add mul : R -> R -> R) (zero : R),
  (forall a b c, add (add a b) c = add a (add b c)) ->
  (forall a, add a zero = a) ->
  (forall a b c, mul (mul a b) c = mul a (mul b c)) ->
  (forall a b c, mul (add a b) c = add (mul a c) (mul b c)) ->
  forall h t x y0,
  horner R add mul h (x :: t) y0 =
    add (mul y0 (hpow R mul h (length t))) (powersum R add mul zero h (x :: t)) /\
  horner R add mul h (x :: t) y0 = powersum R add mul zero h (add y0 x :: t).
Proof.
  intros R add mul zero A1 A2 M1 D h t x y0. split.
  - exact (horner_eq_powersum R add mul zero A1 A2 M1 D h t x y0).
  - exact (horner_aggregated R add mul zero A1 A2 M1 D h x t y0).
Qed.

Lemma gf128_mul_bilinear_sum :
  forall a b y,
  gf128_mul (N.lxor a b) y = N.lxor (gf128_mul a y) (gf128_mul b y) /\
  gf128_mul y (N.lxor a b) = N.lxor (gf128_mul y a) (gf128_mul y b).
Proof. intros a b y. split; [exact (gf128_mul_lxor_l a b y)|exact (gf128_mul_lxor_r y a b)]. Qed.
