(* Proofs/SnowvProofs.v — C03 structural proofs, part 2: SNOW-V-AEAD decrypt(encrypt) restores
   the plaintext and reproduces the identical tag, for every key / IV / AAD / plaintext.
   The only fact needed about the cipher is that every key-stream block has 16 bytes, which is
   an invariant of the register sizes through initialisation and clocking (no S-box or LFSR
   arithmetic is evaluated). *)
From Coq Require Import List NArith ZArith Bool Lia Arith PeanoNat ZifyNat ZifyN.
From IMB Require Import Lib.Bytes Proofs.BytesLemmas Spec.SNOWV.
Import ListNotations.

Ltac Zify.zify_post_hook ::= Z.div_mod_to_equations.

Ltac explode16 l H :=
  do 16 (destruct l as [|? l]; [discriminate H|]); destruct l; [clear H|discriminate H].

Definition sv_ok (s : snowv_state) : Prop :=
  length (sv_A s) = 16 /\ length (sv_B s) = 16 /\
  length (sv_R1 s) = 16 /\ length (sv_R2 s) = 16 /\ length (sv_R3 s) = 16.

Lemma add32x4_length a b : length a = 16 -> length b = 16 -> length (add32x4 a b) = 16.
Proof. intros Ha Hb. explode16 a Ha. explode16 b Hb. reflexivity. Qed.

Lemma snowv_T1_length s : length (sv_B s) = 16 -> length (snowv_T1 s) = 16.
Proof. intros H. unfold snowv_T1. remember (sv_B s) as B. explode16 B H. reflexivity. Qed.

Lemma snowv_T2_length s : length (sv_A s) = 16 -> length (snowv_T2 s) = 16.
Proof. intros H. unfold snowv_T2. remember (sv_A s) as A. explode16 A H. reflexivity. Qed.

Lemma snowv_z_length s : sv_ok s -> length (snowv_z s) = 16.
Proof.
  intros (HA & HB & H1 & H2 & H3). unfold snowv_z.
  rewrite xor_bytes_length, add32x4_length, H2; try assumption; [reflexivity|].
  apply snowv_T1_length. exact HB.
Qed.

Lemma snowv_aes_round_length st : length (snowv_aes_round st) = 16.
Proof. reflexivity. Qed.

Lemma permute_sigma_length st : length (permute snowv_sigma_perm st) = 16.
Proof. reflexivity. Qed.

Lemma lfsr_step_lengths A B :
  length A = 16 -> length B = 16 ->
  length (fst (lfsr_step (A, B))) = 16 /\ length (snd (lfsr_step (A, B))) = 16.
Proof.
  intros HA HB. unfold lfsr_step. cbn [fst snd].
  destruct A as [|a A]; [discriminate|]. destruct B as [|b B]; [discriminate|].
  cbn [tl length] in *. rewrite !app_length. cbn [length]. lia.
Qed.

Lemma lfsr_iter_lengths n : forall ab,
  length (fst ab) = 16 -> length (snd ab) = 16 ->
  length (fst (iter n lfsr_step ab)) = 16 /\ length (snd (iter n lfsr_step ab)) = 16.
Proof.
  induction n as [|n IH]; intros [A B] HA HB; cbn [iter]; [split; assumption|].
  cbn [fst snd] in HA, HB. destruct (lfsr_step_lengths A B HA HB) as [H1 H2].
  apply IH; assumption.
Qed.

Lemma lfsr_update_lengths A B : length A = 16 -> length B = 16 ->
  length (fst (lfsr_update (A, B))) = 16 /\ length (snd (lfsr_update (A, B))) = 16.
Proof. intros HA HB. unfold lfsr_update. apply lfsr_iter_lengths; assumption. Qed.

Lemma snowv_clock_ok s : sv_ok s -> sv_ok (snowv_clock s).
Proof.
  intros (HA & HB & H1 & H2 & H3). unfold snowv_clock.
  destruct (lfsr_update_lengths (sv_A s) (sv_B s) HA HB) as [HA' HB'].
  destruct (lfsr_update (sv_A s, sv_B s)) as [A' B']. cbn [fst snd] in HA', HB'.
  unfold sv_ok. cbn [sv_A sv_B sv_R1 sv_R2 sv_R3].
  repeat split; try assumption; reflexivity.
Qed.

Lemma words16_of_16_bytes z : length z = 16 -> length (words16_of_bytes z) = 8.
Proof. intros H. explode16 z H. reflexivity. Qed.

Lemma init_round_aux A B R1 R2 R3 z :
  length A = 16 -> length B = 16 -> length R1 = 16 -> length R2 = 16 -> length R3 = 16 ->
  length z = 16 ->
  sv_ok (mkSnowV (firstn 8 A ++ map (fun p => N.lxor (fst p) (snd p))
                                    (combine (skipn 8 A) (words16_of_bytes z))) B R1 R2 R3).
Proof.
  intros HA HB H1 H2 H3 Hz. unfold sv_ok. cbn [sv_A sv_B sv_R1 sv_R2 sv_R3].
  repeat split; try assumption.
  rewrite app_length, map_length, combine_length, firstn_length, skipn_length, HA.
  rewrite words16_of_16_bytes by exact Hz. reflexivity.
Qed.

Lemma snowv_init_round_ok s : sv_ok s -> sv_ok (snowv_init_round s).
Proof.
  intros Hs. pose proof (snowv_z_length s Hs) as Hz.
  destruct (snowv_clock_ok s Hs) as (HA & HB & H1 & H2 & H3).
  unfold snowv_init_round. apply init_round_aux; assumption.
Qed.

Lemma snowv_xor_R1_ok s k : sv_ok s -> length k = 16 -> sv_ok (snowv_xor_R1 s k).
Proof.
  intros (HA & HB & H1 & H2 & H3) Hk. unfold snowv_xor_R1, sv_ok.
  cbn [sv_A sv_B sv_R1 sv_R2 sv_R3]. repeat split; try assumption.
  rewrite xor_bytes_length, H1, Hk. reflexivity.
Qed.

Lemma iter_preserves {A} (P : A -> Prop) f : (forall x, P x -> P (f x)) ->
  forall n x, P x -> P (iter n f x).
Proof. intros Hf. induction n as [|n IH]; intros x Hx; cbn [iter]; [exact Hx|]. apply IH, Hf, Hx. Qed.

Lemma firstn_pad_right_length n l : length (firstn n (pad_right n l)) = n.
Proof. apply firstn_length_le. rewrite pad_right_length. lia. Qed.

Theorem snowv_init_ok aead key iv : sv_ok (snowv_init aead key iv).
Proof.
  unfold snowv_init.
  set (key' := firstn 32 (pad_right 32 key)). set (iv' := firstn 16 (pad_right 16 iv)).
  assert (Hk : length key' = 32) by apply firstn_pad_right_length.
  assert (Hi : length iv' = 16) by apply firstn_pad_right_length.
  assert (Hlo : length (firstn 16 key') = 16) by (apply firstn_length_le; lia).
  assert (Hhi : length (skipn 16 key') = 16) by (rewrite skipn_length; lia).
  apply snowv_xor_R1_ok; [|exact Hhi]. apply snowv_init_round_ok.
  apply snowv_xor_R1_ok; [|exact Hlo]. apply snowv_init_round_ok.
  apply (iter_preserves sv_ok); [exact snowv_init_round_ok|].
  unfold sv_ok. cbn [sv_A sv_B sv_R1 sv_R2 sv_R3].
  rewrite !app_length, !words16_of_16_bytes by assumption.
  repeat split; try reflexivity. destruct aead; reflexivity.
Qed.

Lemma snowv_ks_from_length n : forall s, sv_ok s -> length (snowv_ks_from n s) = 16 * n.
Proof.
  induction n as [|n IH]; intros s Hs; cbn [snowv_ks_from]; [reflexivity|].
  rewrite app_length, (snowv_z_length s Hs), IH by (apply snowv_clock_ok; exact Hs). lia.
Qed.

(* the data key stream of the AEAD covers the text *)
Lemma snowv_aead_ks_length key iv nb :
  length (snd (snowv_aead_core key iv nb)) = 16 * nb.
Proof.
  unfold snowv_aead_core. cbn [snd]. rewrite skipn_length.
  rewrite snowv_ks_from_length by apply snowv_init_ok. lia.
Qed.

Lemma nblocks16_ext (a b : bytes) : length a = length b -> nblocks16 a = nblocks16 b.
Proof. unfold nblocks16. intros ->. reflexivity. Qed.

Lemma nblocks16_covers l : length l <= 16 * nblocks16 l.
Proof. unfold nblocks16. lia. Qed.

(* THEOREM snowv_aead_dec_enc: every key / IV (the model zero-pads / truncates them to 32 / 16
   bytes) / AAD / plaintext *)
Theorem snowv_aead_dec_enc_thm key iv aad pt :
  snowv_aead_dec key iv aad (fst (snowv_aead_enc key iv aad pt)) =
  (pt, snd (snowv_aead_enc key iv aad pt)).
Proof.
  unfold snowv_aead_enc, snowv_aead_dec.
  pose proof (snowv_aead_ks_length key iv (nblocks16 pt)) as Hks.
  destruct (snowv_aead_core key iv (nblocks16 pt)) as [[h endpad] ks] eqn:Ec. cbn [snd] in Hks.
  cbn [fst snd].
  assert (Hlen : length (xor_bytes pt ks) = length pt).
  { rewrite xor_bytes_length, Hks. pose proof (nblocks16_covers pt). lia. }
  assert (Enb : nblocks16 (xor_bytes pt ks) = nblocks16 pt) by (apply nblocks16_ext, Hlen).
  rewrite Enb, Ec.
  rewrite xor_bytes_invol by (rewrite Hks; apply nblocks16_covers). reflexivity.
Qed.

(* plain SNOW-V: encrypt = decrypt, involutive *)
Theorem snowv_involutive key iv msg : snowv key iv (snowv key iv msg) = msg.
Proof.
  unfold snowv, snowv_keystream.
  assert (Hl : forall m, length (snowv_ks_from (nblocks16 m) (snowv_init false key iv)) = 16 * nblocks16 m)
    by (intros m; apply snowv_ks_from_length, snowv_init_ok).
  assert (Hlen : length (xor_bytes msg (snowv_ks_from (nblocks16 msg) (snowv_init false key iv)))
                 = length msg).
  { rewrite xor_bytes_length, Hl. pose proof (nblocks16_covers msg). lia. }
  assert (Enb : nblocks16 (xor_bytes msg (snowv_ks_from (nblocks16 msg) (snowv_init false key iv)))
                = nblocks16 msg) by (apply nblocks16_ext, Hlen).
  rewrite Enb. apply xor_bytes_invol. rewrite Hl. apply nblocks16_covers.
Qed.
