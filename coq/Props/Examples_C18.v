(** * Examples for property C18 (tests, not theorems about the library)

    1. A small hand-written program in the style of the library's manager entry points
       (aligned frame, registers saved in frame slots, call of a kernel that clobbers
       registers, conditional branch, epilogue) is accepted by the validator, so the
       hypotheses of [c18_frame_check_sound] are satisfiable.
    2. [exec] is inhabited: a concrete terminating run of a caller/callee pair is derived by
       hand, and the soundness theorem is applied to it.
    3. Five realistic defects (a dropped restore, an early [ret] that skips the epilogue,
       [std] without [cld], [and rsp] without a saved rsp, a store into the caller's frame)
       are all rejected. *)

From Coq Require Import ZArith List Bool String Lia.
From IMB Require Import X86.Frame X86.FrameCheck X86.FrameSound.
Import ListNotations.
Local Open Scope string_scope.
Local Open Scope Z_scope.

Definition B (l : positive) (is : list instr) (t : term) : positive * block := (l, (is, t)).

(** ** 1. an accepted program *)

(* kernel: clobbers rax, rcx, rbx, r12 (deliberately not System V) *)
Definition kernel_fn : fn := Build_fn 1 [B 1 [IClob 4107] TRet].
Definition kernel_sum : summary := mkSum 61412 true.   (* everything but rax rcx rbx r12 (and rsp) *)
Definition kernel_def : fdef := mkDef "kernel" false kernel_sum [] [(1%positive, init_state)] kernel_fn.

Definition tbl : table := [("kernel", kernel_sum)].

(*  mov rax,rsp ; sub rsp,40 ; and rsp,-16 ; mov [rsp],rbx ; mov [rsp+8],r12 ; mov [rsp+32],rax
    call kernel ; jcc L3 ; L2: xor ebx,ebx ; L3: mov rbx,[rsp] ; mov r12,[rsp+8] ; mov rsp,[rsp+32] ; ret *)
Definition prologue : list instr :=
  [IMov 0 4; ILea 4 4 (-40); IAndSp; IStore 4 0 8 (Some 3); IStore 4 8 8 (Some 12); IStore 4 32 8 (Some 0)].
Definition epilogue : list instr := [ILoad 3 4 0; ILoad 12 4 8; ILoad 4 4 32].

Definition entry_fn : fn :=
  Build_fn 1 [B 1 (prologue ++ [ICall "kernel"]) (TJcc 3 2);
              B 2 [IClob 8] (TJmp 3);
              B 3 epilogue TRet].

(* the certificate is untrusted: compute it with the transfer function itself *)
Definition after (is : list instr) (a : astate) : astate :=
  match tr_list tbl is a with Some a' => a' | None => a end.
Definition st_body : astate := after [IClob 8] (after (prologue ++ [ICall "kernel"]) init_state).
Definition entry_ann : list (positive * astate) := [(1%positive, init_state); (2%positive, st_body); (3%positive, st_body)].
Definition entry_def : fdef := mkDef "entry" true sysv tbl entry_ann entry_fn.

Definition prog : list fdef := [entry_def; kernel_def].

Example prog_accepted : prog_ok prog = true.
Proof. vm_compute. reflexivity. Qed.

(** the soundness theorem applies to it *)
Example entry_obeys_sysv :
  forall c r, cdf c = false -> exec (code_of prog) entry_fn c r ->
  post (cr c) (cm c) (cmx c) sysv (fst r) (snd r).
Proof.
  intros c r Hdf Hex.
  exact (frame_check_sysv prog prog_accepted entry_def (or_introl eq_refl) eq_refl c r Hdf Hex).
Qed.

(** ** 2. [exec] is inhabited *)

Definition caller_fn : fn := Build_fn 1 [B 1 [IPush (SReg 3); ICall "leaf"; IPop (SReg 3)] TRet].
Definition leaf_fn : fn := Build_fn 1 [B 1 [IClob 8] TRet].     (* clobbers rbx *)
Definition leaf_sum : summary := mkSum 65511 true.               (* everything but rbx (and rsp) *)
Definition prog2 : list fdef :=
  [mkDef "caller" true sysv [("leaf", leaf_sum)]
         [(1%positive, init_state)] caller_fn;
   mkDef "leaf" false leaf_sum [] [(1%positive, init_state)] leaf_fn].

Example prog2_accepted : prog_ok prog2 = true.
Proof. vm_compute. reflexivity. Qed.

Lemma stored_upd a m v : stored a 8 m (upd m a v).
Proof.
  intros x Hx. unfold upd. destruct (Z.eqb x a) eqn:E; auto. apply Z.eqb_eq in E. lia.
Qed.

(* a concrete machine state: rsp = 4096, rbx = 7, everything else 0 *)
Definition c0 : cstate := mkC (fun r => if Z.eqb r 4 then 4096 else if Z.eqb r 3 then 7 else 0) (fun _ => 0) false 8064.
Definition c1 : cstate := mkC (upd (cr c0) RSP 4088) (upd (cm c0) 4088 7) false 8064.                 (* after push rbx *)
Definition c2 : cstate := mkC (upd (cr c1) RSP 4080) (upd (cm c1) 4080 12345) false 8064.             (* after call: return address pushed *)
Definition c3 : cstate := mkC (upd (cr c2) 3 99) (cm c2) false 8064.                                  (* leaf wrote 99 into rbx *)
Definition c4 : cstate := fst (ret_state c3).                                                         (* leaf returned *)
Definition c5 : cstate := mkC (upd (upd (cr c4) RSP 4096) 3 7) (cm c4) false 8064.                    (* after pop rbx *)

Example caller_runs : exec (code_of prog2) caller_fn c0 (ret_state c5).
Proof.
  exists [IPush (SReg 3); ICall "leaf"; IPop (SReg 3)], TRet. split; [reflexivity|].
  apply run_step with (c1 := c1); [reflexivity| |].
  { simpl. repeat split; try reflexivity. apply stored_upd. }
  apply run_call_def with (g := "leaf") (gf := leaf_fn) (gis := [IClob 8]) (gt := TRet) (c1 := c2) (c2 := c4) (ra := 12345);
    [reflexivity|reflexivity| | |].
  { unfold call_push. repeat split; try reflexivity. apply stored_upd. }
  { apply run_step with (c1 := c3); [reflexivity| |].
    - simpl. repeat split; try reflexivity.
      intros r Hr. unfold c3, upd; simpl. destruct (Z.eqb r 3) eqn:E; auto.
      apply Z.eqb_eq in E. subst r. discriminate Hr.
    - apply run_ret. }
  apply run_step with (c1 := c5); [reflexivity| |].
  { simpl. repeat split; reflexivity. }
  apply run_ret.
Qed.

(** ... and the theorem says what it should about that run: rbx is 7 again, rsp = 4096 + 8 *)
Example caller_result : cr (fst (ret_state c5)) 3 = 7 /\ cr (fst (ret_state c5)) RSP = 4104.
Proof.
  pose proof (frame_check_sysv prog2 prog2_accepted _ (or_introl eq_refl) eq_refl c0 _ eq_refl caller_runs) as (H1 & H2 & _).
  split; [apply (H1 3); [simpl; tauto | reflexivity] | exact H2].
Qed.

(** ** 3. rejected defects *)

Definition check1 (f : fn) (ann : list (positive * astate)) : bool := check_fn tbl sysv ann f.

(* (a) the restore of r12 is dropped *)
Definition bad_restore : fn :=
  Build_fn 1 [B 1 (prologue ++ [ICall "kernel"]) (TJcc 3 2); B 2 [IClob 8] (TJmp 3);
              B 3 [ILoad 3 4 0; ILoad 4 4 32] TRet].
Example bad_restore_rejected : check1 bad_restore entry_ann = false.
Proof. vm_compute. reflexivity. Qed.

(* (b) an early return path that skips the epilogue *)
Definition bad_early_ret : fn :=
  Build_fn 1 [B 1 (prologue ++ [ICall "kernel"]) (TJcc 3 2); B 2 [IClob 8] TRet; B 3 epilogue TRet].
Example bad_early_ret_rejected : check1 bad_early_ret entry_ann = false.
Proof. vm_compute. reflexivity. Qed.

(* (c) std without cld *)
Definition bad_df : fn :=
  Build_fn 1 [B 1 (prologue ++ [ICall "kernel"]) (TJcc 3 2); B 2 [ISetDF true] (TJmp 3); B 3 epilogue TRet].
Definition st_df : astate := after [ISetDF true] (after (prologue ++ [ICall "kernel"]) init_state).
Example bad_df_rejected :
  check1 bad_df entry_ann = false /\
  check1 bad_df [(1%positive, init_state); (2%positive, st_body); (3%positive, mkA (ar st_body) (asl st_body) (alv st_body) None (amx st_body))] = false.
Proof. split; vm_compute; reflexivity. Qed.

(* (d) and rsp,-16 without saving the old rsp *)
Definition bad_and : fn := Build_fn 1 [B 1 [ILea 4 4 (-40); IAndSp; ILea 4 4 40] TRet].
Example bad_and_rejected : check1 bad_and [(1%positive, init_state)] = false.
Proof. vm_compute. reflexivity. Qed.

(* (e) a store into the caller's frame / over the return address *)
Definition bad_store : fn := Build_fn 1 [B 1 [IStore 4 0 8 (Some 3)] TRet].
Example bad_store_rejected : check1 bad_store [(1%positive, init_state)] = false.
Proof. vm_compute. reflexivity. Qed.

(* (f) a caller that relies on a register the callee's summary does not promise *)
Definition bad_caller : fn := Build_fn 1 [B 1 [ICall "kernel"] TRet].
Example bad_caller_rejected : check1 bad_caller [(1%positive, init_state)] = false.
Proof. vm_compute. reflexivity. Qed.

(* (g) the link check refuses a call-site summary that promises more than the callee was validated against *)
Example bad_link_rejected :
  prog_ok [mkDef "caller" true sysv [("leaf", sysv)] [(1%positive, init_state)]
                 (Build_fn 1 [B 1 [ICall "leaf"] TRet]);
           mkDef "leaf" false leaf_sum [] [(1%positive, init_state)] leaf_fn] = false.
Proof. vm_compute. reflexivity. Qed.
