(* Props/Properties_C17.v — property C17: distinct managers share no mutable state that
   influences results.  Model: Mgr/Globals.v (world = globals x managers, ring model of
   Mgr/Ring.v per manager); the set of globals is tied to the rebuilt library by
   Gen/GenGlobals.v (translators/t6_globals.py, every run).  Proofs: Proofs/GlobalsProofs.v.
   Nothing here but the theorems, each closed by [exact]. *)
From Coq Require Import String.
From Coq Require Import ZArith List Bool.
From IMB Require Import Gen.GenConsts Gen.GenGlobals Gen.GenStrerror Mgr.Ring Mgr.Errno Mgr.Globals
                        Proofs.GlobalsProofs Proofs.ErrnoProofs.
Import ListNotations.
Local Open Scope Z_scope.

Notation SZ := SIZEOF_IMB_JOB.
Notation NJ := IMB_MAX_JOBS.
Notation MAXB := IMB_MAX_BURST_SIZE.

(* Finite, complete over every symbol of every run-time-writable section of the rebuilt .so:
   each one is a modelled global of the documented size (the CPUID cache and the session counter
   moreover touched only by cpu_feature_detect / imb_set_session), or a toolchain symbol, or the
   never-written exported pointer imb_version_str; unnamed gaps are alignment padding; the
   modelled globals exist.  A new static scratch buffer, lazily initialised table or
   "last used manager" cache makes this fail. *)
Theorem writable_globals_are_modelled :
  forallb sym_ok writable_syms = true
  /\ forallb gap_ok writable_gaps = true
  /\ (has_sym "imb_errno" && has_sym "cpuid_1_0" && has_sym "cpuid_7_0" && has_sym "cpuid_7_1"
      && (has_sym "counter.0" || has_sym "imb_set_session.counter"))%string = true
  /\ forallb (fun s => mem_str (fst s) [".data"; ".bss"; ".tdata"; ".tbss"]%string) writable_sections = true.
Proof. exact writable_globals_are_modelled_thm. Qed.
Print Assumptions writable_globals_are_modelled.

(* For ALL interleavings l of calls (job/burst API with any oracle, other API functions,
   imb_set_session, init, imb_get_errno) on any number of managers, for every manager i, from any
   two worlds agreeing on i (so whatever the globals hold and whatever the other managers are):
   i's final state and everything i observed — return values, outputs, statuses, its error FIELD
   after every call; only the session id and the value of the FUNCTION imb_get_errno erased —
   equal those of i's own calls run alone. *)
Theorem mgr_noninterference : forall cell_of cpu feat_of sess ring0 l w w' i,
  mgrs w i = mgrs w' i ->
  mgrs (fst (wrun SZ NJ MAXB cell_of cpu feat_of sess ring0 w l)) i
  = mgrs (fst (wrun SZ NJ MAXB cell_of cpu feat_of sess ring0 w' (only i l))) i
  /\ outs_of i (snd (wrun SZ NJ MAXB cell_of cpu feat_of sess ring0 w l))
     = outs_of i (snd (wrun SZ NJ MAXB cell_of cpu feat_of sess ring0 w' (only i l))).
Proof. exact (mgr_noninterference_thm SZ NJ MAXB). Qed.
Print Assumptions mgr_noninterference.

Theorem interleavings_indistinguishable : forall cell_of cpu feat_of sess ring0 l1 l2 w i,
  only i l1 = only i l2 ->
  mgrs (fst (wrun SZ NJ MAXB cell_of cpu feat_of sess ring0 w l1)) i
  = mgrs (fst (wrun SZ NJ MAXB cell_of cpu feat_of sess ring0 w l2)) i
  /\ outs_of i (snd (wrun SZ NJ MAXB cell_of cpu feat_of sess ring0 w l1))
     = outs_of i (snd (wrun SZ NJ MAXB cell_of cpu feat_of sess ring0 w l2)).
Proof. exact (interleaving_irrelevant SZ NJ MAXB). Qed.
Print Assumptions interleavings_indistinguishable.

(* the FUNCTION imb_get_errno(i) after an interleaving equals its solo value if and only if i's
   own field is non-zero or the mirror cell i reads holds the solo value *)
Theorem get_errno_characterisation : forall cell_of cpu feat_of sess ring0 l w i,
  let w1 := fst (wrun SZ NJ MAXB cell_of cpu feat_of sess ring0 w l) in
  let w2 := fst (wrun SZ NJ MAXB cell_of cpu feat_of sess ring0 w (only i l)) in
  get_errno cell_of w1 i = get_errno cell_of w2 i <->
  errno (m_ring (mgrs w1 i)) <> 0 \/ g_errno (glob w1) (cell_of i) = g_errno (glob w2) (cell_of i).
Proof. exact (get_errno_characterisation_thm SZ NJ MAXB). Qed.
Print Assumptions get_errno_characterisation.

(* the accessor functions of today's source (translated on every run) are the modelled ones *)
Theorem errno_accessors_match_source : forall b e m,
  src_get_errno b (e_field m) (e_glob m) = imb_get_errno b m /\
  src_set_errno b e (e_field m) (e_glob m) = (e_field (imb_set_errno b e m), e_glob (imb_set_errno b e m)).
Proof. intros b e m; split; [exact (src_get_errno_is_model b m) | exact (src_set_errno_is_model b e m)]. Qed.
Print Assumptions errno_accessors_match_source.

(* read right after the manager's own (mirror-writing) call: no influence *)
Theorem get_errno_after_own_call : forall cell_of cpu feat_of sess ring0 l w i o,
  writes_mirror o = true ->
  get_errno cell_of (fst (wrun SZ NJ MAXB cell_of cpu feat_of sess ring0 w (l ++ [(i, o)]))) i
  = get_errno cell_of (fst (wrun SZ NJ MAXB cell_of cpu feat_of sess ring0 w (only i (l ++ [(i, o)])))) i.
Proof. exact (get_errno_after_own_call_thm SZ NJ MAXB). Qed.
Print Assumptions get_errno_after_own_call.

(* a mirror cell no other manager of the history hits (thread-local mirror, one manager per
   thread): no influence at any time *)
Theorem get_errno_private_cell : forall cell_of cpu feat_of sess ring0 l w i,
  (forall j o, In (j, o) l -> j <> i -> cell_of j <> cell_of i) ->
  get_errno cell_of (fst (wrun SZ NJ MAXB cell_of cpu feat_of sess ring0 w l)) i
  = get_errno cell_of (fst (wrun SZ NJ MAXB cell_of cpu feat_of sess ring0 w (only i l))) i.
Proof. exact (get_errno_private_cell_thm SZ NJ MAXB). Qed.
Print Assumptions get_errno_private_cell.

(* feature detection neither depends on nor changes (beyond the CPU's constant answer) the cache *)
Theorem cpuid_cache_idempotent : forall cell_of cpu feat_of sess ring0 w1 w2 i j,
  g_cpuid (glob (fst (wstep SZ NJ MAXB cell_of cpu feat_of sess ring0 w1 i WInit))) = cpu
  /\ g_cpuid (glob (fst (wstep SZ NJ MAXB cell_of cpu feat_of sess ring0
                           (fst (wstep SZ NJ MAXB cell_of cpu feat_of sess ring0 w1 i WInit)) j WInit)))
     = g_cpuid (glob (fst (wstep SZ NJ MAXB cell_of cpu feat_of sess ring0 w1 i WInit)))
  /\ m_feat (mgrs (fst (wstep SZ NJ MAXB cell_of cpu feat_of sess ring0 w1 i WInit)) i)
     = m_feat (mgrs (fst (wstep SZ NJ MAXB cell_of cpu feat_of sess ring0 w2 i WInit)) i)
  /\ snd (wstep SZ NJ MAXB cell_of cpu feat_of sess ring0 w1 i WInit)
     = snd (wstep SZ NJ MAXB cell_of cpu feat_of sess ring0 w2 i WInit).
Proof. exact (cpuid_cache_idempotent_thm SZ NJ MAXB). Qed.
Print Assumptions cpuid_cache_idempotent.

(* ... and under real concurrency, word by word: every word a thread loads after having stored
   it is the CPU's answer, whatever the other threads store meanwhile (all of them store the same
   constant) — the races on the cache are benign by value *)
Theorem cpuid_race_benign : forall cpuw evs mem0,
  reads_follow_own_writes [] evs = true ->
  Forall (fun r : nat * nat * Z => snd r = cpuw (snd (fst r))) (crun cpuw mem0 evs).
Proof. exact cpuid_race_benign_thm. Qed.
Print Assumptions cpuid_race_benign.

(* the counter counts imb_set_session calls of all managers and is read by nothing else *)
Theorem session_counter_only_affects_session_id : forall cell_of cpu feat_of sess ring0 l w,
  g_counter (glob (fst (wrun SZ NJ MAXB cell_of cpu feat_of sess ring0 w l))) = ctr_after (g_counter (glob w)) l.
Proof. exact (session_counter_thm SZ NJ MAXB). Qed.
Print Assumptions session_counter_only_affects_session_id.
