(** * Property C18 -- calling convention of the hand-written (NASM) code

    "Every exported function and every manager entry point obeys the platform calling
    convention (System V x86-64) on all paths: callee-saved general-purpose registers
    (rbx, rbp, r12-r15) and the stack pointer are restored, the direction flag is clear and
    MXCSR is unchanged on return, whatever algorithm, length or lane state the call encounters."

    Shape of the proof (DESIGN.md section C18, coq/X86/C18_NOTES.md):

      - X86/Frame.v        the frame machine (registers, stack words, DF, MXCSR; big-step [exec]);
      - X86/FrameCheck.v   the executable certificate validator [check_fn] / [prog_ok];
      - X86/FrameSound.v   its soundness, proved once for all programs;
      - Gen/GenCfg_<obj>.v            CFG + certificate of every function of every NASM object,
                                       regenerated from the rebuilt objects by translators/t5_cfg.py;
      - Props/Properties_C18_<obj>.v  one [vm_compute] theorem per object:
                                       [forallb fdef_ok all_functions_<obj> = true];
      - Props/Properties_C18_All.v    (generated) glue: all objects validate, the summaries used at
                                       call sites are consistent ([c18_link]), hence
                                       [c18_calling_convention] for the whole library.

    This file states the generic soundness theorem the per-object theorems are instances of. *)

From Coq Require Import ZArith List Bool String.
From IMB Require Import X86.Frame X86.FrameCheck X86.FrameSound.

(** If the validator accepts program [P] then every complete activation (entry to [ret], DF
    clear on entry as the ABI requires) of every function [d] of [P] satisfies [d]'s summary:
    the promised registers hold their entry values, rsp = entry rsp + 8 (the return address was
    popped, and it is the one the caller pushed), memory at and above the entry rsp -- the return
    address and the caller's frame -- is unchanged, DF = 0, and MXCSR holds its entry value when
    the summary says so. *)
Theorem c18_frame_check_sound :
  forall P : list fdef, prog_ok P = true ->
  forall d, In d P -> forall c r, cdf c = false ->
  exec (code_of P) (d_fn d) c r ->
  post (cr c) (cm c) (cmx c) (d_sum d) (fst r) (snd r).
Proof. exact frame_check_sound. Qed.
Print Assumptions c18_frame_check_sound.

(** For functions flagged callable-from-C the summary is (at least) the System V one:
    rbx, rbp, r12-r15 and MXCSR preserved. *)
Theorem c18_frame_check_sysv :
  forall P : list fdef, prog_ok P = true ->
  forall d, In d P -> d_creach d = true ->
  forall c r, cdf c = false -> exec (code_of P) (d_fn d) c r ->
  post (cr c) (cm c) (cmx c) sysv (fst r) (snd r).
Proof. exact frame_check_sysv. Qed.
Print Assumptions c18_frame_check_sysv.
