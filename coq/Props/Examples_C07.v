(* Props/Examples_C07.v -- EXAMPLES / TESTS for property C07 (memory contract of a job).
   Nothing here is an obligation: these are sanity checks showing that the hypotheses of the
   theorems of Props/Properties_C07.v are satisfiable on concrete, non-trivial job views, and
   what the contract of Struct/Footprint.v evaluates to on them.  The function [ex_F] is a TOY
   algorithm (xor with a constant, truncation), not a cipher. *)
From Coq Require Import NArith List Bool Lia.
From IMB Require Import Lib.Bytes Gen.GenEnums Gen.GenC07Sizes Struct.Footprint.
From IMB Require Import Proofs.FootprintProofs Props.Properties_C07.
Import ListNotations.
Local Open Scope N_scope.

(* ------------------------------------------------------------------------- *)
(* boolean checker for out-of-place layouts *)

Definition oop_layout_okb (j : fview) (lay : layout) : bool :=
  forallb (fun a => forallb (fun b =>
    obj_eqb a b || disjoint_arb (obj_extent j lay a) (obj_extent j lay b)) all_objs) all_objs.

Lemma disjoint_arb_sound : forall x y, disjoint_arb x y = true -> disjoint_ar x y.
Proof.
  intros x y H. unfold disjoint_arb in H. unfold disjoint_ar.
  repeat rewrite orb_true_iff in H.
  destruct H as [[[H|H]|H]|H].
  - left. apply N.eqb_eq. exact H.
  - right. left. apply N.eqb_eq. exact H.
  - right. right. left. apply N.leb_le. exact H.
  - right. right. right. apply N.leb_le. exact H.
Qed.

Lemma oop_layout_okb_sound : forall j lay, oop_layout_okb j lay = true -> oop_layout_ok j lay.
Proof.
  intros j lay H a b Ha Hb Hne. unfold oop_layout_okb in H.
  rewrite forallb_forall in H. specialize (H a Ha).
  rewrite forallb_forall in H. specialize (H b Hb).
  apply orb_true_iff in H. destruct H as [H|H].
  - exfalso. apply Hne. apply obj_eqb_eq. exact H.
  - apply disjoint_arb_sound. exact H.
Qed.

(* ------------------------------------------------------------------------- *)
(* common test data *)

(* a layout with every object on its own 4 KiB page *)
Definition ex_lay : layout := fun o =>
  match o with
  | OSrc => 4096 | ODst => 8192 | OIv => 12288 | OTag => 16384 | OEnc => 20480 | ODec => 24576
  | OAk0 => 28672 | OAk1 => 32768 | OAad => 36864 | OKs0 => 40960 | OKs1 => 45056 | OKs2 => 49152
  | ONiv => 53248 | OAk2 => 57344
  end.

(* toy algorithm: first output = first input xor 0x5a, second output = first 12 bytes of the
   second input *)
Definition ex_F (j : fview) (ins : list bytes) : list bytes :=
  [map (fun b => N.lxor b 90) (hd [] ins); firstn 12 (hd [] (tl ins))].

(* a concrete memory: byte at address a is (a + 173) mod 256 *)
Definition ex_mem : mem := fun a => N.land (a + 173) 255.

(* ------------------------------------------------------------------------- *)
(* (i) AES-128-CBC + HMAC-SHA1, encrypt, cipher bytes [24,56), hash bytes [0,56), 12-byte tag *)

Definition ex_cbc_hmac : fview :=
  mk_fview 1 (* CBC *) 1 (* HMAC_SHA_1 *) 1 (* ENCRYPT *) 1 (* CIPHER_HASH *) 16 (* key_len *)
           24 32 (* coff clen *) 0 56 (* hoff hlen *) 16 (* iv_len *) 12 (* tag_len *)
           0 (* aad *) 0 (* aiv *) 20 (* akey_len *) 56 (* src_size *) 0 (* pli *) 16 256.

Example ex_cbc_hmac_accepted : accepted ex_cbc_hmac = true.
Proof. vm_compute. reflexivity. Qed.

(* objects (index, size): src 56, dst 32, iv 16, tag 12, enc/dec schedules 176, ipad/opad 20 *)
Example ex_cbc_hmac_objs :
  fp_objs ex_cbc_hmac = [(0, 56); (1, 32); (2, 16); (4, 12); (5, 176); (6, 176); (11, 20); (12, 20)].
Proof. vm_compute. reflexivity. Qed.

(* writes (index, from, to, mfirst, mlast): dst[0,32) and tag[0,12), whole bytes *)
Example ex_cbc_hmac_W :
  fp_W ex_cbc_hmac = [(1, (0, (32, (255, 255)))); (4, (0, (12, (255, 255))))].
Proof. vm_compute. reflexivity. Qed.

(* reads (index, offset, length) *)
Example ex_cbc_hmac_R :
  map (fun r => (obj_index (o_obj r), o_off r, o_len r)) (footprint_R ex_cbc_hmac) =
  [(0, 24, 32); (0, 0, 56); (2, 0, 16); (5, 0, 176); (6, 0, 176); (11, 0, 20); (12, 0, 20)].
Proof. vm_compute. reflexivity. Qed.

Example ex_cbc_hmac_no_src_write : writes_src ex_cbc_hmac = false.
Proof. vm_compute. reflexivity. Qed.

Example ex_lay_okb : oop_layout_okb ex_cbc_hmac ex_lay = true.
Proof. vm_compute. reflexivity. Qed.

Example ex_lay_ok : oop_layout_ok ex_cbc_hmac ex_lay.
Proof. apply oop_layout_okb_sound. exact ex_lay_okb. Qed.

(* an overlapping layout is rejected by the checker: dst = src + 4 overlaps the source buffer *)
Example ex_lay_overlap_rejected :
  oop_layout_okb ex_cbc_hmac (fun o => match o with ODst => 4100 | _ => ex_lay o end) = false.
Proof. vm_compute. reflexivity. Qed.

(* [src_intact] instantiated: the 56 source bytes are unchanged, for every memory *)
Example ex_cbc_hmac_src_intact :
  forall m a, 4096 <= a -> a < 4096 + 56 ->
              run_job_mem ex_F ex_cbc_hmac ex_lay m a = m a.
Proof.
  intros m a H1 H2.
  apply src_intact.
  - exact ex_cbc_hmac_accepted.
  - exact ex_lay_ok.
  - exact ex_cbc_hmac_no_src_write.
  - change (4096 <= a /\ a < 4096 + 56). split; assumption.
Qed.

(* [inplace_eq_outofplace] instantiated: dst = src + 24 gives the bytes of the out-of-place run *)
Example ex_cbc_hmac_inplace :
  forall m i,
    N.land (run_job_mem ex_F ex_cbc_hmac (ip_layout ex_cbc_hmac ex_lay) m (4096 + 24 + i))
           (dst_mask ex_cbc_hmac i) =
    N.land (run_job_mem ex_F ex_cbc_hmac ex_lay m (8192 + i)) (dst_mask ex_cbc_hmac i).
Proof.
  intros m i.
  exact (inplace_eq_outofplace ex_F ex_cbc_hmac ex_lay m i
           ex_cbc_hmac_accepted eq_refl eq_refl ex_lay_ok).
Qed.

(* the same on the concrete memory: destination byte 5 is src[29] xor 0x5a in both runs, and the
   mask of a byte inside [0,32) is 0xff, outside it is 0 *)
Example ex_cbc_hmac_inplace_concrete :
  run_job_mem ex_F ex_cbc_hmac (ip_layout ex_cbc_hmac ex_lay) ex_mem (4096 + 24 + 5) = 144 /\
  run_job_mem ex_F ex_cbc_hmac ex_lay ex_mem (8192 + 5) = 144 /\
  N.lxor (ex_mem (4096 + 24 + 5)) 90 = 144 /\
  dst_mask ex_cbc_hmac 5 = 255 /\ dst_mask ex_cbc_hmac 32 = 0.
Proof. vm_compute. repeat split; reflexivity. Qed.

(* out of place on the concrete memory: byte before dst, dst[0], dst[31], byte behind dst,
   byte before tag, tag[0], tag[11], byte behind tag *)
Example ex_cbc_hmac_run_concrete :
  map (run_job_mem ex_F ex_cbc_hmac ex_lay ex_mem) [8191; 8192; 8223; 8224; 16383; 16384; 16395; 16396] =
  [172; 159; 190; 205; 172; 173; 184; 185] /\
  map ex_mem [8191; 8224; 16383; 16396] = [172; 205; 172; 185] /\
  map ex_mem [4096; 4107] = [173; 184].
Proof. vm_compute. repeat split; reflexivity. Qed.

(* [run_job_frame] and [footprint_within_objects] instantiated *)
Example ex_cbc_hmac_frame :
  forall m, run_job_mem ex_F ex_cbc_hmac ex_lay m 8224 = m 8224.
Proof.
  intro m. apply run_job_frame. intros [r [Hin [H1 H2]]].
  vm_compute in Hin. destruct Hin as [<-|[<-|[]]]; vm_compute in H1, H2;
    first [apply H1; reflexivity | discriminate H2].
Qed.

Example ex_cbc_hmac_within :
  forallb (fun r => o_off r + o_len r <=? obj_size ex_cbc_hmac (o_obj r))
          (footprint_R ex_cbc_hmac ++ footprint_W ex_cbc_hmac) = true.
Proof. vm_compute. reflexivity. Qed.

(* ------------------------------------------------------------------------- *)
(* (ii) bit mode: SNOW3G UEA2, offset 3 bits, length 21 bits, 3-byte buffer *)

Definition ex_snow3g : fview :=
  mk_fview 15 (* SNOW3G_UEA2_BITLEN *) 8 (* NULL *) 1 1 16 3 21 (* coff clen, in bits *)
           0 0 16 0 0 0 0 3 (* src_size *) 0 16 256.

Example ex_snow3g_accepted : accepted ex_snow3g = true.
Proof. vm_compute. reflexivity. Qed.

Example ex_snow3g_dst :
  (d_from ex_snow3g, d_to ex_snow3g, d_mfirst ex_snow3g, d_mlast ex_snow3g) = (0, 3, 31, 255).
Proof. vm_compute. reflexivity. Qed.

(* one write: dst[0,3), first byte only its 5 low-order bits (the 3 leading bits are not part of
   the message), last byte whole *)
Example ex_snow3g_W : footprint_W ex_snow3g = [mk_or ODst 0 3 31 255].
Proof. vm_compute. reflexivity. Qed.

Example ex_snow3g_masks :
  map (dst_mask ex_snow3g) [0; 1; 2; 3] = [31; 255; 255; 0].
Proof. vm_compute. reflexivity. Qed.

Example ex_snow3g_lay_ok : oop_layout_ok ex_snow3g ex_lay.
Proof. apply oop_layout_okb_sound. vm_compute. reflexivity. Qed.

(* the 3 untouched leading bits of dst[0] survive; the 5 other bits are the algorithm's; the
   neighbours of dst[0,3) are unchanged *)
Example ex_snow3g_run_concrete :
  ex_mem 8192 = 173 /\ N.lxor (ex_mem 4096) 90 = 247 /\
  run_job_mem ex_F ex_snow3g ex_lay ex_mem 8192 = 183 /\
  N.land (run_job_mem ex_F ex_snow3g ex_lay ex_mem 8192) 224 = N.land (ex_mem 8192) 224 /\
  N.land (run_job_mem ex_F ex_snow3g ex_lay ex_mem 8192) 31 = N.land 247 31 /\
  map (run_job_mem ex_F ex_snow3g ex_lay ex_mem) [8191; 8193; 8194; 8195] = [172; 244; 245; 176] /\
  map ex_mem [8191; 8195] = [172; 176].
Proof. vm_compute. repeat split; reflexivity. Qed.

(* in place (dst = src, doff_ip = 0 for an unaligned bit offset) agrees on the masked bits *)
Example ex_snow3g_inplace :
  forall m i,
    N.land (run_job_mem ex_F ex_snow3g (ip_layout ex_snow3g ex_lay) m (4096 + 0 + i))
           (dst_mask ex_snow3g i) =
    N.land (run_job_mem ex_F ex_snow3g ex_lay m (8192 + i)) (dst_mask ex_snow3g i).
Proof.
  intros m i.
  exact (inplace_eq_outofplace ex_F ex_snow3g ex_lay m i
           ex_snow3g_accepted eq_refl eq_refl ex_snow3g_lay_ok).
Qed.

(* ------------------------------------------------------------------------- *)
(* (iii) PON: AES-CNTR (key_len 0: CRC/BIP only) + PON_CRC_BIP on a 24-byte buffer, XGEM header
   at 0, payload from 8.  The PLI field is data inside the buffer. *)

Definition ex_pon (pli : N) : fview :=
  mk_fview 11 (* PON_AES_CNTR *) 19 (* PON_CRC_BIP *) 1 1 0 (* key_len *) 8 0 (* coff clen *)
           0 24 (* hoff hlen *) 0 8 (* tag_len *) 0 0 0 24 (* src_size *) pli 16 256.

(* PLI = 64: the payload CRC would be written at src[68,72), behind the 24-byte buffer; the
   contract does not accept the job (the library's job check does: finding F2 of C07_NOTES.md) *)
Example ex_pon_pli64_rejected : accepted (ex_pon 64) = false.
Proof. vm_compute. reflexivity. Qed.

Example ex_pon_pli64_W :
  fp_W (ex_pon 64) = [(0, (0, (8, (255, 255)))); (0, (68, (72, (255, 255)))); (4, (0, (8, (255, 255))))] /\
  fp_objs (ex_pon 64) = [(0, 24); (4, 8)].
Proof. vm_compute. split; reflexivity. Qed.

(* PLI = 16: header[0,8) and the CRC at src[20,24) are inside the buffer *)
Example ex_pon_pli16_accepted : accepted (ex_pon 16) = true.
Proof. vm_compute. reflexivity. Qed.

Example ex_pon_pli16_W :
  fp_W (ex_pon 16) = [(0, (0, (8, (255, 255)))); (0, (20, (24, (255, 255)))); (4, (0, (8, (255, 255))))].
Proof. vm_compute. reflexivity. Qed.

Example ex_pon_pli16_within :
  forall r, In r (footprint_R (ex_pon 16) ++ footprint_W (ex_pon 16)) ->
            o_off r + o_len r <= obj_size (ex_pon 16) (o_obj r).
Proof. intros r. apply footprint_within_objects. exact ex_pon_pli16_accepted. Qed.

(* the suite is in-place only and writes into the source buffer: src_intact does not apply *)
Example ex_pon_writes_src : ip_only (ex_pon 16) = true /\ writes_src (ex_pon 16) = true.
Proof. vm_compute. split; reflexivity. Qed.
