(* Props/Examples_C11.v — non-vacuity and known-answer tests for C11 (tests, not theorems): the
   hypotheses of the C11 theorems are satisfiable and the model computes the published /
   library-observed values on concrete cases. *)
From Coq Require Import List NArith Bool String Lia.
From IMB Require Import Lib.Bytes Spec.Hex Spec.AES Spec.CMAC Spec.SHA Spec.MD5 Spec.SM3 Spec.HMAC Spec.GCM
                        Spec.DES Spec.SM4 Spec.ZUC Spec.SNOW3G Spec.KASUMI Spec.KeyPrep.
Import ListNotations.
Local Open Scope string_scope.

Definition k128 := hex "2b7e151628aed2a6abf7158809cf4f3c".

(* FIPS-197 A.1: last round key of the AES-128 example; dec[0] is that key, dec[10] the cipher key *)
Example aes128_keyexp_fips197 :
  nth 10 (aes_key_expand k128) [] = hex "d014f9a8c9ee2589e13f0cc8b6630ca6" /\
  firstn 16 (snd (kp_aes_keyexp k128)) = hex "d014f9a8c9ee2589e13f0cc8b6630ca6" /\
  skipn 160 (snd (kp_aes_keyexp k128)) = k128 /\
  length (fst (kp_aes_keyexp k128)) = 176%nat.
Proof. vm_compute. repeat split. Qed.

(* hypothesis of aes_dec_schedule_layout is satisfiable for the three key sizes *)
Example aes_key_sizes_ok :
  In (length k128) [16; 24; 32]%nat /\
  In (length (hex "8e73b0f7da0e6452c810f32b809079e562f8ead2522c6b7b")) [16; 24; 32]%nat /\
  In (length (k128 ++ k128)) [16; 24; 32]%nat.
Proof. vm_compute. intuition. Qed.

(* RFC 4493 section 4: sub-keys of the example key *)
Example cmac_subkeys_rfc4493 :
  kp_cmac_subkeys k128 = (hex "fbeed618357133667c85e08f7236a8de", hex "f7ddac306ae266ccf90bc11ee46d513b").
Proof. vm_compute. reflexivity. Qed.

(* doubling with and without the Rb reduction: msb clear / msb set *)
Example cmac_dbl_cases :
  cmac_dbl_lib (hex "7df76b0c1ab899b33e42f047b91b546f") = hex "fbeed618357133667c85e08f7236a8de" /\
  cmac_dbl_lib (hex "fbeed618357133667c85e08f7236a8de") = hex "f7ddac306ae266ccf90bc11ee46d513b" /\
  cmac_dbl_lib (hex "80000000000000000000000000000000") = hex "00000000000000000000000000000087" /\
  cmac_dbl_lib (hex "00000000000000008000000000000000") = hex "00000000000000010000000000000000".
Proof. vm_compute. repeat split. Qed.

(* HMAC: a key of exactly one block is not hashed, one byte more is (SHA-1 and SHA-384 blocks) *)
Definition key_n (n : nat) : bytes := map N.of_nat (seq 1 n).
Example hmac_key_B_not_hashed :
  kp_hmac_keybuf H_SHA1 (key_n 64) = key_n 64 /\
  kp_hmac_keybuf H_SHA1 (key_n 65) = sha1 (key_n 65) /\
  kp_hmac_local_len H_SHA1 65 = 20%nat /\
  kp_hmac_keybuf H_SHA384 (key_n 128) = key_n 128 /\
  kp_hmac_keybuf H_SHA384 (key_n 129) = sha384 (key_n 129) /\
  kp_hmac_local_len H_SHA384 129 = 48%nat /\
  length (kp_hmac_block H_SHA384 0x36 (key_n 129)) = 128%nat /\
  length (kp_hmac_block H_SHA1 0x5c []) = 64%nat.
Proof. vm_compute. repeat split. Qed.

(* RFC 2202 test case 1 (HMAC-SHA-1, key 20 x 0x0b) through helper + job formulation *)
Example hmac_sha1_rfc2202_1 :
  hmac_lib H_SHA1 (repeat 11%N 20) (hex "4869205468657265") = Some (hex "b617318655057264e28bc0b6fb378c8ef146be00").
Proof. vm_compute. reflexivity. Qed.

(* MD5: 64-byte key accepted, 65-byte key refused; SHA-1 accepts 65 *)
Example md5_refusal :
  (exists io, kp_hmac_ipad_opad H_MD5 (key_n 64) = Some io) /\
  kp_hmac_ipad_opad H_MD5 (key_n 65) = None /\
  (exists io, kp_hmac_ipad_opad H_SHA1 (key_n 65) = Some io).
Proof. split; [eexists; vm_compute; reflexivity|]. split; [vm_compute; reflexivity|eexists; vm_compute; reflexivity]. Qed.

(* library-observed: IMB_AES128_GCM_PRE(00..0f) on the sse, avx2(t1), avx2(VAES) and avx512(VAES)
   managers (first entry of the power table, and first derived entry) *)
Definition kseq := hex "000102030405060708090a0b0c0d0e0f".
Example ghash_tables_observed :
  gcm_hash_key kseq = hex "c6a13b37878f5b826f4f8162a1c8d879" /\
  firstn 16 (kp_ghash_table L_SSE (gcm_hash_key kseq)) = hex "fb04ea46d828642dbd9c0d81a1f41a13" /\
  firstn 16 (skipn 112 (kp_ghash_table L_SSE (gcm_hash_key kseq))) = hex "f3b09143c5029fde04b71e0f6f76424f" /\
  firstn 16 (skipn 128 (kp_ghash_table L_SSE (gcm_hash_key kseq))) = hex "f7078f4caa74dd91f7078f4caa74dd91" /\
  firstn 16 (skipn 16 (kp_ghash_table L_AVX2 (gcm_hash_key kseq))) = hex "bd9c0d81a1f41aa5b153a8c4d3fed530" /\
  firstn 16 (kp_ghash_table L_VAES_AVX2 (gcm_hash_key kseq)) = hex "4d0f4cc98e433adc13a968727078747b" /\
  firstn 16 (kp_ghash_table L_VAES_AVX512 (gcm_hash_key kseq)) = hex "48772be40c4ad5d1ebaf6681adb30f33" /\
  firstn 16 (skipn 512 (kp_ghash_table L_VAES_AVX512 (gcm_hash_key kseq))) = hex "ebaf6681adb30fa3d047fcb61d17e98c" /\
  map (fun l => length (kp_ghash_table l (gcm_hash_key kseq))) [L_SSE; L_AVX2; L_VAES_AVX2; L_VAES_AVX512]
    = [256; 256; 512; 1024]%nat.
Proof. vm_compute. repeat split. Qed.

(* DES: the classic 133457799BBCDFF1 key: K1 and K16 (FIPS walk-through), symbolic = word schedule *)
Example des_subkeys_classic :
  nth 0 (des_key_schedule_sel (be_to_N (hex "133457799BBCDFF1"))) 0%N = 0x1B02EFFC7072%N /\
  nth 15 (des_key_schedule_sel (be_to_N (hex "133457799BBCDFF1"))) 0%N = 0xCB3D8B0E17F5%N /\
  firstn 6 (nth 0 des_key_sel []) = [10; 51; 34; 60; 49; 17]%nat /\
  des_key_schedule_sel (be_to_N (hex "133457799BBCDFF1")) = des_key_schedule_N (be_to_N (hex "133457799BBCDFF1")).
Proof. vm_compute. repeat split. Qed.

(* weak key 0101..01: all 16 round keys equal (zero) *)
Example des_weak_key : kp_des_keysched (hex "0101010101010101") = zeros 128.
Proof. vm_compute. reflexivity. Qed.

(* GB/T 32907 A.1 key: rk_0 and rk_31, dec buffer starts with rk_31 *)
Example sm4_keyexp_gbt :
  let '(enc, dec) := kp_sm4_keyexp (hex "0123456789abcdeffedcba9876543210") in
  firstn 4 enc = rev (hex "f12186f9") /\ firstn 4 (skipn 124 enc) = rev (hex "9124a012") /\
  firstn 4 dec = rev (hex "9124a012").
Proof. vm_compute. repeat split. Qed.

(* IV generators: in-range values and the three refusals *)
Example iv_gen_examples :
  kp_zuc_eea3_iv_gen 0x12345678 21 1 = Some (hex "12345678ac00000012345678ac000000") /\
  kp_zuc_eia3_iv_gen 0x12345678 21 1 = Some (hex "12345678a800000092345678a8008000") /\
  kp_snow3g_f8_iv_gen 0x72A4F20F 0x0C 1 = Some (hex "72a4f20f6400000072a4f20f64000000") /\
  kp_snow3g_f9_iv_gen 0x38A6F056 0xB8AEFDA9 0 = Some (hex "38a6f056b8aefda938a6f056b8aefda9") /\
  kp_snow3g_f9_iv_gen 0x38A6F056 0xB8AEFDA9 1 = Some (hex "38a6f056b8aefda9b8a6f056b8ae7da9") /\
  kp_kasumi_f8_iv_gen 0x72A4F20F 0x0C 1 = Some (hex "72a4f20f64000000") /\
  kp_kasumi_f9_iv_gen 0x38A6F056 0xB8AEFDA9 = hex "38a6f056b8aefda9" /\
  kp_zuc_eea3_iv_gen 1 32 0 = None /\ kp_zuc_eia3_iv_gen 1 0 2 = None /\ kp_snow3g_f9_iv_gen 1 1 2 = None.
Proof. vm_compute. repeat split. Qed.

(* SNOW3G key schedule = the 16 key bytes reversed; KASUMI schedules have 256 bytes *)
Example sched_shapes :
  kp_snow3g_sched kseq = rev kseq /\
  length (kp_kasumi_f8_sched kseq) = 256%nat /\ length (kp_kasumi_f9_sched kseq) = 256%nat /\
  firstn 128 (kp_kasumi_f8_sched kseq) = firstn 128 (kp_kasumi_f9_sched kseq).
Proof. vm_compute. repeat split. Qed.

(* mutations the model distinguishes (regression examples of DESIGN.md):
   a 192-bit decrypt schedule with one InvMixColumns missing, ipad and opad swapped, a long key
   hashed with the wrong digest length *)
Definition k192 := hex "8e73b0f7da0e6452c810f32b809079e562f8ead2522c6b7b".
Example mutation_missing_imc :
  nth 11 (aes_dec_schedule k192) [] <> nth 1 (aes_key_expand k192) [].
Proof. vm_compute. discriminate. Qed.
Example mutation_ipad_opad_swapped :
  kp_hmac_block H_SHA384 0x36 (key_n 10) <> kp_hmac_block H_SHA384 0x5c (key_n 10).
Proof. vm_compute. discriminate. Qed.
Example mutation_wrong_digest_length :
  kp_hmac_local_len H_SHA224 65 = 28%nat /\ kp_hmac_local_len H_SHA384 129 = 48%nat /\
  kp_hmac_block H_SHA224 0x36 (key_n 65) =
    xor_bytes (app (sha224 (key_n 65)) (zeros 36)) (repeat 0x36%N 64) /\
  kp_hmac_block H_SHA224 0x36 (key_n 65) <>
    xor_bytes (app (firstn 20 (sha224 (key_n 65))) (zeros 44)) (repeat 0x36%N 64).
Proof. split; [reflexivity|]. split; [reflexivity|]. split; [vm_compute; reflexivity|vm_compute; discriminate]. Qed.
