(* Props/Properties_C12.v -- property C12 (parameter checking), model part.
   Only `Theorem ... Proof. exact ... Qed.` + `Print Assumptions`.

   validate_complete                         FULL   (every job satisfying all documented constraints is accepted)
   validate_sound_partial                    PARTIAL: accepted -> all documented constraints hold, for jobs
                                             outside the documented-vs-code discrepancies D2,D3,D8 (D1, D4, D6 repaired upstream)
   validate_errno_names_a_violation_partial  PARTIAL: excludes ZUC-EEA3 jobs whose 64-bit key length does not
                                             fit 32 bits (D2)
   validate_sound_refuted_*, validate_errno_refuted_*: concrete jobs on which the unrestricted
   statements FAIL on the unchanged tree (candidate findings, see coq/Mgr/C12_NOTES.md). *)
From Coq Require Import NArith List.
From IMB Require Import Gen.GenEnums Mgr.JobView Gen.GenValidate Mgr.Validate Proofs.ValidateProofs.
Import ListNotations.
Local Open Scope N_scope.

Theorem C12_validate_complete :
  forall j, well_formed j = true -> job_ok j = true -> is_job_invalid j = None.
Proof. exact validate_complete. Qed.
Print Assumptions C12_validate_complete.

Theorem C12_validate_sound_partial :
  forall j, well_formed j = true -> outside_known_discrepancies j = true ->
            is_job_invalid j = None -> job_ok j = true.
Proof. exact validate_sound_partial. Qed.
Print Assumptions C12_validate_sound_partial.

Theorem C12_validate_errno_names_a_violation_partial :
  forall j e, well_formed j = true ->
              (jv_cipher_mode j = IMB_CIPHER_ZUC_EEA3 -> disc_D2_key_len_truncated j = false) ->
              is_job_invalid j = Some e -> In e (violations j).
Proof. exact validate_errno_names_a_violation_partial. Qed.
Print Assumptions C12_validate_errno_names_a_violation_partial.

(* the unrestricted statements do not hold on the unchanged tree *)
Theorem C12_validate_sound_refuted :
  ~ (forall j, well_formed j = true -> is_job_invalid j = None -> job_ok j = true).
Proof. exact validate_sound_statement_is_false. Qed.
Print Assumptions C12_validate_sound_refuted.

Theorem C12_validate_errno_refuted :
  ~ (forall j e, well_formed j = true -> is_job_invalid j = Some e -> In e (violations j)).
Proof. exact validate_errno_statement_is_false. Qed.
Print Assumptions C12_validate_errno_refuted.

Theorem C12_refuted_D2_key_len_truncated :
  exists j, well_formed j = true /\ is_job_invalid j = None /\ job_ok j = false /\ violations j = [IMB_ERR_JOB_KEY_LEN].
Proof. exact validate_sound_refuted_D2_key_len_truncated. Qed.
Print Assumptions C12_refuted_D2_key_len_truncated.

Theorem C12_refuted_D3_sgl_total_wraps :
  exists j, well_formed j = true /\ is_job_invalid j = None /\ job_ok j = false /\ violations j = [IMB_ERR_JOB_CIPH_LEN].
Proof. exact validate_sound_refuted_D3_sgl_total_wraps. Qed.
Print Assumptions C12_refuted_D3_sgl_total_wraps.

Theorem C12_refuted_D8_docsis_offset_wraps :
  exists j, well_formed j = true /\ is_job_invalid j = None /\ job_ok j = false /\ violations j = [IMB_ERR_JOB_SRC_OFFSET].
Proof. exact validate_sound_refuted_D8_docsis_offset_wraps. Qed.
Print Assumptions C12_refuted_D8_docsis_offset_wraps.

Theorem C12_errno_refuted_zuc_truncated_key :
  exists j, well_formed j = true /\ is_job_invalid j = Some IMB_ERR_JOB_IV_LEN /\ violations j = [IMB_ERR_JOB_KEY_LEN].
Proof. exact validate_errno_refuted_zuc_truncated_key. Qed.
Print Assumptions C12_errno_refuted_zuc_truncated_key.

(* checked asynchronous burst submission: accepted iff the array is there, the size and queue space are
   in range, and EVERY entry is a non-NULL in-order slot whose job passes the job check and whose
   stored suite id equals the dispatch-table indices of its session fields IN BOTH WORDS *)
Theorem C12_burst_accept_iff :
  forall b, burst_well_formed b = true -> (submit_burst_check b = BurstAccept <-> burst_ok b = true).
Proof. exact burst_accept_iff. Qed.
Print Assumptions C12_burst_accept_iff.

Theorem C12_burst_reject_errno_names_a_violation :
  forall b e k, burst_well_formed b = true -> submit_burst_check b = BurstReject e k -> In e (burst_violations b).
Proof. exact burst_reject_errno_names_a_violation. Qed.
Print Assumptions C12_burst_reject_errno_names_a_violation.

Theorem C12_burst_examples :
  (burst_well_formed (ex_burst 133 1) = true /\ submit_burst_check (ex_burst 133 1) = BurstAccept /\ burst_ok (ex_burst 133 1) = true) /\
  (submit_burst_check (ex_burst 137 1) = BurstReject IMB_ERR_BURST_SUITE_ID (Some 1) /\ burst_ok (ex_burst 137 1) = false) /\
  (submit_burst_check (ex_burst 133 3) = BurstReject IMB_ERR_BURST_SUITE_ID (Some 1) /\ burst_ok (ex_burst 133 3) = false) /\
  submit_burst_check (ex_burst 137 3) = BurstReject IMB_ERR_BURST_SUITE_ID (Some 1).
Proof. exact (conj burst_right_suite_accepted (conj burst_stale_cipher_word_rejected (conj burst_stale_hash_word_rejected burst_both_words_stale_rejected))). Qed.
Print Assumptions C12_burst_examples.

(* non-vacuity: the hypotheses are satisfiable and the verdicts are the expected ones *)
Theorem C12_example_valid_cbc_hmac_sha1 :
  well_formed ex_valid_cbc_hmac_sha1 = true /\ outside_known_discrepancies ex_valid_cbc_hmac_sha1 = true /\
  job_ok ex_valid_cbc_hmac_sha1 = true /\ is_job_invalid ex_valid_cbc_hmac_sha1 = None.
Proof. exact valid_cbc_hmac_sha1_is_ok. Qed.
Print Assumptions C12_example_valid_cbc_hmac_sha1.

Theorem C12_example_null_src_rejected :
  well_formed ex_invalid_null_src = true /\ is_job_invalid ex_invalid_null_src = Some IMB_ERR_JOB_NULL_SRC /\
  violations ex_invalid_null_src = [IMB_ERR_JOB_NULL_SRC; IMB_ERR_JOB_NULL_SRC].
Proof. exact null_src_is_rejected. Qed.
Print Assumptions C12_example_null_src_rejected.

Theorem C12_example_over_limit_len_rejected :
  well_formed ex_invalid_len_over_limit = true /\ is_job_invalid ex_invalid_len_over_limit = Some IMB_ERR_JOB_CIPH_LEN /\
  violations ex_invalid_len_over_limit = [IMB_ERR_JOB_CIPH_LEN].
Proof. exact over_limit_len_is_rejected. Qed.
Print Assumptions C12_example_over_limit_len_rejected.
