(* Props/Properties_C01.v — property C01 "cipher output equals the published algorithm for
   every valid input", structural layer (L2).  Statements only; proofs are in
   Proofs/ModeProofs.v, AESInvProofs.v, DESProofs.v, SM4Proofs.v, CtrKernelProofs.v,
   ByNProofs.v, StreamCipherProofs.v.  Every theorem is universally quantified over keys, IVs
   and messages of every accepted length and is proved by induction / bit-level reasoning;
   the only computations are sweeps over COMPLETE finite domains (the 256 byte values for the
   AES S-boxes and xtime range, the 16 x 16 SM4 S-box indices, the 64 bit positions of the DES
   IP/FP tables), each lifted to the universally quantified statement by a lemma.

   [bytes_ok l] = every element of l is < 256 (the specifications use unbounded N for bytes;
   decryption can only invert encryption on genuine byte strings). *)
From Coq Require Import List NArith Bool Arith.
From IMB Require Import Lib.Bytes Spec.AES Spec.AESModes Spec.DES Spec.SM4 Spec.ChaCha20
  Spec.ZUC Spec.SNOW3G Spec.KASUMI Spec.SNOWV
  Struct.TailOps Struct.CtrKernel Struct.ByN
  Proofs.ModeProofs Proofs.AESInvProofs Proofs.DESProofs Proofs.SM4Proofs
  Proofs.CtrKernelProofs Proofs.ByNProofs Proofs.StreamCipherProofs.
Import ListNotations.

(* ======================================================================================== *)
(* 1. Mode round trips, generic in the block functions E / D                                *)
(* ======================================================================================== *)

Theorem ecb_dec_enc :
  forall E D : bytes -> bytes,
  (forall b, length b = 16 -> length (E b) = 16) ->
  (forall b, length b = 16 -> bytes_ok b = true -> bytes_ok (E b) = true) ->
  (forall b, length b = 16 -> bytes_ok b = true -> D (E b) = b) ->
  forall msg, bytes_ok msg = true ->
  ecb_dec_gen D (ecb_enc_gen E msg) = msg.
Proof. exact ModeProofs.ecb_dec_enc. Qed.
Print Assumptions ecb_dec_enc.

Theorem cbc_dec_enc :
  forall E D : bytes -> bytes,
  (forall b, length b = 16 -> length (E b) = 16) ->
  (forall b, length b = 16 -> bytes_ok b = true -> bytes_ok (E b) = true) ->
  (forall b, length b = 16 -> bytes_ok b = true -> D (E b) = b) ->
  forall iv msg, length iv = 16 -> bytes_ok iv = true -> bytes_ok msg = true ->
  cbc_dec_gen D iv (cbc_enc_gen E iv msg) = msg.
Proof. exact ModeProofs.cbc_dec_enc. Qed.
Print Assumptions cbc_dec_enc.

(* CFB128, every length incl. a partial final block; decryption uses E *)
Theorem cfb_dec_enc :
  forall E : bytes -> bytes,
  (forall b, length b = 16 -> length (E b) = 16) ->
  forall iv msg, length iv = 16 ->
  cfb_dec_gen E iv (cfb_enc_gen E iv msg) = msg.
Proof. exact ModeProofs.cfb_dec_enc. Qed.
Print Assumptions cfb_dec_enc.

(* IMB_CIPHER_CNTR: every length, 12- and 16-byte IV *)
Theorem ctr_involutive :
  forall E : bytes -> bytes,
  (forall b, length b = 16 -> length (E b) = 16) ->
  forall iv msg, length iv = 12 \/ length iv = 16 ->
  ctr_gen E iv (ctr_gen E iv msg) = msg.
Proof. exact ModeProofs.ctr_involutive. Qed.
Print Assumptions ctr_involutive.

(* CTR is XOR with a key stream that depends on the message length only *)
Theorem ctr_is_xor_keystream :
  forall E : bytes -> bytes,
  (forall b, length b = 16 -> length (E b) = 16) ->
  forall nb ctrblk msg, nb <= 16 -> 16 <= length ctrblk ->
  ctr_w_gen E nb ctrblk msg = xor_bytes msg (ctr_w_ks E nb ctrblk (length msg))
  /\ length msg <= length (ctr_w_ks E nb ctrblk (length msg)).
Proof. exact ModeProofs.ctr_w_is_xor_keystream. Qed.
Print Assumptions ctr_is_xor_keystream.

(* IMB_CIPHER_CNTR_BITLEN in place, applied twice in place: restores the buffer *)
Theorem ctr_bits_involutive :
  forall E : bytes -> bytes,
  (forall b, length b = 16 -> length (E b) = 16) ->
  forall iv msg bitlen, 16 <= length iv -> ctr_bits_nbytes bitlen <= length msg ->
  bytes_ok msg = true ->
  let c := ctr_bits_gen E iv msg bitlen msg in
  ctr_bits_gen E iv c bitlen c = firstn (ctr_bits_nbytes bitlen) msg.
Proof. exact ModeProofs.ctr_bits_involutive. Qed.
Print Assumptions ctr_bits_involutive.

(* ... with arbitrary destination buffers d1, d2: the first bitlen bits are the original
   message's, the remaining bits of the last byte are those of the second destination *)
Theorem ctr_bits_twice :
  forall E : bytes -> bytes,
  (forall b, length b = 16 -> length (E b) = 16) ->
  forall iv msg bitlen d1 d2, 16 <= length iv -> ctr_bits_nbytes bitlen <= length msg ->
  let n := ctr_bits_nbytes bitlen in
  ctr_bits_gen E iv (ctr_bits_gen E iv msg bitlen d1) bitlen d2 =
  if (N.land bitlen 7 =? 0)%N then firstn n msg
  else firstn (n - 1) msg
       ++ [merge_keep (ctr_bits_keep bitlen) (nth (n - 1) msg 0%N) (nth (n - 1) d2 0%N)].
Proof. exact ModeProofs.ctr_bits_twice. Qed.
Print Assumptions ctr_bits_twice.

(* only the first bitlen bits of dst change *)
Theorem ctr_bits_preserves_tail_bits :
  forall E : bytes -> bytes,
  (forall b, length b = 16 -> length (E b) = 16) ->
  forall iv msg bitlen dst, 16 <= length iv -> ctr_bits_nbytes bitlen <= length msg ->
  N.land bitlen 7 <> 0%N ->
  let n := ctr_bits_nbytes bitlen in
  let keep := ctr_bits_keep bitlen in
  let full := ctr_w_gen E 8 iv (firstn n msg) in
  let out := ctr_bits_gen E iv msg bitlen dst in
  length out = n /\
  firstn (n - 1) out = firstn (n - 1) full /\
  N.land (nth (n - 1) out 0%N) keep = N.land (nth (n - 1) dst 0%N) keep /\
  N.land (nth (n - 1) out 0%N) (N.lxor keep 255) =
    N.land (nth (n - 1) full 0%N) (N.lxor keep 255).
Proof. exact ModeProofs.ctr_bits_preserves_tail_bits. Qed.
Print Assumptions ctr_bits_preserves_tail_bits.

(* DOCSIS SEC BPI: every length >= 0 (< 1 block, = 0 and <> 0 mod 16) *)
Theorem docsis_dec_enc :
  forall E D : bytes -> bytes,
  (forall b, length b = 16 -> length (E b) = 16) ->
  (forall b, length b = 16 -> bytes_ok b = true -> bytes_ok (E b) = true) ->
  (forall b, length b = 16 -> bytes_ok b = true -> D (E b) = b) ->
  forall iv msg, length iv = 16 -> bytes_ok iv = true -> bytes_ok msg = true ->
  docsis_dec_gen E D iv (docsis_enc_gen E iv msg) = msg.
Proof. exact ModeProofs.docsis_dec_enc. Qed.
Print Assumptions docsis_dec_enc.

(* CBCS 1:9 *)
Theorem cbcs_dec_enc :
  forall E D : bytes -> bytes,
  (forall b, length b = 16 -> length (E b) = 16) ->
  (forall b, length b = 16 -> bytes_ok b = true -> bytes_ok (E b) = true) ->
  (forall b, length b = 16 -> bytes_ok b = true -> D (E b) = b) ->
  forall iv msg, length iv = 16 -> bytes_ok iv = true -> bytes_ok msg = true ->
  cbcs_dec_gen D iv (cbcs_enc_gen E iv msg) = msg.
Proof. exact ModeProofs.cbcs_dec_enc. Qed.
Print Assumptions cbcs_dec_enc.

(* next_iv = the last ciphertext block whose index is a multiple of 10 *)
Theorem cbcs_next_iv_is_last_cipher_block :
  forall iv ct, 16 <= length ct ->
  let blocks := fst (blocks16 ct) in
  cbcs_next_iv iv ct = nth (10 * ((length blocks - 1) / 10)) blocks [].
Proof. exact ModeProofs.cbcs_next_iv_is_last_cipher_block. Qed.
Print Assumptions cbcs_next_iv_is_last_cipher_block.

(* ... and, when encrypting, it is the chaining value the loop ends with *)
Theorem cbcs_next_iv_is_final_chain :
  forall E : bytes -> bytes,
  (forall b, length b = 16 -> length (E b) = 16) ->
  forall iv msg, length iv = 16 ->
  cbcs_next_iv iv (cbcs_enc_gen E iv msg) = cbcs_enc_final_chain E iv 0 (fst (blocks16 msg)).
Proof. exact ModeProofs.cbcs_next_iv_enc. Qed.
Print Assumptions cbcs_next_iv_is_final_chain.

(* output lengths *)
Theorem mode_output_lengths :
  forall E : bytes -> bytes,
  (forall b, length b = 16 -> length (E b) = 16) ->
  (forall msg, length (ecb_gen E msg) = length msg) /\
  (forall iv msg, length iv = 16 -> length (cbc_enc_gen E iv msg) = length msg) /\
  (forall iv msg, length iv = 12 \/ length iv = 16 -> length (ctr_gen E iv msg) = length msg) /\
  (forall iv msg bitlen dst, 16 <= length iv -> ctr_bits_nbytes bitlen <= length msg ->
     length (ctr_bits_gen E iv msg bitlen dst) = ctr_bits_nbytes bitlen) /\
  (forall iv msg, length iv = 16 -> length (cfb_enc_gen E iv msg) = length msg) /\
  (forall iv msg, length iv = 16 -> length (cfb_dec_gen E iv msg) = length msg) /\
  (forall iv msg, length iv = 16 -> length (docsis_enc_gen E iv msg) = length msg) /\
  (forall iv msg, length iv = 16 -> length (cbcs_enc_gen E iv msg) = length msg).
Proof. exact ModeProofs.mode_output_lengths. Qed.
Print Assumptions mode_output_lengths.

(* ======================================================================================== *)
(* 2. The hypothesis D (E b) = b discharged                                                 *)
(* ======================================================================================== *)

(* ---- DES ---- *)
Theorem des_decrypt_encrypt_block :
  forall key blk, length blk = 8 -> bytes_ok blk = true ->
  des_decrypt_block key (des_encrypt_block key blk) = blk.
Proof. exact DESProofs.des_decrypt_encrypt_block. Qed.
Print Assumptions des_decrypt_encrypt_block.

Theorem des_cbc_dec_enc :
  forall key iv msg, length iv = 8 -> bytes_ok msg = true -> length msg mod 8 = 0 ->
  des_cbc_dec key iv (des_cbc_enc key iv msg) = msg.
Proof. exact DESProofs.des_cbc_dec_enc. Qed.
Print Assumptions des_cbc_dec_enc.

Theorem des3_cbc_dec_enc :
  forall k1 k2 k3 iv msg, length iv = 8 -> bytes_ok msg = true -> length msg mod 8 = 0 ->
  des3_cbc_dec k1 k2 k3 iv (des3_cbc_enc k1 k2 k3 iv msg) = msg.
Proof. exact DESProofs.des3_cbc_dec_enc. Qed.
Print Assumptions des3_cbc_dec_enc.

(* every length *)
Theorem docsis_des_dec_enc :
  forall key iv msg, length iv = 8 -> bytes_ok msg = true ->
  docsis_des_dec key iv (docsis_des_enc key iv msg) = msg.
Proof. exact DESProofs.docsis_des_dec_enc. Qed.
Print Assumptions docsis_des_dec_enc.

(* ---- SM4 ---- *)
Theorem sm4_decrypt_encrypt_block :
  forall key blk, length blk = 16 -> bytes_ok blk = true ->
  sm4_decrypt_block key (sm4_encrypt_block key blk) = blk.
Proof. exact SM4Proofs.sm4_decrypt_encrypt_block. Qed.
Print Assumptions sm4_decrypt_encrypt_block.

Theorem sm4_ecb_dec_enc :
  forall key msg, bytes_ok msg = true -> length msg mod 16 = 0 ->
  sm4_ecb_dec key (sm4_ecb_enc key msg) = msg.
Proof. exact SM4Proofs.sm4_ecb_dec_enc. Qed.
Print Assumptions sm4_ecb_dec_enc.

Theorem sm4_cbc_dec_enc :
  forall key iv msg, length iv = 16 -> bytes_ok iv = true -> bytes_ok msg = true ->
  length msg mod 16 = 0 ->
  sm4_cbc_dec key iv (sm4_cbc_enc key iv msg) = msg.
Proof. exact SM4Proofs.sm4_cbc_dec_enc. Qed.
Print Assumptions sm4_cbc_dec_enc.

Theorem sm4_ctr_involutive :
  forall key iv msg, sm4_ctr key iv (sm4_ctr key iv msg) = msg.
Proof. exact SM4Proofs.sm4_ctr_involutive. Qed.
Print Assumptions sm4_ctr_involutive.

(* ---- AES ---- *)
(* the four round-step facts (the last one for ALL N, from the GF(2)-linearity of xtime) *)
Theorem aes_inv_cipher_partial :
  (forall s, bytes_ok s = true -> inv_sub_bytes (sub_bytes s) = s) /\
  (forall s, length s = 16 -> inv_shift_rows (shift_rows s) = s) /\
  (forall s k, length s <= length k -> add_round_key (add_round_key s k) k = s) /\
  (forall s, inv_mix_columns (mix_columns s) = s).
Proof. exact AESInvProofs.aes_inv_cipher_partial. Qed.
Print Assumptions aes_inv_cipher_partial.

(* the full theorem: every key (AES-128/192/256; any other key length makes the
   specification's block functions the identity), every block *)
Theorem aes_decrypt_encrypt_block :
  forall key b, bytes_ok key = true -> length b = 16 -> bytes_ok b = true ->
  aes_decrypt_block key (aes_encrypt_block key b) = b.
Proof. exact AESInvProofs.aes_decrypt_encrypt_block. Qed.
Print Assumptions aes_decrypt_encrypt_block.

Theorem aes_mode_roundtrips :
  forall key, bytes_ok key = true ->
  (forall msg, bytes_ok msg = true -> ecb_dec key (ecb_enc key msg) = msg) /\
  (forall iv msg, length iv = 16 -> bytes_ok iv = true -> bytes_ok msg = true ->
     cbc_dec key iv (cbc_enc key iv msg) = msg) /\
  (forall iv msg, length iv = 12 \/ length iv = 16 -> ctr key iv (ctr key iv msg) = msg) /\
  (forall iv msg bitlen, 16 <= length iv -> ctr_bits_nbytes bitlen <= length msg ->
     bytes_ok msg = true ->
     let c := ctr_bits key iv msg bitlen msg in
     ctr_bits key iv c bitlen c = firstn (ctr_bits_nbytes bitlen) msg) /\
  (forall iv msg, length iv = 16 -> cfb_dec key iv (cfb_enc key iv msg) = msg) /\
  (forall iv msg, length iv = 16 -> bytes_ok iv = true -> bytes_ok msg = true ->
     cbcs_dec key iv (cbcs_enc key iv msg) = msg) /\
  (forall iv msg, length iv = 16 -> bytes_ok iv = true -> bytes_ok msg = true ->
     docsis_aes_dec key iv (docsis_aes_enc key iv msg) = msg).
Proof. exact AESInvProofs.aes_mode_roundtrips. Qed.
Print Assumptions aes_mode_roundtrips.

(* ======================================================================================== *)
(* 3. Counter handling as the kernels do it                                                 *)
(* ======================================================================================== *)

Theorem ctr_counter_kernel_eq_spec :
  forall c i, length c = 16 -> bytes_ok c = true -> (i < 2 ^ 32)%N ->
  ctr_blk_paddd c i = firstn 12 c ++ be32 ((be_to_N (skipn 12 c) + i) mod 2 ^ 32)%N
  /\ (forall span, (i <= span)%N ->
        ctr_blk_lowbyte span c i
        = firstn 12 c ++ be32 ((be_to_N (skipn 12 c) + i) mod 2 ^ 32)%N).
Proof. exact CtrKernelProofs.ctr_counter_kernel_eq_spec. Qed.
Print Assumptions ctr_counter_kernel_eq_spec.

(* CNTR_BITLEN: paddq, 64-bit counter *)
Theorem ctr64_counter_kernel_eq_spec :
  forall c i, length c = 16 -> bytes_ok c = true -> (i < 2 ^ 64)%N ->
  ctr_blk_paddq c i = firstn 8 c ++ be64 ((be_to_N (skipn 8 c) + i) mod 2 ^ 64)%N.
Proof. exact CtrKernelProofs.ctr64_counter_kernel_eq_spec. Qed.
Print Assumptions ctr64_counter_kernel_eq_spec.

(* the running register: advancing by a then taking lane i = lane a + i (mod 2^32) *)
Theorem ctr_register_advance :
  forall x a i, (x < 2 ^ 128)%N -> (a < 2 ^ 32)%N -> (i < 2 ^ 32)%N ->
  paddd (paddd x a) i = paddd x ((a + i) mod 2 ^ 32)%N.
Proof. exact CtrKernelProofs.paddd_paddd. Qed.
Print Assumptions ctr_register_advance.

(* ======================================================================================== *)
(* 4. By-N decomposition                                                                    *)
(* ======================================================================================== *)

Theorem ctr_byN_eq_spec :
  forall E Nb iv msg, 1 <= Nb -> (N.of_nat Nb < 2 ^ 32)%N ->
  length iv = 12 \/ length iv = 16 -> bytes_ok iv = true ->
  ctr_byN E Nb iv msg = ctr_gen E iv msg.
Proof. exact ByNProofs.ctr_byN_eq_spec. Qed.
Print Assumptions ctr_byN_eq_spec.

Theorem ecb_byN_eq_spec :
  forall f Nb msg, 1 <= Nb -> ecb_byN f Nb msg = ecb_gen f msg.
Proof. exact ByNProofs.ecb_byN_eq_spec. Qed.
Print Assumptions ecb_byN_eq_spec.

Theorem cbc_dec_byN_eq_spec :
  forall D Nb iv msg, 1 <= Nb -> cbc_dec_byN D Nb iv msg = cbc_dec_gen D iv msg.
Proof. exact ByNProofs.cbc_dec_byN_eq_spec. Qed.
Print Assumptions cbc_dec_byN_eq_spec.

(* in place (loads of a group precede its stores) = out of place = the specification *)
Theorem cbc_dec_byN_inplace :
  forall D Nb iv mem, 1 <= Nb ->
  cbc_dec_inplace D Nb iv mem = fst (byN_blocks bytes (cbc_dec_group D) Nb iv mem)
  /\ cbc_dec_inplace D Nb iv mem = cbc_dec_blocks D iv mem.
Proof. exact ByNProofs.cbc_dec_byN_inplace. Qed.
Print Assumptions cbc_dec_byN_inplace.

(* the library's widths *)
Theorem byN_library_widths :
  forall Nb, In Nb [4; 8; 16; 32] ->
  (forall E iv msg, length iv = 12 \/ length iv = 16 -> bytes_ok iv = true ->
     ctr_byN E Nb iv msg = ctr_gen E iv msg) /\
  (forall f msg, ecb_byN f Nb msg = ecb_gen f msg) /\
  (forall D iv msg, cbc_dec_byN D Nb iv msg = cbc_dec_gen D iv msg).
Proof. exact ByNProofs.byN_library_widths. Qed.
Print Assumptions byN_library_widths.

(* ======================================================================================== *)
(* 5. Stream ciphers                                                                        *)
(* ======================================================================================== *)

Theorem xor_bytes_involutive :
  forall m k, length m <= length k -> xor_bytes (xor_bytes m k) k = m.
Proof. exact C01Lists.xor_bytes_involutive. Qed.
Print Assumptions xor_bytes_involutive.

Theorem chacha20_involutive :
  forall key nonce counter msg,
  chacha20 key nonce counter (chacha20 key nonce counter msg) = msg.
Proof. exact StreamCipherProofs.chacha20_involutive. Qed.
Print Assumptions chacha20_involutive.

Theorem zuc_eea3_involutive :
  forall key iv msg,
  zuc_eea3 key iv (zuc_eea3 key iv msg) = msg /\
  zuc256_eea3 key iv (zuc256_eea3 key iv msg) = msg /\
  zuc_eea3_job key iv (zuc_eea3_job key iv msg) = msg.
Proof. exact StreamCipherProofs.zuc_eea3_all_involutive. Qed.
Print Assumptions zuc_eea3_involutive.

(* UEA2 on whole bytes, and the BITLEN job in place with a byte-aligned length at offset 0 *)
Theorem snow3g_uea2_involutive :
  forall key iv msg,
  snow3g_f8 key iv (snow3g_f8 key iv msg) = msg /\
  (forall bitlen, N.land bitlen 7 = 0%N -> N.to_nat (N.shiftr bitlen 3) <= length msg ->
     snow3g_uea2_inplace key iv (snow3g_uea2_inplace key iv msg bitlen 0) bitlen 0 = msg).
Proof. exact StreamCipherProofs.snow3g_uea2_involutive. Qed.
Print Assumptions snow3g_uea2_involutive.

(* IMB_CIPHER_SNOW3G_UEA2_BITLEN job, bit path, in place.  R1: bit offset not a multiple of 8
   and the window does not end on a byte boundary: applying the job twice restores the buffer
   exactly (all other dst bits are preserved).  (When the window ends on a byte boundary the
   library ORs the last byte with its previous content — Spec/SNOW3G.v — and in-place
   operation is not invertible; no theorem.) *)
Theorem snow3g_uea2_bits_involutive :
  forall key iv msg bitlen bitoff,
  let base := N.to_nat (N.shiftr bitoff 3) in
  let ob := N.land bitoff 7 in
  ob <> 0%N -> N.land (ob + bitlen) 7 <> 0%N ->
  bytes_ok msg = true ->
  base + N.to_nat (N.shiftr (ob + bitlen + 7) 3) <= length msg ->
  snow3g_uea2_inplace key iv (snow3g_uea2_inplace key iv msg bitlen bitoff) bitlen bitoff = msg.
Proof. exact StreamCipherProofs.snow3g_uea2_bits_involutive. Qed.
Print Assumptions snow3g_uea2_bits_involutive.

(* R2: byte-aligned offset, bit length not a multiple of 8: the library overwrites the
   trailing bits of the last byte with key stream; applying the job twice restores the
   bitlen message bits, and no other byte of the buffer changes. *)
Theorem snow3g_uea2_bits_window_restored :
  forall key iv msg bitlen bitoff,
  let base := N.to_nat (N.shiftr bitoff 3) in
  let nb := N.to_nat (N.shiftr (bitlen + 7) 3) in
  N.land bitoff 7 = 0%N -> N.land bitlen 7 <> 0%N -> base + nb <= length msg ->
  let m2 := snow3g_uea2_inplace key iv (snow3g_uea2_inplace key iv msg bitlen bitoff) bitlen bitoff in
  firstn base m2 = firstn base msg
  /\ snow3g_take_bits bitlen (skipn base m2) = snow3g_take_bits bitlen (skipn base msg)
  /\ skipn (base + nb) m2 = skipn (base + nb) msg
  /\ length m2 = length msg.
Proof. exact StreamCipherProofs.snow3g_uea2_bits_ob0_twice. Qed.
Print Assumptions snow3g_uea2_bits_window_restored.

(* IMB_CIPHER_KASUMI_UEA1_BITLEN in place: every bit length and bit offset *)
Theorem kasumi_f8_involutive :
  forall key iv msg bitlen bitoff,
  bytes_ok msg = true ->
  N.to_nat (N.shiftr bitoff 3) + N.to_nat (ceil_div8 (N.land bitoff 7 + bitlen)) <= length msg ->
  (N.land bitlen 7 = 0%N /\ N.land bitoff 7 = 0%N -> bitoff = 0%N) ->
  kasumi_f8 key iv (kasumi_f8 key iv msg bitlen bitoff) bitlen bitoff = msg.
Proof. exact StreamCipherProofs.kasumi_f8_involutive. Qed.
Print Assumptions kasumi_f8_involutive.

Theorem kasumi_f8_bytes_involutive :
  forall key iv msg, kasumi_f8_bytes key iv (kasumi_f8_bytes key iv msg) = msg.
Proof. exact StreamCipherProofs.kasumi_f8_bytes_involutive. Qed.
Print Assumptions kasumi_f8_bytes_involutive.

Theorem snowv_involutive :
  forall key iv msg, snowv key iv (snowv key iv msg) = msg.
Proof. exact StreamCipherProofs.snowv_involutive. Qed.
Print Assumptions snowv_involutive.
