(* C13 -- SAFE_DATA: no key or plaintext residue in the manager's internal storage once no job is
   in flight (storage part; registers and stack are runtime artefacts covered by the K4+K2 scan of
   checks/c13.py, the property is claimed PARTIAL). *)
From Coq Require Import List Bool String.
From IMB Require Import Mgr.SafeData Mgr.SafeDataInst Proofs.SafeDataProofs Proofs.SafeDataInstProofs.
Import ListNotations.

(* For ALL histories of submits and flushes on a family whose SAFE_DATA steps satisfy the
   obligation: whenever no job is in flight every sensitive field equals its reset image
   (k_junk: fields that kernels turn into job-independent garbage in job-less lanes; for those
   see ooo_idle_holds_no_job_data). *)
Theorem ooo_clean_when_idle :
  forall (fam : family) (n : nat) (ops : list op) (s : state),
    family_ok fam = true ->
    run fam (reset_state fam n) ops = Some s ->
    idle s ->
    forall ln i f,
      In ln s -> nth_error fam i = Some f -> claim f = true -> k_junk f = false ->
      nth_error (l_fld ln) i = nth_error (l_fld (reset_lane fam)) i.
Proof. exact ooo_clean_when_idle_lemma. Qed.
Print Assumptions ooo_clean_when_idle.

(* Whenever no job is in flight no sensitive field holds anything derived from any job. *)
Theorem ooo_idle_holds_no_job_data :
  forall (fam : family) (n : nat) (ops : list op) (s : state),
    family_ok fam = true ->
    run fam (reset_state fam n) ops = Some s ->
    idle s ->
    forall ln i f j,
      In ln s -> nth_error fam i = Some f -> claim f = true ->
      nth_error (l_fld ln) i <> Some (Data j).
Proof. exact ooo_idle_holds_no_job_data_lemma. Qed.
Print Assumptions ooo_idle_holds_no_job_data.

(* A freed lane holds nothing of the job that left it, even while other lanes are busy. *)
Theorem ooo_lane_clean_after_completion :
  forall (fam : family) (n : nat) (ops : list op) (s s' : state) (o : op) (c : nat),
    family_ok fam = true ->
    run fam (reset_state fam n) ops = Some s ->
    step fam s o = Some s' ->
    completes o c ->
    exists lc,
      nth_error s' c = Some lc /\ l_job lc = None /\
      forall i f, nth_error fam i = Some f -> claim f = true ->
                  nth_error (l_fld lc) i = nth_error (l_fld (reset_lane fam)) i.
Proof. exact ooo_lane_clean_after_completion_lemma. Qed.
Print Assumptions ooo_lane_clean_after_completion.

(* Every lane without a job is clean in every reachable state (what k13_scan measures). *)
Theorem ooo_free_lane_clean :
  forall (fam : family) (n : nat) (ops : list op) (s : state),
    family_ok fam = true ->
    run fam (reset_state fam n) ops = Some s ->
    forall ln i f,
      In ln s -> l_job ln = None -> nth_error fam i = Some f -> claim f = true ->
      (k_junk f = false -> nth_error (l_fld ln) i = nth_error (l_fld (reset_lane fam)) i) /\
      (forall j, nth_error (l_fld ln) i <> Some (Data j)).
Proof. exact ooo_free_lane_clean_lemma. Qed.
Print Assumptions ooo_free_lane_clean.

(* Data of a job is found in sensitive fields only in the lane currently working for it. *)
Theorem ooo_no_residue_of_departed_job :
  forall (fam : family) (n : nat) (ops : list op) (s : state),
    family_ok fam = true ->
    run fam (reset_state fam n) ops = Some s ->
    forall ln i f j,
      In ln s -> nth_error fam i = Some f -> claim f = true ->
      nth_error (l_fld ln) i = Some (Data j) -> l_job ln = Some j.
Proof. exact ooo_no_residue_of_departed_job_lemma. Qed.
Print Assumptions ooo_no_residue_of_departed_job.

(* The obligation holds for every manager family of the library (complete finite list). *)
Theorem all_manager_families_satisfy_obligation : instances_ok = true.
Proof. exact instances_ok_true. Qed.
Print Assumptions all_manager_families_satisfy_obligation.

Theorem manager_families_clean_when_idle :
  forall (i : instance), In i instances ->
  forall (n : nat) (ops : list op) (s : state),
    run (i_fam i) (reset_state (i_fam i) n) ops = Some s ->
    idle s ->
    forall ln k f,
      In ln s -> nth_error (i_fam i) k = Some f -> claim f = true ->
      (k_junk f = false -> nth_error (l_fld ln) k = nth_error (l_fld (reset_lane (i_fam i))) k) /\
      (forall j, nth_error (l_fld ln) k <> Some (Data j)).
Proof. exact instances_clean_when_idle_lemma. Qed.
Print Assumptions manager_families_clean_when_idle.

Theorem manager_families_lane_clean_after_completion :
  forall (i : instance), In i instances ->
  forall (n : nat) (ops : list op) (s s' : state) (o : op) (c : nat),
    run (i_fam i) (reset_state (i_fam i) n) ops = Some s ->
    step (i_fam i) s o = Some s' ->
    completes o c ->
    exists lc,
      nth_error s' c = Some lc /\ l_job lc = None /\
      forall k f, nth_error (i_fam i) k = Some f -> claim f = true ->
                  nth_error (l_fld lc) k = nth_error (l_fld (reset_lane (i_fam i))) k.
Proof. exact instances_lane_clean_after_completion_lemma. Qed.
Print Assumptions manager_families_lane_clean_after_completion.
