(* C13 -- the hypotheses of the theorems are satisfiable on concrete, non-trivial histories, and the
   obligation [family_ok] is not vacuous: the regressions named in DESIGN.md break it and leave a
   dirty lane in the model.  (vm_compute here evaluates single examples: these are tests.) *)
From Coq Require Import List Bool String.
From IMB Require Import Mgr.SafeData Mgr.SafeDataInst Proofs.SafeDataProofs.
Import ListNotations.
Open Scope string_scope.

(* HMAC-SHA1 on SSE: 4 lanes; four submits fill the lanes, the fourth completes lane 1, a fifth job
   re-uses it, three flushes and a last one drain the manager. *)
Definition hist_hmac : list op :=
  [ Submit 1 0 None; Submit 2 1 None; Submit 3 2 None; Submit 4 3 (Some 1);
    Submit 5 1 None; Flush 0 0; Flush 1 2; Flush 3 3; Flush 1 1 ].

Example hmac_history_runs_and_ends_idle :
  option_map idleb (run fam_hmac (reset_state fam_hmac 4) hist_hmac) = Some true.
Proof. vm_compute. reflexivity. Qed.

Example hmac_history_ends_clean :
  option_map (forallb (fun ln => cleanb fam_hmac (l_fld ln)))
             (run fam_hmac (reset_state fam_hmac 4) hist_hmac) = Some true.
Proof. vm_compute. reflexivity. Qed.

(* the history is not trivial: in the middle the lanes do hold job data *)
Example hmac_history_midway_dirty :
  option_map (fun s => existsb (fun ln => negb (cleanb fam_hmac (l_fld ln))) s)
             (run fam_hmac (reset_state fam_hmac 4) (firstn 5 hist_hmac)) = Some true.
Proof. vm_compute. reflexivity. Qed.

(* the lane freed by the 4th submit is clean while lanes 0, 2, 3 are busy *)
Example hmac_freed_lane_clean_while_others_busy :
  option_map (fun s => match nth_error s 1 with
                       | Some ln => is_free ln && cleanb fam_hmac (l_fld ln) && negb (idleb s)
                       | None => false end)
             (run fam_hmac (reset_state fam_hmac 4) (firstn 4 hist_hmac)) = Some true.
Proof. vm_compute. reflexivity. Qed.

(* VAES AES-CBC: 16 lanes, flush returns the only job; key_tab of every lane is clean although the
   public IV row is not *)
Example vaes_cbc_single_job :
  option_map (fun s => idleb s && forallb (fun ln => cleanb fam_aes_cbc_vaes (l_fld ln)) s)
             (run fam_aes_cbc_vaes (reset_state fam_aes_cbc_vaes 16) [Submit 7 0 None; Flush 0 0])
  = Some true.
Proof. vm_compute. reflexivity. Qed.

(* Regression "a flush path clearing only the returned lane's IV": the obligation fails ... *)
Definition fam_cbc_flush_ret_only : family :=
  [ F "args.keys" T T  T N N  N;
    F "args.IV"   T T  T T N  T ].

Example regression_flush_ret_only_breaks_obligation : family_ok fam_cbc_flush_ret_only = false.
Proof. vm_compute. reflexivity. Qed.

(* ... and the model exhibits the residue: after submit + flush of one job, lane 1 (never used by a
   job) keeps the copy of the IV that flush made. *)
Example regression_flush_ret_only_leaves_residue :
  option_map (fun s => match nth_error s 1 with
                       | Some ln => idleb s && negb (cleanb fam_cbc_flush_ret_only (l_fld ln))
                       | None => false end)
             (run fam_cbc_flush_ret_only (reset_state fam_cbc_flush_ret_only 4)
                  [Submit 9 0 None; Flush 0 0]) = Some true.
Proof. vm_compute. reflexivity. Qed.

(* Regression "submit forgets to clear extra_block": *)
Definition fam_hmac_no_submit_clear : family :=
  [ F "args.digest"       T T  T T T  T;
    F "ldata.extra_block" T N  N T T  T;
    F "ldata.outer_block" T N  T T T  T ].

Example regression_submit_clear_breaks_obligation : family_ok fam_hmac_no_submit_clear = false.
Proof. vm_compute. reflexivity. Qed.

Example regression_submit_clear_leaves_residue :
  option_map (fun s => match nth_error s 1 with
                       | Some ln => is_free ln && negb (cleanb fam_hmac_no_submit_clear (l_fld ln))
                       | None => false end)
             (run fam_hmac_no_submit_clear (reset_state fam_hmac_no_submit_clear 2)
                  [Submit 1 0 None; Submit 2 1 (Some 1)]) = Some true.
Proof. vm_compute. reflexivity. Qed.

(* SNOW3G-UEA2: a flush with three job-less lanes leaves key-independent garbage in them; the
   lane the job left is exactly the reset image *)
Example snow3g_uea2_junk_is_not_job_data :
  option_map (fun s => idleb s && forallb (fun ln => cleanb fam_snow3g_uea2 (l_fld ln)) s &&
                       match nth_error s 0, nth_error s 1 with
                       | Some l0, Some l1 =>
                           match nth_error (l_fld l0) 1, nth_error (l_fld l1) 1 with
                           | Some Zero, Some Junk => true
                           | _, _ => false end
                       | _, _ => false end)
             (run fam_snow3g_uea2 (reset_state fam_snow3g_uea2 4) [Submit 3 0 None; Flush 0 0])
  = Some true.
Proof. vm_compute. reflexivity. Qed.

(* the instance list is what the check compares the library with *)
Example number_of_instances : List.length instances = 123.
Proof. vm_compute. reflexivity. Qed.

Example number_of_claimed_fields : (List.length claimed_clean, List.length claimed_junk) = (196, 4).
Proof. vm_compute. reflexivity. Qed.
