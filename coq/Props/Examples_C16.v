(* Props/Examples_C16.v — the hypotheses of the C16 theorems are satisfiable on a concrete,
   non-trivial case (TESTS by computation). *)
From Coq Require Import NArith ZArith List String Bool.
From IMB Require Import Gen.GenConsts Gen.GenLayout Gen.GenReset Mgr.Ring Mgr.Reset Mgr.Reattach
                        Proofs.RingArith Proofs.RingProofs Proofs.ResetProofs Proofs.ReattachProofs
                        Props.Properties_C16.
Import ListNotations.
Local Open Scope N_scope.

Local Notation SZ := SIZEOF_IMB_JOB.
Local Notation NJ := IMB_MAX_JOBS.
Local Notation MAXB := IMB_MAX_BURST_SIZE.

Definition host_cpu : N := 0xc1fffff.
Definition a_avx512 : arch_init := nth 2 arch_inits (mkarch "" 0 [] [] "" false).

(* a history: four jobs parked in out-of-order managers (nothing completes), a poll, a fifth job
   whose submission completes the oldest one, a sixth *)
Definition hist : list op :=
  [Submit true None 11 []; Submit true None 12 []; Submit true None 13 []; Submit false None 14 [];
   GetCompleted; Submit true None 15 [0%Z]; Submit true None 16 []].

Definition s0 : st := init.      (* empty ring at slot 0 *)

Example ex_hist_ok : empty_at SZ NJ s0 0 /\ ops_ok SZ NJ MAXB s0 hist = true.
Proof. split; [repeat split; cbn; try reflexivity; discriminate|vm_compute; reflexivity]. Qed.

(* crash after the 4th call: jobs 11..14 in flight.  The block: an AVX512-T2 manager, lanes full
   of state, error code set by an earlier failed call *)
Definition crashed (k : nat) : mgr :=
  mkmgr (set_errno 2008 (final SZ NJ MAXB s0 (firstn k hist)))
        0 (feature_adjust 0 host_cpu) IMB_ARCH_AVX512 2 (Some "avx512_t2"%string)
        (fun _ => 0) (fun _ a => a mod 251).

(* flush oracle: each flush completes the job flush asks for (the oldest) *)
Definition Ds4 : list (list Z) := [[0%Z]; [216%Z]; [432%Z]; [648%Z]].

Definition M4 : mgr := with_ring (final SZ NJ MAXB s0 (firstn 4 hist)) (crashed 4).
Lemma M4_ring : m_ring M4 = final SZ NJ MAXB s0 (firstn 4 hist).
Proof. unfold M4, with_ring. cbn [m_ring]. reflexivity. Qed.

Example ex_crash4_hyps :
  let R := m_ring (reattach host_cpu 0 0x10000000000 M4) in
  ops_ok SZ NJ MAXB R (map Flush Ds4) = true /\
  Z.of_nat (List.length Ds4) = pending_count SZ NJ MAXB s0 (firstn 4 hist).
Proof. vm_compute. split; reflexivity. Qed.

(* the theorem applied *)
Example ex_crash4 :
  let R := m_ring (reattach host_cpu 0 0x10000000000 M4) in
  all_returned (trace SZ NJ MAXB R (map Flush Ds4)) = [11; 12; 13; 14]%Z.
Proof.
  intros R. destruct ex_hist_ok as [He Hok]. destruct ex_crash4_hyps as [H1 H2].
  destruct (crash_flush_returns_all_in_order s0 0 hist 4 host_cpu 0 0x10000000000 M4 Ds4 He Hok M4_ring H1 H2) as (Hret & _).
  fold R in Hret. rewrite Hret. vm_compute. reflexivity.
Qed.

(* and computed directly, at every crash point of the history: the jobs handed back by flushing
   the re-attached manager are the ones pending at that point, in order *)
Definition flush_ids (k : nat) : list Z :=
  let M := crashed k in
  let R := m_ring (reattach host_cpu 0 0x10000000000 M) in
  (* complete everything on each flush: a lazy oracle is the harder case, a greedy one the easier *)
  let all := map (fun i => (Z.of_nat i * 216)%Z) (seq 0 8) in
  all_returned (trace SZ NJ MAXB R (map Flush (repeat all 6))).

Example ex_all_crash_points :
  map flush_ids (seq 0 8) =
  [[]; [11]; [11; 12]; [11; 12; 13]; [11; 12; 13; 14]; [11; 12; 13; 14]; [12; 13; 14; 15]; [12; 13; 14; 15; 16]]%Z.
Proof. vm_compute. reflexivity. Qed.

(* re-attachment binds the AVX512-T2 handlers again, keeps used_arch, recomputes the pointers *)
Example ex_rebind :
  let M := crashed 4 in
  m_bound (reattach host_cpu 0 0x10000000000 (with_bound None M)) = Some "avx512_t2"%string /\
  m_ptrs (reattach host_cpu 0 0x10000000000 M) "aes128_ooo"%string = 0x10000000000 + 56768 /\
  m_ptrs (reattach host_cpu 0 0x10000000000 M) "aes_cfb_256_ooo"%string = 0x10000000000 + 224384 /\
  errno (m_ring (reattach host_cpu 0 0x10000000000 M)) = 0%Z /\
  m_ooo (reattach host_cpu 0 0x10000000000 M) "aes128_ooo"%string 100 = 100 /\         (* lane state untouched *)
  read_le (m_ooo (reattach host_cpu 0 0x10000000000 M) "aes128_ooo"%string) 4808 8 = OOO_ROAD_BLOCK.
Proof. vm_compute. repeat split; reflexivity. Qed.

(* re-attaching with other flags: handlers follow the flags STORED in the block (0 -> T2), the
   features word follows the new flags *)
Example ex_flags_order :
  let M := crashed 4 in
  m_bound (reattach host_cpu 3 0x10000000000 M) = Some "avx512_t2"%string /\
  m_flags (reattach host_cpu 3 0x10000000000 M) = 3 /\
  m_features (reattach host_cpu 3 0x10000000000 M) = feature_adjust 3 host_cpu.
Proof. vm_compute. repeat split; reflexivity. Qed.
