(* Non-vacuity for C20: concrete runs of the model (tests, not theorems). *)
From Coq Require Import NArith List String Bool.
From IMB Require Import Lib.Bytes Mgr.SelfTestVec Gen.GenSelfTest Mgr.SelfTest Proofs.SelfTestProofs.
Import ListNotations.
Local Open Scope string_scope.

(* the tables are not empty: the finite theorems are about 33 real vectors *)
Example items_count : length all_items = 33. Proof. vm_compute. reflexivity. Qed.
Example first_item : option_map (fun it => (it_type it, vec_descr (it_vec it))) (hd_error all_items)
                     = Some ("KAT_Cipher", "AES128-CBC").
Proof. vm_compute. reflexivity. Qed.

(* no callback installed: pass bit set, errno 0 *)
Example run_nocb :
  let r := init_model unit null_step Init_auto 0xc07ffff tt in
  (sr_features r, sr_errno r, length (sr_events r)) = (0xc1fffff%N, 0%N, 99).
Proof. vm_compute. reflexivity. Qed.

(* corrupting vectors 3 (AES128-CTR) and 20 (HMAC-SHA2-256): both FAIL, the rest PASS,
   pass bit cleared, IMB_ERR_SELFTEST *)
Example run_3_20 :
  let r := predict [3; 20] Init_sse 0xc07ffff in
  (sr_features r, sr_errno r) = (0xc0fffff%N, 2051%N) /\
  filter (fun e => match e with EvFail => true | _ => false end) (sr_events r) = [EvFail; EvFail] /\
  nth_error (sr_events r) 9 = Some (EvStart "KAT_Cipher" "AES128-CTR") /\
  nth_error (sr_events r) 11 = Some EvFail /\
  nth_error (sr_events r) 60 = Some (EvStart "KAT_Auth" "HMAC-SHA2-256") /\
  nth_error (sr_events r) 62 = Some EvFail /\
  nth_error (sr_events r) 2 = Some EvPass.
Proof. vm_compute. repeat split; reflexivity. Qed.

(* a single corrupted AEAD vector (the last group) is enough *)
Example run_last :
  let r := predict [32] Init_avx512 0 in
  (has_bit (sr_features r) gen_FEATURE_SELF_TEST_PASS, sr_errno r, last (sr_events r) EvPass) = (false, 2051%N, EvFail).
Proof. vm_compute. reflexivity. Qed.

(* the hypotheses of the generic gate theorem are satisfiable: the generated tables are "good" *)
Example good_tables : Forall (Forall (Forall (good_item vec_pre kat_spec))) st_groups.
Proof. exact st_groups_good. Qed.

(* the corruption really changes the input: one flipped bit *)
Example corrupt_first_ex : corrupt_first [0x6b; 0xc1]%N = [0x6a; 0xc1]%N.
Proof. reflexivity. Qed.
