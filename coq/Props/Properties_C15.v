(* Props/Properties_C15.v — property C15: initialising a manager at any point (jobs in flight or
   not, same or another variant) returns it to the empty state, and everything it does afterwards
   is what a freshly allocated + initialised manager does.

   Statements are about Mgr/Reset.v instantiated with Gen/GenReset.v + Gen/GenLayout.v (regenerated
   from the CURRENT lib/x86_64/ooo_mgr_reset.c, lib/*/mb_mgr_*.c, alloc.c, cpu_feature.c and headers
   on every run).  Proofs: Proofs/ResetProofs.v, Proofs/ResetImageTie.v. *)
From Coq Require Import NArith ZArith List String Bool.
From IMB Require Import Gen.GenConsts Gen.GenLayout Gen.GenReset Gen.GenResetImages Mgr.Ring Mgr.Reset
                        Proofs.ResetProofs Proofs.ResetImageTie.
Import ListNotations.
Local Open Scope N_scope.

(* FINITE, complete over the compiled variants: reset_ooo_mgrs() of every variant resets no manager
   twice; every manager the variant's submit/flush code refers to is reset and is an entry of
   ooo_mgr_table; every call passes the struct type allocated for that field, a lane count the
   struct has room for, and starts with memset(p, 0, offsetof(T, road_block)) — so the image
   below the road block after the call does not depend on the image before it. *)
Theorem reset_covers_every_manager : forall v, In v variants ->
  NoDup (reset_fields v) /\
  (forall field, In field (v_used v) -> In field (reset_fields v) /\ In field table_fields) /\
  (forall field fn lanes, In (field, fn, lanes) (v_resets v) ->
     exists e r, table_entry field = Some e /\ find_reset_fn fn = Some r /\ rf_struct r = oe_struct e /\
                 1 <= lanes <= lane_capacity (oe_struct e) /\
                 (forall f g, agree_on (in_range 0 (oe_rb_off e)) (reset_image fn lanes f) (reset_image fn lanes g))).
Proof. exact reset_covers_every_manager_thm. Qed.
Print Assumptions reset_covers_every_manager.

(* FINITE, complete over every (variant, manager the variant schedules on): the unused_lanes constant
   stored for the lane count passed is the stack 0,1,..,lanes-1 (4-bit or 8-bit digits), followed by
   nothing or by one all-ones terminator. *)
Theorem unused_lanes_constant_is_valid_stack : forall v field fn lanes,
  In v variants -> In (field, fn, lanes) (v_resets v) -> In field (v_used v) ->
  exists c, unused_lanes_after fn lanes = Some c /\ (valid_stack 4 lanes c = true \/ valid_stack 8 lanes c = true).
Proof. exact unused_lanes_constant_is_valid_stack_thm. Qed.
Print Assumptions unused_lanes_constant_is_valid_stack.

(* FOR ALL manager states s1 (any ring position, any slot contents, any OOO images = any jobs in
   flight, any previously bound variant) and s2 (e.g. a freshly allocated block) with the same
   flags, on a CPU that supports the architecture: init_mb_mgr_<arch>_internal(state, 1) selects
   the same variant v for both, binds v's handlers, leaves the ring empty at slot 0 with error
   code 0, and the scheduling states coincide. *)
Theorem reinit_is_constant : forall cpu a s1 s2,
  In a arch_inits ->
  m_flags s1 = m_flags s2 ->
  has_flags (m_features s1) (ai_req a) = true -> has_flags (m_features s2) (ai_req a) = true ->
  has_flags (feature_adjust (m_flags s1) cpu) (ai_req a) = true ->
  exists v, find_variant (variant_for cpu (m_flags s1) a) = Some v /\
            sched_eq v (arch_init_run cpu a true s1) (arch_init_run cpu a true s2) /\
            m_bound (arch_init_run cpu a true s1) = Some (v_name v) /\
            earliest (m_ring (arch_init_run cpu a true s1)) = (-1)%Z /\
            next (m_ring (arch_init_run cpu a true s1)) = 0%Z /\
            errno (m_ring (arch_init_run cpu a true s1)) = 0%Z.
Proof. exact reinit_is_constant_thm. Qed.
Print Assumptions reinit_is_constant.

(* Hence, for the public init (internal init + power-up self test through the same manager) and
   any machine whose steps are a function of the scheduling state: every later history gives the
   same outputs on the re-initialised manager as on a fresh one. *)
Theorem no_residue :
  forall (op out : Type) (selftest : mgr -> mgr) cpu a s fresh v,
  In a arch_inits ->
  m_flags s = m_flags fresh ->
  has_flags (m_features s) (ai_req a) = true -> has_flags (m_features fresh) (ai_req a) = true ->
  has_flags (feature_adjust (m_flags s) cpu) (ai_req a) = true ->
  find_variant (variant_for cpu (m_flags s) a) = Some v ->
  forall (step : mgr -> op -> mgr * out),
  (forall s1 s2, sched_eq v s1 s2 -> sched_eq v (selftest s1) (selftest s2)) ->
  (forall s1 s2 o, sched_eq v s1 s2 -> snd (step s1 o) = snd (step s2 o) /\ sched_eq v (fst (step s1 o)) (fst (step s2 o))) ->
  forall ops, runm op out step (init_public selftest cpu a s) ops = runm op out step (init_public selftest cpu a fresh) ops.
Proof. exact no_residue_thm. Qed.
Print Assumptions no_residue.

(* After re-initialisation the ring is an empty ring: queue size 0, and (earliest = -1, next = 0)
   is a state [empty_at _ 0] from which every theorem of Props/Properties_C05.v holds — whatever the
   256 slots still contain. *)
Theorem reinit_ring_empty : forall cpu a s,
  In a arch_inits ->
  has_flags (m_features s) (ai_req a) = true ->
  has_flags (feature_adjust (m_flags s) cpu) (ai_req a) = true ->
  earliest (m_ring (arch_init_run cpu a true s)) = (-1)%Z /\ next (m_ring (arch_init_run cpu a true s)) = 0%Z /\
  queue_sz SIZEOF_IMB_JOB IMB_MAX_JOBS (m_ring (arch_init_run cpu a true s)) = 0%Z.
Proof. exact reinit_ring_empty_thm. Qed.
Print Assumptions reinit_ring_empty.

(* FINITE, complete over every (reset function, lane count) pair any compiled variant uses: the
   model's image of ooo_mgr_<x>_reset(p, lanes) — which bytes are written and with what — equals,
   byte for byte over the whole struct, the image produced by the compiled function of the current
   lib/x86_64/ooo_mgr_reset.c (Gen/GenResetImages.v, written by harness/k15_reinit.c). *)
Theorem reset_model_matches_compiled_code :
  forall v field fn lanes, In v variants -> In (field, fn, lanes) (v_resets v) ->
  exists size runs, In (fn, lanes, size, runs) compiled_reset_images /\
                    model_image fn lanes size = expand_runs runs.
Proof. exact reset_model_matches_compiled_code_thm. Qed.
Print Assumptions reset_model_matches_compiled_code.
