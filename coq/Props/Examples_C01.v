(* Props/Examples_C01.v — NON-VACUITY examples for Props/Properties_C01.v.  These are TESTS on
   particular inputs (vm_compute), not theorems about all inputs: they show that the
   hypotheses of the C01 theorems are satisfiable on concrete, non-trivial cases and that the
   objects the theorems speak about are not degenerate (the block functions are not the
   identity, the counter really wraps, both paths of the low-byte counter code are taken,
   by-N really has full groups + a tail + a partial block, the partial byte of CNTR_BITLEN is
   really merged, ...). *)
From Coq Require Import List NArith Bool Arith String.
From IMB Require Import Lib.Bytes Spec.Hex Spec.AES Spec.AESModes Spec.DES Spec.SM4
  Spec.ChaCha20 Spec.ZUC Spec.SNOW3G Spec.KASUMI Spec.SNOWV
  Struct.TailOps Struct.CtrKernel Struct.ByN
  Proofs.ModeProofs Proofs.AESInvProofs Props.Properties_C01.
Import ListNotations.
Local Open Scope string_scope.

Definition beq_bytes (a b : bytes) : bool :=
  Nat.eqb (length a) (length b) && forallb (fun p => N.eqb (fst p) (snd p)) (combine a b).

Definition k128 : bytes := hex "2b7e151628aed2a6abf7158809cf4f3c".
Definition k256 : bytes := hex "603deb1015ca71be2b73aef0857d77811f352c073b6108d72d9810a30914dff4".
Definition iv16 : bytes := hex "000102030405060708090a0b0c0d0e0f".
Definition iv12 : bytes := hex "cafebabefacedbaddecaf888".
(* 100 bytes: 6 whole blocks + 4 bytes *)
Definition m100 : bytes := map N.of_nat (seq 3 100).

(* ---- the Section hypotheses are satisfiable by a block function that is not the identity ---- *)
Example aes_satisfies_mode_hypotheses :
  let E := aes_enc_rk (aes_key_expand k128) in
  let D := aes_dec_rk (aes_key_expand k128) in
  (forall b, length b = 16 -> length (E b) = 16) /\
  (forall b, length b = 16 -> bytes_ok b = true -> bytes_ok (E b) = true) /\
  (forall b, length b = 16 -> bytes_ok b = true -> D (E b) = b) /\
  E iv16 <> iv16.
Proof.
  assert (W := aes_key_expand_wf k128 eq_refl).
  repeat split.
  - now apply aes_E_len.
  - now apply aes_E_ok.
  - now apply aes_DE.
  - vm_compute. discriminate.
Qed.

(* FIPS-197 Appendix B block: the round trip is a real computation *)
Example aes_block_roundtrip_test :
  aes_encrypt_block k128 (hex "3243f6a8885a308d313198a2e0370734")
    = hex "3925841d02dc09fbdc118597196a0b32"
  /\ aes_decrypt_block k128 (hex "3925841d02dc09fbdc118597196a0b32")
    = hex "3243f6a8885a308d313198a2e0370734".
Proof. vm_compute. split; reflexivity. Qed.

(* ---- modes on a message with whole blocks AND a tail (tests) ---- *)
Example cbc_roundtrip_test :
  cbc_enc k128 iv16 m100 <> m100 /\ cbc_dec k128 iv16 (cbc_enc k128 iv16 m100) = m100.
Proof. vm_compute. split; [discriminate|reflexivity]. Qed.

Example docsis_roundtrip_tests :
  (* < 1 block, = 0 mod 16, <> 0 mod 16, empty *)
  forallb (fun n => let m := firstn n m100 in
                    let c := docsis_aes_enc k256 iv16 m in
                    (Nat.eqb (length c) n)
                    && (if Nat.eqb n 0 then true else negb (beq_bytes c m))
                    && beq_bytes (docsis_aes_dec k256 iv16 c) m)
          [0; 1; 15; 16; 17; 32; 37; 100] = true.
Proof. vm_compute. reflexivity. Qed.

Example cfb_partial_block_test :
  let m := firstn 37 m100 in
  length (cfb_enc k128 iv16 m) = 37 /\ cfb_dec k128 iv16 (cfb_enc k128 iv16 m) = m.
Proof. vm_compute. split; reflexivity. Qed.

(* CBCS 1:9 with 23 blocks: blocks 0, 10, 20 are encrypted, next_iv is ciphertext block 20 *)
Definition m368 : bytes := (map N.of_nat (seq 0 200) ++ map N.of_nat (seq 0 168))%list.
Example cbcs_test :
  let c := cbcs_enc k128 iv16 m368 in
  let cb := fst (blocks16 c) in
  let pb := fst (blocks16 m368) in
  length cb = 23
  /\ nth 0 cb [] <> nth 0 pb [] /\ nth 1 cb [] = nth 1 pb [] /\ nth 9 cb [] = nth 9 pb []
  /\ nth 10 cb [] <> nth 10 pb [] /\ nth 20 cb [] <> nth 20 pb [] /\ nth 22 cb [] = nth 22 pb []
  /\ cbcs_next_iv iv16 c = nth 20 cb []
  /\ cbcs_dec k128 iv16 c = m368.
Proof. vm_compute. repeat split; try discriminate; reflexivity. Qed.

(* ---- CNTR_BITLEN: 13 bits = 2 bytes, the 3 low bits of the 2nd byte come from dst ---- *)
Example ctr_bits_test :
  let dst := [0xAA; 0xFF; 0x55]%N in
  let out := ctr_bits k128 iv16 [0x12; 0x34; 0x56]%N 13 dst in
  length out = 2
  /\ N.land (nth 1 out 0%N) 7 = 7%N                      (* kept from dst = 0xFF *)
  /\ ctr_bits_keep 13 = 7%N
  /\ nth 0 out 0%N = nth 0 (ctr_bits k128 iv16 [0x12; 0x34; 0x56]%N 16 dst) 0%N.
Proof. vm_compute. repeat split; reflexivity. Qed.

(* ---- counter handling: wrap modulo 2^32 without carry into byte 11 ---- *)
Definition cb_wrap : bytes := hex "00112233445566778899aabbfffffffe".
Example ctr_counter_wrap_test :
  ctr_blk_paddd cb_wrap 1 = hex "00112233445566778899aabbffffffff"
  /\ ctr_blk_paddd cb_wrap 2 = hex "00112233445566778899aabb00000000"
  /\ ctr_blk_paddd cb_wrap 5 = hex "00112233445566778899aabb00000003".
Proof. vm_compute. repeat split; reflexivity. Qed.

(* both paths of the AVX2-VAES low-byte code, group span 16 *)
Example ctr_lowbyte_paths_test :
  let c_fast := hex "00112233445566778899aabb010203ef" in   (* 0xef + 16 <= 255: fast *)
  let c_slow := hex "00112233445566778899aabb0102fff0" in   (* 0xf0 + 16 >  255: slow *)
  (nth 15 c_fast 0 + 16 <=? 255)%N = true /\ (nth 15 c_slow 0 + 16 <=? 255)%N = false
  /\ ctr_blk_lowbyte 16 c_fast 15 = hex "00112233445566778899aabb010203fe"
  /\ ctr_blk_lowbyte 16 c_slow 15 = hex "00112233445566778899aabb0102ffff"
  /\ ctr_blk_lowbyte 16 c_slow 16 = hex "00112233445566778899aabb01030000".
Proof. vm_compute. repeat split; reflexivity. Qed.

(* CNTR_BITLEN counter: 64-bit, carry through byte 11 but not into byte 7 *)
Example ctr64_wrap_test :
  ctr_blk_paddq (hex "0011223344556677fffffffffffffffe") 3
    = hex "00112233445566770000000000000001".
Proof. vm_compute. reflexivity. Qed.

(* ---- by-N: 100 bytes = 6 blocks + 4 bytes: by-4 has 1 full group, a tail of 2 blocks and a
        partial block; by-8 only a tail and a partial block ---- *)
Example ctr_byN_test :
  let E := aes_enc_rk (aes_key_expand k128) in
  ctr_byN E 4 iv12 m100 = ctr k128 iv12 m100 /\ ctr_byN E 8 iv12 m100 = ctr k128 iv12 m100
  /\ ctr k128 iv12 m100 <> m100 /\ length (fst (blocks16 m100)) = 6.
Proof. vm_compute. repeat split; try reflexivity. discriminate. Qed.

Example cbc_dec_inplace_test :
  let D := aes_dec_rk (aes_key_expand k128) in
  let c := fst (blocks16 (cbc_enc k128 iv16 m100)) in
  cbc_dec_inplace D 4 iv16 c = fst (blocks16 m100).
Proof. vm_compute. reflexivity. Qed.

(* ---- DES / SM4: not the identity, and invertible on a test block ---- *)
Example des_test :
  let k := hex "0123456789abcdef" in let p := hex "4e6f772069732074" in
  des_encrypt_block k p = hex "3fa40e8a984d4815" /\ des_decrypt_block k (des_encrypt_block k p) = p.
Proof. vm_compute. split; reflexivity. Qed.

Example docsis_des_test :
  let k := hex "0123456789abcdef" in let iv := hex "1234567890abcdef" in
  forallb (fun n => let m := firstn n m100 in
                    beq_bytes (docsis_des_dec k iv (docsis_des_enc k iv m)) m
                    && Nat.eqb (length (docsis_des_enc k iv m)) n)
          [1; 7; 8; 9; 16; 21] = true.
Proof. vm_compute. reflexivity. Qed.

Example sm4_test :
  let k := hex "0123456789abcdeffedcba9876543210" in
  sm4_encrypt_block k k = hex "681edf34d206965e86b3e94f536e4246"
  /\ sm4_decrypt_block k (sm4_encrypt_block k k) = k.
Proof. vm_compute. split; reflexivity. Qed.

(* ---- stream ciphers: the key stream is not zero, lengths are preserved ---- *)
Example stream_tests :
  let m := firstn 70 m100 in
  chacha20_job k256 iv12 m <> m /\ length (chacha20_job k256 iv12 m) = 70
  /\ zuc_eea3 k128 iv16 m <> m /\ snow3g_f8 k128 iv16 m <> m
  /\ kasumi_f8_bytes k128 (firstn 8 iv16) m <> m /\ snowv k256 iv16 m <> m
  /\ length (snowv k256 iv16 m) = 70.
Proof. vm_compute. repeat split; try discriminate; reflexivity. Qed.

(* KASUMI-F8 bit path: 21 bits at bit offset 5, in place, twice *)
Example kasumi_f8_bits_test :
  let m := firstn 8 m100 in
  kasumi_f8 k128 (firstn 8 iv16) m 21 5 <> m
  /\ kasumi_f8 k128 (firstn 8 iv16) (kasumi_f8 k128 (firstn 8 iv16) m 21 5) 21 5 = m.
Proof. vm_compute. split; [discriminate|reflexivity]. Qed.

(* SNOW3G-UEA2 bit path, in place.  R1: 21 bits at bit offset 13 (window ends mid-byte):
   exact involution.  R2: 21 bits at offset 8: message bits restored, trailing bits of the
   last byte clobbered by key stream.  R3 (excluded from the theorem): 19 bits at offset 13,
   the window ends on a byte boundary and the OR quirk makes in-place operation lossy. *)
Example snow3g_bits_tests :
  let m := firstn 9 (skipn 37 m100) in
  let f bl bo x := snow3g_uea2_inplace k128 iv16 x bl bo in
  f 21%N 13%N m <> m /\ f 21%N 13%N (f 21%N 13%N m) = m
  /\ f 21%N 8%N (f 21%N 8%N m) <> m
  /\ snow3g_take_bits 21 (skipn 1 (f 21%N 8%N (f 21%N 8%N m))) = snow3g_take_bits 21 (skipn 1 m)
  /\ f 19%N 13%N (f 19%N 13%N m) <> m.
Proof. vm_compute. repeat split; try discriminate; reflexivity. Qed.
