(* Props/Properties_C05.v — property C05: jobs come back exactly once, in order, complete;
   queue accounting is exact.  Statements about the ring model (Mgr/Ring.v) instantiated with
   the constants of the CURRENT header (Gen/GenConsts.v, regenerated every run); proofs are in
   Proofs/RingProofs.v.  This file holds nothing but the theorems, each closed by [exact]. *)
From Coq Require Import ZArith List Bool Lia.
From IMB Require Import Gen.GenConsts Mgr.Ring Proofs.RingArith Proofs.RingProofs.
Import ListNotations.
Local Open Scope Z_scope.

Notation SZ := SIZEOF_IMB_JOB.
Notation NJ := IMB_MAX_JOBS.
Notation MAXB := IMB_MAX_BURST_SIZE.

(* facts about the current header that the ring code relies on *)
Lemma sz_pos : 0 < SZ. Proof. reflexivity. Qed.
Lemma k_ge1 : 1 <= 8. Proof. lia. Qed.
Lemma nj_pow2 : NJ = 2 ^ 8. Proof. reflexivity. Qed.   (* get_queue_sz masks with IMB_MAX_JOBS - 1 *)

Notation trace := (trace SZ NJ MAXB).
Notation final := (final SZ NJ MAXB).
Notation empty_at := (empty_at SZ NJ).
Notation ops_ok := (ops_ok SZ NJ MAXB).
Notation pending_count := (pending_count SZ NJ MAXB).
Notation stepr := (stepr SZ NJ MAXB).
Notation okr := (okr SZ NJ MAXB).

(* For every history of API calls (job API and burst API, checked and no-check entry points,
   immediate / parked / rejected jobs) from an empty manager, under the oracle/caller contract:
   - the ids handed back, concatenated over all calls, are a prefix of the ids accepted, in order
     (so every job is handed back at most once, in submission order, none skipped);
   - every job handed back has status >= IMB_STATUS_COMPLETED (completed or an error status);
   - the queue size equals accepted minus handed back. *)
Theorem ring_refines_fifo : forall s0 m ops,
  empty_at s0 m -> ops_ok s0 ops = true ->
  let tr := trace s0 ops in
  all_returned tr = firstn (length (all_returned tr)) (all_accepted tr) /\
  Forall (fun j => IMB_STATUS_COMPLETED <= jstat j) (all_jobs tr) /\
  queue_sz SZ NJ (final s0 ops) = Z.of_nat (length (all_accepted tr)) - Z.of_nat (length (all_returned tr)) /\
  (length (all_returned tr) <= length (all_accepted tr))%nat.
Proof. exact (fifo_history SZ NJ 8 MAXB sz_pos k_ge1 nj_pow2). Qed.
Print Assumptions ring_refines_fifo.

Theorem queue_size_exact : forall s0 m ops,
  empty_at s0 m -> ops_ok s0 ops = true ->
  snd (stepr (final s0 ops) QueueSize) = ONum (pending_count s0 ops).
Proof. exact (queue_size_exact_thm SZ NJ 8 MAXB sz_pos k_ge1 nj_pow2). Qed.
Print Assumptions queue_size_exact.

Theorem flush_progress : forall s0 m ops D,
  empty_at s0 m -> ops_ok s0 ops = true -> okr (final s0 ops) (Flush D) = true ->
  (snd (stepr (final s0 ops) (Flush D)) = OJob None <-> pending_count s0 ops = 0).
Proof. exact (flush_progress_thm SZ NJ 8 MAXB sz_pos k_ge1 nj_pow2). Qed.
Print Assumptions flush_progress.

Theorem flush_burst_count : forall s0 m ops mx D,
  empty_at s0 m -> ops_ok s0 ops = true -> okr (final s0 ops) (FlushBurst false mx D) = true ->
  length (out_jobs (snd (stepr (final s0 ops) (FlushBurst false mx D))))
  = Z.to_nat (Z.min (pending_count s0 ops) mx).
Proof. exact (flush_burst_count_thm SZ NJ 8 MAXB sz_pos k_ge1 nj_pow2). Qed.
Print Assumptions flush_burst_count.

Theorem full_forces_oldest : forall s0 m ops c v id D,
  empty_at s0 m -> ops_ok s0 ops = true -> okr (final s0 ops) (Submit c v id D) = true ->
  pending_count s0 ops = NJ - 1 ->
  length (out_jobs (snd (stepr (final s0 ops) (Submit c v id D)))) = 1%nat.
Proof. exact (full_forces_oldest_thm SZ NJ 8 MAXB sz_pos k_ge1 nj_pow2). Qed.
Print Assumptions full_forces_oldest.

Theorem ring_never_full_between_calls : forall s0 m ops,
  empty_at s0 m -> ops_ok s0 ops = true -> 0 <= pending_count s0 ops <= NJ - 1.
Proof. exact (never_full_between_calls SZ NJ 8 MAXB sz_pos k_ge1 nj_pow2). Qed.
Print Assumptions ring_never_full_between_calls.

Theorem next_slot_not_pending : forall s0 m ops,
  empty_at s0 m -> ops_ok s0 ops = true ->
  let s := final s0 ops in
  map (cont s) (pending_slots SZ NJ s)
    = skipn (length (all_returned (trace s0 ops))) (all_accepted (trace s0 ops)) /\
  ~ In (next s) (pending_slots SZ NJ s) /\
  forall n l, 0 <= n <= MAXB -> snd (get_next_burst SZ NJ MAXB false n s) = OSlots l ->
    length l = Z.to_nat (Z.min (NJ - pending_count s0 ops) n) /\ NoDup l /\
    forall x, In x l -> ~ In x (pending_slots SZ NJ s).
Proof. exact (offered_slots_not_pending SZ NJ 8 MAXB sz_pos k_ge1 nj_pow2). Qed.
Print Assumptions next_slot_not_pending.
