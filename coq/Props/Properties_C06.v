(* Props/Properties_C06.v -- property C06: every permitted cipher x hash suite is dispatched to exactly the
   named cipher and the named hash, each stage once, in chain order; AEAD pairings only with each other;
   equal session fields give equal suite ids; the burst API dispatches like the job API.
   Model: Mgr/Dispatch.v.  Proofs: Proofs/DispatchProofs.v.  Generated inputs (regenerated from /repo on
   every check run): Gen/GenEnums.v, Gen/GenValidate.v, Gen/GenTables.v, Gen/GenKnownC06.v. *)
From Coq Require Import NArith List Bool String.
From IMB Require Import Lib.Bytes Gen.GenEnums Mgr.JobView Gen.GenValidate Gen.GenTables Gen.GenKnownC06
                        Mgr.Dispatch Proofs.DispatchProofs.
Import ListNotations.
Local Open Scope N_scope.

(* ---- the index function: for ALL values, by arithmetic ---- *)

(* the hand-written model of calc_cipher_tab_index() is the machine translation of the C return expression *)
Theorem index_source_match : forall mode klen dir,
  mode < 2 ^ 24 ->
  gen_calc_cipher_tab_index IMB_DIR_ENCRYPT IMB_DIR_DECRYPT mode klen dir = calc_cipher_tab_index mode klen dir.
Proof. exact calc_index_matches_source. Qed.
Print Assumptions index_source_match.

(* any mode below ENCRYPT_DECRYPT_GAP, any key length, any direction value index inside the 8*GAP = 256 entries *)
Theorem index_in_bounds : forall mode klen dir,
  mode < ENCRYPT_DECRYPT_GAP -> calc_cipher_tab_index mode klen dir < 8 * ENCRYPT_DECRYPT_GAP.
Proof. exact index_in_bounds_arith. Qed.
Print Assumptions index_in_bounds.

(* distinct (mode, key-size class, direction bit) never share an index *)
Theorem index_injective : forall m1 k1 d1 m2 k2 d2,
  m1 < ENCRYPT_DECRYPT_GAP -> m2 < ENCRYPT_DECRYPT_GAP ->
  calc_cipher_tab_index m1 k1 d1 = calc_cipher_tab_index m2 k2 d2 ->
  m1 = m2 /\ key_class k1 = key_class k2 /\ enc_bit d1 = enc_bit d2.
Proof. exact index_injective_arith. Qed.
Print Assumptions index_injective.

(* encrypt entries sit exactly ENCRYPT_DECRYPT_GAP rows above the decrypt entries *)
Theorem index_encrypt_half : forall m k,
  m < ENCRYPT_DECRYPT_GAP ->
  calc_cipher_tab_index m k IMB_DIR_ENCRYPT = calc_cipher_tab_index m k IMB_DIR_DECRYPT + 4 * ENCRYPT_DECRYPT_GAP /\
  calc_cipher_tab_index m k IMB_DIR_DECRYPT < 4 * ENCRYPT_DECRYPT_GAP.
Proof. exact index_halves. Qed.
Print Assumptions index_encrypt_half.

(* key lengths 1..32 fall into class (klen-1)/8: 64-, 128-, 192-, 256-bit slots *)
Theorem key_class_of_length : forall k, 1 <= k <= 32 -> key_class k = (k - 1) / 8.
Proof. exact key_class_small. Qed.
Print Assumptions key_class_of_length.

(* ---- the finite domain is the complete product of the enum ranges ---- *)
Theorem cells_complete : forall m k d h o,
  1 <= m < IMB_CIPHER_NUM -> In k [IMB_KEY_64_BYTES; IMB_KEY_128_BYTES; IMB_KEY_192_BYTES; IMB_KEY_256_BYTES] ->
  In d [IMB_DIR_ENCRYPT; IMB_DIR_DECRYPT] -> 1 <= h < IMB_AUTH_NUM ->
  In o [IMB_ORDER_CIPHER_HASH; IMB_ORDER_HASH_CIPHER] ->
  In (mk_cell m k d h o) all_cells.
Proof. exact all_cells_complete. Qed.
Print Assumptions cells_complete.

(* ---- the tables of the eight compiled variants (finite, complete) ---- *)

(* Rows are in enumerator order: on every variant the tables have 8*GAP and IMB_AUTH_NUM entries, rows of
   non-existent enumerators are NULL, every slot of cipher mode m in half d holds the do-nothing entry or an
   entry of mode m, direction d; entry h of the hash tables is the wrapper of hash algorithm h, for all 49.
   (Row-order view: the flush entries of the CUSTOM rows may call the job's callback again; that they must
   not for accepted cells is part of accepted_cell_dispatch.) *)
Theorem enum_table_order_match :
  forallb (fun vt =>
    table_shape_ok vt &&
    forallb (fun m => forallb (fun kc => forallb (fun d => slot_belongs vt m kc d) all_dirs) [0; 1; 2; 3]) all_modes &&
    forallb (fun h => hash_side_ok_gen false vt h) all_hashes) all_variant_tables = true.
Proof. exact enum_table_order_match_all. Qed.
Print Assumptions enum_table_order_match.

(* For every variant and every one of the 21952 cells that the generated validation accepts (light check of
   imb_set_session or full check of the submit path) and that is not an acknowledged finding: the submit entry at
   the computed index calls exactly the kernels named for (mode, key size, direction), loads exactly their
   managers, the flush entry drains the same managers; likewise the hash entries at index hash_alg. *)
Theorem accepted_cell_dispatch : forall vt c,
  In vt all_variant_tables -> In c all_cells -> accepted c = true -> excepted c = false ->
  cipher_side_ok vt (c_mode c) (c_klen c) (c_dir c) = true /\ hash_side_ok vt (c_hash c) = true.
Proof. exact accepted_cell_dispatch_all. Qed.
Print Assumptions accepted_cell_dispatch.

(* the same in terms of the naming relation *)
Theorem accepted_cell_calls_named_kernels : forall vt c,
  In vt all_variant_tables -> In c all_cells -> accepted c = true -> excepted c = false ->
  exists ws n, tab_get (vt_submit_cipher vt) (calc_cipher_tab_index (c_mode c) (c_klen c) (c_dir c)) = Some ws /\
    cipher_names (c_mode c) (c_klen c) (c_dir c =? IMB_DIR_ENCRYPT) = Some n /\
    (forall g, In g (n_groups n) -> exists callee, In callee (w_calls ws) /\ names_alg callee (c_mode c, c_klen c, c_dir c) = true) /\
    (forall callee, In callee (w_calls ws) ->
       names_alg callee (c_mode c, c_klen c, c_dir c) = true \/
       exists p, In p (n_aux n ++ neutral_helpers) /\ pat_matches all_suffixes p callee = true).
Proof. exact accepted_cell_calls_named. Qed.
Print Assumptions accepted_cell_calls_named_kernels.

(* accepted cells index inside the tables and hit non-NULL entries in all four *)
Theorem accepted_cell_index_in_bounds : forall vt c,
  In vt all_variant_tables -> In c all_cells -> accepted c = true -> excepted c = false ->
  calc_cipher_tab_index (c_mode c) (c_klen c) (c_dir c) < N.of_nat (length (vt_submit_cipher vt)) /\
  c_hash c < N.of_nat (length (vt_submit_hash vt)) /\
  tab_get (vt_submit_cipher vt) (calc_cipher_tab_index (c_mode c) (c_klen c) (c_dir c)) <> None /\
  tab_get (vt_flush_cipher vt) (calc_cipher_tab_index (c_mode c) (c_klen c) (c_dir c)) <> None /\
  tab_get (vt_submit_hash vt) (c_hash c) <> None /\ tab_get (vt_flush_hash vt) (c_hash c) <> None.
Proof. exact index_in_bounds_all. Qed.
Print Assumptions accepted_cell_index_in_bounds.

(* a kernel symbol names one algorithm only (up to the documented sharing: direction-symmetric kernels,
   DOCSIS = AES-CBC, SM4-GCM = SM4-CTR + GHASH, CMAC = CMAC-BITLEN): over every symbol any entry calls *)
Theorem kernel_names_exact : forall sym,
  In sym all_called_symbols ->
  (forall a b, In a all_cipher_algs -> In b all_cipher_algs ->
     names_alg sym a = true -> names_alg sym b = true -> share_ok a b = true) /\
  (forall a b, In a all_hashes -> In b all_hashes ->
     names_hash sym a = true -> names_hash sym b = true -> hash_share_ok a b = true).
Proof.
  exact (fun sym Hs => conj (fun a b => names_alg_exact sym a b Hs) (fun a b => names_hash_exact sym a b Hs)).
Qed.
Print Assumptions kernel_names_exact.

(* ---- dedicated pairings ---- *)
Theorem aead_pairs_only_with_each_other : forall c,
  In c all_cells -> accepted c = true -> excepted c = false -> pairing_ok (c_mode c) (c_hash c) = true.
Proof. exact aead_pairs_all. Qed.
Print Assumptions aead_pairs_only_with_each_other.

(* the flush entries an accepted cell reaches never hand back a job they do not hold ... *)
Theorem accepted_cell_flush_holds_job : forall vt c,
  In vt all_variant_tables -> In c all_cells -> accepted c = true -> excepted c = false ->
  exists wfc wfh,
    tab_get (vt_flush_cipher vt) (calc_cipher_tab_index (c_mode c) (c_klen c) (c_dir c)) = Some wfc /\
    tab_get (vt_flush_hash vt) (c_hash c) = Some wfh /\
    flush_reenters wfc = false /\ flush_reenters wfh = false.
Proof. exact accepted_cell_no_flush_reentry. Qed.
Print Assumptions accepted_cell_flush_holds_job.

(* ---- stage sequencing: for all jobs, all status values the machine can reach, any deferral ----
   ... so their jobs run the stage machine without re-entry ([reenter] = false): *)
Theorem stages_once_in_order : forall combined mode order j,
  jreach combined false mode order j ->
  is_prefix (js_log j) (expected_stages combined mode order) = true /\
  NoDup (js_log j) /\
  (js_done j -> js_log j = expected_stages combined mode order /\ js_status j = IMB_STATUS_COMPLETED).
Proof. exact stages_once_in_order_all. Qed.
Print Assumptions stages_once_in_order.

Theorem stages_never_stuck : forall combined mode order j,
  jreach combined false mode order j -> js_status j < IMB_STATUS_COMPLETED -> exists j', jstep combined false mode j j'.
Proof. exact stages_progress. Qed.
Print Assumptions stages_never_stuck.

(* with a flush entry that hands back jobs it does not hold, a stage IS run twice (why such entries are excluded) *)
Theorem flush_reentry_breaks_exactly_once :
  exists j, jreach false true IMB_CIPHER_CUSTOM IMB_ORDER_CIPHER_HASH j /\ js_log j = [Cipher; Hash; Hash].
Proof. exact reentry_runs_a_stage_twice. Qed.
Print Assumptions flush_reentry_breaks_exactly_once.

(* ---- suite identifiers and the burst API ---- *)
Theorem suite_id_congruence : forall m k1 d1 k2 d2 h,
  key_class k1 = key_class k2 -> enc_bit d1 = enc_bit d2 ->
  set_cipher_suite_id m k1 d1 h = set_cipher_suite_id m k2 d2 h.
Proof. exact suite_id_congruence_arith. Qed.
Print Assumptions suite_id_congruence.

Theorem suite_id_injective : forall m1 k1 d1 h1 m2 k2 d2 h2,
  m1 < ENCRYPT_DECRYPT_GAP -> m2 < ENCRYPT_DECRYPT_GAP -> h1 < 2 ^ 32 -> h2 < 2 ^ 32 ->
  set_cipher_suite_id m1 k1 d1 h1 = set_cipher_suite_id m2 k2 d2 h2 ->
  m1 = m2 /\ key_class k1 = key_class k2 /\ enc_bit d1 = enc_bit d2 /\ h1 = h2.
Proof. exact suite_id_injective_arith. Qed.
Print Assumptions suite_id_injective.

Theorem burst_dispatch_eq_job_dispatch : forall vt m k d h,
  h < 2 ^ 32 -> burst_dispatch vt (set_cipher_suite_id m k d h) = job_dispatch vt m k d h.
Proof. exact burst_eq_job_dispatch. Qed.
Print Assumptions burst_dispatch_eq_job_dispatch.
