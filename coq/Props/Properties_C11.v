(* Props/Properties_C11.v — property C11: the key-preparation helpers produce exactly the values the
   standards define, for every key.  Theorems about the MODEL of the helpers (Spec/KeyPrep.v, which
   transcribes the library-side formulations) against the specification-level definitions of the
   Spec files; proofs in Proofs/KeyPrepProofs.v, Proofs/KeyPrepBits.v, Proofs/KeyPrepDES.v.  That
   the library's helpers compute what Spec/KeyPrep.v says is established byte for byte by the
   differential harness k11_keyprep on every variant (checks/c11.py), not by a theorem.
   Not proved here (partial): that the AES decrypt schedule used with the equivalent inverse cipher
   inverts the cipher (DESIGN: aes_dec_schedule_inverts) and the algebraic meaning of the GHASH
   key-power tables; both are covered by known-answer vectors and the differential only. *)
From Coq Require Import List NArith Bool Lia Arith.
From IMB Require Import Lib.Bytes Spec.AES Spec.CMAC Spec.SHA Spec.MD5 Spec.SM3 Spec.HMAC
                        Spec.SM4 Spec.DES Spec.ZUC Spec.SNOW3G Spec.KASUMI Spec.KeyPrep
                        Proofs.KeyPrepProofs Proofs.KeyPrepBits Proofs.KeyPrepDES.
Import ListNotations.

(* imb_hmac_ipad_opad, for each of the seven hashes and EVERY key (any length, any bytes) and either
   pad byte: the buffer handed to the one-block hash has exactly one block of B bytes; it equals
   RFC 2104's K0 xor pad^B; a key of at most B bytes (in particular exactly B) is used unhashed
   and zero-padded; a longer key (in particular B+1) is first replaced by its digest, which has
   exactly the digest length of that hash (28 for SHA-224, 48 for SHA-384 ...). *)
Theorem hmac_pad_lengths :
  forall (X : md_hash) (pad : N) (key : bytes), In X hmac_hashes ->
  let B := md_block X in
  length (kp_hmac_block X pad key) = B /\
  kp_hmac_block X pad key = xor_bytes (hmac_key0 B (md_full X) key) (repeat pad B) /\
  ((length key <= B)%nat ->
     kp_hmac_keybuf X key = key /\ hmac_key0 B (md_full X) key = key ++ zeros (B - length key)) /\
  ((B < length key)%nat ->
     kp_hmac_keybuf X key = md_full X key /\ length (md_full X key) = md_dlen X /\
     hmac_key0 B (md_full X) key = md_full X key ++ zeros (B - md_dlen X)).
Proof. exact hmac_pad_lengths_thm. Qed.
Print Assumptions hmac_pad_lengths.

(* the statement-by-statement model of hmac_ipad_opad.c equals the specification-level
   ipad/opad states of Spec/HMAC.v for every hash and key *)
Theorem hmac_ipad_opad_eq_spec :
  forall (X : md_hash) (key : bytes), In X hmac_hashes ->
  kp_hmac_ipad_opad X key =
  match hmac_ipad_state X key, hmac_opad_state X key with
  | Some i, Some o => Some (i, o)
  | _, _ => None
  end.
Proof. exact kp_hmac_ipad_opad_eq_spec. Qed.
Print Assumptions hmac_ipad_opad_eq_spec.

(* the helper refuses (IMB_ERR_KEY_LEN, outputs untouched) exactly the HMAC-MD5 keys longer than
   one block; every other (hash, key) is accepted *)
Theorem md5_long_key_refused :
  forall (X : md_hash) (key : bytes), In X hmac_hashes ->
  (kp_hmac_ipad_opad X key = None <-> (X = H_MD5 /\ (64 < length key)%nat)).
Proof. exact md5_long_key_refused_thm. Qed.
Print Assumptions md5_long_key_refused.

(* CMAC sub-keys for EVERY key: K1 = dbl(L), K2 = dbl(K1), L = AES_K(0^128), where the library's
   doubling (two 64-bit halves shifted separately, bit 63 carried into bit 64, Rb = 0x87 xored in
   when bit 127 was set) is SP 800-38B doubling; plus the bit-level characterisation of that
   doubling for ALL 128-bit values. *)
Theorem cmac_subkey_doubling :
  (forall key : bytes,
     let L := aes_enc_rk (aes_key_expand key) (zeros 16) in
     kp_cmac_subkeys key = (cmac_dbl L, cmac_dbl (cmac_dbl L)) /\
     kp_cmac_subkeys key = cmac_subkeys key) /\
  (forall b : bytes, cmac_dbl_lib b = cmac_dbl b) /\
  (forall x i : N, (x < 2^128)%N -> (i < 128)%N ->
     N.testbit (cmac_dbl_lib_N x) i =
     xorb (if (i =? 0)%N then false else N.testbit x (i - 1)) (N.testbit x 127 && N.testbit 135 i)).
Proof. exact cmac_subkey_doubling_all. Qed.
Print Assumptions cmac_subkey_doubling.

(* IMB_SM4_KEYEXP for EVERY key: both buffers have 128 bytes, word i of the encryption buffer is
   rk_i (little-endian), word i of the decryption buffer is word 31-i of the encryption buffer *)
Theorem sm4_dec_keys_are_reversed_enc_keys :
  forall key : bytes,
  let '(enc, dec) := kp_sm4_keyexp key in
  length enc = 128%nat /\ length dec = 128%nat /\
  (forall i, (i < 32)%nat ->
     firstn 4 (skipn (4 * i) enc) = le32 (nth i (sm4_key_expand key) 0%N) /\
     firstn 4 (skipn (4 * i) dec) = firstn 4 (skipn (4 * (31 - i)) enc)).
Proof. exact sm4_dec_keys_are_reversed_enc_keys_thm. Qed.
Print Assumptions sm4_dec_keys_are_reversed_enc_keys.

(* DES key schedule for EVERY key: bit j of round key n is the key bit des_key_sel[n][j]
   (first conjunct: the FIPS 46-3 schedule on words equals the symbolic selection; second: so does
   the library's 128-byte image), and — complete finite check over the 16 x 48 selection table —
   each round key selects 48 DISTINCT key bits, none of them a parity bit (8, 16, ..., 64). *)
Theorem des_pc1_pc2_are_selections :
  (forall key : bytes,
     des_key_schedule_std key = des_key_schedule_sel (be_to_N key) /\
     kp_des_keysched key = flat_map des_subkey_lib_bytes (des_key_schedule_sel (be_to_N key))) /\
  length des_key_sel = 16%nat /\
  Forall (fun sel => length sel = 48%nat /\ NoDup sel /\
                     Forall (fun t => (1 <= t <= 64)%nat /\ Nat.modulo t 8 <> 0%nat) sel) des_key_sel.
Proof. exact des_pc1_pc2_thm. Qed.
Print Assumptions des_pc1_pc2_are_selections.

(* AES key expansion for EVERY 16/24/32-byte key: Nr+1 round keys in both schedules,
   dec[0] = enc[Nr], dec[Nr] = enc[0], dec[i] = InvMixColumns(enc[Nr-i]) for 0 < i < Nr *)
Theorem aes_dec_schedule_layout :
  forall key : bytes, In (length key) [16; 24; 32]%nat ->
  let enc := aes_key_expand key in
  let dec := aes_dec_schedule key in
  let nr := aes_rounds (length key) in
  length enc = S nr /\ length dec = S nr /\
  nth 0 dec [] = nth nr enc [] /\
  nth nr dec [] = nth 0 enc [] /\
  (forall i, (0 < i < nr)%nat -> nth i dec [] = inv_mix_columns (nth (nr - i) enc [])).
Proof. exact aes_dec_schedule_layout_thm. Qed.
Print Assumptions aes_dec_schedule_layout.

(* 3GPP IV generators.  (a) For ALL argument values, in and out of range, the C-level formulation
   (32-bit little-endian stores of bswap4(..), byte stores, memcpy, byte xor) equals the
   standard-level byte layout of the Spec files, including the refusals (bearer >= 32, dir > 1). *)
Theorem iv_gen_layouts :
  (forall count bearer dir, kp_zuc_eea3_iv_gen count bearer dir = zuc_eea3_iv_gen count bearer dir) /\
  (forall count bearer dir, kp_zuc_eia3_iv_gen count bearer dir = zuc_eia3_iv_gen count bearer dir) /\
  (forall count bearer dir, kp_snow3g_f8_iv_gen count bearer dir = snow3g_f8_iv_gen count bearer dir) /\
  (forall count fresh dir, kp_snow3g_f9_iv_gen count fresh dir = snow3g_f9_iv_gen count fresh dir) /\
  (forall count bearer dir, kp_kasumi_f8_iv_gen count bearer dir = kasumi_f8_iv_gen count bearer dir) /\
  (forall count fresh, kp_kasumi_f9_iv_gen count fresh = kasumi_f9_iv_gen count fresh).
Proof. exact iv_gen_layouts_thm. Qed.
Print Assumptions iv_gen_layouts.

(* (b) Byte-exact field placement for ALL COUNT, FRESH < 2^32, BEARER < 32, DIRECTION < 2
   (reasoning on bytes; no enumeration of argument values): COUNT big-endian in bytes 0..3,
   BEARER in the top 5 bits of byte 4, DIRECTION in bit 2 of byte 4 (EEA3, KASUMI f8) or xored
   into bit 7 of bytes 8 and 14 (EIA3) / bits 31 and 15 of words 2 and 3 (SNOW3G f9), the
   remaining bits zero, second half = first half where the standard says so. *)
Theorem iv_gen_field_placement :
  forall count bearer dir fresh,
  (count < 2^32)%N -> (bearer < 32)%N -> (dir < 2)%N -> (fresh < 2^32)%N ->
  (exists iv, zuc_eea3_iv_gen count bearer dir = Some iv /\ length iv = 16%nat /\
     be_to_N (firstn 4 iv) = count /\ N.shiftr (nth 4 iv 0%N) 3 = bearer /\
     N.land (N.shiftr (nth 4 iv 0%N) 2) 1 = dir /\ N.land (nth 4 iv 0%N) 3 = 0%N /\
     firstn 3 (skipn 5 iv) = [0;0;0]%N /\ skipn 8 iv = firstn 8 iv) /\
  (exists iv, zuc_eia3_iv_gen count bearer dir = Some iv /\ length iv = 16%nat /\
     be_to_N (firstn 4 iv) = count /\ nth 4 iv 0%N = N.shiftl bearer 3 /\
     firstn 3 (skipn 5 iv) = [0;0;0]%N /\
     nth 8 iv 0%N = N.lxor (nth 0 iv 0%N) (N.shiftl dir 7) /\
     nth 14 iv 0%N = N.lxor (nth 6 iv 0%N) (N.shiftl dir 7) /\
     (forall i, (8 <= i < 16)%nat -> i <> 8%nat -> i <> 14%nat -> nth i iv 0%N = nth (i - 8) iv 0%N)) /\
  (exists iv, snow3g_f8_iv_gen count bearer dir = Some iv /\ length iv = 16%nat /\
     be_to_N (firstn 4 iv) = count /\
     be_to_N (firstn 4 (skipn 4 iv)) = N.lor (N.shiftl bearer 27) (N.shiftl dir 26) /\
     skipn 8 iv = firstn 8 iv) /\
  (exists iv, snow3g_f9_iv_gen count fresh dir = Some iv /\ length iv = 16%nat /\
     be_to_N (firstn 4 iv) = count /\ be_to_N (firstn 4 (skipn 4 iv)) = fresh /\
     be_to_N (firstn 4 (skipn 8 iv)) = N.lxor count (N.shiftl dir 31) /\
     be_to_N (firstn 4 (skipn 12 iv)) = N.lxor fresh (N.shiftl dir 15)) /\
  (exists iv, kasumi_f8_iv_gen count bearer dir = Some iv /\ length iv = 8%nat /\
     be_to_N (firstn 4 iv) = count /\ N.shiftr (nth 4 iv 0%N) 3 = bearer /\
     N.land (N.shiftr (nth 4 iv 0%N) 2) 1 = dir /\ N.land (nth 4 iv 0%N) 3 = 0%N /\
     skipn 5 iv = [0;0;0]%N) /\
  (length (kasumi_f9_iv_gen count fresh) = 8%nat /\
     be_to_N (firstn 4 (kasumi_f9_iv_gen count fresh)) = count /\
     be_to_N (skipn 4 (kasumi_f9_iv_gen count fresh)) = fresh).
Proof. exact KeyPrepBits.iv_gen_field_placement. Qed.
Print Assumptions iv_gen_field_placement.

(* sizes of the raw hash states written by IMB_SHAxxx_ONE_BLOCK / IMB_MD5_ONE_BLOCK / the ipad and
   opad buffers, and of every digest, for every input *)
Theorem hash_output_sizes :
  forall (X : md_hash) (blk msg : bytes), In X hmac_hashes ->
  length (kp_one_block X blk) = md_state_bytes X /\ length (md_full X msg) = md_dlen X.
Proof. exact hash_output_sizes_thm. Qed.
Print Assumptions hash_output_sizes.
