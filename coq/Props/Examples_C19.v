(* Props/Examples_C19.v — the hypotheses of the C19 theorems are satisfiable and the
   instrumented models do something non-trivial: concrete evaluations (TESTS, vm_compute). *)
From Coq Require Import List NArith Bool Arith String.
From IMB Require Import Lib.Bytes Spec.Hex Spec.DES Spec.KASUMI Spec.SNOW3G Struct.Leak Proofs.LeakProofs.
Import ListNotations.
Local Open Scope N_scope.
Local Open Scope string_scope.

(* DES: FIPS 81 style vector through the instrumented model = the Spec; two different keys give
   different ciphertexts but the same 2-block trace of 2*16*8 scans of 64 rows + bookkeeping *)
Example ex_des_value :
  fst (des_cbc_enc_leak (des_key_schedule_std (hex "0123456789abcdef")) (hex "1234567890abcdef")
                        (hex "4e6f772069732074686520")) =
  des_cbc_enc (hex "0123456789abcdef") (hex "1234567890abcdef") (hex "4e6f772069732074686520").
Proof. vm_compute. reflexivity. Qed.
Example ex_des_trace_len :
  N.of_nat (length (snd (des_cbc_enc_leak (des_key_schedule_std (hex "0123456789abcdef")) (hex "0000000000000000")
                                (hex "00112233445566778899aabbccddeeff")))) = 26 + 512 * N.of_nat des_scan_rows.
Proof. vm_compute. reflexivity. Qed.
Example ex_des_traces_equal :
  snd (des_cbc_enc_leak (des_key_schedule_std (hex "0123456789abcdef")) (hex "0000000000000000") (hex "0011223344556677")) =
  snd (des_cbc_enc_leak (des_key_schedule_std (hex "fedcba9876543210")) (hex "1111111111111111") (hex "8899aabbccddeeff")).
Proof. refine (proj1 (des_trace_key_independent _ _ _ _ _ _ _)). vm_compute. reflexivity. Qed.
(* ... while the outputs for the two keys differ: the theorem is not about equal runs *)
Example ex_des_outputs_differ :
  N.eqb (be_to_N (fst (des_cbc_enc_leak (des_key_schedule_std (hex "0123456789abcdef")) (hex "0000000000000000") (hex "0011223344556677"))))
        (be_to_N (fst (des_cbc_enc_leak (des_key_schedule_std (hex "fedcba9876543210")) (hex "0000000000000000") (hex "0011223344556677")))) = false.
Proof. vm_compute. reflexivity. Qed.
(* the table projection of one DES block: 16 rounds x 8 S-boxes, des_scan_rows rows each
   (64 in the pinned source, see Gen/GenC19.v) *)
Example ex_des_block_rle :
  firstn 2 (tab_rle (des_block_trace 0 true 16)) = [(0, 0, 16, des_scan_rows, 16); (1, 0, 16, des_scan_rows, 16)]%nat
  /\ length (tab_rle (des_block_trace 0 true 16)) = 128%nat.
Proof. vm_compute. split; reflexivity. Qed.

(* DOCSIS with a trailing partial block *)
Example ex_docsis_value :
  fst (docsis_des_enc_leak (des_key_schedule_std (hex "e6600fd8852ef5ab")) (hex "810e528e1c5fda1a")
                           (hex "000102030405060708090a0b0c")) =
  docsis_des_enc (hex "e6600fd8852ef5ab") (hex "810e528e1c5fda1a") (hex "000102030405060708090a0b0c").
Proof. vm_compute. reflexivity. Qed.

(* KASUMI f8 / f9 on TS 35.203-like inputs: model = Spec; schedules have 64 words *)
Example ex_kasumi_f8_value :
  fst (kasumi_f8_leak true (kasumi_key_schedule (hex "2bd6459f82c5b300952c49104881ff48"))
                      (kasumi_key_schedule (kasumi_mod_key 0x55 (hex "2bd6459f82c5b300952c49104881ff48")))
                      (hex "72a4f20f64000000") (hex "7ec61272743bf1614726446a6c38ced1") (hex "7ec61272743bf1614726446a6c38ced1") 125 0) =
  kasumi_f8_job (hex "2bd6459f82c5b300952c49104881ff48") (hex "72a4f20f64000000")
                (hex "7ec61272743bf1614726446a6c38ced1") (hex "7ec61272743bf1614726446a6c38ced1") 125 0.
Proof. vm_compute. reflexivity. Qed.
Example ex_kasumi_f9_trace_scans :
  length (filter (fun r => match r with (8%nat, _, _, _, _) => true | _ => false end)
                 (tab_rle (kasumi_f9_trace 16))) = 144%nat.
Proof. vm_compute. reflexivity. Qed.

(* SNOW3G: UEA2 test set 1 key/IV, 32 bytes: model = Spec; UIA2 trace has 38 clocks *)
Example ex_snow3g_uea2_value :
  fst (snow3g_uea2_leak (hex "d3c5d592327fb11c4035c6680af8c6d1") (hex "398a59b4ac000000398a59b4ac000000")
                        (hex "981ba6824c1bfb1ab485472029b71d808ce33e2cc3c0b5fc1f3de8a6dc66b1f0")
                        (zeros 32) 256 0) =
  snow3g_uea2_job (hex "d3c5d592327fb11c4035c6680af8c6d1") (hex "398a59b4ac000000398a59b4ac000000")
                  (hex "981ba6824c1bfb1ab485472029b71d808ce33e2cc3c0b5fc1f3de8a6dc66b1f0") (zeros 32) 256 0.
Proof. vm_compute. reflexivity. Qed.
Example ex_snow3g_uia2_rle :
  length (filter (fun r => match r with (10%nat, _, _, _, _) => true | _ => false end)
                 (tab_rle (snow3g_uia2_trace 77))) = 38%nat.
Proof. vm_compute. reflexivity. Qed.
