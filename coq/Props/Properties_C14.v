(* Props/Properties_C14.v — property C14: descriptors come back unaltered; status and error code
   exact.  Statements over the ring model (Mgr/Ring.v) carrying descriptors (Mgr/Job.v) and the
   error-code model (Mgr/Errno.v), instantiated with the constants of the CURRENT header
   (Gen/GenConsts.v), the current IMB_JOB layout (Gen/GenJobLayout.v), the census of library
   writes into descriptors (Gen/GenJobWrites.v) and the translated imb_get_strerror
   (Gen/GenStrerror.v) — all regenerated on every run.  Proofs: Proofs/JobProofs.v,
   Proofs/ErrnoProofs.v.  Nothing here but the theorems, each closed by [exact]. *)
From Coq Require Import String.
From Coq Require Import ZArith List Bool Lia.
From IMB Require Import Gen.GenConsts Gen.GenJobLayout Gen.GenJobWrites Gen.GenStrerror
                        Mgr.Ring Mgr.Job Mgr.Errno
                        Proofs.RingArith Proofs.RingProofs Proofs.JobProofs Proofs.ErrnoProofs.
Import ListNotations.
Local Open Scope Z_scope.

Notation SZ := SIZEOF_IMB_JOB.
Notation NJ := IMB_MAX_JOBS.
Notation MAXB := IMB_MAX_BURST_SIZE.

Lemma sz_pos : 0 < SZ. Proof. reflexivity. Qed.
Lemma k_ge1 : 1 <= 8. Proof. lia. Qed.
Lemma nj_pow2 : NJ = 2 ^ 8. Proof. reflexivity. Qed.

(* ---- descriptors ---- *)

(* For every history of job-API and burst-API calls from an empty manager (any mix of immediate,
   parked, rejected jobs; any library writes of the modelled kinds on any slots during any call),
   under the C05 oracle/caller contract: the descriptors handed back, as they sit in memory at
   the moment of the hand-back and in hand-back order, agree with the descriptors the caller
   submitted, in submission order, on EVERY cell outside the mask {status; the CMAC bytes->bits
   length for AES-CMAC / AES-CMAC-256; u.SNOW_V_AEAD.reserved for SNOW-V-AEAD}. *)
Theorem job_fields_preserved : forall s0 m ds0 jcs,
  empty_at SZ NJ s0 m -> (forall z, cont s0 z < 0) -> forallb jc_wf jcs = true ->
  ops_ok SZ NJ MAXB s0 (ops_of 0 jcs) = true ->
  forall jf tr rets, jrun SZ NJ MAXB (mkjs s0 ds0 0 []) jcs = (jf, tr, rets) ->
  Forall2 same_unmasked (map snd rets) (firstn (length rets) (accepted_descs tr (jlog jf))).
Proof. exact (job_fields_preserved_thm SZ NJ 8 MAXB sz_pos k_ge1 nj_pow2). Qed.
Print Assumptions job_fields_preserved.

(* ... where "the descriptors the caller submitted" are literally the descriptors given to the
   accepted submit calls, concatenated in call order *)
Theorem accepted_are_the_callers_descriptors : forall s0 ds0 jcs,
  (forall z, cont s0 z < 0) -> forallb jc_wf jcs = true ->
  forall jf tr rets, jrun SZ NJ MAXB (mkjs s0 ds0 0 []) jcs = (jf, tr, rets) ->
  accepted_descs tr (jlog jf) = submitted jcs tr.
Proof. exact (accepted_descs_are_submitted SZ NJ 8 MAXB k_ge1 nj_pow2). Qed.
Print Assumptions accepted_are_the_callers_descriptors.

(* the property's own partition: every caller-owned cell (session fields, buffer pointers,
   offsets, chain order, user data) lies outside the mask, hence is preserved *)
Theorem caller_owned_cells_outside_mask : forall d c, caller_owned d c = true -> masked d c = false.
Proof. exact caller_owned_not_masked. Qed.
Print Assumptions caller_owned_cells_outside_mask.

(* the mask is not wider than what the code writes *)
Theorem mask_minimal : forall c, (exists d, masked d c = true) ->
  exists d w, masked d c = true /\ apply_jwrite w d c <> d c.
Proof. exact mask_is_minimal. Qed.
Print Assumptions mask_minimal.

(* the model's cells are the storage cells of struct IMB_JOB in the current header (finite,
   complete: offsets and sizes of ALL cells, cells + padding = sizeof) *)
Theorem descriptor_layout_is_current :
  map (fun c => (cell_off c, cell_size c)) all_cells
  = map (fun x : string * Z * Z * list string => (snd (fst (fst x)), snd (fst x))) job_cells
  /\ sizeof_IMB_JOB = SIZEOF_IMB_JOB.
Proof. exact cells_match_layout. Qed.
Print Assumptions descriptor_layout_is_current.

(* every write into a descriptor found in the current C and assembly sources is one of the
   modelled kinds (finite, complete over the census) *)
Theorem lib_writes_are_modelled :
  forallb c_write_modelled c_job_writes = true /\ forallb asm_write_modelled asm_job_writes = true
  /\ c_job_writes <> [] /\ asm_job_writes <> [].
Proof. exact lib_writes_are_modelled_thm. Qed.
Print Assumptions lib_writes_are_modelled.

(* ---- status ---- *)

(* statuses are built only by OR-ing a completion bit below COMPLETED or by assigning: the set of
   IMB_STATUS enumerators is closed under the protocol, and a value at or above COMPLETED is
   `completed` or an error value; in the ring model a handed-back job has exactly COMPLETED or
   INVALID_ARGS — never a partial status *)
Theorem status_composition :
  (forall ws cur r, In cur all_statuses -> status_run cur ws = Some r ->
     In r all_statuses /\ (IMB_STATUS_COMPLETED <= r -> In r final_statuses))
  /\ (forall s0 m ops, empty_at SZ NJ s0 m -> ops_ok SZ NJ MAXB s0 ops = true -> status_sane s0 ->
        Forall (fun j => jstat j = IMB_STATUS_COMPLETED \/ jstat j = IMB_STATUS_INVALID_ARGS)
               (all_jobs (trace SZ NJ MAXB s0 ops))).
Proof. exact (conj status_protocol_closed (returned_status_exact SZ NJ 8 MAXB sz_pos k_ge1 nj_pow2)). Qed.
Print Assumptions status_composition.

(* ---- error code ---- *)

Theorem errno_zero_on_success : forall s o,
  call_failure SZ NJ MAXB s o = None -> errno (fst (step SZ NJ MAXB s o)) = 0.
Proof. exact (errno_zero_on_success_thm SZ NJ MAXB). Qed.
Print Assumptions errno_zero_on_success.

Theorem errno_is_this_calls_failure : forall s o e,
  call_failure SZ NJ MAXB s o = Some e -> errno (fst (step SZ NJ MAXB s o)) = e.
Proof. exact (errno_is_this_calls_failure_thm SZ NJ MAXB). Qed.
Print Assumptions errno_is_this_calls_failure.

(* the error code before a call influences nothing *)
Theorem errno_reset_at_top : forall x s o,
  step3 SZ NJ MAXB (set_errno x s) o = step3 SZ NJ MAXB s o.
Proof. exact (ErrnoProofs.errno_reset_at_top SZ NJ MAXB). Qed.
Print Assumptions errno_reset_at_top.

(* all call histories: the code is that of the last call *)
Theorem errno_after_any_history : forall s0 ops o,
  errno (final SZ NJ MAXB s0 (ops ++ [o])) = expected_errno SZ NJ MAXB (final SZ NJ MAXB s0 ops) o.
Proof. exact (errno_after_history SZ NJ MAXB). Qed.
Print Assumptions errno_after_any_history.

(* a refused burst is exactly a burst with a failure code *)
Theorem burst_refused_iff_code : forall s c n js D D2,
  (exists mk, snd (step SZ NJ MAXB s (SubmitBurst c n js D D2)) = OReject mk)
  <-> call_failure SZ NJ MAXB s (SubmitBurst c n js D D2) <> None.
Proof. exact (burst_reject_iff_failure SZ NJ MAXB). Qed.
Print Assumptions burst_refused_iff_code.

(* imb_get_errno(mgr) read right after a job/burst API call returns that call's code *)
Theorem get_errno_reads_own_call : forall x o,
  let '(x', _) := ering_step SZ NJ MAXB x o in
  imb_get_errno true (mkem (errno (fst x')) (snd x')) = expected_errno SZ NJ MAXB (fst x) o.
Proof. exact (get_errno_after_ring_call SZ NJ MAXB). Qed.
Print Assumptions get_errno_reads_own_call.

(* direct-API functions write only the mirror: through a manager whose field is non-zero the
   accessor returns the stale field, for a succeeding and for a failing direct call alike
   (this is how the model exhibits triage item C14-1) *)
Theorem get_errno_after_direct_call : forall r m,
  imb_get_errno true (run_ecalls (direct_api r) m) = if e_field m =? 0 then r else e_field m.
Proof. exact get_after_direct_api. Qed.
Print Assumptions get_errno_after_direct_call.

(* the two accessor functions as they are written in lib/include/error.h and lib/x86_64/error.c today (translated on
   every run, Gen/GenStrerror.v) are the functions the theorems above are about *)
Theorem errno_accessors_match_source : forall b e m,
  src_get_errno b (e_field m) (e_glob m) = imb_get_errno b m /\
  src_set_errno b e (e_field m) (e_glob m) = (e_field (imb_set_errno b e m), e_glob (imb_set_errno b e m)).
Proof. intros b e m; split; [exact (src_get_errno_is_model b m) | exact (src_set_errno_is_model b e m)]. Qed.
Print Assumptions errno_accessors_match_source.

(* ---- imb_get_strerror ---- *)

(* for ALL z : Z a string is returned; the `default: return strerror(errnum)` branch is libc, an
   oracle assumed non-NULL (hypothesis libc_total) *)
Theorem strerror_total : forall libc, libc_total libc -> forall z : Z, exists s, imb_get_strerror libc z = Some s.
Proof. exact strerror_total_thm. Qed.
Print Assumptions strerror_total.

(* every IMB_ERR code of the current header (and 0) has its own non-empty message, distinct
   codes have distinct messages (finite, complete over the enum) *)
Theorem strerror_covers_all_codes :
  forallb (fun v => match own_string v with Some s => negb (String.eqb s "") | None => false end) (0 :: err_codes) = true
  /\ all_distinct (map (fun v => match own_string v with Some s => s | None => ""%string end) (0 :: err_codes)) = true
  /\ Z.of_nat (length err_codes) = IMB_ERR_MAX - IMB_ERR_MIN - 1.
Proof. exact strerror_own_codes. Qed.
Print Assumptions strerror_covers_all_codes.
