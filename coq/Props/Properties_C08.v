(* Props/Properties_C08.v — property C08 (selection part): every selected implementation variant is
   supported by the CPU after the SHANI/GFNI-off adjustment; the flags never select a variant that
   needs the disabled feature; missing CPU flags fail cleanly.  Model: Mgr/Select.v with the masks
   of the current header; proofs: Proofs/SelectProofs.v.  (Bit-identical outputs across variants
   are established by the all-variants correspondence of checks C01-C03/C08, not by a theorem.) *)
From Coq Require Import ZArith Bool.
From IMB Require Import Gen.GenConsts Mgr.Select Proofs.SelectProofs Gen.GenIsa Proofs.IsaProofs.
Local Open Scope Z_scope.

Theorem select_total_and_supported :
  forall (t3 t4 : bool) (detect : Z) (init : mgr -> mgr) (base : Z),
  (init = init_sse_internal detect /\ base = IMB_CPUFLAGS_SSE) \/
  (init = init_avx2_internal t3 t4 detect /\ base = IMB_CPUFLAGS_AVX2) \/
  (init = init_avx512_internal detect /\ base = IMB_CPUFLAGS_AVX512) ->
  forall s, consistent detect s ->
  (has (m_features s) base = false /\ init s = fail_missing s) \/
  (exists v, m_variant (init s) = Some v /\ m_errno (init s) = 0 /\
             m_features (init s) = adjust (m_flags s) detect /\
             has (adjust (m_flags s) detect) (required v) = true).
Proof. exact init_internal_supported. Qed.
Print Assumptions select_total_and_supported.

Theorem missing_flags_fails_cleanly :
  forall (t3 t4 : bool) (detect : Z) (st_ok : bool) (s : mgr),
  (has (m_features s) IMB_CPUFLAGS_SSE = false -> init_sse detect st_ok s = fail_missing s) /\
  (has (m_features s) IMB_CPUFLAGS_AVX2 = false -> init_avx2 t3 t4 detect st_ok s = fail_missing s) /\
  (has (m_features s) IMB_CPUFLAGS_AVX512 = false -> init_avx512 detect st_ok s = fail_missing s).
Proof. exact missing_flags_fail_cleanly. Qed.
Print Assumptions missing_flags_fails_cleanly.

Theorem flags_only_lower :
  forall (t3 t4 : bool) (detect : Z) (init : mgr -> mgr),
  init = init_sse_internal detect \/ init = init_avx2_internal t3 t4 detect \/ init = init_avx512_internal detect ->
  forall s v, m_variant (init s) = Some v -> m_variant (init s) <> m_variant s \/ m_errno (init s) = 0 ->
  m_errno (init s) = 0 ->
  (Z.land (m_flags s) IMB_FLAG_SHANI_OFF <> 0 -> has (required v) IMB_FEATURE_SHANI = false) /\
  (Z.land (m_flags s) IMB_FLAG_GFNI_OFF <> 0 -> has (required v) IMB_FEATURE_GFNI = false).
Proof. exact SelectProofs.flags_only_lower. Qed.
Print Assumptions flags_only_lower.

Theorem alloc_is_consistent : forall detect flags, consistent detect (alloc detect flags).
Proof. exact alloc_consistent. Qed.
Print Assumptions alloc_is_consistent.

(* "... instead of executing unsupported instructions": Gen/GenIsa.v is regenerated on every run from the rebuilt shared
   object (translators/t3_isa.py): isa_uses v = the IMB_FEATURE_* bits of every instruction-set extension used by code
   reachable from init_mb_mgr_<v>_internal (handlers, callees, dispatch tables; guarded dispatchers as documented in the
   translator).  Complete finite domain (nine variants). *)
Theorem installed_code_within_required_features : forall v, has (required v) (isa_uses v) = true.
Proof. exact isa_within_required. Qed.
Print Assumptions installed_code_within_required_features.

(* whenever a selector installs a variant, every extension its code can execute is present in the manager's feature word
   AND in the CPUID oracle [detect] (the SHANI/GFNI-off flags only remove bits) *)
Theorem selected_variant_executes_only_supported_extensions :
  forall (t3 t4 : bool) (detect : Z) (init : mgr -> mgr) (base : Z),
  (init = init_sse_internal detect /\ base = IMB_CPUFLAGS_SSE) \/
  (init = init_avx2_internal t3 t4 detect /\ base = IMB_CPUFLAGS_AVX2) \/
  (init = init_avx512_internal detect /\ base = IMB_CPUFLAGS_AVX512) ->
  forall s, consistent detect s ->
  (has (m_features s) base = false /\ init s = fail_missing s) \/
  (exists v, m_variant (init s) = Some v /\ m_errno (init s) = 0 /\
             has (m_features (init s)) (isa_uses v) = true /\ has detect (isa_uses v) = true).
Proof. exact isa_supported_when_selected. Qed.
Print Assumptions selected_variant_executes_only_supported_extensions.
