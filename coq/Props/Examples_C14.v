(* Non-vacuity for the C14 theorems: concrete histories satisfy the hypotheses and exercise the
   mask.  These are tests (vm_compute on one case each), not theorems. *)
From Coq Require Import String.
From Coq Require Import ZArith List Bool.
From IMB Require Import Gen.GenConsts Gen.GenStrerror Mgr.Ring Mgr.Job Mgr.Errno
                        Proofs.RingProofs Proofs.JobProofs Proofs.ErrnoProofs.
Import ListNotations.
Local Open Scope Z_scope.

Definition SZ := SIZEOF_IMB_JOB.
Definition NJ := IMB_MAX_JOBS.
Definition MAXB := IMB_MAX_BURST_SIZE.

(* an empty manager three slots before the ring end; ghost payloads initialised to -1 *)
Definition s_at (m : Z) : st := mkst (-1) (SZ * m) (fun _ => 0) (fun _ => -1) 0.

(* a byte-length AES-CMAC job (its length cell is rewritten), a SNOW-V-AEAD job (reserved word is
   written) and a plain CBC job *)
Definition d_cmac : desc :=
  dupd C_hash_alg IMB_AUTH_AES_CMAC (dupd C_hlen 5 (dupd C_user_data 77 (dupd C_src 4096 (dupd C_iv_len 16 desc0)))).
Definition d_snowv : desc :=
  dupd C_cipher_mode IMB_CIPHER_SNOW_V_AEAD (dupd C_hash_alg IMB_AUTH_SNOW_V_AEAD (dupd C_user_data 78 (dupd C_u2 5 desc0))).
Definition d_cbc : desc := dupd C_cipher_mode IMB_CIPHER_CBC (dupd C_user_data2 79 (dupd C_clen 64 desc0)).

Definition h1 : list jcall :=
  [ mkjc (Submit true None 0 []) [d_cmac]
         [(253 * SZ, JStatusSet IMB_STATUS_BEING_PROCESSED); (253 * SZ, JCmacBits)];          (* parked *)
    mkjc (Submit true None 0 [254 * SZ]) [d_snowv]
         [(254 * SZ, JStatusSet IMB_STATUS_BEING_PROCESSED); (254 * SZ, JSnowvReserved 140737488350000);
          (254 * SZ, JStatusOr IMB_STATUS_COMPLETED)];                                         (* immediate *)
    mkjc (SubmitBurst true 1 (Some [mkbjob (Some (255 * SZ)) None true 0]) [255 * SZ] []) [d_cbc]
         [(255 * SZ, JStatusSet IMB_STATUS_BEING_PROCESSED); (255 * SZ, JStatusOr IMB_STATUS_COMPLETED_CIPHER);
          (255 * SZ, JStatusOr IMB_STATUS_COMPLETED_AUTH)];
    mkjc (Flush [253 * SZ]) [] [(253 * SZ, JStatusOr IMB_STATUS_COMPLETED_AUTH); (253 * SZ, JStatusOr IMB_STATUS_COMPLETED_CIPHER)];
    mkjc (Flush []) [] [];
    mkjc (Flush []) [] [];
    mkjc (Flush []) [] [] ].

Example h1_wf : forallb jc_wf h1 = true. Proof. reflexivity. Qed.
Example h1_ok : ops_ok SZ NJ MAXB (s_at 253) (ops_of 0 h1) = true. Proof. vm_compute. reflexivity. Qed.
Example h1_empty_at : empty_at SZ NJ (s_at 253) 253.
Proof. unfold empty_at, s_at; cbn. repeat split; discriminate || reflexivity. Qed.
Example h1_ghost : forall z, cont (s_at 253) z < 0. Proof. intros z. reflexivity. Qed.

Definition r1 := jrun SZ NJ MAXB (mkjs (s_at 253) (fun _ => desc0) 0 []) h1.
(* three jobs come back, in submission order *)
Example h1_returns : map (fun x : jret => snd (fst (fst x))) (snd r1) = [0; 1; 2]. Proof. vm_compute. reflexivity. Qed.
(* the masked cells really changed ... *)
Example h1_cmac_len_rewritten : map (fun x : jret => snd x C_hlen) (snd r1) = [40; 0; 0]. Proof. vm_compute. reflexivity. Qed.
Example h1_snowv_reserved_written : map (fun x : jret => snd x C_u2) (snd r1) = [0; 140737488350000; 0]. Proof. vm_compute. reflexivity. Qed.
Example h1_statuses : map (fun x : jret => snd x C_status) (snd r1) = [3; 3; 3]. Proof. vm_compute. reflexivity. Qed.
(* ... and every other cell is as submitted (what job_fields_preserved states in general) *)
Example h1_all_other_cells :
  forallb (fun p : jret * desc =>
             forallb (fun c => masked (snd p) c || (snd (fst p) c =? snd p c)) all_cells)
          (combine (snd r1) [d_cmac; d_snowv; d_cbc]) = true.
Proof. vm_compute. reflexivity. Qed.

(* status protocol: a chained job; an error assignment; an OR on a finished job is refused *)
Example st_chain : status_run 0 [JStatusOr IMB_STATUS_COMPLETED_CIPHER; JStatusOr IMB_STATUS_COMPLETED_AUTH] = Some 3.
Proof. reflexivity. Qed.
Example st_error : status_run 0 [JStatusOr 1; JStatusSet IMB_STATUS_INTERNAL_ERROR] = Some 5. Proof. reflexivity. Qed.
Example st_no_or_after_done : status_run 3 [JStatusOr 1] = None. Proof. reflexivity. Qed.
Example sane_init : status_sane (s_at 253). Proof. intros z. left. reflexivity. Qed.

(* error codes: a refused burst, then a succeeding call *)
Definition e1 : list op := [ GetNextBurst false 129; QueueSize; SubmitBurst true 1 None [] []; Flush [] ].
Example e1_codes :
  map (fun k => errno (final SZ NJ MAXB (s_at 0) (firstn k e1))) [1; 2; 3; 4]%nat
  = [IMB_ERR_BURST_SIZE; 0; IMB_ERR_NULL_BURST; 0].
Proof. vm_compute. reflexivity. Qed.
Example e1_failure : call_failure SZ NJ MAXB (s_at 0) (GetNextBurst false 129) = Some IMB_ERR_BURST_SIZE. Proof. reflexivity. Qed.
Example e1_success : call_failure SZ NJ MAXB (s_at 0) QueueSize = None. Proof. reflexivity. Qed.

(* the accessor: own call, and the stale-field effect of a direct call after an invalid job *)
Example get_own : imb_get_errno true (imb_set_errno true IMB_ERR_JOB_NULL_SRC (mkem 0 0)) = IMB_ERR_JOB_NULL_SRC. Proof. reflexivity. Qed.
Example stale_field_hides_direct_success :
  imb_get_errno true (run_ecalls (direct_api 0) (imb_set_errno true IMB_ERR_JOB_NULL_SRC (mkem 0 0))) = IMB_ERR_JOB_NULL_SRC.
Proof. reflexivity. Qed.

(* strerror: a libc oracle that satisfies the hypothesis, and sample values *)
Definition libc_demo (z : Z) : option string := Some "Unknown error N"%string.
Example libc_demo_total : libc_total libc_demo. Proof. intros z. discriminate. Qed.
Example se_zero : imb_get_strerror libc_demo 0 = Some "No error"%string. Proof. reflexivity. Qed.
Example se_code : imb_get_strerror libc_demo IMB_ERR_BURST_OOO = Some "Burst jobs out of order"%string. Proof. reflexivity. Qed.
Example se_libc : imb_get_strerror libc_demo (-5) = Some "Unknown error N"%string. Proof. reflexivity. Qed.
Example se_min : imb_get_strerror libc_demo IMB_ERR_MIN = Some "Unknown error N"%string. Proof. reflexivity. Qed.
Example se_big : imb_get_strerror libc_demo 70000 = Some "Unknown error"%string. Proof. reflexivity. Qed.
