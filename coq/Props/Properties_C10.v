(* Props/Properties_C10.v — property C10: for the scatter-gather and streaming interfaces the
   concatenated output and the final tag do not depend on how the message is split into segments
   (any number of segments, any split position, empty segments, splits inside a cipher or hash
   block) and equal the one-shot result.

   Statements are about the models Struct/ChachaStream.v (statement-by-statement model of
   lib/x86_64/chacha20_poly1305.c) and Struct/GcmStream.v (the GCM / GMAC streaming state machine);
   "one-shot result" is the value of Spec/ChaChaPoly.v (chachapoly_enc / chachapoly_dec) resp.
   Spec/GCM.v (gcm_enc / gcm_dec / gmac).  Proofs are in Proofs/StreamProofs.v and the files it
   imports.  This file holds nothing but the theorems, each closed by [exact]. *)
From Coq Require Import List NArith Bool.
From IMB Require Import Lib.Bytes Spec.ChaCha20 Spec.Poly1305 Spec.ChaChaPoly Spec.GF128 Spec.AES Spec.GCM
     Struct.ChachaStream Struct.GcmStream
     Proofs.ChachaSpecInst Proofs.GcmStreamProofs Proofs.GcmSpecInst Proofs.StreamProofs.
Import ListNotations.
Local Open Scope N_scope.

(* ChaCha20-Poly1305.  For EVERY key, iv, aad, direction, EVERY initial content of the caller's
   context (ctx0; only the size of the 16-byte scratch array is fixed) and EVERY list of segments
   [segs] (empty segments allowed; total length below 2^64 bytes):
   - direct API (IMB_CHACHA20_POLY1305_INIT, _ENC/_DEC_UPDATE per segment, _FINALIZE with any tag
     length): the concatenated outputs, the per-segment output lengths and the tag are those of
     the one-shot Spec value; the context ends wiped (last_ks, poly_key);
   - job API with one IMB_SGL_ALL job: likewise;
   - job API with IMB_SGL_INIT (carrying [first]), IMB_SGL_UPDATE for each of [mids],
     IMB_SGL_COMPLETE (carrying [last]): likewise for the message first ++ concat mids ++ last. *)
Theorem chachapoly_sgl_partition_invariant :
  forall (ctx0 : cctx) (key iv aad : bytes) (dir : cdir),
  length (c_scratch ctx0) = 16%nat ->
  (forall segs taglen, N.of_nat (length (concat segs)) < 2 ^ 64 ->
     let '(ctx', outs, tag) := run_direct_spec ctx0 key iv aad dir segs taglen in
     concat outs = fst (chachapoly_oneshot dir key iv aad (concat segs)) /\
     map (@length _) outs = map (@length _) segs /\
     tag = firstn taglen (snd (chachapoly_oneshot dir key iv aad (concat segs))) /\
     sgl_ctx_clean ctx') /\
  (forall segs, N.of_nat (length (concat segs)) < 2 ^ 64 ->
     let '(ctx', outs, tag) := run_job_all_spec ctx0 key iv aad dir segs in
     concat outs = fst (chachapoly_oneshot dir key iv aad (concat segs)) /\
     map (@length _) outs = map (@length _) segs /\
     tag = Some (snd (chachapoly_oneshot dir key iv aad (concat segs))) /\
     sgl_ctx_clean ctx') /\
  (forall first mids last, N.of_nat (length (first ++ concat mids ++ last)) < 2 ^ 64 ->
     let msg := first ++ concat mids ++ last in
     let '(ctx', outs, tag) := run_job_iuc_spec ctx0 key iv aad dir first mids last in
     concat outs = fst (chachapoly_oneshot dir key iv aad msg) /\
     tag = Some (snd (chachapoly_oneshot dir key iv aad msg)) /\
     sgl_ctx_clean ctx').
Proof. exact chachapoly_sgl_partition_invariant_proof. Qed.
Print Assumptions chachapoly_sgl_partition_invariant.

(* The context invariant after init and ANY sequence of updates (Struct/ChachaStream.v
   [chacha_stream_inv]): hash = Poly1305 accumulator over pad16(aad) and the whole 16-byte blocks
   of the ciphertext so far, poly_scratch = the remaining p mod 16 ciphertext bytes, hash_len = p,
   key-stream position p (last_block_count = ceil(p/64), remain_ks_bytes = 64*ceil(p/64) - p,
   last_ks = that block). *)
Theorem chacha_stream_inv_holds :
  forall (ctx0 : cctx) (key iv aad : bytes) (dir : cdir) (segs : list bytes),
  length (c_scratch ctx0) = 16%nat -> N.of_nat (length (concat segs)) < 2 ^ 64 ->
  chacha_stream_inv ksblock_spec pblock_spec pkey_gen_spec key iv aad
    (match dir with Enc => chacha20 key iv 1 (concat segs) | Dec => concat segs end)
    (fst (update_all ksblock_spec pblock_spec key (init_direct_spec key ctx0 iv aad) segs dir)).
Proof. exact chacha_stream_inv_proof. Qed.
Print Assumptions chacha_stream_inv_holds.

(* AES-GCM (key of 16, 24 or 32 bytes; any IV length through the var-IV entry point, 12 bytes
   through the fixed one; any tag length).  For EVERY deferral policy [lazy] of the implementation
   (Struct/GcmStream.v), EVERY list of segments:
   - direct API (either init entry point, ENC/DEC_UPDATE per segment, FINALIZE),
   - job API IMB_SGL_INIT / IMB_SGL_UPDATE per segment / IMB_SGL_COMPLETE,
   - job API IMB_SGL_ALL:
   concatenated outputs, per-segment lengths and tag equal gcm_enc / gcm_dec of the whole message;
   aad_hash and partial_block_enc_key end wiped. *)
Theorem gcm_sgl_partition_invariant :
  forall (lazy : gctx -> bytes -> bool) (key iv aad : bytes) (dir : gdir) (segs : list bytes) (taglen : nat),
  (forall twelve, (twelve = true -> length iv = 12%nat) ->
     let '(ctx', outs, tag) := gcm_run_direct (aesE key) lazy twelve iv aad dir segs taglen in
     concat outs = fst (gcm_oneshot dir key iv aad (concat segs) taglen) /\
     map (@length _) outs = map (@length _) segs /\
     tag = snd (gcm_oneshot dir key iv aad (concat segs) taglen) /\
     ctx_cleared ctx') /\
  (forall ctx0,
     let '(ctx', outs, tag) := gcm_run_job_iuc (aesE key) lazy ctx0 iv aad dir segs taglen in
     concat outs = fst (gcm_oneshot dir key iv aad (concat segs) taglen) /\
     map (@length _) outs = map (@length _) segs /\
     tag = Some (snd (gcm_oneshot dir key iv aad (concat segs) taglen)) /\
     ctx_cleared ctx') /\
  (forall ctx0,
     let '(ctx', outs, tag) := gcm_run_job_all (aesE key) lazy ctx0 iv aad dir segs taglen in
     concat outs = fst (gcm_oneshot dir key iv aad (concat segs) taglen) /\
     map (@length _) outs = map (@length _) segs /\
     tag = Some (snd (gcm_oneshot dir key iv aad (concat segs) taglen)) /\
     ctx_cleared ctx').
Proof. exact gcm_sgl_partition_invariant_proof. Qed.
Print Assumptions gcm_sgl_partition_invariant.

(* The GCM context invariant after init and ANY sequence of updates ([gcm_stream_inv]). *)
Theorem gcm_stream_inv_holds :
  forall (lazy : gctx -> bytes -> bool) (key : bytes) (twelve : bool) (iv aad : bytes) (dir : gdir)
         (segs : list bytes),
  (twelve = true -> length iv = 12%nat) ->
  let E := aesE key in
  let j0 := gcm_j0 (gcm_hash_subkey E) iv in
  gcm_stream_inv E j0 aad
    (match dir with GEnc => gcm_ctr E j0 (concat segs) | GDec => concat segs end)
    (fst (gcm_update_all E lazy (gcm_init E twelve iv aad) dir segs)).
Proof. exact gcm_stream_inv_proof. Qed.
Print Assumptions gcm_stream_inv_holds.

(* GMAC direct API (IMB_AESxxx_GMAC_INIT / _UPDATE per segment / _FINALIZE): the tag is the
   one-shot gmac of the whole message, and the context invariant [gmac_stream_inv] holds after any
   sequence of updates. *)
Theorem gmac_partition_invariant :
  forall (key iv : bytes) (segs : list bytes) (taglen : nat),
  snd (gmac_run (aesE key) iv segs taglen) = gmac key iv (concat segs) taglen /\
  gmac_stream_inv (aesE key) (gcm_j0 (gcm_hash_subkey (aesE key)) iv) (concat segs)
    (gmac_update_all (aesE key) (gmac_init (aesE key) iv) segs).
Proof. exact gmac_partition_invariant_proof. Qed.
Print Assumptions gmac_partition_invariant.

(* Spec level: the incremental tag formula used by every streaming model equals RFC 8439 2.8. *)
Theorem chachapoly_tag_incremental :
  forall key nonce aad ct, chachapoly_tag_inc key nonce aad ct = chachapoly_tag key nonce aad ct.
Proof. exact chachapoly_tag_inc_eq. Qed.
Print Assumptions chachapoly_tag_incremental.
