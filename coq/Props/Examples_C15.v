(* Props/Examples_C15.v — the hypotheses of the C15 theorems are satisfiable on concrete, non-trivial
   cases (these are TESTS by computation, not the theorems). *)
From Coq Require Import NArith ZArith List String Bool.
From IMB Require Import Gen.GenConsts Gen.GenLayout Gen.GenReset Mgr.Ring Mgr.Reset Proofs.ResetProofs
                        Props.Properties_C15.
Import ListNotations.
Local Open Scope N_scope.

(* features of the reference host: AVX512 + VAES/GFNI/SHANI (K1_FORMAT.md) *)
Definition host_cpu : N := 0xc1fffff.
Definition a_sse : arch_init := nth 0 arch_inits (mkarch "" 0 [] [] "" false).
Definition a_avx512 : arch_init := nth 2 arch_inits (mkarch "" 0 [] [] "" false).

Example ex_names : ai_name a_sse = "sse"%string /\ ai_name a_avx512 = "avx512"%string.
Proof. vm_compute. auto. Qed.

(* which variant each (arch, flags) pair gets on the reference host *)
Example ex_variants :
  map (fun fl => variant_for host_cpu fl a_sse) [0; 1; 2; 3] = ["sse_t3"; "sse_t1"; "sse_t2"; "sse_t1"]%string /\
  map (fun fl => variant_for host_cpu fl a_avx512) [0; 1; 2; 3] = ["avx512_t2"; "avx512_t1"; "avx512_t1"; "avx512_t1"]%string.
Proof. vm_compute. auto. Qed.

(* a manager in the middle of an AVX512 history: ring at slots 10..20, error code set, garbage in
   every OOO manager (jobs in flight), AVX512-T2 handlers bound *)
Definition dirty : mgr :=
  mkmgr (mkst 2160 4320 (fun _ => 0%Z) (fun o => o) 2008)
        0 (feature_adjust 0 host_cpu) IMB_ARCH_AVX512 2 (Some "avx512_t2"%string)
        (fun _ => 0) (fun _ a => a mod 251).

Example ex_hyps :
  In a_sse arch_inits /\ m_flags dirty = m_flags (fresh_alloc host_cpu 0) /\
  has_flags (m_features dirty) (ai_req a_sse) = true /\
  has_flags (m_features (fresh_alloc host_cpu 0)) (ai_req a_sse) = true /\
  has_flags (feature_adjust (m_flags dirty) host_cpu) (ai_req a_sse) = true.
Proof. vm_compute. intuition. Qed.

(* the theorem applied: AVX512 manager with jobs in flight re-initialised as SSE = fresh SSE manager *)
Example ex_reinit_other_variant :
  exists v, find_variant "sse_t3" = Some v /\
            sched_eq v (arch_init_run host_cpu a_sse true dirty) (arch_init_run host_cpu a_sse true (fresh_alloc host_cpu 0)) /\
            m_bound (arch_init_run host_cpu a_sse true dirty) = Some (v_name v).
Proof.
  destruct ex_hyps as (H1 & H2 & H3 & H4 & H5).
  destruct (reinit_is_constant host_cpu a_sse dirty (fresh_alloc host_cpu 0) H1 H2 H3 H4 H5) as (v & Hv & Hs & Hb & _).
  exists v. split; [exact Hv|]. auto.
Qed.

(* computed directly: ring empty at slot 0, error code cleared, SSE-T3 lane stacks in place of the garbage *)
Example ex_reinit_computed :
  let s := arch_init_run host_cpu a_sse true dirty in
  (earliest (m_ring s), next (m_ring s), errno (m_ring s), m_arch s, m_arch_type s, m_bound s) =
  ((-1)%Z, 0%Z, 0%Z, IMB_ARCH_SSE, 3, Some "sse_t3"%string) /\
  read_le (m_ooo s "aes128_ooo"%string) 4512 8 = 0xF76543210 /\       (* unused_lanes, 8 lanes *)
  read_le (m_ooo s "hmac_sha_1_ooo"%string) 480 8 = 0xFF0100 /\       (* 2 SHA-NI lanes *)
  m_ooo s "hmac_sha_1_ooo"%string (512 + 64) = 0x80 /\                (* ldata[0].extra_block[64] *)
  m_ooo s "aes128_ooo"%string 4480 = 255.                             (* lens[0] low byte *)
Proof. vm_compute. repeat split; reflexivity. Qed.

Example ex_stack_constants :
  unused_lanes_after "ooo_mgr_aes_reset" 8 = Some 0xF76543210 /\ valid_stack 4 8 0xF76543210 = true /\
  unused_lanes_after "ooo_mgr_aes_reset" 12 = Some 0xBA9876543210 /\ valid_stack 4 12 0xBA9876543210 = true /\
  unused_lanes_after "ooo_mgr_zuc_reset" 4 = Some 0xFF03020100 /\ valid_stack 8 4 0xFF03020100 = true /\
  unused_lanes_after "ooo_mgr_snow3g_reset" 4 = Some 0x3210 /\ valid_stack 4 4 0x3210 = true /\
  valid_stack 4 8 0xF76543201 = false /\ valid_stack 4 8 0xF7654321 = false /\ valid_stack 4 16 0xF76543210 = false.
Proof. vm_compute. repeat split; reflexivity. Qed.

(* DOCUMENTED DISCREPANCY (see Mgr/C15_C16_NOTES.md): managers of ooo_mgr_table that a variant's
   reset_ooo_mgrs() never resets.  They are exactly managers the variant's code never refers to,
   which is why [reset_covers_every_manager] holds; a stale image stays in the block. *)
Definition never_reset (v : variant) : list string :=
  filter (fun f => negb (mem f (reset_fields v))) table_fields.

Example ex_never_reset :
  map (fun v => (v_name v, never_reset v)) variants =
  let des := ["des_enc_ooo"; "des_dec_ooo"; "des3_enc_ooo"; "des3_dec_ooo"; "docsis_des_enc_ooo"; "docsis_des_dec_ooo"]%string in
  [("sse_t1", des); ("sse_t2", des); ("sse_t3", des); ("avx2_t1", des); ("avx2_t2", des); ("avx2_t3", des);
   ("avx512_t1", []); ("avx512_t2", [])]%string.
Proof. vm_compute. reflexivity. Qed.

(* managers reset with a lane count of 1 and no lane stack: never scheduled on by that variant *)
Example ex_single_lane :
  forallb (fun v => forallb (fun c => negb (snd c =? 1) || negb (mem (fst (fst c)) (v_used v))) (v_resets v)) variants = true.
Proof. vm_compute. reflexivity. Qed.

(* no_residue instantiated: a machine that reports ring indices and a scheduling byte *)
Example ex_no_residue :
  forall ops : list unit,
  let step := fun (s : mgr) (_ : unit) => (s, (earliest (m_ring s), next (m_ring s), m_bound s)) in
  runm unit _ step (init_public (fun s => s) host_cpu a_sse dirty) ops =
  runm unit _ step (init_public (fun s => s) host_cpu a_sse (fresh_alloc host_cpu 0)) ops.
Proof.
  intros ops step. destruct ex_hyps as (H1 & H2 & H3 & H4 & H5).
  destruct (reinit_is_constant host_cpu a_sse dirty (fresh_alloc host_cpu 0) H1 H2 H3 H4 H5) as (v & Hv & _).
  apply (no_residue unit _ (fun s => s) host_cpu a_sse dirty (fresh_alloc host_cpu 0) v H1 H2 H3 H4 H5 Hv step).
  - auto.
  - intros s1 s2 o Hs. split; [|exact Hs]. destruct Hs as (E1 & E2 & _ & _ & _ & _ & _ & E8 & _). unfold step. cbn. congruence.
Qed.
