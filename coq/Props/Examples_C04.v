(* Non-vacuity for C04 (tests, not theorems): a 4-lane CBC manager with real AES-128, a refill
   mid-flight, a tie on lengths and a 3-of-4 occupancy flushed. *)
From Coq Require Import ZArith List Bool String.
From IMB Require Import Lib.Bytes Mgr.Ooo Mgr.OooInst Proofs.OooProofs Proofs.OooInstProofs
                        Spec.AES Spec.AESModes Spec.Hex.
Import ListNotations.
Local Open Scope Z_scope.

Definition E1 := aes_enc_rk (aes_key_expand (hex "000102030405060708090a0b0c0d0e0f"%string)).
Definition E2 := aes_enc_rk (aes_key_expand (hex "ffeeddccbbaa99887766554433221100"%string)).
Definition blk (n : N) : bytes := repeat n 16.
Definition jA := cbc_enc_job E1 (blk 1) [blk 10; blk 11; blk 12].
Definition jB := cbc_enc_job E2 (blk 2) [blk 20].
Definition jC := cbc_enc_job E1 (blk 3) [blk 30; blk 31; blk 32].   (* same length as jA: a tie *)
Definition jD := cbc_enc_job E2 (blk 4) [blk 40; blk 41].
Definition jE := cbc_enc_job E1 (blk 5) [blk 50; blk 51; blk 52; blk 53].
Definition hist : list (oop _) :=
  [OSubmit jA; OSubmit jB; OSubmit jC; OSubmit jD (* lanes full: jB completes *);
   OSubmit jE (* refill of the freed lane: jD completes *); OFlush; OFlush; OFlush; OFlush].
Definition res := snd (frun bytes bytes bytes 4 (reset _ _ 4 (fdummy _ _ _ (cbc_enc_f E1) [])) hist).

Example results_are_alone_results :
  map (option_map (fun js => fl_out (snd js))) res =
  [None; None; None; Some (cbc_enc_blocks E2 (blk 2) [blk 20]);
   Some (cbc_enc_blocks E2 (blk 4) [blk 40; blk 41]);
   Some (cbc_enc_blocks E1 (blk 1) [blk 10; blk 11; blk 12]);
   Some (cbc_enc_blocks E1 (blk 3) [blk 30; blk 31; blk 32]);
   Some (cbc_enc_blocks E1 (blk 5) [blk 50; blk 51; blk 52; blk 53]); None].
Proof. vm_compute. reflexivity. Qed.
