(* Props/Examples_C09.v — non-vacuity for C09 (tests, not theorems): the hypotheses of the C09
   theorems are satisfiable on concrete non-trivial cases, and the models compute what the
   theorems say: a 4-lane AES-128-CBC manager with synchronous bursts of 2 (< lanes), 4 (= lanes)
   and 6 (> lanes) jobs of unequal lengths, and the n-buffer skeletons on 3, 4 and 9 buffers. *)
From Coq Require Import ZArith List Bool String Lia Permutation.
From IMB Require Import Lib.Bytes Mgr.Ooo Mgr.OooInst Proofs.OooProofs Proofs.OooInstProofs
                        Mgr.SyncBurst Proofs.SyncBurstProofs Spec.AES Spec.AESModes Spec.Hex.
Import ListNotations.
Local Open Scope Z_scope.

Definition E1 := aes_enc_rk (aes_key_expand (hex "000102030405060708090a0b0c0d0e0f"%string)).
Definition E2 := aes_enc_rk (aes_key_expand (hex "ffeeddccbbaa99887766554433221100"%string)).
Definition blk (n : N) : bytes := repeat n 16.
Definition jA := cbc_enc_job E1 (blk 1) [blk 10; blk 11; blk 12].
Definition jB := cbc_enc_job E2 (blk 2) [blk 20].
Definition jC := cbc_enc_job E1 (blk 3) [blk 30; blk 31; blk 32].
Definition jD := cbc_enc_job E2 (blk 4) [blk 40; blk 41].
Definition jE := cbc_enc_job E1 (blk 5) [blk 50; blk 51; blk 52; blk 53].
Definition jF := cbc_enc_job E2 (blk 6) [].                             (* zero-length job *)

Notation FJ := (fjob bytes bytes bytes).
Notation FL := (flane bytes bytes bytes).
Definition o0 : ooo FJ FL := reset _ _ 4 (fdummy _ _ _ (cbc_enc_f E1) []).
Definition burst (js : list FJ) := sync_burst FJ FL (finit _ _ _) (funits _ _ _) (fstep _ _ _) 4 o0 js.
Definition outs (js : list FJ) := map (fun r => fl_out (snd r)) (snd (burst js)).
Definition spec_out (j : FJ) := snd (falone _ _ _ j).

(* hypotheses of sync_burst_all_completed hold for the reset manager and these jobs *)
Example hyp_inv : Inv1 FJ FL (finit _ _ _) (funits _ _ _) (fstep _ _ _) 4 o0.
Proof. apply reset_inv. lia. Qed.
Example hyp_empty : forall l, (l < 4)%nat -> job o0 l = None.
Proof. intros; reflexivity. Qed.
Example hyp_jobs_ok : Forall (job_ok FJ (funits _ _ _)) [jA; jB; jC; jD; jE; jF].
Proof. repeat constructor; unfold job_ok, SENT; cbn; lia. Qed.
Example hyp_kernel :
  (forall s : FL, fstep _ _ _ s 0 = s) /\
  (forall (s : FL) a b, 0 <= a -> 0 <= b -> fstep _ _ _ (fstep _ _ _ s a) b = fstep _ _ _ s (a + b)).
Proof. split; [apply fstep_0|apply fstep_add]. Qed.

(* n < lanes: nothing comes back during the submits, everything during the flush loop *)
Example burst_2_of_4 :
  outs [jA; jB] = [spec_out jB; spec_out jA] /\
  length (snd (burst [jA; jB])) = 2%nat /\
  map (job (fst (burst [jA; jB]))) [0; 1; 2; 3]%nat = [None; None; None; None].
Proof. vm_compute. repeat split. Qed.

(* n = lanes: the 4th submit completes the shortest job, three more come from the flushes *)
Example burst_4_of_4 :
  Permutation (outs [jA; jB; jC; jD]) (map spec_out [jA; jB; jC; jD]) /\
  outs [jA; jB; jC; jD] = [spec_out jB; spec_out jD; spec_out jA; spec_out jC] /\
  map (job (fst (burst [jA; jB; jC; jD]))) [0; 1; 2; 3]%nat = [None; None; None; None].
Proof.
  assert (E : outs [jA; jB; jC; jD] = [spec_out jB; spec_out jD; spec_out jA; spec_out jC])
    by (vm_compute; reflexivity).
  split; [|split; [exact E|vm_compute; reflexivity]].
  rewrite E. cbn [map].
  apply perm_trans with [spec_out jB; spec_out jA; spec_out jD; spec_out jC].
  - constructor. apply perm_swap.
  - apply perm_trans with [spec_out jB; spec_out jA; spec_out jC; spec_out jD].
    + do 2 constructor. apply perm_swap.
    + apply perm_swap.
Qed.

(* n > lanes, unequal lengths including an empty job: 6 jobs, all returned, manager empty *)
Example burst_6_of_4 :
  length (snd (burst [jA; jB; jC; jD; jE; jF])) = 6%nat /\
  outs [jA; jB; jC; jD; jE; jF] =
    [spec_out jB; spec_out jD; spec_out jF; spec_out jA; spec_out jC; spec_out jE] /\
  map (job (fst (burst [jA; jB; jC; jD; jE; jF]))) [0; 1; 2; 3]%nat = [None; None; None; None].
Proof. vm_compute. repeat split. Qed.

(* the outputs are the specification's CBC ciphertexts *)
Example burst_out_is_cbc :
  outs [jA; jB] = [cbc_enc_blocks E2 (blk 2) [blk 20]; cbc_enc_blocks E1 (blk 1) [blk 10; blk 11; blk 12]].
Proof. vm_compute. reflexivity. Qed.

(* mutation (regression example of DESIGN.md): a burst that forgets the flush loop returns
   fewer jobs than submitted when n < lanes — the model distinguishes it *)
Definition burst_no_flush (js : list FJ) :=
  submit_all FJ FL (finit _ _ _) (funits _ _ _) (fstep _ _ _) 4 o0 js.
Example no_flush_loses_jobs : length (snd (burst_no_flush [jA; jB])) = 0%nat.
Proof. vm_compute. reflexivity. Qed.

(* ---- n-buffer skeletons with the same CBC lane kernel, 4 lanes ---- *)
Definition one (j : FJ) := fl_out (one_buffer FJ FL (finit _ _ _) (funits _ _ _) (fstep _ _ _) j).
Definition nb_padded (js : list FJ) :=
  map (@fl_out _ _ _) (nbuffer_padded FJ FL (finit _ _ _) (funits _ _ _) (fstep _ _ _) 4 js).
Definition nb_greedy (js : list FJ) :=
  map (@fl_out _ _ _) (nbuffer_greedy FJ FL (finit _ _ _) (funits _ _ _) (fstep _ _ _) [4; 2]%nat js).

Example nbuffer_3_lt_lanes : nb_padded [jA; jB; jE] = map one [jA; jB; jE].
Proof. vm_compute. reflexivity. Qed.
Example nbuffer_4_eq_lanes : nb_padded [jA; jB; jC; jD] = map one [jA; jB; jC; jD].
Proof. vm_compute. reflexivity. Qed.
Example nbuffer_9_gt_lanes :
  nb_padded [jA; jB; jC; jD; jE; jF; jA; jD; jB] = map one [jA; jB; jC; jD; jE; jF; jA; jD; jB] /\
  nb_greedy [jA; jB; jC; jD; jE; jF; jA; jD; jB] = map one [jA; jB; jC; jD; jE; jF; jA; jD; jB] /\
  map (@length _) (greedy_groups FJ [4; 2]%nat [jA; jB; jC; jD; jE; jF; jA; jD; jB]) = [4; 4; 1]%nat /\
  map (@length _) (chunks FJ 4 [jA; jB; jC; jD; jE; jF; jA; jD; jB]) = [4; 4; 1]%nat.
Proof. vm_compute. repeat split. Qed.
Example nbuffer_7_greedy_groups :
  map (@length _) (greedy_groups FJ [4; 2]%nat [jA; jB; jC; jD; jE; jF; jA]) = [4; 2; 1]%nat.
Proof. vm_compute. reflexivity. Qed.

(* mutation: an N_BUFFER that drops the remainder group produces fewer results *)
Definition nb_drop_remainder (js : list FJ) :=
  flat_map (lanes_kernel FJ FL (finit _ _ _) (funits _ _ _) (fstep _ _ _))
           (fst (take_groups FJ (length js) 4 js)).
Example drop_remainder_differs :
  length (nb_drop_remainder [jA; jB; jC; jD; jE; jF]) = 4%nat /\ length (nb_padded [jA; jB; jC; jD; jE; jF]) = 6%nat.
Proof. vm_compute. split; reflexivity. Qed.
