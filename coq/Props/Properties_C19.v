(* Props/Properties_C19.v — property C19 (SAFE_LOOKUP: no key-dependent branches or addresses
   for DES / 3DES / DOCSIS-DES / KASUMI / SNOW3G), stated on the instrumented source-shaped
   models of Struct/Leak.v.  PARTIAL claim: what leaks is the compiled binary, not this
   model; the binary is checked on sampled keys by correspondence K7 (checks/c19.py:
   memcheck with the secrets undefined + lackey address-trace comparison).
   Each theorem is proved in Proofs/LeakProofs.v. *)
From Coq Require Import List NArith Bool Arith.
From IMB Require Import Lib.Bytes Spec.DES Spec.KASUMI Spec.SNOW3G Struct.Leak Proofs.LeakProofs.
Import ListNotations.
Local Open Scope N_scope.

Theorem C19_lookup_scan_correct :
  (forall r site rows idx, fst (scan r site rows idx) = nth idx (concat rows) 0) /\
  (forall j Sb b, fst (scan (R_des_sbox j) SITE_LOOKUP32 (des_sbox_rows Sb) (N.to_nat (N.land b 63))) =
                  des_sbox_lookup Sb (N.land b 63)) /\
  (forall x, fst (S7_leak x) = S7 x) /\ (forall x, fst (S9_leak x) = S9 x) /\
  (forall w, fst (snow3g_S2_leak w) = snow3g_S2 w).
Proof. exact lookup_scan_correct. Qed.
Print Assumptions C19_lookup_scan_correct.

Theorem C19_des_trace_key_independent : forall key1 key2 iv1 iv2 msg1 msg2,
  length msg1 = length msg2 ->
  snd (des_cbc_enc_leak (des_key_schedule_std key1) iv1 msg1) =
  snd (des_cbc_enc_leak (des_key_schedule_std key2) iv2 msg2) /\
  snd (des_cbc_dec_leak (des_key_schedule_std key1) iv1 msg1) =
  snd (des_cbc_dec_leak (des_key_schedule_std key2) iv2 msg2).
Proof. exact des_trace_key_independent. Qed.
Print Assumptions C19_des_trace_key_independent.

Theorem C19_des_trace_key_independent_ks : forall ks1 ks2 iv1 iv2 msg1 msg2,
  length ks1 = length ks2 -> length msg1 = length msg2 ->
  snd (des_cbc_enc_leak ks1 iv1 msg1) = snd (des_cbc_enc_leak ks2 iv2 msg2) /\
  snd (des_cbc_dec_leak ks1 iv1 msg1) = snd (des_cbc_dec_leak ks2 iv2 msg2).
Proof. exact des_trace_key_independent_ks. Qed.
Print Assumptions C19_des_trace_key_independent_ks.

Theorem C19_des3_trace_key_independent : forall k1 k2 k3 k1' k2' k3' iv1 iv2 msg1 msg2,
  length msg1 = length msg2 ->
  snd (des3_cbc_enc_leak (des_key_schedule_std k1) (des_key_schedule_std k2) (des_key_schedule_std k3) iv1 msg1) =
  snd (des3_cbc_enc_leak (des_key_schedule_std k1') (des_key_schedule_std k2') (des_key_schedule_std k3') iv2 msg2) /\
  snd (des3_cbc_dec_leak (des_key_schedule_std k1) (des_key_schedule_std k2) (des_key_schedule_std k3) iv1 msg1) =
  snd (des3_cbc_dec_leak (des_key_schedule_std k1') (des_key_schedule_std k2') (des_key_schedule_std k3') iv2 msg2).
Proof. exact des3_trace_key_independent. Qed.
Print Assumptions C19_des3_trace_key_independent.

Theorem C19_des3_trace_key_independent_ks : forall a1 a2 a3 b1 b2 b3 iv1 iv2 msg1 msg2,
  length a1 = length b1 -> length a2 = length b2 -> length a3 = length b3 ->
  length msg1 = length msg2 ->
  snd (des3_cbc_enc_leak a1 a2 a3 iv1 msg1) = snd (des3_cbc_enc_leak b1 b2 b3 iv2 msg2) /\
  snd (des3_cbc_dec_leak a1 a2 a3 iv1 msg1) = snd (des3_cbc_dec_leak b1 b2 b3 iv2 msg2).
Proof. exact des3_trace_key_independent_ks. Qed.
Print Assumptions C19_des3_trace_key_independent_ks.

Theorem C19_docsis_des_trace_key_independent : forall key1 key2 iv1 iv2 msg1 msg2,
  length msg1 = length msg2 ->
  snd (docsis_des_enc_leak (des_key_schedule_std key1) iv1 msg1) =
  snd (docsis_des_enc_leak (des_key_schedule_std key2) iv2 msg2) /\
  snd (docsis_des_dec_leak (des_key_schedule_std key1) iv1 msg1) =
  snd (docsis_des_dec_leak (des_key_schedule_std key2) iv2 msg2).
Proof. exact docsis_des_trace_key_independent. Qed.
Print Assumptions C19_docsis_des_trace_key_independent.

Theorem C19_docsis_des_trace_key_independent_ks : forall ks1 ks2 iv1 iv2 msg1 msg2,
  length ks1 = length ks2 -> length msg1 = length msg2 ->
  snd (docsis_des_enc_leak ks1 iv1 msg1) = snd (docsis_des_enc_leak ks2 iv2 msg2) /\
  snd (docsis_des_dec_leak ks1 iv1 msg1) = snd (docsis_des_dec_leak ks2 iv2 msg2).
Proof. exact docsis_des_trace_key_independent_ks. Qed.
Print Assumptions C19_docsis_des_trace_key_independent_ks.

Theorem C19_kasumi_f8_trace_key_independent : forall inplace sk1 msk1 sk2 msk2 iv1 iv2 src1 src2 dst1 dst2 bitlen bitoff,
  snd (kasumi_f8_leak inplace sk1 msk1 iv1 src1 dst1 bitlen bitoff) =
  snd (kasumi_f8_leak inplace sk2 msk2 iv2 src2 dst2 bitlen bitoff).
Proof. exact kasumi_f8_trace_key_independent. Qed.
Print Assumptions C19_kasumi_f8_trace_key_independent.

Theorem C19_kasumi_f9_trace_key_independent : forall sk1 msk1 sk2 msk2 msg1 msg2,
  length msg1 = length msg2 ->
  snd (kasumi_f9_leak sk1 msk1 msg1) = snd (kasumi_f9_leak sk2 msk2 msg2).
Proof. exact kasumi_f9_trace_key_independent. Qed.
Print Assumptions C19_kasumi_f9_trace_key_independent.

Theorem C19_snow3g_uea2_trace_key_independent : forall key1 key2 iv1 iv2 src1 src2 dst1 dst2 bitlen bitoff,
  snd (snow3g_uea2_leak key1 iv1 src1 dst1 bitlen bitoff) =
  snd (snow3g_uea2_leak key2 iv2 src2 dst2 bitlen bitoff).
Proof. exact snow3g_uea2_trace_key_independent. Qed.
Print Assumptions C19_snow3g_uea2_trace_key_independent.

Theorem C19_snow3g_uia2_trace_key_independent : forall key1 key2 iv1 iv2 msg1 msg2 bitlen,
  snd (snow3g_uia2_leak key1 iv1 msg1 bitlen) = snd (snow3g_uia2_leak key2 iv2 msg2 bitlen).
Proof. exact snow3g_uia2_trace_key_independent. Qed.
Print Assumptions C19_snow3g_uia2_trace_key_independent.

Theorem C19_leak_model_eq_spec :
  (forall key iv msg, fst (des_cbc_enc_leak (des_key_schedule_std key) iv msg) = des_cbc_enc key iv msg) /\
  (forall key iv msg, fst (des_cbc_dec_leak (des_key_schedule_std key) iv msg) = des_cbc_dec key iv msg) /\
  (forall k1 k2 k3 iv msg,
     fst (des3_cbc_enc_leak (des_key_schedule_std k1) (des_key_schedule_std k2) (des_key_schedule_std k3) iv msg)
     = des3_cbc_enc k1 k2 k3 iv msg) /\
  (forall k1 k2 k3 iv msg,
     fst (des3_cbc_dec_leak (des_key_schedule_std k1) (des_key_schedule_std k2) (des_key_schedule_std k3) iv msg)
     = des3_cbc_dec k1 k2 k3 iv msg) /\
  (forall key iv msg, fst (docsis_des_enc_leak (des_key_schedule_std key) iv msg) = docsis_des_enc key iv msg) /\
  (forall key iv msg, fst (docsis_des_dec_leak (des_key_schedule_std key) iv msg) = docsis_des_dec key iv msg) /\
  (forall inplace key iv src dst bitlen bitoff,
     fst (kasumi_f8_leak inplace (kasumi_key_schedule key) (kasumi_key_schedule (kasumi_mod_key 0x55 key))
                         iv src dst bitlen bitoff) = kasumi_f8_job key iv src dst bitlen bitoff) /\
  (forall key msg,
     fst (kasumi_f9_leak (kasumi_key_schedule key) (kasumi_key_schedule (kasumi_mod_key 0xAA key)) msg)
     = kasumi_f9 key msg) /\
  (forall key iv src dst bitlen bitoff,
     fst (snow3g_uea2_leak key iv src dst bitlen bitoff) = snow3g_uea2_job key iv src dst bitlen bitoff) /\
  (forall key iv msg bitlen, fst (snow3g_uia2_leak key iv msg bitlen) = snow3g_uia2 key iv msg bitlen).
Proof. exact leak_model_eq_spec. Qed.
Print Assumptions C19_leak_model_eq_spec.
