(* Props/Examples_C02.v — the hypotheses of the C02 theorems are satisfiable on concrete,
   non-trivial cases, and the lane models reproduce published vectors when EXECUTED (these are
   point checks by vm_compute — tests, not theorems about all inputs). *)
From Coq Require Import List NArith Bool Arith String.
From IMB Require Import Lib.Bytes Spec.Hex Struct.MemOps Struct.HmacPad Struct.ShaMb Struct.CmacLast
                        Spec.SHA Spec.MD5 Spec.SM3 Spec.HMAC Spec.AES Spec.CMAC
                        Proofs.HmacProofs Proofs.HmacSpecProofs Proofs.HashInstProofs
                        Proofs.ShaMbProofs Props.Properties_C02.
Import ListNotations.
Local Open Scope string_scope.

(* ---- hypotheses hold ---- *)

Example geoms_ok : geom_ok G_SHA1_256 /\ geom_ok G_SHA512 /\ geom_ok G_MD5.
Proof. split; [exact geom_ok_sha1_256|split; [exact geom_ok_sha512|exact geom_ok_md5]]. Qed.

Example len_ok_64 : forall len, len_ok G_SHA1_256 len.
Proof. intros len. left. reflexivity. Qed.

Example len_ok_128_4k : len_ok G_SHA512 4097.
Proof. right. vm_compute. reflexivity. Qed.

Example sha_cfgs_ok : sha_mb_cfg_ok SM_SHA1_256 /\ sha_mb_cfg_ok SM_SHA512.
Proof. split; [exact sha_mb_cfg_ok_sha1|exact sha_mb_cfg_ok_sha512]. Qed.

Example md_hashes_wf : forall X, In X all_md_hashes -> md_wf X.
Proof. exact all_md_hashes_wf. Qed.

(* ---- HMAC lane geometry executed: 119-byte message (last_len = 55: one extra block) and
   120-byte message (last_len = 56: two extra blocks), stale lane contents 0xEE ---- *)

Definition stale64 : bytes := repeat 238%N 64.
Definition msg_n (n : nat) : bytes := map N.of_nat (seq 1 n).

Example hmac_geometry_119 :
  last_len G_SHA1_256 119 = 55 /\ extra_blocks G_SHA1_256 119 = 1 /\
  start_offset G_SHA1_256 119 = 9 /\ size_offset G_SHA1_256 119 = 65 /\
  lane_stream G_SHA1_256 stale64 (msg_n 119) = md_pad 64 8 true (64 + 119) (msg_n 119).
Proof. vm_compute. repeat split; reflexivity. Qed.

Example hmac_geometry_120 :
  last_len G_SHA1_256 120 = 56 /\ extra_blocks G_SHA1_256 120 = 2 /\
  start_offset G_SHA1_256 120 = 8 /\ size_offset G_SHA1_256 120 = 128 /\
  lane_stream G_SHA1_256 stale64 (msg_n 120) = md_pad 64 8 true (64 + 120) (msg_n 120).
Proof. vm_compute. repeat split; reflexivity. Qed.

(* instance of the theorem on the same data (hypotheses discharged) *)
Example hmac_extra_block_is_padding_inst :
  lane_extra_bytes G_SHA1_256 stale64 (msg_n 120) =
  md_pad 64 8 true (64 + 120) (skipn (120 - 56) (msg_n 120)).
Proof.
  apply (hmac_extra_block_is_padding G_SHA1_256 geom_ok_sha1_256 stale64 (msg_n 120)).
  - reflexivity.
  - left. reflexivity.
Qed.

(* ---- RFC 2202 test case 2 (key "Jefe") through the SHA-1 lane model and through the MD5 lane
   model, with dirty lane buffers ---- *)

Definition k_jefe : bytes := ascii_bytes "Jefe".
Definition d_jefe : bytes := ascii_bytes "what do ya want for nothing?".

Example hmac_sha1_lane_rfc2202_2 :
  match hmac_ipad_state H_SHA1 k_jefe, hmac_opad_state H_SHA1 k_jefe with
  | Some i, Some o =>
      hmac_lane_tag H_SHA1 OC_SHA1 i o stale64 (repeat 119%N 20) d_jefe =
      hex "effcdf6ae5eb2fa2d27416d5f184df9c259a7c79"
  | _, _ => False
  end.
Proof. vm_compute. reflexivity. Qed.

Example hmac_md5_lane_rfc2202_2 :
  match hmac_ipad_state H_MD5 k_jefe, hmac_opad_state H_MD5 k_jefe with
  | Some i, Some o =>
      hmac_lane_tag H_MD5 OC_MD5 i o stale64 (repeat 119%N 16) d_jefe =
      hex "750c783e6ab0b503eaa86e310a5db738"
  | _, _ => False
  end.
Proof. vm_compute. reflexivity. Qed.

(* the helper refuses MD5 keys longer than one block, accepts them for SHA-1 *)
Example md5_long_key_refused : hmac_lib H_MD5 (repeat 170%N 65) d_jefe = None.
Proof. vm_compute. reflexivity. Qed.

(* 12-byte IPsec truncation of the tag *)
Example tag_store_12 :
  tag_store 12 (hex "effcdf6ae5eb2fa2d27416d5f184df9c259a7c79") = hex "effcdf6ae5eb2fa2d27416d5".
Proof. vm_compute. reflexivity. Qed.

(* ---- SHA multi-buffer C manager: "abc" and a 56-byte message (two extra blocks) ---- *)

Example sha_mb_abc :
  sha_mb_extra_blocks SM_SHA1_256 3 = 1 /\
  sha1_digest_of_state (md_blocks 64 sha1_compress sha1_init
                          (sha_mb_stream SM_SHA1_256 (ascii_bytes "abc"))) =
  hex "a9993e364706816aba3e25717850c26c9cd0d89d".
Proof. vm_compute. split; reflexivity. Qed.

Example sha_mb_56 :
  sha_mb_extra_blocks SM_SHA1_256 56 = 2 /\
  sha_mb_stream SM_SHA1_256
    (ascii_bytes "abcdbcdecdefdefgefghfghighijhijkijkljklmklmnlmnomnopnopq") =
  sha1_pad 56 (ascii_bytes "abcdbcdecdefdefgefghfghighijhijkijkljklmklmnlmnomnopnopq").
Proof. vm_compute. split; reflexivity. Qed.

(* ---- CMAC / XCBC lanes: RFC 4493 example 3 (40 bytes: incomplete last block, K2), example 2
   (16 bytes: complete block, K1), a 3GPP bit length, RFC 3566 test case 4 ---- *)

Definition rfc4493_key := hex "2b7e151628aed2a6abf7158809cf4f3c".
Definition rfc4493_msg40 := hex
  "6bc1bee22e409f96e93d7e117393172a ae2d8a571e03ac9c9eb76fac45af8e51 30c81c46a35ce411".

Example cmac_lane_rfc4493_ex3 :
  cmac_lane_bytes (aes_enc_rk (aes_key_expand rfc4493_key)) (fst (cmac_subkeys rfc4493_key))
                  (snd (cmac_subkeys rfc4493_key)) rfc4493_msg40 =
  hex "dfa66747de9ae63030ca32611497c827".
Proof. vm_compute. reflexivity. Qed.

Example cmac_lane_rfc4493_ex2 :
  cmac_lane_bytes (aes_enc_rk (aes_key_expand rfc4493_key)) (fst (cmac_subkeys rfc4493_key))
                  (snd (cmac_subkeys rfc4493_key)) (firstn 16 rfc4493_msg40) =
  hex "070a16b46b4d4144f79bdd9dd04a287c".
Proof. vm_compute. reflexivity. Qed.

(* 122 bits: the lane masks the unused bits of the last byte; equals the Spec's bit variant *)
Example cmac_lane_bits_122 :
  cmac_lane (aes_enc_rk (aes_key_expand rfc4493_key)) (fst (cmac_subkeys rfc4493_key))
            (snd (cmac_subkeys rfc4493_key)) rfc4493_msg40 122 =
  cmac_bits rfc4493_key rfc4493_msg40 122.
Proof. vm_compute. reflexivity. Qed.

Example xcbc_lane_rfc3566_tc4 :
  let key := hex "000102030405060708090a0b0c0d0e0f" in
  firstn 12 (xcbc_lane (aes_enc_rk (fst (fst (xcbc_keys key)))) (snd (fst (xcbc_keys key)))
                       (snd (xcbc_keys key)) (repeat 204%N 32)
                       (hex "000102030405060708090a0b0c0d0e0f10111213")) =
  hex "47f51b4564966215b8985c63".
Proof. vm_compute. reflexivity. Qed.
