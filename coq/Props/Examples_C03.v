(* Props/Examples_C03.v — the hypotheses of the C03 theorems are satisfiable on concrete,
   non-trivial cases, and the format models reproduce published vectors when EXECUTED (point
   checks by vm_compute — tests, not theorems about all inputs). *)
From Coq Require Import List NArith Bool Arith String Lia.
From IMB Require Import Lib.Bytes Spec.Hex Struct.MemOps Struct.CcmFormat Struct.GcmFormat
                        Spec.AES Spec.AESModes Spec.GF128 Spec.GCM Spec.CCM Spec.ChaCha20
                        Spec.ChaChaPoly Spec.SNOWV Spec.CRC Spec.PON
                        Proofs.CcmFormatProofs Props.Properties_C03.
Import ListNotations.
Local Open Scope string_scope.
Local Open Scope list_scope.

Definition key16 := hex "c0c1c2c3c4c5c6c7c8c9cacbcccdcecf".
Definition msg_n (n : nat) : bytes := map N.of_nat (seq 1 n).

(* ---- GCM: 8-byte IV (general J0 path), 13-byte AAD, 37-byte text, 12-byte tag ---- *)
Example gcm_roundtrip_iv8 :
  let iv := hex "cafebabefacedbad" in
  let enc := gcm_enc key16 iv (msg_n 13) (msg_n 37) 12 in
  gcm_dec key16 iv (msg_n 13) (fst enc) 12 = (msg_n 37, snd enc) /\
  length (snd enc) = 12 /\ fst enc <> msg_n 37.
Proof. vm_compute. repeat split; try reflexivity. discriminate. Qed.

(* the theorem instantiated on the same data (no hypotheses to discharge) *)
Example gcm_dec_enc_inst :
  gcm_dec key16 (hex "cafebabefacedbad") (msg_n 13)
          (fst (gcm_enc key16 (hex "cafebabefacedbad") (msg_n 13) (msg_n 37) 12)) 12 =
  (msg_n 37, snd (gcm_enc key16 (hex "cafebabefacedbad") (msg_n 13) (msg_n 37) 12)).
Proof. apply gcm_dec_enc. Qed.

(* library J0 formula on a 12-byte and on a 60-byte IV *)
Example gcm_lib_j0_cases :
  let h := gcm_hash_subkey (aes_enc_rk (aes_key_expand key16)) in
  gcm_lib_j0 h (msg_n 12) = msg_n 12 ++ [0; 0; 0; 1]%N /\
  gcm_lib_j0 h (msg_n 60) = gcm_j0 h (msg_n 60).
Proof. vm_compute. split; reflexivity. Qed.

(* ---- CCM: RFC 3610 packet vector #1 — block 0 and the AAD block as the lane builds them in a
   dirty 64-byte area ---- *)
Definition pv1_nonce := hex "00000003020100a0a1a2a3a4a5".
Definition pv1_aad := hex "0001020304050607".
Definition pv1_msg := hex "08090a0b0c0d0e0f101112131415161718191a1b1c1d1e".

Example ccm_b0_rfc3610_pv1 :
  ccm_lib_b0 pv1_nonce 8 true 23 = hex "5900000003020100a0a1a2a3a4a50017".
Proof. vm_compute. reflexivity. Qed.

Example ccm_init_blocks_rfc3610_pv1 :
  firstn (ccm_lib_auth_len 8) (ccm_lib_init_blocks (repeat 238%N 64) pv1_nonce pv1_aad 8 23) =
  hex "5900000003020100a0a1a2a3a4a50017 00080001020304050607000000000000".
Proof. vm_compute. reflexivity. Qed.

Example ccm_lane_tag_rfc3610_pv1 :
  let e := aes_enc_rk (aes_key_expand key16) in
  firstn 8 (xor_bytes (ccm_lane_mac e (repeat 238%N 64) pv1_nonce pv1_aad pv1_msg 8)
                      (e (ccm_ctr_block pv1_nonce 0))) = hex "17e8d12cfdf926e0".
Proof. vm_compute. reflexivity. Qed.

(* hypotheses of ccm_b0_format / ccm_lane_mac_eq_spec on this vector *)
Example ccm_hyps_pv1 :
  7 <= length pv1_nonce <= 13 /\ In 8 ccm_tag_lens /\ length pv1_aad <= 46 /\
  (N.of_nat (length pv1_msg) < 2 ^ 16)%N.
Proof. repeat split; try (cbn; lia); vm_compute; reflexivity. Qed.

Example ccm_roundtrip_nonce7 :
  let n := msg_n 7 in
  let enc := ccm_enc key16 n (msg_n 46) (msg_n 33) 4 in
  ccm_dec key16 n (msg_n 46) (fst enc) 4 = (msg_n 33, snd enc) /\ length (snd enc) = 4.
Proof. vm_compute. split; reflexivity. Qed.

(* ---- ChaCha20-Poly1305 and SNOW-V-AEAD round trips on 100-byte texts ---- *)
Example chachapoly_roundtrip :
  let k := msg_n 32 in let n := msg_n 12 in
  chachapoly_dec k n (msg_n 9) (fst (chachapoly_enc k n (msg_n 9) (msg_n 100))) =
  (msg_n 100, snd (chachapoly_enc k n (msg_n 9) (msg_n 100))).
Proof. vm_compute. reflexivity. Qed.

Example snowv_aead_roundtrip :
  let k := msg_n 32 in let iv := msg_n 16 in
  snowv_aead_dec k iv (msg_n 5) (fst (snowv_aead_enc k iv (msg_n 5) (msg_n 100))) =
  (msg_n 100, snd (snowv_aead_enc k iv (msg_n 5) (msg_n 100))).
Proof. vm_compute. reflexivity. Qed.

(* ---- DOCSIS: 40-byte frame, hashed region [2, 34), CRC at [34, 38), ciphered [14, 38) ---- *)
Example docsis_geometry_case :
  docsis_job_geometry_accepted 2 32 14 24 = true /\ docsis_geometry_std 2 32 14 24 = true /\
  docsis_crc_enabled 32 = true /\ 2 + 32 + 4 <= length (msg_n 40) /\ 14 + 24 <= length (msg_n 40).
Proof. repeat split; try reflexivity; cbn; lia. Qed.

(* both directions with a toy length-preserving involutive cipher (xor with 0x5A) *)
Definition toy_bpi (key iv m : bytes) : bytes := map (fun b => N.lxor b 90) m.

Example docsis_roundtrip :
  docsis_crc_dec toy_bpi [] [] (fst (docsis_crc_enc toy_bpi [] [] (msg_n 40) 2 32 14 24)) 2 32 14 24 =
  (docsis_crc_insert (msg_n 40) 2 32, snd (docsis_crc_enc toy_bpi [] [] (msg_n 40) 2 32 14 24)).
Proof. vm_compute. reflexivity. Qed.

(* ---- PON: header with PLI = 20, 24-byte payload; CRC covers payload[0,16), sits at [16,20) ---- *)
Definition pon_frame : bytes := hex "0050000000000000" ++ msg_n 24.

Example pon_geometry_case :
  pon_pli pon_frame = 20%N /\ pon_crc_enabled pon_frame = true /\ pon_crc_len pon_frame = 16 /\
  8 <= length pon_frame /\ (pon_pli pon_frame <= N.of_nat (length pon_frame - 8))%N.
Proof. repeat split; try reflexivity; [cbn; lia|vm_compute; discriminate]. Qed.

Example pon_roundtrip :
  let enc := pon_enc toy_bpi [] [] pon_frame in
  snd (pon_dec toy_bpi [] [] (fst enc)) = snd enc /\
  length (snd enc) = 8 /\ pon_crc_ok (fst (pon_dec toy_bpi [] [] (fst enc))) (snd enc) = true.
Proof. vm_compute. repeat split; reflexivity. Qed.
