(* placeholder *)
