(* Non-vacuity for the C17 theorems, and the witness for the imb_get_errno fall-back.
   Tests (vm_compute on concrete worlds), not theorems. *)
From Coq Require Import String.
From Coq Require Import ZArith List Bool.
From IMB Require Import Gen.GenConsts Gen.GenGlobals Gen.GenStrerror Mgr.Ring Mgr.Errno Mgr.Globals
                        Proofs.GlobalsProofs.
Import ListNotations.
Local Open Scope Z_scope.

Definition SZ := SIZEOF_IMB_JOB.
Definition NJ := IMB_MAX_JOBS.
Definition MAXB := IMB_MAX_BURST_SIZE.

Definition ring_empty : st := mkst (-1) 0 (fun _ => 0) (fun _ => 0) 0.
Definition cpu0 : list Z := [1; 2; 3; 4; 5; 6; 7; 8; 9; 10; 11; 12].
Definition feat0 (l : list Z) : Z := fold_right Z.add 0 l.
Definition sess0 (c : Z) : Z := c * 2654435761 mod 2 ^ 32.
Definition w0 : world := mkworld (mkglob (fun _ => 0) [] 1) (fun _ => mkms ring_empty 0).

(* the current tree: one process-wide mirror *)
Example mirror_is_process_wide : mirror_is_thread_local = false. Proof. reflexivity. Qed.
Definition shared (i : nat) : Z := 0.
Definition per_thread (i : nat) : Z := Z.of_nat i.

Definition run cell l := wrun SZ NJ MAXB cell cpu0 feat0 sess0 ring_empty w0 l.

(* A = manager 0, B = manager 1.  A succeeds; B fails; then imb_get_errno(A). *)
Definition witness : list (nat * wop) :=
  [ (0%nat, WRing QueueSize); (1%nat, WRing (GetNextBurst false 1000)); (0%nat, WGetErrno) ].
Example witness_shared_mirror :
  map snd (snd (run shared witness)) = [ORing (ONum 0) 0; ORing (OSlots []) IMB_ERR_BURST_SIZE; OErrno IMB_ERR_BURST_SIZE].
Proof. vm_compute. reflexivity. Qed.
Example witness_solo :
  map snd (snd (run shared (only 0%nat witness))) = [ORing (ONum 0) 0; OErrno 0].
Proof. vm_compute. reflexivity. Qed.
(* the per-manager FIELD is unaffected, as mgr_noninterference says *)
Example witness_field_clean : errno (m_ring (mgrs (fst (run shared witness)) 0%nat)) = 0. Proof. vm_compute. reflexivity. Qed.
(* with one mirror cell per thread (proposed fix) the witness disappears *)
Example witness_thread_local :
  map snd (snd (run per_thread witness)) = [ORing (ONum 0) 0; ORing (OSlots []) IMB_ERR_BURST_SIZE; OErrno 0].
Proof. vm_compute. reflexivity. Qed.

(* a longer interleaving of three managers with jobs, a refused burst, a failing direct call made
   through manager 2, sessions and an init: hypotheses of the theorems hold trivially (there are
   none besides agreement on i); show the projections really are non-trivial and equal *)
Definition l3 : list (nat * wop) :=
  [ (2%nat, WInit); (0%nat, WRing (Submit true None 7 [])); (1%nat, WSetSession);
    (1%nat, WRing (Submit true (Some IMB_ERR_JOB_NULL_SRC) 8 []));
    (2%nat, WDirect (direct_api IMB_ERR_NULL_KEY)); (0%nat, WSetSession);
    (0%nat, WRing (Flush [0])); (1%nat, WRing (Flush [])); (2%nat, WGetErrno);
    (1%nat, WRing (SubmitBurst true 1 None [] [])); (0%nat, WRing QueueSize); (1%nat, WGetErrno) ].
Example l3_proj1 :
  outs_of 1%nat (snd (run shared l3)) = outs_of 1%nat (snd (run shared (only 1%nat l3))).
Proof. vm_compute. reflexivity. Qed.
Example l3_proj1_nontrivial :
  outs_of 1%nat (snd (run shared l3))
  = [OSession 0 0; ORing (OJob (Some (0, 8, IMB_STATUS_INVALID_ARGS))) IMB_ERR_JOB_NULL_SRC;
     ORing (OJob None) 0; ORing (OReject None) IMB_ERR_NULL_BURST; OErrno 0].
Proof. vm_compute. reflexivity. Qed.
(* the two erased observations do differ between together and alone *)
Example l3_session_ids_differ :
  filter (fun o => match o with OSession _ _ => true | _ => false end) (map snd (only 0%nat (snd (run shared l3))))
  <> filter (fun o => match o with OSession _ _ => true | _ => false end) (map snd (snd (run shared (only 0%nat l3)))).
Proof. vm_compute. discriminate. Qed.
Example l3_counter : g_counter (glob (fst (run shared l3))) = 3. Proof. vm_compute. reflexivity. Qed.

(* CPUID cache: two threads refreshing and reading concurrently, arbitrary interleaving *)
Definition cpuw0 (k : nat) : Z := Z.of_nat (100 + k).
Definition evs0 : list cev := [CW 1 0; CW 2 0; CW 1 1; CR 1 0; CW 2 1; CR 2 1; CR 1 1; CW 2 2; CW 1 2; CR 2 0; CR 1 2; CR 2 2].
Example evs0_wf : reads_follow_own_writes [] evs0 = true. Proof. reflexivity. Qed.
Example evs0_reads : map snd (crun cpuw0 (fun _ => 0) evs0) = [100; 101; 101; 100; 102; 102]. Proof. reflexivity. Qed.

(* the generated table is not empty and contains what the model talks about *)
Example globals_listed : map gs_name (filter (fun g => negb (gs_size g =? 0)) writable_syms) <> []. Proof. discriminate. Qed.
