(* Non-vacuity: concrete histories satisfy the hypotheses of the C05 theorems (tests, not theorems). *)
From Coq Require Import ZArith List Bool.
From IMB Require Import Gen.GenConsts Mgr.Ring Mgr.RingInst Proofs.RingProofs.
Import ListNotations.
Local Open Scope Z_scope.

Definition s_at (m : Z) : st := mkst (-1) (SIZEOF_IMB_JOB * m) (fun _ => 0) (fun _ => 0) 0.
Definition okh := ops_ok SIZEOF_IMB_JOB IMB_MAX_JOBS IMB_MAX_BURST_SIZE.
Definition SZ := SIZEOF_IMB_JOB.

(* a parked job, an immediate job behind it, flushes; starting 3 slots before the ring end *)
Definition h1 : list op :=
  [ Submit true None 1 []; Submit true None 2 [254 * SZ]; QueueSize; Submit true (Some 2008) 3 [];
    Flush [253 * SZ]; Flush []; Flush []; Flush []; QueueSize ].
Example h1_ok : okh (s_at 253) h1 = true. Proof. vm_compute. reflexivity. Qed.
Example h1_empty_at : empty_at SIZEOF_IMB_JOB IMB_MAX_JOBS (s_at 253) 253.
Proof. unfold empty_at, s_at; cbn. repeat split; discriminate || reflexivity. Qed.
Example h1_returns :
  all_returned (trace SIZEOF_IMB_JOB IMB_MAX_JOBS IMB_MAX_BURST_SIZE (s_at 253) h1) = [1; 2; 3].
Proof. vm_compute. reflexivity. Qed.

(* fill the ring completely through the burst API: one parked job then 255 immediates *)
Fixpoint imm (n : nat) (o : Z) (id : Z) : list bjob :=
  match n with O => [] | S k => mkbjob (Some o) None true id :: imm k (o + SZ) (id + 1) end.
Definition slots_from (n : nat) (o : Z) : list Z := map (fun b => match bj_ptr b with Some p => p | None => 0 end) (imm n o 0).
Definition h2 : list op :=
  [ SubmitBurst true 1 (Some (imm 1 0 100)) [] [];
    SubmitBurst true 128 (Some (imm 128 SZ 101)) (slots_from 128 SZ) [];
    SubmitBurst true 127 (Some (imm 127 (129 * SZ) 229)) (slots_from 127 (129 * SZ)) [0];
    QueueSize ].
Example h2_ok : okh (s_at 0) h2 = true. Proof. vm_compute. reflexivity. Qed.
Example h2_full_branch :
  length (all_returned (trace SIZEOF_IMB_JOB IMB_MAX_JOBS IMB_MAX_BURST_SIZE (s_at 0) h2)) = 127%nat.
Proof. vm_compute. reflexivity. Qed.
