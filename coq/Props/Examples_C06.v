(* Props/Examples_C06.v -- the hypotheses of the C06 theorems are satisfiable on concrete, non-trivial cases,
   and the checking predicates really reject the regressions they are meant to catch.  These are tests
   (vm_compute on samples), not theorems about the library. *)
From Coq Require Import NArith List Bool String.
From IMB Require Import Lib.Bytes Gen.GenEnums Mgr.JobView Gen.GenValidate Gen.GenTables Gen.GenKnownC06
                        Mgr.Dispatch Proofs.DispatchProofs.
Import ListNotations.
Local Open Scope N_scope.
Local Open Scope string_scope.

(* AES-192-CBC decrypt + HMAC-SHA-384, hash first: a cell of the domain, accepted by both checks, not excepted *)
Definition ex_cell : cell := mk_cell IMB_CIPHER_CBC 24 IMB_DIR_DECRYPT IMB_AUTH_HMAC_SHA_384 IMB_ORDER_HASH_CIPHER.
Example ex_cell_in_domain : In ex_cell all_cells.
Proof. apply all_cells_complete; vm_compute; intuition discriminate. Qed.
Example ex_cell_accepted : (accepted_light ex_cell, accepted_full ex_cell, excepted ex_cell) = (true, true, false).
Proof. vm_compute. reflexivity. Qed.
Example ex_cell_index : calc_cipher_tab_index IMB_CIPHER_CBC 24 IMB_DIR_DECRYPT = 6 /\
                        calc_cipher_tab_index IMB_CIPHER_ECB 24 IMB_DIR_ENCRYPT = 178.
Proof. split; vm_compute; reflexivity. Qed.
Example ex_cell_entry :
  option_map (fun w => (w_name w, w_calls w)) (tab_get (vt_submit_cipher tables_avx512_t2) 6) =
  Some ("submit_cipher_dec_aes_cbc_192", ["aes_cbc_dec_192_vaes_avx512"]) /\
  option_map (fun w => (w_calls w, w_mgrs w)) (tab_get (vt_submit_hash tables_avx512_t2) IMB_AUTH_HMAC_SHA_384) =
  Some (["submit_job_hmac_sha_384_avx512"], ["hmac_sha_384_ooo"]).
Proof. split; vm_compute; reflexivity. Qed.
Example ex_names : names_alg "aes_cbc_dec_192_vaes_avx512" (IMB_CIPHER_CBC, 24, IMB_DIR_DECRYPT) = true /\
                   names_alg "aes_cbc_dec_192_vaes_avx512" (IMB_CIPHER_CBC, 32, IMB_DIR_DECRYPT) = false /\
                   names_alg "aes_cbc_dec_192_vaes_avx512" (IMB_CIPHER_ECB, 24, IMB_DIR_DECRYPT) = false /\
                   names_hash "submit_job_hmac_sha_384_avx512" IMB_AUTH_HMAC_SHA_384 = true /\
                   names_hash "submit_job_hmac_sha_384_avx512" IMB_AUTH_HMAC_SHA_512 = false.
Proof. repeat split; vm_compute; reflexivity. Qed.

(* a rejected cell: AES-GCM with HMAC-SHA-1 *)
Example ex_rejected : accepted (mk_cell IMB_CIPHER_GCM 16 IMB_DIR_ENCRYPT IMB_AUTH_HMAC_SHA_1 IMB_ORDER_CIPHER_HASH) = false.
Proof. vm_compute. reflexivity. Qed.

(* the stage machine reaches a finished state with both stages run, and with the single combined stage *)
Example ex_stages_plain :
  jreach false false IMB_CIPHER_CBC IMB_ORDER_CIPHER_HASH (mk_js 3 None [Cipher; Hash]).
Proof.
  eapply jr_step. eapply jr_step. apply jr_init.
  - apply (js_release false false IMB_CIPHER_CBC (mk_js 0 (Some Cipher) [Cipher]) Cipher). reflexivity.
  - apply (js_release false false IMB_CIPHER_CBC (mk_js 1 (Some Hash) [Cipher; Hash]) Hash). reflexivity.
Qed.
Example ex_stages_gcm : jreach true false IMB_CIPHER_GCM IMB_ORDER_HASH_CIPHER (mk_js 3 None [Cipher]).
Proof.
  eapply jr_step. apply jr_init.
  apply (js_release true false IMB_CIPHER_GCM (mk_js 0 (Some Cipher) [Cipher]) Cipher). reflexivity.
Qed.

(* ---- the predicates reject the regressions of DESIGN.md section C06 ---- *)
(* a wrapper passing the wrong key size *)
Example ex_wrong_key_size :
  match cipher_names IMB_CIPHER_ECB 24 true with
  | Some n => entry_ok FSse n (mk_wrapper "submit_cipher_enc_aes_ecb_192" false ["aes_ecb_enc_256_by8_sse"] [])
  | None => true end = false.
Proof. vm_compute. reflexivity. Qed.
(* a hash wrapper working on the wrong manager *)
Example ex_wrong_manager :
  match hash_names IMB_AUTH_SHA_384 with
  | Some n => entry_ok FSse n (mk_wrapper "submit_hash_sha384" false ["submit_job_sha384_sse"] ["sha_512_ooo"])
  | None => true end = false.
Proof. vm_compute. reflexivity. Qed.
(* an SSE manager calling an AVX kernel (never allowed by the reuse table) *)
Example ex_wrong_family :
  match cipher_names IMB_CIPHER_CNTR 16 true with
  | Some n => (entry_ok FSse n (mk_wrapper "submit_cipher_enc_aes_ctr_128" false ["aes_cntr_128_avx"] []),
               entry_ok FAvx2 n (mk_wrapper "submit_cipher_enc_aes_ctr_128" false ["aes_cntr_128_sse"] []))
  | None => (true, false) end = (false, true).
Proof. vm_compute. reflexivity. Qed.
(* two table rows transposed: ECB and CNTR-BITLEN rows of the decrypt half swapped *)
Definition swap_rows (l : list (option wrapper)) (i j : nat) : list (option wrapper) :=
  map (fun k : nat => nth (if Nat.eqb (Nat.div k 4) i then Nat.add (Nat.mul 4 j) (Nat.modulo k 4)
                           else if Nat.eqb (Nat.div k 4) j then Nat.add (Nat.mul 4 i) (Nat.modulo k 4) else k) l None)
      (seq 0 (length l)).
Definition transposed : variant_tables :=
  mk_variant_tables "sse_t1" (swap_rows (vt_submit_cipher tables_sse_t1) 12 13) (vt_flush_cipher tables_sse_t1)
                    (vt_submit_hash tables_sse_t1) (vt_flush_hash tables_sse_t1).
Example ex_transposed :
  (cipher_side_ok tables_sse_t1 IMB_CIPHER_ECB 16 IMB_DIR_DECRYPT, cipher_side_ok transposed IMB_CIPHER_ECB 16 IMB_DIR_DECRYPT,
   slot_belongs transposed IMB_CIPHER_ECB 1 IMB_DIR_DECRYPT) = (true, false, false).
Proof. vm_compute. reflexivity. Qed.
