(* Props/Properties_C16.v — property C16: stop between two API calls, re-attach to the manager block
   with imb_set_pointers_mb_mgr(ptr, flags, 0) (block and job buffers mapped at the same addresses),
   flush: every job in flight comes back, in order, completed; the manager stays usable.

   Statements are about Mgr/Reattach.v (image of lib/x86_64/alloc.c, statement list regenerated into
   Gen/GenReset.v on every run) and the ring model of C05 (Mgr/Ring.v).  Proofs: Proofs/ReattachProofs.v.

   PARTIAL by nature: the model has no address spaces.  That the recomputed pointers denote the
   same memory is a hypothesis of the property (same addresses); that nothing inside the block
   points into the library image is covered statically only by field classification
   ([no_library_pointers_in_ooo_partial]) and dynamically by harness/k16_reattach.c (fork and exec
   with the library relocated). *)
From Coq Require Import NArith ZArith List String Bool.
From IMB Require Import Gen.GenConsts Gen.GenLayout Gen.GenReset Mgr.Ring Mgr.Reset Mgr.Reattach
                        Proofs.RingArith Proofs.RingProofs Proofs.ResetProofs Proofs.ReattachProofs.
Import ListNotations.
Local Open Scope N_scope.

(* FOR ALL manager states: re-attaching changes nothing of the ring except the error code (:= 0) —
   earliest_job, next_job, every slot — and nothing of any OOO manager outside the 8 road-block
   bytes; in particular the scheduling image below each road block is untouched. *)
Theorem reattach_preserves_scheduling_state : forall cpu flags base s,
  m_ring (reattach cpu flags base s) = set_errno 0%Z (m_ring s) /\
  (forall field, agree_on (outside_rb field) (m_ooo (reattach cpu flags base s) field) (m_ooo s field)) /\
  (forall field, agree_on (in_range 0 (rb_off_of field)) (m_ooo (reattach cpu flags base s) field) (m_ooo s field)).
Proof. exact reattach_preserves_scheduling_state_thm. Qed.
Print Assumptions reattach_preserves_scheduling_state.

(* The OOO pointers after re-attaching at [base] are base + cumulative aligned sizes: exactly the
   values alloc_mb_mgr() computed for a block at the same base, whatever the state and the flags. *)
Theorem reattach_pointers_same_base : forall cpu flags flags' base s garbage field,
  m_ptrs (reattach cpu flags base s) field =
  match ptr_offset field with Some o => base + o | None => m_ptrs s field end /\
  (ptr_offset field <> None ->
   m_ptrs (reattach cpu flags base s) field = m_ptrs (alloc cpu flags' base garbage) field).
Proof. exact reattach_pointers_same_base_thm. Qed.
Print Assumptions reattach_pointers_same_base.

(* FINITE: the pointer layout puts every manager of ooo_mgr_table inside the block, after the
   IMB_MGR structure, 64-byte aligned relative to the base, road block inside its own region, no
   two regions overlapping, one pointer per table entry. *)
Theorem pointer_layout_sound :
  forallb layout_entry_ok ooo_offsets = true /\ disjoint_sorted ooo_offsets = true /\
  map fst ooo_offsets = table_fields /\ nodupb table_fields = true.
Proof. exact pointer_layout_ok. Qed.
Print Assumptions pointer_layout_sound.

(* Re-attaching re-binds the handlers: for a manager whose used_arch is a compiled architecture
   the CPU supports, the function-pointer fields afterwards are those of the variant selected by
   (used_arch, flags stored in the block, CPU) — the variant that parked the jobs when the CPU and
   the stored flags are unchanged.  (init_*_internal runs BEFORE ptr->flags is overwritten: new
   flags do not take effect on the handlers until the next init.) *)
Theorem reattach_rebinds_handlers : forall cpu flags base s a,
  In a arch_inits -> m_arch s = arch_id a ->
  has_flags (m_features s) (ai_req a) = true ->
  has_flags (feature_adjust (m_flags s) cpu) (ai_req a) = true ->
  m_bound (reattach cpu flags base s) = Some (variant_for cpu (m_flags s) a) /\
  m_arch (reattach cpu flags base s) = m_arch s.
Proof. exact reattach_rebinds_handlers_thm. Qed.
Print Assumptions reattach_rebinds_handlers.

(* FINITE: init_mb_mgr_<variant>_internal of every compiled variant assigns every function-pointer
   field of IMB_MGR except the user's self-test callback. *)
Theorem handlers_all_rebound :
  forallb (fun v => forallb (fun f => mem f (v_bound v) || mem f user_fnptrs) mgr_fnptrs) variants = true.
Proof. exact handlers_complete. Qed.
Print Assumptions handlers_all_rebound.

(* FOR ALL histories of API calls from an initialised manager (under the oracle/caller contract of
   C05), FOR EVERY crash point k between two calls: re-attach (any flags, any base), then flush as
   many times as jobs were pending (the out-of-order managers completing what flush asks for —
   [ops_ok] on the re-attached ring): the jobs handed back are exactly the jobs in flight at the
   crash point, in submission order, each with a completed status; afterwards the queue is
   empty, one more flush returns nothing, and the ring is an empty ring again, so the C05
   theorems apply to everything that follows (the manager remains fully usable). *)
Local Notation SZ := SIZEOF_IMB_JOB.
Local Notation NJ := IMB_MAX_JOBS.
Local Notation MAXB := IMB_MAX_BURST_SIZE.
Local Notation trace := (trace SZ NJ MAXB).
Local Notation final := (final SZ NJ MAXB).
Local Notation ops_ok := (ops_ok SZ NJ MAXB).
Local Notation pending_count := (pending_count SZ NJ MAXB).
Local Notation stepr := (stepr SZ NJ MAXB).
Local Notation empty_at := (empty_at SZ NJ).
Theorem crash_flush_returns_all_in_order :
  forall (s0 : st) (m : Z) (ops : list op) (k : nat) (cpu flags base : N) (M : mgr) (Ds : list (list Z)),
  empty_at s0 m -> ops_ok s0 ops = true ->
  m_ring M = final s0 (firstn k ops) ->
  let pre := firstn k ops in
  let R := m_ring (reattach cpu flags base M) in
  ops_ok R (map Flush Ds) = true ->
  Z.of_nat (List.length Ds) = pending_count s0 pre ->
  let tr := trace R (map Flush Ds) in
  all_returned tr = skipn (List.length (all_returned (trace s0 pre))) (all_accepted (trace s0 pre)) /\
  Forall (fun j => (IMB_STATUS_COMPLETED <= jstat j)%Z) (all_jobs tr) /\
  queue_sz SZ NJ (final R (map Flush Ds)) = 0%Z /\
  (exists m', empty_at (final R (map Flush Ds)) m') /\
  (forall D, snd (stepr (final R (map Flush Ds)) (Flush D)) = OJob None).
Proof. exact crash_flush_returns_all_in_order_thm. Qed.
Print Assumptions crash_flush_returns_all_in_order.

(* PARTIAL (static half of the address-space question), FINITE over Gen/GenLayout.v: every
   pointer-typed field of every MB_MGR_*_OOO struct is classified as pointing to caller memory or
   to the manager block itself, none into the library; no OOO struct holds a function pointer. *)
Theorem no_library_pointers_in_ooo_partial :
  forall r l, In r ooo_layouts -> In l (r_leaves r) ->
    (l_kind l = KPtr -> ptr_class (r_name r) (l_path l) = Some PCaller \/ ptr_class (r_name r) (l_path l) = Some PManager) /\
    l_kind l <> KFnPtr.
Proof. exact no_library_pointers_in_ooo_thm. Qed.
Print Assumptions no_library_pointers_in_ooo_partial.
