(* Props/Properties_C09.v — property C09: the same work item yields identical output, tag and
   status through every entry point.  Theorems about the MODEL of the synchronous burst loops
   (Mgr/SyncBurst.v over the lane scheduler Mgr/Ooo.v) and of the n-buffer group-splitting
   skeletons; proofs in Proofs/SyncBurstProofs.v.  That the library's routines are instances of
   these models, and everything about direct functions with their own assembly (GCM one-shot,
   SHA one-shot, CRC, QUIC helpers ...) is established by the differential harnesses only. *)
From Coq Require Import ZArith List Bool Lia Permutation.
From IMB Require Import Mgr.Ooo Proofs.OooProofs Mgr.SyncBurst Proofs.SyncBurstProofs.
Import ListNotations.
Local Open Scope Z_scope.

(* A synchronous burst (submit every job, then flush until the manager returns NULL, the flush
   loop bounded by L iterations) on ANY list of acceptable jobs (length below the 0xFFFF idle-lane
   sentinel), for ANY lane count L >= 1 and ANY chunk-compositional lane kernel, started on a
   manager satisfying the scheduler invariant with all lanes free (e.g. after reset or after a
   previous burst): the number of jobs handed back equals the number submitted (the function's
   return value = n_jobs), the jobs handed back are exactly the submitted ones (each is marked
   COMPLETED), the manager is empty again afterwards (so L flush iterations always suffice and
   the next burst starts from the same condition), and each returned job carries the state it
   reaches when processed alone. *)
Theorem sync_burst_all_completed :
  forall (J St : Type) (init : J -> St) (units : J -> Z) (step : St -> Z -> St) (L : nat),
  (1 <= L)%nat ->
  (forall s, step s 0 = s) ->
  (forall s a b, 0 <= a -> 0 <= b -> step (step s a) b = step s (a + b)) ->
  forall (o : ooo J St) (js : list J),
  Inv1 J St init units step L o ->
  (forall l, (l < L)%nat -> job o l = None) ->
  Forall (job_ok J units) js ->
  let '(o', rs) := sync_burst J St init units step L o js in
  length rs = length js /\
  Permutation (map fst rs) js /\
  (forall l, (l < L)%nat -> job o' l = None) /\
  Inv1 J St init units step L o' /\
  Forall (fun r => snd r = step (init (fst r)) (units (fst r))) rs.
Proof. exact sync_burst_all_completed_thm. Qed.
Print Assumptions sync_burst_all_completed.

(* The burst is literally the job-API operation sequence  submit j1; ...; submit jn; flush x L
   of the same manager (Ooo.orun): same final manager state, same jobs handed back in the same
   order.  (The early exit "completed_jobs == n_jobs" and the stop at the first NULL are sound.) *)
Theorem sync_burst_is_job_api_sequence :
  forall (J St : Type) (init : J -> St) (units : J -> Z) (step : St -> Z -> St) (L : nat),
  (1 <= L)%nat ->
  (forall s, step s 0 = s) ->
  (forall s a b, 0 <= a -> 0 <= b -> step (step s a) b = step s (a + b)) ->
  forall (o : ooo J St) (js : list J),
  Inv1 J St init units step L o ->
  (forall l, (l < L)%nat -> job o l = None) ->
  Forall (job_ok J units) js ->
  sync_burst J St init units step L o js =
  (fst (orun J St init units step L o (sync_ops J js L)),
   somes (snd (orun J St init units step L o (sync_ops J js L)))).
Proof. exact SyncBurstProofs.sync_burst_is_job_api_sequence. Qed.
Print Assumptions sync_burst_is_job_api_sequence.

(* Every job a synchronous burst returns carries its alone result, i.e. the result of the single
   job API: corollary of C04's ooo_job_result_alone through the sequence above. *)
Theorem sync_burst_result_eq_job_api :
  forall (J St : Type) (init : J -> St) (units : J -> Z) (step : St -> Z -> St) (L : nat),
  (1 <= L)%nat ->
  (forall s, step s 0 = s) ->
  (forall s a b, 0 <= a -> 0 <= b -> step (step s a) b = step s (a + b)) ->
  forall (o : ooo J St) (js : list J),
  Inv1 J St init units step L o ->
  (forall l, (l < L)%nat -> job o l = None) ->
  Forall (job_ok J units) js ->
  Forall (fun r => snd r = step (init (fst r)) (units (fst r)))
         (snd (sync_burst J St init units step L o js)).
Proof. exact sync_burst_result_eq_job_api_thm. Qed.
Print Assumptions sync_burst_result_eq_job_api.

(* n-buffer direct calls, skeleton "groups of the lane count g, last group padded with copies of
   its last buffer": for ANY number of buffers (below, equal to or above g) of ANY unequal
   non-negative lengths, every buffer gets exactly the result of the 1-buffer function.
   Generic in the per-buffer kernel (init/step), which must be chunk-compositional. *)
Theorem nbuffer_eq_1buffer :
  forall (B St : Type) (init : B -> St) (units : B -> Z) (step : St -> Z -> St),
  (forall s a b, 0 <= a -> 0 <= b -> step (step s a) b = step s (a + b)) ->
  forall (g : nat) (bs : list B),
  (1 <= g)%nat ->
  Forall (fun b => 0 <= units b) bs ->
  nbuffer_padded B St init units step g bs = map (one_buffer B St init units step) bs.
Proof. exact nbuffer_padded_eq_1buffer. Qed.
Print Assumptions nbuffer_eq_1buffer.

(* skeleton "full groups of sizes 16, 8, 4, 2 (any descending list), remainder through the
   1-buffer function", with the library's preliminary re-ordering of the buffers by length
   (any permutation): the (buffer, result) association is that of the 1-buffer function. *)
Theorem nbuffer_greedy_sorted_eq_1buffer :
  forall (B St : Type) (init : B -> St) (units : B -> Z) (step : St -> Z -> St),
  (forall s a b, 0 <= a -> 0 <= b -> step (step s a) b = step s (a + b)) ->
  forall (sizes : list nat) (bs sorted : list B),
  Forall (fun g => (1 <= g)%nat) sizes ->
  Forall (fun b => 0 <= units b) bs ->
  Permutation sorted bs ->
  Permutation (nbuffer_sorted B St init units step sizes sorted)
              (map (fun b => (b, one_buffer B St init units step b)) bs).
Proof. exact nbuffer_sorted_eq_1buffer. Qed.
Print Assumptions nbuffer_greedy_sorted_eq_1buffer.
