(* Props/Properties_C07.v -- the obligations of property C07 (memory contract of a job).
   Statements only; proofs are in Proofs/FootprintProofs.v.  All theorems are about the CONTRACT
   (Struct/Footprint.v), generic over the algorithm function F; harness/k3_place.c enforces the same
   contract on the real library.  Nothing here is a statement about the kernels (C07 is PARTIAL). *)
From Coq Require Import NArith List Bool.
From IMB Require Import Lib.Bytes Struct.Footprint Proofs.FootprintProofs.
Local Open Scope N_scope.

(* Addresses outside the write ranges keep their value. *)
Theorem run_job_frame :
  forall (F : fview -> list bytes -> list bytes) j lay m a,
    ~ in_aranges a (W_abs j lay) -> run_job_mem F j lay m a = m a.
Proof. exact run_job_frame_thm. Qed.
Print Assumptions run_job_frame.

(* Non-interference: two memories that agree on the readable ranges (and on the bytes a masked
   write merges with) give the same inputs to the algorithm and the same value at every written
   address. *)
Theorem run_job_reads_only_R :
  forall (F : fview -> list bytes -> list bytes) j lay m1 m2,
    (forall a, in_aranges a (R_all j lay) -> m1 a = m2 a) ->
    job_inputs j lay m1 = job_inputs j lay m2 /\
    (forall a, in_aranges a (W_abs j lay) -> run_job_mem F j lay m1 a = run_job_mem F j lay m2 a).
Proof. exact run_job_reads_only_R_thm. Qed.
Print Assumptions run_job_reads_only_R.

(* Every range of the contract lies inside the caller object it is attributed to, for all accepted
   lengths and offsets. *)
Theorem footprint_within_objects :
  forall j r, accepted j = true -> In r (footprint_R j ++ footprint_W j) ->
              o_off r + o_len r <= obj_size j (o_obj r).
Proof. exact footprint_within_objects_thm. Qed.
Print Assumptions footprint_within_objects.

(* Out of place (objects pairwise disjoint) and no documented write into the source buffer:
   the source buffer is unchanged. *)
Theorem src_intact :
  forall (F : fview -> list bytes -> list bytes) j lay m a,
    accepted j = true -> oop_layout_ok j lay -> writes_src j = false ->
    in_arange a (obj_extent j lay OSrc) -> run_job_mem F j lay m a = m a.
Proof. exact src_intact_thm. Qed.
Print Assumptions src_intact.

(* In place (dst = src + offset, as the API documents) the destination bits are the bits an
   out-of-place run from the same memory writes. *)
Theorem inplace_eq_outofplace :
  forall (F : fview -> list bytes -> list bytes) j lay m i,
    accepted j = true -> ip_only j = false -> has_cipher j = true -> oop_layout_ok j lay ->
    N.land (run_job_mem F j (ip_layout j lay) m (lay OSrc + doff_ip j + i)) (dst_mask j i) =
    N.land (run_job_mem F j lay m (lay ODst + i)) (dst_mask j i).
Proof. exact inplace_eq_outofplace_thm. Qed.
Print Assumptions inplace_eq_outofplace.
