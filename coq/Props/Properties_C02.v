(* Props/Properties_C02.v — property C02: digest / MAC output equals the published algorithm for
   every valid input — structural layer (L2).  Statements for ALL lengths / keys / buffer
   contents; models in Struct/HmacPad.v, Struct/ShaMb.v, Struct/CmacLast.v (transcribed from the
   assembly / C sources cited there); proofs in Proofs/HashProofs.v, HmacProofs.v,
   HmacSpecProofs.v, HashInstProofs.v, ShaMbProofs.v, CmacProofs.v, GhashProofs.v.
   Not covered here (K1 differential testing carries them): the compression functions' SIMD
   code, CRC folding, Poly1305 limbs; associativity of the GF(2^128) product (see the _partial
   theorem at the end). *)
From Coq Require Import List NArith Bool Arith.
From IMB Require Import Lib.Bytes Struct.MemOps Struct.HmacPad Struct.ShaMb Struct.CmacLast
                        Spec.SHA Spec.MD5 Spec.SM3 Spec.HMAC Spec.AES Spec.CMAC Spec.GF128
                        Mgr.Ooo Mgr.OooInst Proofs.OooProofs Proofs.OooInstProofs
                        Proofs.HashProofs Proofs.HmacProofs Proofs.HmacSpecProofs
                        Proofs.HashInstProofs Proofs.ShaMbProofs Proofs.CmacProofs
                        Proofs.GhashProofs Proofs.C02Summary.
Import ListNotations.

(* ---- 1. Merkle–Damgård padding (sanity of the L1 definition) ---- *)

(* For every block size, length-field width, byte order, total length and data: the padded
   length is a multiple of B, minimal (less than B bytes beyond data + 0x80 + length field), the
   string starts with data ++ 0x80, ends with the encoded bit length, zeros in between. *)
Theorem md_pad_length :
  forall B L be total data, 0 < B ->
  let p := md_pad B L be total data in
  length p mod B = 0 /\
  length data + 1 + L <= length p < length data + 1 + L + B /\
  firstn (length data + 1) p = data ++ [128%N] /\
  skipn (length p - L) p = md_len_enc L be total /\
  Forall (fun b => b = 0%N) (firstn (length p - L - length data - 1) (skipn (length data + 1) p)).
Proof. exact md_pad_length_thm. Qed.
Print Assumptions md_pad_length.

(* Folding the compression function over a concatenation whose first part is whole blocks
   composes (what lets a lane be fed in several rounds). *)
Theorem md_blocks_app :
  forall B f st a b q, 0 < B -> length a = q * B ->
  md_blocks B f st (a ++ b) = md_blocks B f (md_blocks B f st a) b.
Proof. exact md_blocks_app_thm. Qed.
Print Assumptions md_blocks_app.

(* ---- 2. HMAC lanes ---- *)

(* For every message length (len_ok: no condition for B = 64; bit length < 2^64 for B = 128) and
   whatever the lane's extra_block held: the B*extra_blocks bytes at extra_block + start_offset
   are the last last_len message bytes followed by the padding of a (B+len)-byte message. *)
Theorem hmac_extra_block_is_padding :
  forall g, geom_ok g -> forall stale msg,
  length stale = hg_B g -> len_ok g (length msg) ->
  let len := length msg in
  lane_extra_bytes g stale msg =
    md_pad (hg_B g) (hg_L g) (hg_be g) (hg_B g + len) (skipn (len - last_len g len) msg) /\
  length (lane_extra_bytes g stale msg) = hg_B g * extra_blocks g len.
Proof. exact hmac_extra_block_is_padding_thm. Qed.
Print Assumptions hmac_extra_block_is_padding.

(* The 55/56 and 111/112 thresholds *)
Theorem hmac_extra_blocks_thresholds :
  forall len,
  extra_blocks G_SHA1_256 len = (if Nat.leb (len mod 64) 55 then 1 else 2) /\
  extra_blocks G_MD5 len = (if Nat.leb (len mod 64) 55 then 1 else 2) /\
  extra_blocks G_SHA512 len = (if Nat.leb (len mod 128) 111 then 1 else 2).
Proof. exact hmac_extra_blocks_thresholds_sum. Qed.
Print Assumptions hmac_extra_blocks_thresholds.

(* Blocks from the source followed by the extra blocks = md_pad (ipad block ++ message) minus
   its first block; fed in two phases to ANY compression function they give the fold over the
   standard's padded message. *)
Theorem hmac_lane_eq_spec :
  forall g, geom_ok g -> forall stale msg kblk f st,
  length stale = hg_B g -> len_ok g (length msg) -> length kblk = hg_B g ->
  kblk ++ lane_stream g stale msg =
    md_pad (hg_B g) (hg_L g) (hg_be g) (length (kblk ++ msg)) (kblk ++ msg) /\
  md_blocks (hg_B g) f (md_blocks (hg_B g) f st (lane_src_bytes g msg))
            (lane_extra_bytes g stale msg) =
    md_blocks (hg_B g) f st (md_pad (hg_B g) (hg_L g) (hg_be g) (hg_B g + length msg) msg).
Proof. exact hmac_lane_eq_spec_sum. Qed.
Print Assumptions hmac_lane_eq_spec.

(* proc_outer's 8-byte zero store restores the idle extra_block (pre-set 0x80, zeros after it) *)
Theorem hmac_extra_block_invariant :
  forall g, geom_ok g -> forall stale msg, length stale = hg_B g ->
  exists stale', length stale' = hg_B g /\
    extra_block_after_outer g stale msg = extra_block_idle g stale'.
Proof. exact hmac_extra_block_restored. Qed.
Print Assumptions hmac_extra_block_invariant.

(* For each of the six managers: the outer block (digest stored over the pre-set block) is the
   padding of the inner digest as tail of a (B + dlen)-byte message, and is one block long. *)
Theorem hmac_outer_eq_spec :
  forall c stale inner, In c all_outer_cfgs ->
  length stale = oc_dlen c -> length inner = oc_dlen c ->
  let g := oc_geom c in
  outer_block_filled c stale inner =
    md_pad (hg_B g) (hg_L g) (hg_be g) (hg_B g + oc_dlen c) inner /\
  length (outer_block_filled c stale inner) = hg_B g.
Proof. exact hmac_outer_eq_spec_thm. Qed.
Print Assumptions hmac_outer_eq_spec.

(* imb_hmac_ipad_opad + job = RFC 2104 HMAC for the seven hashes, every key length the helper
   accepts (None exactly when it refuses: MD5 with a key longer than one block), every message. *)
Theorem hmac_precomp_eq_hmac :
  forall X, In X all_md_hashes -> forall key msg,
  hmac_lib X key msg =
    (if Nat.ltb (md_block X) (length key) && negb (md_ipad_long_key X) then None
     else Some (hmac_md X key msg)) /\
  (forall i o, hmac_ipad_state X key = Some i -> hmac_opad_state X key = Some o ->
     hmac_precomp X i o msg = hmac_md X key msg).
Proof. exact hmac_precomp_eq_hmac_sum. Qed.
Print Assumptions hmac_precomp_eq_hmac.

(* End to end for the six asm HMAC managers: the tag computed through the lane geometry (copy,
   length store, two-phase feeding, pre-set outer block), from the helper's ipad/opad buffers,
   whatever the lane buffers held before, is RFC 2104 HMAC. *)
Theorem hmac_lane_eq_hmac :
  forall X c nw key msg i o stale_x stale_o,
  In (X, c, nw) lane_pairs ->
  hmac_ipad_state X key = Some i -> hmac_opad_state X key = Some o ->
  length stale_x = hg_B (oc_geom c) -> length stale_o = oc_dlen c ->
  len_ok (oc_geom c) (length msg) ->
  hmac_lane_tag X c i o stale_x stale_o msg = hmac_md X key msg.
Proof. exact hmac_lane_eq_hmac_thm. Qed.
Print Assumptions hmac_lane_eq_hmac.

(* Tag store = prefix of the digest *)
Theorem tag_truncation :
  forall t1 t2 d, t1 <= t2 ->
  (t2 <= length d -> length (tag_store t2 d) = t2) /\
  tag_store (length d) d = d /\
  tag_store t1 (tag_store t2 d) = tag_store t1 d /\
  (exists rest, tag_store t2 d = tag_store t1 d ++ rest).
Proof. exact tag_truncation_sum. Qed.
Print Assumptions tag_truncation.

(* ---- 3. plain SHA multi-buffer manager (C code) ---- *)

(* For every message length: the xblk_size bytes built by create_extra_blocks are the last r
   bytes followed by the padding; r >= blk_size - pad_size => 2 blocks is the standard's split. *)
Theorem sha_mb_extra_blocks_eq_pad :
  forall c, sha_mb_cfg_ok c -> forall msg, sha_mb_len_ok c (length msg) ->
  let len := length msg in
  sha_mb_extra_bytes c msg =
    md_pad (sm_B c) (sm_pad c) true len (skipn (len - sha_mb_r c len) msg) /\
  length (sha_mb_extra_bytes c msg) = sha_mb_xblk_size c len /\
  sha_mb_stream c msg = md_pad (sm_B c) (sm_pad c) true len msg.
Proof. exact sha_mb_extra_blocks_eq_pad_sum. Qed.
Print Assumptions sha_mb_extra_blocks_eq_pad.

(* Combined with the generic lane scheduler (C04): any number of lanes, any interleaving of
   submits and flushes — every returned SHA-1/224/256/384/512 job carries the FIPS 180-4 digest
   of its own message. *)
Theorem sha_mb_eq_spec :
  forall (L : nat), (1 <= L)%nat ->
  forall (o : ooo (fjob (list N) bytes unit) (flane (list N) bytes unit)) ps,
  Inv1 _ _ (finit _ _ _) (funits _ _ _) (fstep _ _ _) L o ->
  fjobs_ok _ _ _ ps ->
  Forall (fun r => match r with
                   | None => True
                   | Some (j, s) =>
                       forall X c msg, In (X, c) sha_mb_pairs ->
                         sha_mb_len_ok c (length msg) ->
                         j = sha_mb_job X c msg ->
                         md_digest X (fl_acc s) = md_full X msg
                   end) (snd (frun _ _ _ L o ps)).
Proof. exact sha_mb_eq_spec_thm. Qed.
Print Assumptions sha_mb_eq_spec.

(* ---- 4. CMAC / XCBC last block ---- *)

(* Generic in the block cipher: complete vs incomplete last block, K1/K2 choice, 10* padding,
   empty message — every byte length. *)
Theorem cmac_last_block_eq_spec :
  forall (E : bytes -> bytes) msg,
  cmac_lane_bytes E (fst (cmac_subkeys_gen E)) (snd (cmac_subkeys_gen E)) msg = cmac_gen E msg.
Proof. exact cmac_lane_bytes_eq_cmac_gen. Qed.
Print Assumptions cmac_last_block_eq_spec.

(* Bit-length variant: every bit length, every source buffer holding ceil(bits/8) bytes; the
   unused low bits of the last byte are masked, the padding bit inserted, always K2. *)
Theorem cmac_last_block_bits_eq_spec :
  forall (E : bytes -> bytes) msg bits,
  cmac_len_bytes bits <= length msg ->
  cmac_lane E (fst (cmac_subkeys_gen E)) (snd (cmac_subkeys_gen E)) msg bits =
  cmac_bits_gen E msg bits.
Proof. exact cmac_lane_bits_eq_spec. Qed.
Print Assumptions cmac_last_block_bits_eq_spec.

(* AES instances: Spec.CMAC.cmac / cmac_bits *)
Theorem cmac_lane_eq_cmac_aes :
  forall key msg bits,
  cmac_lane_bytes (aes_enc_rk (aes_key_expand key)) (fst (cmac_subkeys key))
                  (snd (cmac_subkeys key)) msg = cmac key msg /\
  (cmac_len_bytes bits <= length msg ->
   cmac_lane (aes_enc_rk (aes_key_expand key)) (fst (cmac_subkeys key))
             (snd (cmac_subkeys key)) msg bits = cmac_bits key msg bits).
Proof. exact cmac_lane_eq_cmac_aes_sum. Qed.
Print Assumptions cmac_lane_eq_cmac_aes.

(* XCBC: small_buffer / fast_copy / slow_copy paths, whatever the 32-byte scratch held. *)
Theorem xcbc_last_block_eq_spec :
  forall (E : bytes -> bytes) k2 k3 stale msg, length stale = 32 ->
  xcbc_lane E k2 k3 stale msg = xcbc_mac_gen E k2 k3 msg.
Proof. exact xcbc_lane_eq_spec. Qed.
Print Assumptions xcbc_last_block_eq_spec.

Theorem xcbc_lane_eq_xcbc_aes :
  forall key stale msg, length stale = 32 ->
  xcbc_lane (aes_enc_rk (fst (fst (xcbc_keys key)))) (snd (fst (xcbc_keys key)))
            (snd (xcbc_keys key)) stale msg = xcbc key msg.
Proof. exact xcbc_lane_eq_xcbc. Qed.
Print Assumptions xcbc_lane_eq_xcbc_aes.

(* ---- 5. GHASH: Horner form = sum of H-power products ---- *)

(* Generic in any structure with associative addition with right unit and an associative
   product distributing over addition on the left argument. *)
Theorem ghash_horner_eq_powersum :
  forall (R : Type) (add mul : R -> R -> R) (zero : R),
  (forall a b c, add (add a b) c = add a (add b c)) ->
  (forall a, add a zero = a) ->
  (forall a b c, mul (mul a b) c = mul a (mul b c)) ->
  (forall a b c, mul (add a b) c = add (mul a c) (mul b c)) ->
  forall h t x y0,
  horner R add mul h (x :: t) y0 =
    add (mul y0 (hpow R mul h (length t))) (powersum R add mul zero h (x :: t)) /\
  horner R add mul h (x :: t) y0 = powersum R add mul zero h (add y0 x :: t).
Proof. exact ghash_horner_eq_powersum_sum. Qed.
Print Assumptions ghash_horner_eq_powersum.

(* The concrete bit-loop product is xor-linear in each argument. *)
Theorem gf128_mul_bilinear :
  forall a b y,
  gf128_mul (N.lxor a b) y = N.lxor (gf128_mul a y) (gf128_mul b y) /\
  gf128_mul y (N.lxor a b) = N.lxor (gf128_mul y a) (gf128_mul y b).
Proof. exact gf128_mul_bilinear_sum. Qed.
Print Assumptions gf128_mul_bilinear.

(* PARTIAL: the concrete GHASH instance is conditional on associativity of gf128_mul, which is
   NOT proved (K1 differential testing carries GHASH). *)
Theorem ghash_horner_eq_powersum_concrete_partial :
  forall h,
  (forall a b c, gf128_mul (gf128_mul a b) c = gf128_mul a (gf128_mul b c)) ->
  forall b t y0,
  ghash_fold h y0 (b :: t) =
  N.lxor (gf128_mul y0 (hpow N gf128_mul h (length t)))
         (powersum N N.lxor gf128_mul 0%N h (map ghash_block_val (b :: t))).
Proof. exact ghash_horner_eq_powersum_partial. Qed.
Print Assumptions ghash_horner_eq_powersum_concrete_partial.
