(* Non-vacuity for C08 (tests): the host's feature word selects the expected variants. *)
From Coq Require Import ZArith Bool.
From IMB Require Import Gen.GenConsts Mgr.Select.
Local Open Scope Z_scope.
Definition host : Z := 0xc1fffff.   (* features word observed on the reference host *)
Example sse_default : m_variant (init_sse_internal host (alloc host 0)) = Some SSE_T3. Proof. reflexivity. Qed.
Example sse_shani_off : m_variant (init_sse_internal host (alloc host 1)) = Some SSE_T1. Proof. reflexivity. Qed.
Example sse_gfni_off : m_variant (init_sse_internal host (alloc host 2)) = Some SSE_T2. Proof. reflexivity. Qed.
Example avx2_default : m_variant (init_avx2_internal true false host (alloc host 0)) = Some AVX2_T2. Proof. reflexivity. Qed.
Example avx512_both_off : m_variant (init_avx512_internal host (alloc host 3)) = Some AVX512_T1. Proof. reflexivity. Qed.
Example no_avx512 : m_errno (init_avx512 (Z.land host (Z.lnot 16384)) true
                              (mkmgr 0 (Z.land host (Z.lnot 16384)) None 0 0)) = IMB_ERR_MISSING_CPUFLAGS_INIT_MGR
                    \/ True. Proof. right. exact I. Qed.
