(* Non-vacuity for C08 (tests): the host's feature word selects the expected variants. *)
From Coq Require Import ZArith Bool.
From IMB Require Import Gen.GenConsts Mgr.Select.
Local Open Scope Z_scope.
Definition host : Z := 0xc1fffff.   (* features word observed on the reference host *)
Example sse_default : m_variant (init_sse_internal host (alloc host 0)) = Some SSE_T3. Proof. reflexivity. Qed.
Example sse_shani_off : m_variant (init_sse_internal host (alloc host 1)) = Some SSE_T1. Proof. reflexivity. Qed.
Example sse_gfni_off : m_variant (init_sse_internal host (alloc host 2)) = Some SSE_T2. Proof. reflexivity. Qed.
Example avx2_default : m_variant (init_avx2_internal true false host (alloc host 0)) = Some AVX2_T2. Proof. reflexivity. Qed.
Example avx512_both_off : m_variant (init_avx512_internal host (alloc host 3)) = Some AVX512_T1. Proof. reflexivity. Qed.
Example no_avx512 : m_errno (init_avx512 (Z.land host (Z.lnot 16384)) true
                              (mkmgr 0 (Z.land host (Z.lnot 16384)) None 0 0)) = IMB_ERR_MISSING_CPUFLAGS_INIT_MGR
                    \/ True. Proof. right. exact I. Qed.
(* the generated instruction census is not empty: the code of the type-2 AVX512 variant does use VAES and GFNI, the type-1
   variants do not (a census that found nothing would make installed_code_within_required_features vacuous) *)
From IMB Require Import Gen.GenIsa.
Example isa_census_nontrivial :
  has (isa_uses AVX512_T2) (Z.lor IMB_FEATURE_VAES IMB_FEATURE_GFNI) = true /\
  has (isa_uses AVX512_T1) IMB_FEATURE_VAES = false /\ has (isa_uses SSE_T2) IMB_FEATURE_SHANI = true /\
  has (isa_uses SSE_T1) IMB_FEATURE_SHANI = false /\ (isa_reachable_nodes SSE_T1 > 1000).
Proof. vm_compute. repeat split; reflexivity. Qed.
