(* Props/Properties_C04.v — property C04: a job's result depends only on itself, not on
   co-scheduled jobs.  Theorems about the generic multi-buffer lane scheduler (Mgr/Ooo.v) and its
   block-fold lane kernels (Mgr/OooInst.v); proofs in Proofs/OooProofs.v, Proofs/OooInstProofs.v. *)
From Coq Require Import ZArith List Bool Lia.
From IMB Require Import Lib.Bytes Mgr.Ooo Mgr.OooInst Proofs.OooProofs Proofs.OooInstProofs
                        Spec.AES Spec.AESModes.
Import ListNotations.
Local Open Scope Z_scope.

(* For ANY lane kernel that is chunk-compositional, any number of lanes, and any interleaving of
   submits (of jobs whose length fits below the 0xFFFF idle-lane sentinel) and flushes starting
   from a state satisfying the invariant (e.g. reset): every job handed back carries exactly the
   lane state it reaches when processed alone from its own initial state. *)
Theorem ooo_job_result_alone :
  forall (J St : Type) (init : J -> St) (units : J -> Z) (step : St -> Z -> St) (L : nat),
  (1 <= L)%nat ->
  (forall s, step s 0 = s) ->
  (forall s a b, 0 <= a -> 0 <= b -> step (step s a) b = step s (a + b)) ->
  forall (ps : list (oop J)) (o : ooo J St),
  Inv1 J St init units step L o -> jobs_ok J units ps ->
  Forall (fun r => match r with None => True | Some (j, s) => s = step (init j) (units j) end)
         (snd (orun J St init units step L o ps)).
Proof. exact ooo_job_result_alone_thm. Qed.
Print Assumptions ooo_job_result_alone.

(* The scheduler invariant holds in every reachable state: the unused-lanes stack and the busy
   lanes partition the lanes (no lane is allocated twice), the length of a busy lane never
   underflows and its kernel state is exactly "units done so far", one lane is free between calls. *)
Theorem ooo_invariant :
  forall (J St : Type) (init : J -> St) (units : J -> Z) (step : St -> Z -> St) (L : nat),
  (1 <= L)%nat ->
  (forall s, step s 0 = s) ->
  (forall s a b, 0 <= a -> 0 <= b -> step (step s a) b = step s (a + b)) ->
  forall (ps : list (oop J)) (o : ooo J St),
  Inv1 J St init units step L o -> jobs_ok J units ps ->
  Inv1 J St init units step L (fst (orun J St init units step L o ps)).
Proof. exact ooo_invariant_thm. Qed.
Print Assumptions ooo_invariant.

Theorem ooo_reset_invariant :
  forall (J St : Type) (init : J -> St) (units : J -> Z) (step : St -> Z -> St) (L : nat) (s0 : St),
  (1 <= L)%nat -> Inv1 J St init units step L (reset J St L s0).
Proof. intros. apply reset_inv. assumption. Qed.
Print Assumptions ooo_reset_invariant.

(* flush never completes an idle (copied) lane: it returns a job iff a lane is busy, and that job
   was in flight *)
Theorem flush_never_selects_empty_lane :
  forall (J St : Type) (init : J -> St) (units : J -> Z) (step : St -> Z -> St) (L : nat),
  (1 <= L)%nat ->
  (forall s, step s 0 = s) ->
  (forall s a b, 0 <= a -> 0 <= b -> step (step s a) b = step s (a + b)) ->
  forall o : ooo J St, Inv1 J St init units step L o ->
  let '(o', r) := flush J St step L o in
  Inv1 J St init units step L o' /\
  match r with
  | None => forall l, (l < L)%nat -> job o l = None
  | Some (j', s') => s' = step (init j') (units j') /\ exists l, (l < L)%nat /\ job o l = Some j'
  end.
Proof. intros J St init units step L HL H0 Ha o HI. exact (flush_spec J St init units step L HL Ha o HI). Qed.
Print Assumptions flush_never_selects_empty_lane.

(* Block-fold kernels (CBC encryption, CBC-MAC, Merkle-Damgard hashes, ...): under any schedule
   the accumulator and the emitted blocks of a returned job are those of its alone run. *)
Theorem fold_lane_any_schedule :
  forall (A B O : Type) (L : nat), (1 <= L)%nat ->
  forall (o : ooo (fjob A B O) (flane A B O)) (ps : list (oop (fjob A B O))),
  Inv1 _ _ (finit A B O) (funits A B O) (fstep A B O) L o -> fjobs_ok A B O ps ->
  Forall (fun r => match r with
                   | None => True
                   | Some (j, s) => (fl_acc s, fl_out s) = falone A B O j /\ fl_todo s = []
                   end) (snd (frun A B O L o ps)).
Proof. exact fold_schedule_result. Qed.
Print Assumptions fold_lane_any_schedule.

(* AES-CBC encryption (generic in the block cipher E carried by each job): whatever else shares
   the lanes, the ciphertext blocks of a returned job are the CBC encryption of its own blocks
   under its own IV, as Spec/AESModes.v defines it. *)
Theorem cbc_enc_any_schedule_eq_spec :
  forall (L : nat), (1 <= L)%nat ->
  forall (o : ooo (fjob bytes bytes bytes) (flane bytes bytes bytes)) ps,
  Inv1 _ _ (finit _ _ _) (funits _ _ _) (fstep _ _ _) L o -> fjobs_ok _ _ _ ps ->
  Forall (fun r => match r with
                   | None => True
                   | Some (j, s) =>
                       forall E iv blocks, j = cbc_enc_job E iv blocks ->
                       fl_out s = cbc_enc_blocks E iv blocks
                   end) (snd (frun _ _ _ L o ps)).
Proof.
  intros L HL o ps HI Hok.
  eapply Forall_impl; [|exact (fold_schedule_result _ _ _ L HL o ps HI Hok)].
  intros [[j s]|] H; [|exact I]. intros E iv blocks ->. destruct H as (H & _).
  unfold falone, cbc_enc_job in H. cbn [fj_f fj_acc fj_in] in H.
  rewrite <- cbc_enc_fold. rewrite <- H. reflexivity.
Qed.
Print Assumptions cbc_enc_any_schedule_eq_spec.

(* Multi-buffer hashing: the digest state of a returned job is the fold of the compression
   function over its own blocks from its own initial state. *)
Theorem md_hash_any_schedule_eq_spec :
  forall (L : nat), (1 <= L)%nat ->
  forall (o : ooo (fjob (list N) bytes unit) (flane (list N) bytes unit)) ps,
  Inv1 _ _ (finit _ _ _) (funits _ _ _) (fstep _ _ _) L o -> fjobs_ok _ _ _ ps ->
  Forall (fun r => match r with
                   | None => True
                   | Some (j, s) =>
                       forall compress iv blocks, j = md_job compress iv blocks ->
                       fl_acc s = fold_left compress blocks iv
                   end) (snd (frun _ _ _ L o ps)).
Proof.
  intros L HL o ps HI Hok.
  eapply Forall_impl; [|exact (fold_schedule_result _ _ _ L HL o ps HI Hok)].
  intros [[j s]|] H; [|exact I]. intros compress iv blocks ->. destruct H as (H & _).
  unfold falone, md_job in H. cbn [fj_f fj_acc fj_in] in H.
  rewrite <- md_fold. rewrite <- H. reflexivity.
Qed.
Print Assumptions md_hash_any_schedule_eq_spec.

(* Progress (the contract the in-order ring assumes of complete_job(), Mgr/Ring.v op_ok): a job
   parked in lane l is handed back after at most as many flushes of its manager as there are busy
   lanes; the invariant holds in between. *)
Theorem flush_drains_any_lane :
  forall (J St : Type) (init : J -> St) (units : J -> Z) (step : St -> Z -> St) (L : nat),
  (1 <= L)%nat ->
  (forall s, step s 0 = s) ->
  (forall s a b, 0 <= a -> 0 <= b -> step (step s a) b = step s (a + b)) ->
  forall n (o : ooo J St) l,
  Inv1 J St init units step L o -> (l < L)%nat -> job o l <> None -> (L - length (unused o) <= n)%nat ->
  exists k, (k <= n)%nat /\ job (flush_n J St step L k o) l = None /\
            Inv1 J St init units step L (flush_n J St step L k o).
Proof. intros J St init units step L HL H0 Ha. exact (flush_drains_lane J St init units step L HL Ha). Qed.
Print Assumptions flush_drains_any_lane.
