(* Props/Properties_C03.v — property C03: AEAD and combined modes equal their specification in
   both directions — structural layer (L2).  Statements for ALL keys / IVs / nonces / AAD /
   texts / tag lengths; generic in the block function where Spec is generic, then instantiated
   with AES (the only fact used about AES: 16-byte blocks go to 16-byte blocks, proved for every
   key in Proofs/AesLenProofs.v).  Models of the library's byte layouts in Struct/CcmFormat.v,
   Struct/GcmFormat.v; proofs in Proofs/AeadProofs.v, SnowvProofs.v, CcmFormatProofs.v,
   GcmFormatProofs.v, GeomProofs.v.  (GHASH Horner / bilinearity: Props/Properties_C02.v.)
   Not covered here (K1 carries them): the stitched counter / GHASH kernels themselves, SM4-GCM. *)
From Coq Require Import List NArith Bool Arith.
From IMB Require Import Lib.Bytes Struct.MemOps Struct.CcmFormat Struct.GcmFormat
                        Spec.AES Spec.GF128 Spec.GCM Spec.CCM Spec.ChaCha20 Spec.ChaChaPoly
                        Spec.SNOWV Spec.CRC Spec.PON
                        Proofs.AesLenProofs Proofs.AeadProofs Proofs.SnowvProofs
                        Proofs.CcmFormatProofs Proofs.GcmFormatProofs Proofs.GeomProofs
                        Proofs.C03Summary.
Import ListNotations.

(* ---- 1. decrypt(encrypt) = plaintext AND identical tag ---- *)

(* AES-GCM: every key, every IV length (12-byte fast path and GHASH path, even the empty IV),
   every AAD / plaintext / tag length *)
Theorem gcm_dec_enc :
  forall key iv aad pt taglen,
  gcm_dec key iv aad (fst (gcm_enc key iv aad pt taglen)) taglen =
  (pt, snd (gcm_enc key iv aad pt taglen)).
Proof. exact gcm_dec_enc_thm. Qed.
Print Assumptions gcm_dec_enc.

(* generic in the block function *)
Theorem gcm_dec_enc_generic :
  forall (E : bytes -> bytes), (forall x, length x = 16 -> length (E x) = 16) ->
  forall iv aad pt taglen,
  gcm_dec_gen E iv aad (fst (gcm_enc_gen E iv aad pt taglen)) taglen =
    (pt, snd (gcm_enc_gen E iv aad pt taglen)) /\
  length (fst (gcm_enc_gen E iv aad pt taglen)) = length pt.
Proof. exact gcm_dec_enc_generic_sum. Qed.
Print Assumptions gcm_dec_enc_generic.

(* the hypothesis of the generic theorems holds for AES under every key *)
Theorem aes_block_function_length :
  forall key x, length x = 16 -> length (aes_enc_rk (aes_key_expand key) x) = 16.
Proof. exact aes_block_length_sum. Qed.
Print Assumptions aes_block_function_length.

(* GMAC = GCM with empty plaintext *)
Theorem gmac_is_gcm_with_empty_pt :
  forall key iv msg taglen, gcm_enc key iv msg [] taglen = ([], gmac key iv msg taglen).
Proof. exact gmac_is_gcm_with_empty_pt_thm. Qed.
Print Assumptions gmac_is_gcm_with_empty_pt.

(* AES-CCM: every key, every nonce of at most 15 bytes (all of 7..13), AAD, plaintext, tag length *)
Theorem ccm_dec_enc :
  forall key nonce aad pt taglen, length nonce <= 15 ->
  ccm_dec key nonce aad (fst (ccm_enc key nonce aad pt taglen)) taglen =
  (pt, snd (ccm_enc key nonce aad pt taglen)).
Proof. exact ccm_dec_enc_thm. Qed.
Print Assumptions ccm_dec_enc.

Theorem ccm_dec_enc_generic :
  forall (E : bytes -> bytes), (forall x, length x = 16 -> length (E x) = 16) ->
  forall nonce aad pt taglen, length nonce <= 15 ->
  ccm_dec_gen E nonce aad (fst (ccm_enc_gen E nonce aad pt taglen)) taglen =
    (pt, snd (ccm_enc_gen E nonce aad pt taglen)).
Proof. exact ccm_dec_enc_generic_sum. Qed.
Print Assumptions ccm_dec_enc_generic.

(* ChaCha20-Poly1305: every key / nonce / AAD / plaintext *)
Theorem chachapoly_dec_enc :
  forall key nonce aad pt,
  chachapoly_dec key nonce aad (fst (chachapoly_enc key nonce aad pt)) =
  (pt, snd (chachapoly_enc key nonce aad pt)).
Proof. exact chachapoly_dec_enc_thm. Qed.
Print Assumptions chachapoly_dec_enc.

(* SNOW-V-AEAD: every key / IV / AAD / plaintext *)
Theorem snowv_aead_dec_enc :
  forall key iv aad pt,
  snowv_aead_dec key iv aad (fst (snowv_aead_enc key iv aad pt)) =
  (pt, snd (snowv_aead_enc key iv aad pt)).
Proof. exact snowv_aead_dec_enc_thm. Qed.
Print Assumptions snowv_aead_dec_enc.

(* ---- 2. GCM formats ---- *)

(* 12-byte IV: J0 = IV || 0^31 1; any other length: J0 = GHASH(IV || 0-pad || 0^64 || [len]_64) *)
Theorem gcm_j0_12_vs_general :
  forall h iv,
  (length iv = 12 ->
     gcm_j0 h iv = iv ++ [0; 0; 0; 1]%N /\ length (gcm_j0 h iv) = 16 /\
     firstn 12 (gcm_j0 h iv) = iv /\ be_to_N (skipn 12 (gcm_j0 h iv)) = 1%N) /\
  (length iv <> 12 ->
     gcm_j0 h iv =
     N_to_be 16 (ghash_gen h (zpad16 iv ++ zeros 8 ++ be64 (8 * N.of_nat (length iv))))).
Proof. exact gcm_j0_12_vs_general_thm. Qed.
Print Assumptions gcm_j0_12_vs_general.

(* the register-level formulas of GCM_INIT / CALC_J0 / GCM_COMPLETE are Spec's J0 and tag *)
Theorem gcm_lib_format_eq_spec :
  forall (E : bytes -> bytes) h iv j0 aad ct taglen,
  gcm_lib_j0 h iv = gcm_j0 h iv /\
  gcm_lib_tag E h j0 aad ct taglen = gcm_tag E h j0 aad ct taglen.
Proof. exact gcm_lib_format_sum. Qed.
Print Assumptions gcm_lib_format_eq_spec.

(* a taglen-byte tag is the prefix of the 16-byte tag; ciphertext independent of taglen *)
Theorem gcm_tag_truncation :
  forall key iv aad pt taglen, taglen <= 16 ->
  fst (gcm_enc key iv aad pt taglen) = fst (gcm_enc key iv aad pt 16) /\
  snd (gcm_enc key iv aad pt taglen) = firstn taglen (snd (gcm_enc key iv aad pt 16)) /\
  length (snd (gcm_enc key iv aad pt taglen)) = taglen /\
  length (fst (gcm_enc key iv aad pt taglen)) = length pt.
Proof. exact gcm_tag_truncation_thm. Qed.
Print Assumptions gcm_tag_truncation.

(* ---- 3. CCM formats ---- *)

(* the tag has exactly taglen bytes; the ciphertext does not depend on taglen (the tag itself
   does, through B0's flags, so a short tag is not a prefix of a long one) *)
Theorem ccm_tag_truncation :
  forall key nonce aad pt taglen, length nonce <= 15 -> taglen <= 16 ->
  length (snd (ccm_enc key nonce aad pt taglen)) = taglen /\
  length (fst (ccm_enc key nonce aad pt taglen)) = length pt /\
  fst (ccm_enc key nonce aad pt taglen) = fst (ccm_enc key nonce aad pt 16).
Proof. exact ccm_tag_truncation_thm. Qed.
Print Assumptions ccm_tag_truncation.

(* flags byte = 64*[aad>0] + 8*((t-2)/2) + (q-1), q = 15-n, complete domain n in 7..13,
   t in {4,6,..,16} *)
Theorem ccm_flags_format :
  forall n t a, In n ccm_nonce_lens -> In t ccm_tag_lens ->
  let q := (15 - n)%nat in
  ccm_lib_flags (N.of_nat n) (N.of_nat t) a =
    ((if a then 64 else 0) + 8 * (N.of_nat ((t - 2) / 2)) + (N.of_nat q - 1))%N /\
  ccm_lib_flags (N.of_nat n) (N.of_nat t) a =
    ((if a then 64 else 0) + 8 * N.div2 (N.of_nat t - 2) + (N.of_nat q - 1))%N /\
  (ccm_lib_flags (N.of_nat n) (N.of_nat t) a < 128)%N.
Proof. exact ccm_flags_format_thm. Qed.
Print Assumptions ccm_flags_format.

(* the stored block 0 (per-length nonce inserts, 16-bit length store) is Spec's B0; the message
   length fits in q bytes for every accepted length *)
Theorem ccm_b0_format :
  forall iv taglen a mlen,
  7 <= length iv <= 13 -> In taglen ccm_tag_lens -> (mlen < 2 ^ 16)%N ->
  let q := (15 - length iv)%nat in
  ccm_lib_b0 iv taglen a mlen = ccm_b0 iv a taglen mlen /\
  length (ccm_lib_b0 iv taglen a mlen) = 16 /\
  hd 0%N (ccm_lib_b0 iv taglen a mlen) =
    ((if a then 64 else 0) + 8 * (N.of_nat ((taglen - 2) / 2)) + (N.of_nat q - 1))%N /\
  (mlen < 2 ^ (8 * N.of_nat q))%N /\
  N_to_be q mlen = zeros (q - 2) ++ N_to_be 2 mlen.
Proof. exact ccm_b0_format_thm. Qed.
Print Assumptions ccm_b0_format.

(* AAD: 2-byte big-endian length (the form RFC 3610 prescribes below 0xFF00), AAD, zero padding
   — for every AAD of 1..46 bytes and whatever the 64-byte area held *)
Theorem ccm_aad_blocks_format :
  forall stale iv aad taglen mlen,
  length stale = 64 -> 7 <= length iv <= 13 -> 1 <= length aad <= 46 ->
  firstn (ccm_lib_auth_len (length aad)) (ccm_lib_init_blocks stale iv aad taglen mlen) =
  ccm_lib_b0 iv taglen true mlen ++ zpad16 (N_to_be 2 (N.of_nat (length aad)) ++ aad).
Proof. exact ccm_init_blocks_layout. Qed.
Print Assumptions ccm_aad_blocks_format.

Theorem ccm_aad_len_encoding :
  forall al, (0 < al < 65280)%N -> ccm_aad_len_enc al = N_to_be 2 al /\ w16 al = al.
Proof. exact ccm_aad_len_enc_2byte. Qed.
Print Assumptions ccm_aad_len_encoding.

(* hence the lane's CBC-MAC value is Spec's T, generic in the block function *)
Theorem ccm_lane_mac_eq_spec :
  forall (E : bytes -> bytes) stale iv aad msg taglen,
  length stale = 64 -> 7 <= length iv <= 13 -> In taglen ccm_tag_lens ->
  length aad <= 46 -> (N.of_nat (length msg) < 2 ^ 16)%N ->
  ccm_lane_mac E stale iv aad msg taglen = ccm_cbcmac E iv aad msg taglen.
Proof. exact CcmFormatProofs.ccm_lane_mac_eq_spec. Qed.
Print Assumptions ccm_lane_mac_eq_spec.

(* ---- 4. DOCSIS / PON geometry ---- *)

Theorem docsis_crc_geometry :
  forall buf ho hl co cl,
  (docsis_job_geometry_accepted ho hl co cl = true -> cl <> 0 -> hl <> 0 ->
     cl + 8 <= hl /\ ho + 12 <= co) /\
  (docsis_crc_enabled hl = true <-> 14 <= hl) /\
  (docsis_crc_enabled hl = false ->
     docsis_crc_insert buf ho hl = buf /\ docsis_crc_tag buf ho hl = None) /\
  (docsis_crc_enabled hl = true -> ho + hl + 4 <= length buf ->
     let buf1 := docsis_crc_insert buf ho hl in
     let crc := le32 (docsis_crc32 (slice buf ho hl)) in
     length buf1 = length buf /\
     slice buf1 (ho + hl) 4 = crc /\
     firstn (ho + hl) buf1 = firstn (ho + hl) buf /\
     skipn (ho + hl + 4) buf1 = skipn (ho + hl + 4) buf /\
     slice buf1 ho hl = slice buf ho hl /\
     docsis_crc_tag buf ho hl = Some crc) /\
  (docsis_geometry_std ho hl co cl = true -> cl <> 0 -> docsis_crc_enabled hl = true ->
     ho + 12 <= co /\ (4 <= cl -> co <= ho + hl) /\ co + cl = ho + hl + 4).
Proof. exact docsis_crc_geometry_thm. Qed.
Print Assumptions docsis_crc_geometry.

(* both directions, generic in the BPI cipher *)
Theorem docsis_dec_enc :
  forall bpi_enc bpi_dec key iv buf ho hl co cl,
  (forall m, length (bpi_enc key iv m) = length m) ->
  (forall m, length (bpi_dec key iv m) = length m) ->
  (forall m, bpi_dec key iv (bpi_enc key iv m) = m) ->
  co + cl <= length buf ->
  (docsis_crc_enabled hl = true -> ho + hl + 4 <= length buf) ->
  docsis_crc_dec bpi_dec key iv (fst (docsis_crc_enc bpi_enc key iv buf ho hl co cl)) ho hl co cl =
  (docsis_crc_insert buf ho hl, snd (docsis_crc_enc bpi_enc key iv buf ho hl co cl)).
Proof. exact docsis_dec_enc_thm. Qed.
Print Assumptions docsis_dec_enc.

Theorem pon_geometry :
  forall ctr key iv buf,
  8 <= length buf ->
  (forall m, length (ctr key iv m) = length m) ->
  let payload := skipn pon_hdr_len buf in
  let pli := pon_pli buf in
  ((pli <= 4)%N \/ (pli <= N.of_nat (length payload))%N) ->
  (pli < 2 ^ 14)%N /\
  (pon_crc_enabled buf = true <-> (4 < pli)%N) /\
  (pon_crc_enabled buf = true ->
     pon_crc_len buf + 4 = N.to_nat pli /\ pon_crc_len buf + 4 <= length payload /\
     pon_hdr_len + pon_crc_len buf + 4 <= length buf) /\
  length (fst (pon_enc ctr key iv buf)) = length buf /\
  length (snd (pon_enc ctr key iv buf)) = (if pon_crc_enabled buf then 8 else 4) /\
  length (fst (pon_dec ctr key iv buf)) = length buf /\
  length (snd (pon_dec ctr key iv buf)) = (if pon_crc_enabled buf then 8 else 4).
Proof. exact pon_geometry_thm. Qed.
Print Assumptions pon_geometry.

(* no-cipher mode (msg_len_to_cipher = 0): the payload is only CRC-patched *)
Theorem pon_no_ctr_mode :
  forall key iv buf, 8 <= length buf ->
  (pon_crc_enabled buf = true -> pon_crc_len buf + 4 <= length buf - 8) ->
  skipn 8 (fst (pon_enc pon_no_ctr key iv buf)) =
  (if pon_crc_enabled buf
   then splice (skipn 8 buf) (pon_crc_len buf)
          (le32 (crc32_ethernet_fcs (firstn (pon_crc_len buf) (skipn 8 buf))))
   else skipn 8 buf).
Proof. exact pon_no_ctr_payload. Qed.
Print Assumptions pon_no_ctr_mode.

(* both directions: the HEC rewrite keeps the PLI, decrypt restores the CRC-patched payload and
   reports the identical BIP / CRC tag *)
Theorem pon_dec_enc :
  forall ctr key iv buf,
  8 <= length buf ->
  (forall m, length (ctr key iv m) = length m) ->
  (forall m, ctr key iv (ctr key iv m) = m) ->
  ((pon_pli buf <= 4)%N \/ (pon_pli buf <= N.of_nat (length buf - 8))%N) ->
  let enc := pon_enc ctr key iv buf in
  let payload := skipn pon_hdr_len buf in
  let n := pon_crc_len buf in
  let payload1 := if pon_crc_enabled buf
                  then splice payload n (le32 (crc32_ethernet_fcs (firstn n payload)))
                  else payload in
  pon_dec ctr key iv (fst enc) = (hec_64 (firstn pon_hdr_len buf) ++ payload1, snd enc).
Proof. exact pon_dec_enc_thm. Qed.
Print Assumptions pon_dec_enc.
