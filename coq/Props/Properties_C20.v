(* Props/Properties_C20.v — property C20: the power-up self-test gates initialisation.
   Statements about the model Mgr/SelfTest.v instantiated with the tables of the CURRENT
   lib/x86_64/self_test.c (Gen/GenSelfTest.v, regenerated every run) and the Spec/ functions.
   Proofs are in Proofs/SelfTestProofs.v; this file holds nothing but the theorems. *)
From Coq Require Import NArith List String Bool.
From IMB Require Import Lib.Bytes Mgr.SelfTestVec Gen.GenSelfTest Mgr.SelfTest Proofs.SelfTestProofs.
Import ListNotations.

(* COMPLETE finite domain: [all_items] = every entry of the four generated tables, in the order
   self_test_exec() walks them (33 vectors at the time of writing). *)

(* table sanity: sizes within the arrays, modes legal for their table, and the size / key-size
   checks that precede the CORRUPT callback all pass *)
Theorem selftest_tables_wf :
  forallb (fun it => vec_wf (it_vec it) && vec_pre (it_vec it)) all_items = true.
Proof. exact vectors_wf_all. Qed.
Print Assumptions selftest_tables_wf.

(* every vector satisfies spec(input) = expected in every direction / API the C code tests *)
Theorem selftest_vectors_pass :
  forallb (fun it => kat_spec (it_vec it) false) all_items = true.
Proof. exact vectors_pass_all. Qed.
Print Assumptions selftest_vectors_pass.

(* for every vector, the corruption the callback can cause (bit 0 of byte 0 of the input of the
   first job) changes a compared output *)
Theorem selftest_vectors_detect_corruption :
  forallb (fun it => negb (kat_spec (it_vec it) true)) all_items = true.
Proof. exact vectors_detect_all. Qed.
Print Assumptions selftest_vectors_detect_corruption.

(* For ALL callbacks (any state type, any transition function), any init function, any CPU
   feature word:
   - [sr_corrupted] has one flag per vector and is exactly the negation of what the callback
     answered to the CORRUPT events of the stream it was shown;
   - the stream is START(type, descr), CORRUPT, then FAIL for exactly the corrupted vectors and
     PASS for the others, in table order;
   - SELF_TEST is set; SELF_TEST_PASS is set iff no vector was corrupted; errno is 0 in that case
     and IMB_ERR_SELFTEST otherwise; no other feature bit changes. *)
Theorem selftest_gates :
  forall (S : Type) (step : S -> event -> S * bool) (fn : init_fn) (cpu : N) (s0 : S),
    let r := init_model S step fn cpu s0 in
    let uncorrupted := forallb negb (sr_corrupted r) in
    length (sr_corrupted r) = length all_items /\
    corrupt_answers S step s0 (sr_events r) = map negb (sr_corrupted r) /\
    sr_state r = final_state S step s0 (sr_events r) /\
    sr_events r = expected_events all_items (sr_corrupted r) /\
    sr_ret r = uncorrupted /\
    has_bit (sr_features r) gen_FEATURE_SELF_TEST = true /\
    has_bit (sr_features r) gen_FEATURE_SELF_TEST_PASS = uncorrupted /\
    sr_errno r = (if uncorrupted then 0%N else gen_ERR_SELFTEST) /\
    (forall k, k <> st_bit -> k <> pass_bit -> N.testbit (sr_features r) k = N.testbit cpu k).
Proof. exact selftest_gates_proof. Qed.
Print Assumptions selftest_gates.

Theorem selftest_success_iff :
  forall (S : Type) (step : S -> event -> S * bool) fn cpu s0,
    let r := init_model S step fn cpu s0 in
    (has_bit (sr_features r) gen_FEATURE_SELF_TEST_PASS = true /\ sr_errno r = 0%N)
    <-> (forall i, nth i (sr_corrupted r) false = false).
Proof. exact selftest_success_iff_proof. Qed.
Print Assumptions selftest_success_iff.

Theorem selftest_failure_code :
  forall (S : Type) (step : S -> event -> S * bool) fn cpu s0,
    let r := init_model S step fn cpu s0 in
    (exists i, nth i (sr_corrupted r) false = true) ->
    has_bit (sr_features r) gen_FEATURE_SELF_TEST_PASS = false /\ sr_errno r = gen_ERR_SELFTEST /\
    has_bit (sr_features r) gen_FEATURE_SELF_TEST = true.
Proof. exact selftest_failure_code_proof. Qed.
Print Assumptions selftest_failure_code.

(* the three callbacks of the i-th vector and the verdict it gets *)
Theorem selftest_event_positions :
  forall (S : Type) (step : S -> event -> S * bool) fn cpu s0 i it,
    let r := init_model S step fn cpu s0 in
    nth_error all_items i = Some it ->
    nth_error (sr_events r) (3 * i) = Some (EvStart (it_type it) (vec_descr (it_vec it))) /\
    nth_error (sr_events r) (3 * i + 1) = Some EvCorrupt /\
    nth_error (sr_events r) (3 * i + 2) = Some (if nth i (sr_corrupted r) false then EvFail else EvPass) /\
    length (sr_events r) = 3 * length all_items.
Proof. exact selftest_event_positions_proof. Qed.
Print Assumptions selftest_event_positions.

(* arbitrary subsets: the counting callback used by the harness corrupts exactly its set *)
Theorem selftest_subsets :
  forall (X : list nat) fn cpu,
    let r := predict X fn cpu in
    sr_corrupted r = map (inX X) (seq 0 (length all_items)) /\
    (forall i, i < length all_items -> nth i (sr_corrupted r) false = existsb (Nat.eqb i) X).
Proof. exact selftest_subsets_proof. Qed.
Print Assumptions selftest_subsets.

(* the announced descriptions, reduced to the family names the README uses, are exactly the
   README's documented list (as sets; the README lists families, not key sizes) *)
Theorem selftest_announces_documented_list :
  incl announced_families readme_documented /\ incl readme_documented announced_families.
Proof. exact selftest_announces_documented_list_proof. Qed.
Print Assumptions selftest_announces_documented_list.

Theorem selftest_announced_distinct : NoDup announced.
Proof. exact selftest_announced_distinct_proof. Qed.
Print Assumptions selftest_announced_distinct.
