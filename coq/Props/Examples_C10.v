(* Props/Examples_C10.v — TESTS (not theorems about all inputs): concrete, non-trivial instances
   showing that the hypotheses of the C10 theorems are satisfiable and what the statements say on
   published vectors.  Each is evaluated by vm_compute.
   ChaCha20-Poly1305: RFC 8439 2.8.2 (114 bytes of text, 12 bytes of AAD) split into FIVE segments
   with two empty ones and a split at byte 7, run through the three API forms of the model, in both
   directions; AES-GCM: McGrew-Viega test case 4 (60 bytes, 20 bytes AAD) in 5 segments incl. empty
   ones, with and without deferral of the last whole block; GMAC in 4 segments. *)
From Coq Require Import List NArith Bool String.
From IMB Require Import Lib.Bytes Spec.Hex Spec.ChaCha20 Spec.Poly1305 Spec.ChaChaPoly Spec.ChaChaPoly_Tests
     Spec.GF128 Spec.AES Spec.GCM Struct.ChachaStream Struct.GcmStream
     Proofs.ChachaSpecInst Proofs.GcmStreamProofs Proofs.GcmSpecInst Props.Properties_C10.
Import ListNotations.
Local Open Scope N_scope.

(* segment lists: lengths 7, 0, 57, 0, 50 (splits at 7 and 64, inside Poly1305 and ChaCha blocks) *)
Definition split5 (m : bytes) : list bytes :=
  [firstn 7 m; []; firstn 57 (skipn 7 m); []; skipn 64 m].

Example split5_is_partition : concat (split5 kat1_pt) = kat1_pt /\ length kat1_pt = 114%nat.
Proof. vm_compute. auto. Qed.

(* hypotheses of chachapoly_sgl_partition_invariant hold for the uninitialised context *)
Example hyp_scratch : length (c_scratch cctx_garbage) = 16%nat.
Proof. reflexivity. Qed.
Example hyp_bound : N.of_nat (length (concat (split5 kat1_pt))) < 2 ^ 64.
Proof. vm_compute. reflexivity. Qed.

(* direct API, encrypt: five segments give the RFC 8439 ciphertext and tag *)
Example chacha_direct_enc_5seg :
  let '(ctx', outs, tag) := run_direct_spec cctx_garbage kat1_key kat1_iv kat1_aad Enc (split5 kat1_pt) 16 in
  (concat outs, tag, map (@length _) outs) = (kat1_ct, kat1_tag, [7; 0; 57; 0; 50]%nat).
Proof. vm_compute. reflexivity. Qed.

(* direct API, decrypt, truncated tag *)
Example chacha_direct_dec_5seg :
  let '(ctx', outs, tag) := run_direct_spec cctx_garbage kat1_key kat1_iv kat1_aad Dec (split5 kat1_ct) 12 in
  (concat outs, tag) = (kat1_pt, firstn 12 kat1_tag).
Proof. vm_compute. reflexivity. Qed.

(* job API, IMB_SGL_ALL *)
Example chacha_job_all_5seg :
  let '(ctx', outs, tag) := run_job_all_spec cctx_garbage kat1_key kat1_iv kat1_aad Enc (split5 kat1_pt) in
  (concat outs, tag, c_last_ks ctx', c_poly_key ctx') = (kat1_ct, Some kat1_tag, zeros 64, zeros 32).
Proof. vm_compute. reflexivity. Qed.

(* job API, INIT (7 bytes) / UPDATE (empty, 57 bytes, empty) / COMPLETE (50 bytes) *)
Example chacha_job_iuc_5seg :
  let '(ctx', outs, tag) := run_job_iuc_spec cctx_garbage kat1_key kat1_iv kat1_aad Dec
                              (firstn 7 kat1_ct) [[]; firstn 57 (skipn 7 kat1_ct); []] (skipn 64 kat1_ct) in
  (concat outs, tag) = (kat1_pt, Some kat1_tag).
Proof. vm_compute. reflexivity. Qed.

(* the context after the first three updates (p = 64 bytes): block boundary of the key stream,
   nothing parked in the scratch pad, 4 whole Poly1305 blocks absorbed *)
Example chacha_ctx_after_64 :
  let ctx := fst (update_all ksblock_spec pblock_spec kat1_key (init_direct_spec kat1_key cctx_garbage kat1_iv kat1_aad)
                    [firstn 7 kat1_pt; []; firstn 57 (skipn 7 kat1_pt)] Enc) in
  (c_hash_len ctx, c_rct ctx, c_rks ctx, c_lbc ctx) = (64, 0, 0, 1).
Proof. vm_compute. reflexivity. Qed.

(* and after 7 bytes: 57 key-stream bytes left over, 7 ciphertext bytes parked *)
Example chacha_ctx_after_7 :
  let ctx := fst (update_all ksblock_spec pblock_spec kat1_key (init_direct_spec kat1_key cctx_garbage kat1_iv kat1_aad)
                    [firstn 7 kat1_pt] Enc) in
  (c_hash_len ctx, c_rct ctx, c_rks ctx, c_lbc ctx, firstn 7 (c_scratch ctx)) = (7, 7, 57, 1, firstn 7 kat1_ct).
Proof. vm_compute. reflexivity. Qed.

(* ---------- AES-GCM: McGrew-Viega test case 4 ---------- *)
Definition tc4_key := hex "feffe9928665731c6d6a8f9467308308".
Definition tc4_iv := hex "cafebabefacedbaddecaf888".
Definition tc4_aad := hex "feedfacedeadbeeffeedfacedeadbeefabaddad2".
Definition tc4_pt := hex "d9313225f88406e5a55909c5aff5269a86a7a9531534f7da2e4c303d8a318a721c3c0c95956809532fcf0e2449a6b525b16aedf5aa0de657ba637b39".
Definition tc4_ct := hex "42831ec2217774244b7221b784d0d49ce3aa212f2c02a4e035c17e2329aca12e21d514b25466931c7d8f6a5aac84aa051ba30b396a0aac973d58e091".
Definition tc4_tag := hex "5bc94fbc3221a5db94fae95ae7121a47".

(* 60 bytes as 7 + 0 + 25 + 0 + 28: splits inside AES blocks, the third one ends on a boundary *)
Definition gsplit5 (m : bytes) : list bytes :=
  [firstn 7 m; []; firstn 25 (skipn 7 m); []; skipn 32 m].

Example gcm_direct_enc_5seg :
  let '(ctx', outs, tag) := gcm_run_direct (aesE tc4_key) never_lazy true tc4_iv tc4_aad GEnc (gsplit5 tc4_pt) 16 in
  (concat outs, tag) = (tc4_ct, tc4_tag).
Proof. vm_compute. reflexivity. Qed.

(* the same with an implementation that always defers the last whole block (VAES-style policy) *)
Example gcm_direct_dec_5seg_lazy :
  let '(ctx', outs, tag) := gcm_run_direct (aesE tc4_key) (fun _ _ => true) false tc4_iv tc4_aad GDec (gsplit5 tc4_ct) 12 in
  (concat outs, tag) = (tc4_pt, firstn 12 tc4_tag).
Proof. vm_compute. reflexivity. Qed.

(* a deferred update really leaves partial_block_length = 16 *)
Example gcm_lazy_state :
  let ctx := fst (gcm_update_all (aesE tc4_key) (fun _ _ => true) (gcm_init (aesE tc4_key) true tc4_iv tc4_aad)
                    GEnc [firstn 32 tc4_pt]) in
  (g_pbl ctx, g_in_len ctx) = (16, 32).
Proof. vm_compute. reflexivity. Qed.

Example gcm_job_iuc_5seg :
  let '(ctx', outs, tag) := gcm_run_job_iuc (aesE tc4_key) never_lazy gctx_garbage tc4_iv tc4_aad GEnc (gsplit5 tc4_pt) 16 in
  (concat outs, tag, g_hash ctx', g_pbk ctx') = (tc4_ct, Some tc4_tag, 0, zeros 16).
Proof. vm_compute. reflexivity. Qed.

Example gcm_job_all_5seg :
  let '(ctx', outs, tag) := gcm_run_job_all (aesE tc4_key) never_lazy gctx_garbage tc4_iv tc4_aad GDec (gsplit5 tc4_ct) 16 in
  (concat outs, tag) = (tc4_pt, Some tc4_tag).
Proof. vm_compute. reflexivity. Qed.

(* GMAC over the 60 bytes in 4 segments (17 + 0 + 15 + 28) = one-shot gmac *)
Example gmac_4seg :
  snd (gmac_run (aesE tc4_key) tc4_iv [firstn 17 tc4_pt; []; firstn 15 (skipn 17 tc4_pt); skipn 32 tc4_pt] 16)
  = gmac tc4_key tc4_iv tc4_pt 16.
Proof. vm_compute. reflexivity. Qed.
