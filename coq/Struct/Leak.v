(* Struct/Leak.v — property C19 (SAFE_LOOKUP): instrumented, source-shaped models of
   DES / 3DES / DOCSIS-DES (lib/x86_64/des_basic.c), KASUMI f8 / f9
   (lib/include/kasumi_internal.h) and SNOW3G UEA2 / UIA2 (lib/include/snow3g_common.h,
   lib/include/snow3g_uea2_by4_sse.inc) as the library structures them in a SAFE_LOOKUP
   build.  Every function returns (output, trace); the trace lists, in program order,
   every memory access to a named region (region, byte offset, size) and every branch
   decision (site, taken).  Definitions only; proofs are in Proofs/LeakProofs.v.

   What is modelled
   - the constant-time table scans of lib/x86_64/constant_lookup_fns.asm
     (lookup_32bit_sse, lookup_16bit_sse, lookup_16x8bit_sse/avx, lookup_32x8bit_avx2):
     one aligned 16-byte load per table row over the WHOLE table, a compare/and/or select
     per row, the loop branch per row ([scan_rows]);
   - for each algorithm the order and number of those scans, the key-schedule reads
     (public indices), the reads of the source / IV and the writes of the destination /
     tag, and the branches of the C code (loop conditions and length tests).
   What is not modelled: registers, the stack (locals, spills, SAFE_DATA clearing), the
     job manager, pure register computations (IP/FP/E/P permutations, AESENC, PCLMULQDQ).
   The values are computed with the functions of Spec/DES.v, Spec/KASUMI.v, Spec/SNOW3G.v
   except that every table lookup indexed by secret-derived data goes through [scan_rows]. *)
From Coq Require Import List NArith Bool Arith Lia.
From IMB Require Import Lib.Bytes Spec.DES Spec.KASUMI Spec.SNOW3G Gen.GenC19.
Import ListNotations.
Local Open Scope N_scope.

(* ------------------------------------------------------------------------- *)
(** * Events, traces, the writer monad                                        *)
(* ------------------------------------------------------------------------- *)
Inductive region :=
| R_des_sbox (j : nat)        (* sbox{j}p of des_basic.c, j = 0..7 (S-box j+1 and P) *)
| R_kasumi_S7                 (* sso_kasumi_S7e: 256 x uint16 *)
| R_kasumi_S9                 (* sso_kasumi_S9e: 512 x uint16 *)
| R_snow3g_S2                 (* snow3g_invSR_SQ / snow3g_inv_SR_SQ: 256 x uint8 *)
| R_snow3g_mula               (* 8 x 16-byte nibble tables of MULalpha *)
| R_snow3g_diva               (* 8 x 16-byte nibble tables of DIValpha *)
| R_ks (i : nat)              (* key schedule number i (3DES: 0..2, KASUMI: 0 = sk16, 1 = msk16) *)
| R_src | R_dst | R_iv | R_tag.

Inductive event :=
| Ld (r : region) (off size : nat)
| St (r : region) (off size : nat)
| Br (site : nat) (taken : bool).

Definition trace := list event.
Definition M (A : Type) : Type := (A * trace)%type.

Definition ret {A} (a : A) : M A := (a, []).
Definition bind {A B} (m : M A) (f : A -> M B) : M B :=
  let r := f (fst m) in (fst r, snd m ++ snd r).
Definition emit (e : event) : M unit := (tt, [e]).
Definition emits (t : trace) : M unit := (tt, t).
Notation "x <- m ;; f" := (bind m (fun x => f)) (at level 61, m at next level, right associativity).
Notation "m ;;; f" := (bind m (fun _ => f)) (at level 61, right associativity).

(* ------------------------------------------------------------------------- *)
(** * The constant-time scan                                                  *)
(* ------------------------------------------------------------------------- *)
(* One row held in an XMM register: the lanes whose index equals [idx] keep their value
   (pcmpeq + pand), all lanes are OR-ed together.  [b] = index of the first lane. *)
Fixpoint row_select (row : list N) (b idx : nat) : N :=
  match row with
  | [] => 0
  | v :: t => N.lor (if Nat.eqb b idx then v else 0) (row_select t (S b) idx)
  end.

(* loopNN_sse: for every 16-byte row: load it, select, accumulate, dec/jne.
   [site] names the loop branch, taken while rows remain; site 0 = the fully unrolled
   lookups (lookup_16x8bit_*, S2_BOX_SSE), which have no branch. *)
Definition br_ev (site : nat) (taken : bool) : trace :=
  if Nat.eqb site 0 then [] else [Br site taken].
Fixpoint scan_rows (r : region) (site : nat) (rows : list (list N)) (b off idx : nat) (acc : N) : M N :=
  match rows with
  | [] => ret acc
  | row :: rest =>
      emits (Ld r off 16 :: br_ev site (negb (Nat.eqb (length rest) 0))) ;;;
      scan_rows r site rest (b + length row) (off + 16) idx (N.lor acc (row_select row b idx))
  end.
Definition scan (r : region) (site : nat) (rows : list (list N)) (idx : nat) : M N :=
  scan_rows r site rows 0 0 idx 0.

(* its trace, a function of the region and the number of rows only *)
Fixpoint scan_trace (r : region) (site nrows off : nat) : trace :=
  match nrows with
  | O => []
  | S n => (Ld r off 16 :: br_ev site (negb (Nat.eqb n 0))) ++ scan_trace r site n (off + 16)
  end.

(* The parallel lookups (lookup_16x8bit_*, lookup_32x8bit_avx2, S2_BOX_SSE): the same 16
   row loads serve all indices held in the index vector. *)
Definition scan_vec (r : region) (site : nat) (rows : list (list N)) (idxs : list nat) : M (list N) :=
  (map (fun i => fst (scan r site rows i)) idxs, scan_trace r site (length rows) 0).

(* cut a flat table into rows of [lanes] entries *)
Fixpoint rows_of (lanes nrows : nat) (tbl : list N) : list (list N) :=
  match nrows with
  | O => []
  | S n => firstn lanes tbl :: rows_of lanes n (skipn lanes tbl)
  end.

(* ------------------------------------------------------------------------- *)
(** * DES (des_basic.c)                                                       *)
(* ------------------------------------------------------------------------- *)
(* fRK: x = e_phase(R) ^ K; eight LOOKUP32_SSE(sbox{j}p, (x >> 8j) & 0x3f, <size>).
   lookup_32bit_sse takes its size argument in ELEMENTS; [des_lookup_elems] (Gen/GenC19.v,
   read from the source by translators/t7_lookup_sizes.py) is that argument.  The pinned
   source passes sizeof(sbox{j}p) = 256, so the loop runs 256/4 = 64 rows = 1024 bytes, i.e.
   768 bytes beyond the 256-byte table (observed on the binary).  Rows beyond the table never
   match (index < 64); they are modelled as zero rows.  sbox{j}p = S-box (j+1) composed with
   P; the model looks up the plain S-box and applies P afterwards (a register computation),
   which is the same function. *)
Definition des_scan_rows : nat := Nat.div des_lookup_elems 4.
Definition des_sbox_flat (Sb : list (list N)) : list N :=
  map (fun i => des_sbox_lookup Sb (N.of_nat i)) (seq 0 64).
Definition des_sbox_rows (Sb : list (list N)) : list (list N) :=
  rows_of 4 des_scan_rows (des_sbox_flat Sb ++ repeat 0 (des_lookup_elems - 64)).

(* S-boxes still to apply, last one (lowest 6 bits of x) first, with the number of
   the library table; the recursion performs the lookup of the HIGHER bits first so that
   the trace runs sbox0p, sbox1p, ..., sbox7p as in the source. *)
Definition des_sboxes_rev_idx : list (nat * list (list N)) :=
  [(7%nat, des_S8); (6%nat, des_S7); (5%nat, des_S6); (4%nat, des_S5);
   (3%nat, des_S4); (2%nat, des_S3); (1%nat, des_S2); (0%nat, des_S1)].

Definition SITE_LOOKUP32 : nat := 1.   (* jne loop32_sse *)
Definition SITE_LOOKUP16 : nat := 2.   (* jne loop16_sse *)
Definition SITE_UNROLLED : nat := 0.  (* lookup_16x8bit_*: unrolled, no branch *)

Fixpoint des_S_leak_aux (sb : list (nat * list (list N))) (x : N) : M N :=
  match sb with
  | [] => ret 0
  | (j, Sb) :: t =>
      hi <- des_S_leak_aux t (N.shiftr x 6) ;;
      v <- scan (R_des_sbox j) SITE_LOOKUP32 (des_sbox_rows Sb) (N.to_nat (N.land x 63)) ;;
      ret (N.lor v (N.shiftl hi 4))
  end.
Definition des_S_leak (x : N) : M N := des_S_leak_aux des_sboxes_rev_idx x.

Definition des_f_leak (r k : N) : M N :=
  s <- des_S_leak (N.lxor (des_E r) k) ;; ret (des_P s).

Definition des_round_leak (lr : N * N) (k : N) : M (N * N) :=
  f <- des_f_leak (snd lr) k ;; ret (snd lr, N.lxor (fst lr) f).

Fixpoint des_rounds_leak (ks : list N) (lr : N * N) : M (N * N) :=
  match ks with
  | [] => ret lr
  | k :: t => lr' <- des_round_leak lr k ;; des_rounds_leak t lr'
  end.

(* enc_dec_1: memcpy_fn_sse_128(k, ks) = eight 16-byte loads of the schedule; `if (enc)`;
   sixteen rounds with k[0..15] (enc) or k[15..0] (dec).  [ks] is the schedule in the
   order the rounds consume it (the caller passes [rev ks] for decryption). *)
Definition SITE_DES_ENC : nat := 10.
Definition ks_copy_trace (kr : nat) : trace :=
  map (fun i => Ld (R_ks kr) (16 * i) 16) (seq 0 8).
Definition des_block_leak (kr : nat) (enc : bool) (ks : list N) (x : N) : M N :=
  emits (ks_copy_trace kr) ;;;
  emit (Br SITE_DES_ENC enc) ;;;
  lr <- des_rounds_leak ks (des_split (des_IP x)) ;;
  ret (des_FP (des_join_swapped lr)).

(* cfb_one_basic: t = enc_dec_1(ivec[0]); then size&1, size&2, size&4 pieces.
   [off] = byte offset of the partial block in the buffers. *)
Definition SITE_CFB_1 : nat := 11.
Definition SITE_CFB_2 : nat := 12.
Definition SITE_CFB_4 : nat := 13.
Definition cfb_pieces_trace (off size : nat) : trace :=
  let b1 := Nat.odd size in
  let b2 := Nat.odd (Nat.div size 2) in
  let b4 := Nat.odd (Nat.div size 4) in
  let o1 := off in
  let o2 := (off + (if b1 then 1 else 0))%nat in
  let o4 := (o2 + (if b2 then 2 else 0))%nat in
  [Br SITE_CFB_1 b1] ++ (if b1 then [Ld R_src o1 1; St R_dst o1 1] else []) ++
  [Br SITE_CFB_2 b2] ++ (if b2 then [Ld R_src o2 2; St R_dst o2 2] else []) ++
  [Br SITE_CFB_4 b4] ++ (if b4 then [Ld R_src o4 4; St R_dst o4 4] else []).
Definition cfb_residue_leak (E : N -> M N) (cfb : bool) (iv : N) (off : nat) (c : bytes) : M bytes :=
  if cfb then
    t <- E iv ;;
    emits (cfb_pieces_trace off (length c)) ;;;
    ret (xor_bytes c (N_to_be 8 t))
  else ret [].

(* des_enc_cbc_basic / docsis_des_enc_basic: for (n = 0; n < nblocks; n++)
     out[n] = iv = enc_dec_1(in[n] ^ iv, ks, 1);   then `if (partial)` (DOCSIS only).
   The recursion is over the 8-byte chunks of the message ([chunks 8 msg], as in Spec/DES.v);
   [n] = number of the block. *)
Definition SITE_CBC_LOOP : nat := 14.
Definition SITE_PARTIAL : nat := 15.
Fixpoint cbc64_enc_leak (E : N -> M N) (cfb : bool) (iv : N) (n : nat) (cs : list bytes) : M bytes :=
  match cs with
  | [] => emit (Br SITE_CBC_LOOP false) ;;; (if cfb then emit (Br SITE_PARTIAL false) else ret tt) ;;; ret []
  | c :: t =>
      if Nat.eqb (length c) 8 then
        emit (Br SITE_CBC_LOOP true) ;;;
        emit (Ld R_src (8 * n) 8) ;;;
        y <- E (N.lxor (be_to_N c) iv) ;;
        emit (St R_dst (8 * n) 8) ;;;
        rest <- cbc64_enc_leak E cfb y (S n) t ;;
        ret (N_to_be 8 y ++ rest)
      else
        emit (Br SITE_CBC_LOOP false) ;;;
        (if cfb then emit (Br SITE_PARTIAL true) else ret tt) ;;;
        cfb_residue_leak E cfb iv (8 * n) c
  end.

(* des_dec_cbc_basic / docsis_des_dec_basic.  (For a DOCSIS message with a trailing partial
   block the C code runs cfb_one_basic BEFORE the CBC loop; the model, like Spec/DES.v, emits
   it after the loop: the two traces are permutations of each other and contain the same
   scans.) *)
Fixpoint cbc64_dec_leak (E D : N -> M N) (cfb : bool) (iv : N) (n : nat) (cs : list bytes) : M bytes :=
  match cs with
  | [] => emit (Br SITE_CBC_LOOP false) ;;; (if cfb then emit (Br SITE_PARTIAL false) else ret tt) ;;; ret []
  | c :: t =>
      if Nat.eqb (length c) 8 then
        emit (Br SITE_CBC_LOOP true) ;;;
        emit (Ld R_src (8 * n) 8) ;;;
        let x := be_to_N c in
        p <- D x ;;
        emit (St R_dst (8 * n) 8) ;;;
        rest <- cbc64_dec_leak E D cfb x (S n) t ;;
        ret (N_to_be 8 (N.lxor p iv) ++ rest)
      else
        emit (Br SITE_CBC_LOOP false) ;;;
        (if cfb then emit (Br SITE_PARTIAL true) else ret tt) ;;;
        cfb_residue_leak E cfb iv (8 * n) c
  end.

(* The jobs.  [ks], [ks1..3] are the schedules (16 subkeys each; ANY lists are accepted:
   the theorems quantify over all of them).  The IV is read once (ivec[0]). *)
Definition iv_read : M unit := emit (Ld R_iv 0 8).

Definition des_cbc_enc_leak (ks : list N) (iv msg : bytes) : M bytes :=
  iv_read ;;; cbc64_enc_leak (des_block_leak 0 true ks) false (be_to_N iv) 0 (chunks 8 msg).
Definition des_cbc_dec_leak (ks : list N) (iv msg : bytes) : M bytes :=
  iv_read ;;; cbc64_dec_leak (des_block_leak 0 true ks) (des_block_leak 0 false (rev ks)) false
                             (be_to_N iv) 0 (chunks 8 msg).

Definition des3_E_leak (ks1 ks2 ks3 : list N) (x : N) : M N :=
  a <- des_block_leak 0 true ks1 x ;;
  b <- des_block_leak 1 false (rev ks2) a ;;
  des_block_leak 2 true ks3 b.
Definition des3_D_leak (ks1 ks2 ks3 : list N) (x : N) : M N :=
  a <- des_block_leak 2 false (rev ks3) x ;;
  b <- des_block_leak 1 true ks2 a ;;
  des_block_leak 0 false (rev ks1) b.
Definition des3_cbc_enc_leak (ks1 ks2 ks3 : list N) (iv msg : bytes) : M bytes :=
  iv_read ;;; cbc64_enc_leak (des3_E_leak ks1 ks2 ks3) false (be_to_N iv) 0 (chunks 8 msg).
Definition des3_cbc_dec_leak (ks1 ks2 ks3 : list N) (iv msg : bytes) : M bytes :=
  iv_read ;;; cbc64_dec_leak (des3_E_leak ks1 ks2 ks3) (des3_D_leak ks1 ks2 ks3) false
                             (be_to_N iv) 0 (chunks 8 msg).

Definition docsis_des_enc_leak (ks : list N) (iv msg : bytes) : M bytes :=
  iv_read ;;; cbc64_enc_leak (des_block_leak 0 true ks) true (be_to_N iv) 0 (chunks 8 msg).
Definition docsis_des_dec_leak (ks : list N) (iv msg : bytes) : M bytes :=
  iv_read ;;; cbc64_dec_leak (des_block_leak 0 true ks) (des_block_leak 0 false (rev ks)) true
                             (be_to_N iv) 0 (chunks 8 msg).

(** ** Public trace functions of DES (what the theorems say the traces are) *)
Definition des_S_trace : trace :=
  flat_map (fun j => scan_trace (R_des_sbox j) SITE_LOOKUP32 des_scan_rows 0) (seq 0 8).
Definition des_block_trace (kr : nat) (enc : bool) (nrounds : nat) : trace :=
  ks_copy_trace kr ++ [Br SITE_DES_ENC enc] ++ concat (repeat des_S_trace nrounds).
Definition cfb_residue_trace (tE : trace) (cfb : bool) (off len : nat) : trace :=
  if cfb then tE ++ cfb_pieces_trace off len else [].
Fixpoint cbc64_trace (tE : trace) (tB : trace) (cfb : bool) (n : nat) (lens : list nat) : trace :=
  match lens with
  | [] => Br SITE_CBC_LOOP false :: (if cfb then [Br SITE_PARTIAL false] else [])
  | l :: t =>
      if Nat.eqb l 8 then
        Br SITE_CBC_LOOP true :: Ld R_src (8 * n) 8 :: tB ++ St R_dst (8 * n) 8 :: cbc64_trace tE tB cfb (S n) t
      else
        Br SITE_CBC_LOOP false :: (if cfb then [Br SITE_PARTIAL true] else []) ++
        cfb_residue_trace tE cfb (8 * n) l
  end.
(* chunk lengths of a message of [len] bytes *)
Fixpoint chunk_lens (fuel len : nat) : list nat :=
  match fuel with
  | O => []
  | S f => match len with
           | O => []
           | _ => Nat.min 8 len :: chunk_lens f (len - 8)
           end
  end.
Definition des_job_trace (tE tB : trace) (cfb : bool) (len : nat) : trace :=
  Ld R_iv 0 8 :: cbc64_trace tE tB cfb 0 (chunk_lens len len).

(* ------------------------------------------------------------------------- *)
(** * KASUMI (kasumi_internal.h)                                              *)
(* ------------------------------------------------------------------------- *)
(* FIp1: LOOKUP16_SSE(sso_kasumi_S7e, idx, 256) = 32 rows of 8 uint16,
         LOOKUP16_SSE(sso_kasumi_S9e, idx, 512) = 64 rows
   (the element counts are read from the source: Gen/GenC19.v).
   sso_kasumi_S7e holds the 128 S7 entries twice (so that an 8-bit index works) and
   both "e" tables hold pre-arranged combinations of S7/S9 and the index; the model scans
   tables of the same geometry holding the plain S7 (second half zero) and S9 values and
   does the re-arrangement in registers: same accesses, same function. *)
Definition kasumi_S7_nrows : nat := Nat.div kasumi_S7_lookup_elems 8.
Definition kasumi_S9_nrows : nat := Nat.div kasumi_S9_lookup_elems 8.
Definition kasumi_S7_rows : list (list N) :=
  rows_of 8 kasumi_S7_nrows (kasumi_S7 ++ repeat 0 (kasumi_S7_lookup_elems - 128)).
Definition kasumi_S9_rows : list (list N) :=
  rows_of 8 kasumi_S9_nrows (kasumi_S9 ++ repeat 0 (kasumi_S9_lookup_elems - 512)).
Definition S7_leak (x : N) : M N := scan R_kasumi_S7 SITE_LOOKUP16 kasumi_S7_rows (N.to_nat x).
Definition S9_leak (x : N) : M N := scan R_kasumi_S9 SITE_LOOKUP16 kasumi_S9_rows (N.to_nat x).

(* source order: S7e then S9e, twice *)
Definition kasumi_FI_leak (x ki : N) : M N :=
  let nine0  := N.shiftr x 7 in
  let seven0 := N.land x 127 in
  s7a <- S7_leak seven0 ;;
  s9a <- S9_leak nine0 ;;
  let nine1  := N.lxor s9a seven0 in
  let seven1 := N.lxor s7a (N.land nine1 127) in
  let seven2 := N.lxor seven1 (N.shiftr ki 9) in
  let nine2  := N.lxor nine1 (N.land ki 511) in
  s7b <- S7_leak seven2 ;;
  s9b <- S9_leak nine2 ;;
  let nine3  := N.lxor s9b seven2 in
  let seven3 := N.lxor s7b (N.land nine3 127) in
  ret (N.lor (N.shiftl seven3 9) nine3).

(* the schedule is an array of 64 uint16 read with public indices: *(index + j) *)
Definition kk (sk : list N) (i : nat) : N := nth i sk 0.
Definition ks_ld (kr i : nat) : M unit := emit (Ld (R_ks kr) (2 * i) 2).

Definition kasumi_FL_leak (kr : nat) (sk : list N) (base : nat) (x : N) : M N :=
  ks_ld kr base ;;; ks_ld kr (base + 1) ;;;
  ret (kasumi_FL x (kk sk base) (kk sk (base + 1))).

Definition kasumi_FO_leak (kr : nat) (sk : list N) (base : nat) (x : N) : M N :=
  let l0 := N.shiftr x 16 in
  let r0 := w16 x in
  ks_ld kr (base + 2) ;;; ks_ld kr (base + 3) ;;;
  f1 <- kasumi_FI_leak (N.lxor l0 (kk sk (base + 2))) (kk sk (base + 3)) ;;
  let l1 := N.lxor f1 r0 in
  ks_ld kr (base + 4) ;;; ks_ld kr (base + 5) ;;;
  f2 <- kasumi_FI_leak (N.lxor r0 (kk sk (base + 4))) (kk sk (base + 5)) ;;
  let r1 := N.lxor f2 l1 in
  ks_ld kr (base + 6) ;;; ks_ld kr (base + 7) ;;;
  f3 <- kasumi_FI_leak (N.lxor l1 (kk sk (base + 6))) (kk sk (base + 7)) ;;
  let l2 := N.lxor f3 r1 in
  ret (N.lor (N.shiftl r1 16) l2).

(* kasumi_1_block: do { odd round FL,FO; even round FO,FL; context += 16 } while (context < end) *)
Definition SITE_KASUMI_LOOP : nat := 20.
Fixpoint kasumi_rounds_leak (kr : nat) (sk : list N) (n base : nat) (l r : N) : M (N * N) :=
  match n with
  | O => ret (l, r)
  | S n' =>
      a <- kasumi_FL_leak kr sk base l ;;
      fo <- kasumi_FO_leak kr sk base a ;;
      let r1 := N.lxor r fo in
      b <- kasumi_FO_leak kr sk (base + 8) r1 ;;
      fl <- kasumi_FL_leak kr sk (base + 8) b ;;
      let l1 := N.lxor l fl in
      emit (Br SITE_KASUMI_LOOP (negb (Nat.eqb n' 0))) ;;;
      kasumi_rounds_leak kr sk n' (base + 16) l1 r1
  end.
Definition kasumi_enc_leak (kr : nat) (sk : list N) (x : N) : M N :=
  lr <- kasumi_rounds_leak kr sk 4 0 (w32 (N.shiftr x 32)) (w32 x) ;;
  ret (N.lor (N.shiftl (fst lr) 32) (snd lr)).

(** ** f8 (kasumi_f8_1_buffer / kasumi_f8_1_buffer_bit) *)
(* key stream: A = KASUMI_msk(IV); b = KASUMI_sk(A ^ cnt ^ prev) per block.  [dt i] is the
   public list of data events (loads of src, stores to dst, length tests) the C code
   performs after block i. *)
Fixpoint kasumi_f8_ks_leak (dt : nat -> trace) (i n : nat) (sk : list N) (a prev cnt : N) : M (list N) :=
  match n with
  | O => ret []
  | S n' =>
      b <- kasumi_enc_leak 0 sk (N.lxor (N.lxor a cnt) prev) ;;
      emits (dt i) ;;;
      rest <- kasumi_f8_ks_leak dt (S i) n' sk a b (cnt + 1) ;;
      ret (b :: rest)
  end.

Definition SITE_F8_BITPATH : nat := 21.
Definition SITE_F8_WHILE : nat := 22.
Definition SITE_F8_GT8 : nat := 23.
Definition SITE_F8_LT8 : nat := 24.
Definition SITE_F8_ONEBLOCK : nat := 25.
Definition SITE_F8_OOP_OFF : nat := 26.
Definition SITE_F8_LASTPART : nat := 27.

(* byte path, [n] bytes, source offset [q]: events after key-stream block i *)
Definition kasumi_f8_byte_dt (q n i : nat) : trace :=
  let rem := (n - 8 * i)%nat in
  [Br SITE_F8_GT8 (Nat.ltb 8 rem)] ++
  (if Nat.ltb 8 rem then [Ld R_src (q + 8 * i) 8; St R_dst (8 * i) 8]
   else [Br SITE_F8_LT8 (Nat.ltb rem 8)] ++
        (if Nat.ltb rem 8 then [Ld R_src (q + 8 * i) rem; St R_dst (8 * i) rem]
         else [Ld R_src (q + 8 * i) 8; St R_dst (8 * i) 8])) ++
  [Br SITE_F8_WHILE (Nat.ltb 8 rem)].

(* bit path: [q] = byte offset, [r] = bit offset 0..7, [len] = bit length, [inplace]:
   first block: `if (cipherLengthInBits < 64 - remainOffset)` single-block case, else a whole
   8-byte block; then per block: whole block or the last partial one (preserve_bits reads
   the output buffer when the last byte is partial and the operation is out of place). *)
Definition kasumi_f8_bit_dt (inplace : bool) (q r len i : nat) : trace :=
  match i with
  | O =>
      let one := Nat.ltb len (64 - r) in
      [Br SITE_F8_ONEBLOCK one] ++
      (if one then
         let bl := Nat.div (len + 7) 8 in
         [Ld R_src q bl; Br SITE_F8_OOP_OFF (negb inplace && negb (Nat.eqb r 0))] ++
         (if (negb inplace && negb (Nat.eqb r 0))%bool then [Ld R_dst q 1] else []) ++
         [Br SITE_F8_LASTPART (negb (Nat.eqb (Nat.modulo (r + len) 8) 0))] ++
         (if (negb (Nat.eqb (Nat.modulo (r + len) 8) 0) && negb inplace)%bool then [Ld R_dst q bl] else []) ++
         [St R_dst q bl]
       else
         [Br SITE_F8_OOP_OFF (negb inplace && negb (Nat.eqb r 0))] ++
         (if (negb inplace && negb (Nat.eqb r 0))%bool then [Ld R_src q 8; Ld R_dst q 1; St R_dst q 8]
          else [Ld R_src q 8; St R_dst q 8]) ++
         [Br SITE_F8_WHILE (negb (Nat.eqb (len - (64 - r)) 0))])
  | S _ =>
      let rem := (len - (64 - r) - 64 * (i - 1))%nat in   (* bits still to do before block i *)
      [Br SITE_F8_GT8 (Nat.leb 64 rem)] ++
      (if Nat.leb 64 rem then
         [Ld R_src (q + 8 * i) 8; St R_dst (q + 8 * i) 8; Br SITE_F8_WHILE (negb (Nat.eqb (rem - 64) 0))]
       else
         let bl := Nat.div (rem + 7) 8 in
         [Ld R_src (q + 8 * i) bl; Br SITE_F8_LASTPART (negb (Nat.eqb (Nat.modulo rem 8) 0))] ++
         (if (negb (Nat.eqb (Nat.modulo rem 8) 0) && negb inplace)%bool then [Ld R_dst (q + 8 * i) bl] else []) ++
         [St R_dst (q + 8 * i) bl; Br SITE_F8_WHILE false])
  end.

(* The job with explicit schedules: Spec.KASUMI.kasumi_f8_job with the key stream taken
   from a list of 64-bit blocks. *)
Definition kasumi_f8_post (ksw : list N) (src dst : bytes) (bitlen bitoff : N) : bytes :=
  let q := N.to_nat (N.shiftr bitoff 3) in
  let r := N.land bitoff 7 in
  let ks := flat_map be64 ksw in
  if (N.land bitlen 7 =? 0) && (r =? 0) then
    let n := N.to_nat (N.shiftr bitlen 3) in
    xor_bytes (firstn n (pad_right n (skipn q src))) ks ++ skipn n dst
  else
    let nb := if bitlen <? 64 - r then ceil_div8 bitlen else ceil_div8 (r + bitlen) in
    let cs := firstn (N.to_nat nb) (shift_stream r 0 ks) in
    firstn q dst ++ f8_merge cs (skipn q src) (skipn q dst) r (r + bitlen) 0.
Definition kasumi_f8_nblocks (bitlen bitoff : N) : nat :=
  let r := N.land bitoff 7 in
  if (N.land bitlen 7 =? 0) && (r =? 0) then N.to_nat (ceil_div64 bitlen)
  else N.to_nat (ceil_div64 (r + bitlen)).
Definition kasumi_f8_sk (sk msk : list N) (iv src dst : bytes) (bitlen bitoff : N) : bytes :=
  let a := kasumi_enc_w msk (be_to_N (firstn 8 (pad_right 8 iv))) in
  kasumi_f8_post (kasumi_f8_ks_loop (kasumi_f8_nblocks bitlen bitoff) sk a 0 0) src dst bitlen bitoff.

Definition kasumi_f8_dt (inplace : bool) (bitlen bitoff : N) : nat -> trace :=
  let q := N.to_nat (N.shiftr bitoff 3) in
  let r := N.to_nat (N.land bitoff 7) in
  if (N.land bitlen 7 =? 0) && (N.land bitoff 7 =? 0)
  then kasumi_f8_byte_dt q (N.to_nat (N.shiftr bitlen 3))
  else kasumi_f8_bit_dt inplace q r (N.to_nat bitlen).

Definition kasumi_f8_leak (inplace : bool) (sk msk : list N) (iv src dst : bytes) (bitlen bitoff : N) : M bytes :=
  emit (Ld R_iv 0 8) ;;;
  emit (Br SITE_F8_BITPATH (negb ((N.land bitlen 7 =? 0) && (N.land bitoff 7 =? 0)))) ;;;
  a <- kasumi_enc_leak 1 msk (be_to_N (firstn 8 (pad_right 8 iv))) ;;
  ksw <- kasumi_f8_ks_leak (kasumi_f8_dt inplace bitlen bitoff) 0 (kasumi_f8_nblocks bitlen bitoff) sk a 0 0 ;;
  ret (kasumi_f8_post ksw src dst bitlen bitoff).

(** ** f9 (kasumi_f9_1_buffer) *)
Definition SITE_F9_WHILE : nat := 28.
Definition SITE_F9_PARTIAL : nat := 29.
Fixpoint kasumi_f9_loop_leak (sk : list N) (i : nat) (lens : list nat) (blocks : list N) (a b : N) : M N :=
  match blocks with
  | [] => emit (Br SITE_F9_WHILE false) ;;; emit (Br SITE_F9_PARTIAL false) ;;; ret b
  | p :: t =>
      let len := hd 0%nat lens in
      (if Nat.eqb len 8 then emit (Br SITE_F9_WHILE true)
       else emit (Br SITE_F9_WHILE false) ;;; emit (Br SITE_F9_PARTIAL true)) ;;;
      emit (Ld R_src (8 * i) len) ;;;
      a' <- kasumi_enc_leak 0 sk (N.lxor a p) ;;
      (if Nat.eqb len 8 then kasumi_f9_loop_leak sk (S i) (tl lens) t a' (N.lxor b a')
       else ret (kasumi_f9_loop sk t a' (N.lxor b a')))
  end.
Definition kasumi_f9_sk (sk msk : list N) (msg : bytes) : bytes :=
  let blocks := map (fun c => be_to_N (pad_right 8 c)) (chunks 8 msg) in
  be32 (N.shiftr (kasumi_enc_w msk (kasumi_f9_loop sk blocks 0 0)) 32).
Definition kasumi_f9_leak (sk msk : list N) (msg : bytes) : M bytes :=
  let cs := chunks 8 msg in
  b <- kasumi_f9_loop_leak sk 0 (map (@length N) cs) (map (fun c => be_to_N (pad_right 8 c)) cs) 0 0 ;;
  m <- kasumi_enc_leak 1 msk b ;;
  emit (St R_tag 0 4) ;;;
  ret (be32 (N.shiftr m 32)).

(** ** Public trace functions of KASUMI *)
Definition S7_trace : trace := scan_trace R_kasumi_S7 SITE_LOOKUP16 kasumi_S7_nrows 0.
Definition S9_trace : trace := scan_trace R_kasumi_S9 SITE_LOOKUP16 kasumi_S9_nrows 0.
Definition kasumi_FI_trace : trace := S7_trace ++ S9_trace ++ S7_trace ++ S9_trace.
Definition ks_ld_trace (kr i : nat) : trace := [Ld (R_ks kr) (2 * i) 2].
Definition kasumi_FL_trace (kr base : nat) : trace := ks_ld_trace kr base ++ ks_ld_trace kr (base + 1).
Definition kasumi_FO_trace (kr base : nat) : trace :=
  ks_ld_trace kr (base + 2) ++ ks_ld_trace kr (base + 3) ++ kasumi_FI_trace ++
  ks_ld_trace kr (base + 4) ++ ks_ld_trace kr (base + 5) ++ kasumi_FI_trace ++
  ks_ld_trace kr (base + 6) ++ ks_ld_trace kr (base + 7) ++ kasumi_FI_trace.
Fixpoint kasumi_rounds_trace (kr n base : nat) : trace :=
  match n with
  | O => []
  | S n' =>
      kasumi_FL_trace kr base ++ kasumi_FO_trace kr base ++
      kasumi_FO_trace kr (base + 8) ++ kasumi_FL_trace kr (base + 8) ++
      [Br SITE_KASUMI_LOOP (negb (Nat.eqb n' 0))] ++ kasumi_rounds_trace kr n' (base + 16)
  end.
Definition kasumi_enc_trace (kr : nat) : trace := kasumi_rounds_trace kr 4 0.
Fixpoint kasumi_f8_ks_trace (dt : nat -> trace) (i n : nat) : trace :=
  match n with
  | O => []
  | S n' => kasumi_enc_trace 0 ++ dt i ++ kasumi_f8_ks_trace dt (S i) n'
  end.
Definition kasumi_f8_trace (inplace : bool) (bitlen bitoff : N) : trace :=
  [Ld R_iv 0 8; Br SITE_F8_BITPATH (negb ((N.land bitlen 7 =? 0) && (N.land bitoff 7 =? 0)))] ++
  kasumi_enc_trace 1 ++
  kasumi_f8_ks_trace (kasumi_f8_dt inplace bitlen bitoff) 0 (kasumi_f8_nblocks bitlen bitoff).
Fixpoint kasumi_f9_loop_trace (i : nat) (lens : list nat) : trace :=
  match lens with
  | [] => [Br SITE_F9_WHILE false; Br SITE_F9_PARTIAL false]
  | len :: t =>
      (if Nat.eqb len 8 then [Br SITE_F9_WHILE true]
       else [Br SITE_F9_WHILE false; Br SITE_F9_PARTIAL true]) ++
      [Ld R_src (8 * i) len] ++ kasumi_enc_trace 0 ++
      (if Nat.eqb len 8 then kasumi_f9_loop_trace (S i) t else [])
  end.
Definition kasumi_f9_trace (len : nat) : trace :=
  kasumi_f9_loop_trace 0 (chunk_lens len len) ++ kasumi_enc_trace 1 ++ [St R_tag 0 4].

(* ------------------------------------------------------------------------- *)
(** * SNOW3G (snow3g_common.h, snow3g_uea2_by4_sse.inc)                        *)
(* ------------------------------------------------------------------------- *)
(* SAFE_LOOKUP build: S1 = AESENC (no table); S2 = the 256-byte table snow3g_invSR_SQ /
   snow3g_inv_SR_SQ looked up with lookup_16x8bit_* / S2_BOX_SSE (16 row loads, the index
   vector holds all bytes to look up), then AESENC; MULalpha / DIValpha = 8 + 8 fixed loads of
   16-byte nibble tables used as PSHUFB operands (linear maps: T(c) = T_lo(c & 15) ^ T_hi(c >> 4)).
   The model's S2 table holds SQ itself and applies the MixColumn of the standard in
   registers (the library stores invSR(SQ(x)) and lets AESENC do SR and the mixing). *)
Definition snow3g_SQ_rows : list (list N) := rows_of 16 16 snow3g_SQ.
Definition snow3g_S2_leak (w : N) : M N :=
  vs <- scan_vec R_snow3g_S2 SITE_UNROLLED snow3g_SQ_rows
          [N.to_nat (w8 (N.shiftr w 24)); N.to_nat (w8 (N.shiftr w 16));
           N.to_nat (w8 (N.shiftr w 8)); N.to_nat (w8 w)] ;;
  ret (snow3g_mix 0x69 (nth 0 vs 0) (nth 1 vs 0) (nth 2 vs 0) (nth 3 vs 0)).

Definition alpha_trace (r : region) : trace := map (fun k => Ld r (16 * k) 16) (seq 0 8).
(* low-nibble table = entries 0..15 of the 256-entry table, high-nibble table = entries 0,16,..,240 *)
Definition nib_lookup (tab : list N) (c : N) : N :=
  N.lxor (nth (N.to_nat (N.land c 15)) tab 0) (nth (N.to_nat (N.shiftl (N.shiftr c 4) 4)) tab 0).
Definition snow3g_mula_leak (c : N) : M N :=
  emits (alpha_trace R_snow3g_mula) ;;; ret (nib_lookup snow3g_MULa_tab (w8 c)).
Definition snow3g_diva_leak (c : N) : M N :=
  emits (alpha_trace R_snow3g_diva) ;;; ret (nib_lookup snow3g_DIVa_tab (w8 c)).

Definition snow3g_lfsr_step_leak (s : list N) (f : N) : M (list N) :=
  m <- snow3g_mula_leak (N.shiftr (hd 0 s) 24) ;;
  d <- snow3g_diva_leak (nth 11 s 0) ;;
  ret (match s with
       | [s0; s1; s2; s3; s4; s5; s6; s7; s8; s9; s10; s11; s12; s13; s14; s15] =>
           let v := N.lxor (N.lxor (N.lxor (N.lxor (N.lxor
                      (N.shiftl (N.land s0 0xFFFFFF) 8) m) s2) (N.shiftr s11 8)) d) f in
           [s1; s2; s3; s4; s5; s6; s7; s8; s9; s10; s11; s12; s13; s14; s15; v]
       | _ => s
       end).

Definition snow3g_fsm_step_leak (st : snow3g_state) : M (N * N * N * N) :=
  s2 <- snow3g_S2_leak (snow3g_r2 st) ;;
  ret (match snow3g_lfsr st with
       | [_; _; _; _; _; s5; _; _; _; _; _; _; _; _; _; s15] =>
           let f := N.lxor (add32 s15 (snow3g_r1 st)) (snow3g_r2 st) in
           let r := add32 (snow3g_r2 st) (N.lxor (snow3g_r3 st) s5) in
           (f, r, snow3g_S1 (snow3g_r1 st), s2)
       | _ => (0, 0, 0, 0)
       end).

(* one clock, asm order: FSM (S2 scan), then mul_alpha, div_alpha *)
Definition snow3g_init_round_leak (st : snow3g_state) : M snow3g_state :=
  x <- snow3g_fsm_step_leak st ;;
  l <- snow3g_lfsr_step_leak (snow3g_lfsr st) (fst (fst (fst x))) ;;
  ret (mk_snow3g_state l (snd (fst (fst x))) (snd (fst x)) (snd x)).
Definition snow3g_ks_round_leak (st : snow3g_state) : M (N * snow3g_state) :=
  x <- snow3g_fsm_step_leak st ;;
  l <- snow3g_lfsr_step_leak (snow3g_lfsr st) 0 ;;
  ret (N.lxor (fst (fst (fst x))) (hd 0 (snow3g_lfsr st)),
       mk_snow3g_state l (snd (fst (fst x))) (snd (fst x)) (snd x)).
Definition snow3g_clock_trace : trace :=
  scan_trace R_snow3g_S2 SITE_UNROLLED 16 0 ++ alpha_trace R_snow3g_mula ++ alpha_trace R_snow3g_diva.

Fixpoint iterM {A} (n : nat) (f : A -> M A) (x : A) : M A :=
  match n with O => ret x | S k => y <- f x ;; iterM k f y end.

(* multi-buffer asm path (snow3g_uea2_by4_sse.inc; byte-aligned UEA2 and every UIA2 job, on
   SSE and AVX2 type 1): 32 initialisation clocks, one discarded key-stream clock, then one
   clock per 32-bit key-stream word. *)
Definition snow3g_init_leak (s : list N) : M snow3g_state :=
  st <- iterM 32 snow3g_init_round_leak (mk_snow3g_state s 0 0 0) ;;
  x <- snow3g_ks_round_leak st ;;
  ret (snd x).
Fixpoint snow3g_gen_leak (n : nat) (st : snow3g_state) : M (list N) :=
  match n with
  | O => ret []
  | S k => x <- snow3g_ks_round_leak st ;; rest <- snow3g_gen_leak k (snd x) ;; ret (fst x :: rest)
  end.

(* C path (SNOW3G_F8_1_BUFFER_BIT -> SNOW3G_F8_1_BUFFER; UEA2 jobs whose bit length or bit
   offset is not a multiple of 8): snow3gStateInitialize_1 and snow3g_keystream_1_8 merge two
   clocks and put both words into ONE vector for MULa_2 / DIVa_2 / S2_box_2, i.e. one pass
   over the tables serves two clocks (source order: MULa, DIVa, S2). *)
Definition snow3g_clock_trace_c : trace :=
  alpha_trace R_snow3g_mula ++ alpha_trace R_snow3g_diva ++ scan_trace R_snow3g_S2 SITE_UNROLLED 16 0.
Definition snow3g_init_round2_leak (st : snow3g_state) : M snow3g_state :=
  (fst (snow3g_init_round_leak (fst (snow3g_init_round_leak st))), snow3g_clock_trace_c).
Definition snow3g_ks_round2_leak (st : snow3g_state) : M (N * N * snow3g_state) :=
  let a := fst (snow3g_ks_round_leak st) in
  let b := fst (snow3g_ks_round_leak (snd a)) in
  ((fst a, fst b, snd b), snow3g_clock_trace_c).
Definition snow3g_ks_round1_c_leak (st : snow3g_state) : M (N * snow3g_state) :=
  (fst (snow3g_ks_round_leak st), snow3g_clock_trace_c).
Definition snow3g_init_c_leak (s : list N) : M snow3g_state :=
  st <- iterM 16 snow3g_init_round2_leak (mk_snow3g_state s 0 0 0) ;;
  x <- snow3g_ks_round1_c_leak st ;;
  ret (snd x).
(* f8_snow3g: double clocks while at least two words are needed, a single clock for one *)
Fixpoint snow3g_gen_c_leak (n : nat) (st : snow3g_state) : M (list N) :=
  match n with
  | O => ret []
  | S O => x <- snow3g_ks_round1_c_leak st ;; ret [fst x]
  | S (S k) =>
      x <- snow3g_ks_round2_leak st ;;
      rest <- snow3g_gen_c_leak k (snd x) ;;
      ret (fst (fst x) :: snd (fst x) :: rest)
  end.

Definition snow3g_state0 (key iv : bytes) : list N :=
  snow3g_load (snow3g_word key 12) (snow3g_word key 8) (snow3g_word key 4) (snow3g_word key 0)
              (snow3g_word iv 12) (snow3g_word iv 8) (snow3g_word iv 4) (snow3g_word iv 0).
Definition snow3g_keyiv_trace : trace :=
  map (fun i => Ld (R_ks 0) (4 * i) 4) (seq 0 4) ++ [Ld R_iv 0 16].

(** ** UEA2 job: Spec.SNOW3G.snow3g_uea2_job with the key stream as a parameter *)
Definition snow3g_f8_bits_post (ksw : list N) (src dst : bytes) (bitlen ob : N) : bytes :=
  let ks := snow3g_ks_bytes ksw in
  let nb := N.to_nat (N.shiftr (ob + bitlen + 7) 3) in
  if ob =? 0 then
    xor_bytes (snow3g_take_bits bitlen src) ks ++ skipn nb dst
  else
    let ones := snow3g_ones nb bitlen in
    let mask := firstn nb (snow3g_shr_bits ob 0 ones) in
    let kss := snow3g_shr_bits ob 0 (snow3g_and_bytes ks ones) in
    let new := snow3g_merge mask (xor_bytes_l (firstn nb src) kss) dst in
    let new := if N.land (ob + bitlen) 7 =? 0
               then firstn (nb - 1) new ++ [N.lor (nth_N new (nb - 1)) (nth_N dst (nb - 1))]
               else new in
    new ++ skipn nb dst.
Definition snow3g_uea2_post (ksw : list N) (src dst : bytes) (bitlen bitoff : N) : bytes :=
  let base := N.to_nat (N.shiftr bitoff 3) in
  let ob := N.land bitoff 7 in
  if (N.land bitlen 7 =? 0) && (ob =? 0) then
    let n := N.to_nat (N.shiftr bitlen 3) in
    xor_bytes (firstn n (skipn base src)) (snow3g_ks_bytes ksw) ++ skipn n dst
  else
    firstn base dst ++ snow3g_f8_bits_post ksw (skipn base src) (skipn base dst) bitlen ob.
Definition snow3g_nwords (bitlen : N) : nat := N.to_nat (N.shiftr (bitlen + 31) 5).

Definition SITE_UEA2_ALIGNED : nat := 30.
(* data events (coarse, by public quantities only): aligned path one load / store per key
   stream word; bit path: msg_shl_copy (src -> dst), in-place xor per word, msg_shr *)
Definition snow3g_uea2_dt (aligned : bool) (bitlen bitoff : N) : trace :=
  let q := N.to_nat (N.shiftr bitoff 3) in
  let n := snow3g_nwords bitlen in
  if aligned then flat_map (fun i => [Ld R_src (q + 4 * i) 4; St R_dst (4 * i) 4]) (seq 0 n)
  else
    let nb := N.to_nat (N.shiftr (N.land bitoff 7 + bitlen + 7) 3) in
    [Ld R_dst q nb; Ld R_src q nb; St R_dst q nb] ++
    flat_map (fun i => [Ld R_dst (q + 4 * i) 4; St R_dst (q + 4 * i) 4]) (seq 0 n) ++
    [Ld R_dst q nb; St R_dst q nb].

Definition snow3g_uea2_leak (key iv src dst : bytes) (bitlen bitoff : N) : M bytes :=
  let aligned := (N.land bitlen 7 =? 0) && (N.land bitoff 7 =? 0) in
  emits snow3g_keyiv_trace ;;;
  emit (Br SITE_UEA2_ALIGNED aligned) ;;;
  ksw <- (if aligned
          then st <- snow3g_init_leak (snow3g_state0 key iv) ;; snow3g_gen_leak (snow3g_nwords bitlen) st
          else st <- snow3g_init_c_leak (snow3g_state0 key iv) ;; snow3g_gen_c_leak (snow3g_nwords bitlen) st) ;;
  emits (snow3g_uea2_dt aligned bitlen bitoff) ;;;
  ret (snow3g_uea2_post ksw src dst bitlen bitoff).

(** ** UIA2 job (asm path): 5 key-stream words, then the GF(2^64) evaluation (PCLMULQDQ) *)
Definition snow3g_uia2_post (z : list N) (msg : bytes) (bitlen : N) : bytes :=
  let P := N.lor (N.shiftl (nth_N z 0) 32) (nth_N z 1) in
  let Q := N.lor (N.shiftl (nth_N z 2) 32) (nth_N z 3) in
  let ev := fold_left (fun e m => snow3g_MUL64 (N.lxor e m) P 0x1B) (snow3g_msg_blocks msg bitlen) 0 in
  let ev := snow3g_MUL64 (N.lxor ev (w64 bitlen)) Q 0x1B in
  be32 (N.lxor (N.shiftr ev 32) (nth_N z 4)).
Definition snow3g_uia2_dt (bitlen : N) : trace :=
  let nblk := N.to_nat (N.shiftr (bitlen + 63) 6) in
  flat_map (fun i => [Ld R_src (8 * i) 8]) (seq 0 nblk) ++ [St R_tag 0 4].
Definition snow3g_uia2_leak (key iv msg : bytes) (bitlen : N) : M bytes :=
  emits snow3g_keyiv_trace ;;;
  st <- snow3g_init_leak (snow3g_state0 key iv) ;;
  z <- snow3g_gen_leak 5 st ;;
  emits (snow3g_uia2_dt bitlen) ;;;
  ret (snow3g_uia2_post z msg bitlen).

(** ** Public trace functions of SNOW3G *)
Fixpoint gen_c_trace (n : nat) : trace :=
  match n with
  | O => []
  | S O => snow3g_clock_trace_c
  | S (S k) => snow3g_clock_trace_c ++ gen_c_trace k
  end.
Definition snow3g_uea2_trace (bitlen bitoff : N) : trace :=
  let aligned := (N.land bitlen 7 =? 0) && (N.land bitoff 7 =? 0) in
  snow3g_keyiv_trace ++ [Br SITE_UEA2_ALIGNED aligned] ++
  (if aligned then concat (repeat snow3g_clock_trace (33 + snow3g_nwords bitlen))
   else concat (repeat snow3g_clock_trace_c 17) ++ gen_c_trace (snow3g_nwords bitlen)) ++
  snow3g_uea2_dt aligned bitlen bitoff.
Definition snow3g_uia2_trace (bitlen : N) : trace :=
  snow3g_keyiv_trace ++ concat (repeat snow3g_clock_trace 38) ++ snow3g_uia2_dt bitlen.

(* ------------------------------------------------------------------------- *)
(** * Table projection of a trace (used by checks/c19.py for the K7 tie)       *)
(* ------------------------------------------------------------------------- *)
(* region numbers: 0..7 DES sbox{j}p, 8 S7e, 9 S9e, 10 invSR_SQ, 11 mul_alpha, 12 div_alpha *)
Definition region_id (r : region) : option nat :=
  match r with
  | R_des_sbox j => Some j
  | R_kasumi_S7 => Some 8%nat
  | R_kasumi_S9 => Some 9%nat
  | R_snow3g_S2 => Some 10%nat
  | R_snow3g_mula => Some 11%nat
  | R_snow3g_diva => Some 12%nat
  | _ => None
  end.
(* run-length encoding: (region, first offset, size, count, stride) *)
Definition run := (nat * nat * nat * nat * nat)%type.
Definition run_push (acc : list run) (r off sz : nat) : list run :=
  match acc with
  | (r0, o0, s0, c0, d0) :: t =>
      if (Nat.eqb r r0 && Nat.eqb sz s0)%bool then
        if Nat.eqb c0 1 then
          if Nat.leb o0 off then (r0, o0, s0, 2%nat, (off - o0)%nat) :: t else (r, off, sz, 1%nat, 0%nat) :: acc
        else if Nat.eqb off (o0 + c0 * d0) then (r0, o0, s0, S c0, d0) :: t
        else (r, off, sz, 1%nat, 0%nat) :: acc
      else (r, off, sz, 1%nat, 0%nat) :: acc
  | [] => [(r, off, sz, 1%nat, 0%nat)]
  end.
Definition tab_rle (t : trace) : list run :=
  rev (fold_left (fun acc e =>
                    match e with
                    | Ld r off sz => match region_id r with Some i => run_push acc i off sz | None => acc end
                    | _ => acc
                    end) t []).
