(* Struct/Leak.v — property C19 (SAFE_LOOKUP): instrumented, source-shaped models of
   DES / 3DES / DOCSIS-DES (lib/x86_64/des_basic.c), KASUMI f8 / f9
   (lib/include/kasumi_internal.h) and SNOW3G UEA2 / UIA2 (lib/include/snow3g_common.h,
   lib/include/snow3g_uea2_by4_sse.inc) as the library structures them in a SAFE_LOOKUP
   build.  Every function returns (output, trace); the trace lists, in program order,
   every memory access to a named region (region, byte offset, size) and every branch
   decision (site, taken).  Definitions only; proofs are in Proofs/LeakProofs.v.

   What is modelled
   - the constant-time table scans of lib/x86_64/constant_lookup_fns.asm
     (lookup_32bit_sse, lookup_16bit_sse, lookup_16x8bit_sse/avx, lookup_32x8bit_avx2):
     one aligned 16-byte load per table row over the WHOLE table, a compare/and/or select
     per row, the loop branch per row ([scan_rows]);
   - for each algorithm the order and number of those scans, the key-schedule reads
     (public indices), the reads of the source / IV and the writes of the destination /
     tag, and the branches of the C code (loop conditions and length tests).
   What is not modelled: registers, the stack (locals, spills, SAFE_DATA clearing), the
     job manager, pure register computations (IP/FP/E/P permutations, AESENC, PCLMULQDQ).
   The values are computed with the functions of Spec/DES.v, Spec/KASUMI.v, Spec/SNOW3G.v
   except that every table lookup indexed by secret-derived data goes through [scan_rows]. *)
From Coq Require Import List NArith Bool Arith Lia.
From IMB Require Import Lib.Bytes Spec.DES Spec.KASUMI Spec.SNOW3G.
Import ListNotations.
Local Open Scope N_scope.

(* ------------------------------------------------------------------------- *)
(** * Events, traces, the writer monad                                        *)
(* ------------------------------------------------------------------------- *)
Inductive region :=
| R_des_sbox (j : nat)        (* sbox{j}p of des_basic.c, j = 0..7 (S-box j+1 and P) *)
| R_kasumi_S7                 (* sso_kasumi_S7e: 256 x uint16 *)
| R_kasumi_S9                 (* sso_kasumi_S9e: 512 x uint16 *)
| R_snow3g_S2                 (* snow3g_invSR_SQ / snow3g_inv_SR_SQ: 256 x uint8 *)
| R_snow3g_mula               (* 8 x 16-byte nibble tables of MULalpha *)
| R_snow3g_diva               (* 8 x 16-byte nibble tables of DIValpha *)
| R_ks (i : nat)              (* key schedule number i (3DES: 0..2, KASUMI: 0 = sk16, 1 = msk16) *)
| R_src | R_dst | R_iv | R_tag.

Inductive event :=
| Ld (r : region) (off size : nat)
| St (r : region) (off size : nat)
| Br (site : nat) (taken : bool).

Definition trace := list event.
Definition M (A : Type) : Type := (A * trace)%type.

Definition ret {A} (a : A) : M A := (a, []).
Definition bind {A B} (m : M A) (f : A -> M B) : M B :=
  let r := f (fst m) in (fst r, snd m ++ snd r).
Definition emit (e : event) : M unit := (tt, [e]).
Definition emits (t : trace) : M unit := (tt, t).
Notation "x <- m ;; f" := (bind m (fun x => f)) (at level 61, m at next level, right associativity).
Notation "m ;;; f" := (bind m (fun _ => f)) (at level 61, right associativity).

(* ------------------------------------------------------------------------- *)
(** * The constant-time scan                                                  *)
(* ------------------------------------------------------------------------- *)
(* One row held in an XMM register: the lanes whose index equals [idx] keep their value
   (pcmpeq + pand), all lanes are OR-ed together.  [b] = index of the first lane. *)
Fixpoint row_select (row : list N) (b idx : nat) : N :=
  match row with
  | [] => 0
  | v :: t => N.lor (if Nat.eqb b idx then v else 0) (row_select t (S b) idx)
  end.

(* loopNN_sse: for every 16-byte row: load it, select, accumulate, dec/jne.
   [site] names the loop branch; it is taken while rows remain. *)
Fixpoint scan_rows (r : region) (site : nat) (rows : list (list N)) (b off idx : nat) (acc : N) : M N :=
  match rows with
  | [] => ret acc
  | row :: rest =>
      emit (Ld r off 16) ;;;
      emit (Br site (negb (Nat.eqb (length rest) 0))) ;;;
      scan_rows r site rest (b + length row) (off + 16) idx (N.lor acc (row_select row b idx))
  end.
Definition scan (r : region) (site : nat) (rows : list (list N)) (idx : nat) : M N :=
  scan_rows r site rows 0 0 idx 0.

(* its trace, a function of the region and the number of rows only *)
Fixpoint scan_trace (r : region) (site nrows off : nat) : trace :=
  match nrows with
  | O => []
  | S n => Ld r off 16 :: Br site (negb (Nat.eqb n 0)) :: scan_trace r site n (off + 16)
  end.

(* The parallel lookups (lookup_16x8bit_*, lookup_32x8bit_avx2, S2_BOX_SSE): the same 16
   row loads serve all indices held in the index vector. *)
Definition scan_vec (r : region) (site : nat) (rows : list (list N)) (idxs : list nat) : M (list N) :=
  (map (fun i => fst (scan r site rows i)) idxs, scan_trace r site (length rows) 0).

(* cut a flat table into rows of [lanes] entries *)
Fixpoint rows_of (lanes nrows : nat) (tbl : list N) : list (list N) :=
  match nrows with
  | O => []
  | S n => firstn lanes tbl :: rows_of lanes n (skipn lanes tbl)
  end.

(* ------------------------------------------------------------------------- *)
(** * DES (des_basic.c)                                                       *)
(* ------------------------------------------------------------------------- *)
(* fRK: x = e_phase(R) ^ K; eight LOOKUP32_SSE(sbox{j}p, (x >> 8j) & 0x3f, sizeof(sbox{j}p)).
   lookup_32bit_sse takes its size argument in ELEMENTS; the code passes sizeof = 256, so
   the loop runs 256/4 = 64 rows = 1024 bytes, i.e. 768 bytes beyond the 256-byte table
   (observed on the binary).  Rows 16..63 never match (index < 64); they are modelled as
   zero rows.  sbox{j}p = S-box (j+1) composed with P; the model looks up the plain S-box
   and applies P afterwards (a register computation), which is the same function. *)
Definition des_sbox_flat (Sb : list (list N)) : list N :=
  map (fun i => des_sbox_lookup Sb (N.of_nat i)) (seq 0 64).
Definition des_sbox_rows (Sb : list (list N)) : list (list N) :=
  rows_of 4 64 (des_sbox_flat Sb ++ repeat 0 192).

(* S-boxes still to apply, last one (lowest 6 bits of x) first, with the number of
   the library table; the recursion performs the lookup of the HIGHER bits first so that
   the trace runs sbox0p, sbox1p, ..., sbox7p as in the source. *)
Definition des_sboxes_rev_idx : list (nat * list (list N)) :=
  [(7%nat, des_S8); (6%nat, des_S7); (5%nat, des_S6); (4%nat, des_S5);
   (3%nat, des_S4); (2%nat, des_S3); (1%nat, des_S2); (0%nat, des_S1)].

Definition SITE_LOOKUP32 : nat := 1.   (* jne loop32_sse *)
Definition SITE_LOOKUP16 : nat := 2.   (* jne loop16_sse *)
Definition SITE_LOOKUP16x8 : nat := 3. (* unrolled: no branch; used as a tag only *)

Fixpoint des_S_leak_aux (sb : list (nat * list (list N))) (x : N) : M N :=
  match sb with
  | [] => ret 0
  | (j, Sb) :: t =>
      hi <- des_S_leak_aux t (N.shiftr x 6) ;;
      v <- scan (R_des_sbox j) SITE_LOOKUP32 (des_sbox_rows Sb) (N.to_nat (N.land x 63)) ;;
      ret (N.lor v (N.shiftl hi 4))
  end.
Definition des_S_leak (x : N) : M N := des_S_leak_aux des_sboxes_rev_idx x.

Definition des_f_leak (r k : N) : M N :=
  s <- des_S_leak (N.lxor (des_E r) k) ;; ret (des_P s).

Definition des_round_leak (lr : N * N) (k : N) : M (N * N) :=
  f <- des_f_leak (snd lr) k ;; ret (snd lr, N.lxor (fst lr) f).

Fixpoint des_rounds_leak (ks : list N) (lr : N * N) : M (N * N) :=
  match ks with
  | [] => ret lr
  | k :: t => lr' <- des_round_leak lr k ;; des_rounds_leak t lr'
  end.

(* enc_dec_1: memcpy_fn_sse_128(k, ks) = eight 16-byte loads of the schedule; `if (enc)`;
   sixteen rounds with k[0..15] (enc) or k[15..0] (dec).  [ks] is the schedule in the
   order the rounds consume it (the caller passes [rev ks] for decryption). *)
Definition SITE_DES_ENC : nat := 10.
Definition ks_copy_trace (kr : nat) : trace :=
  map (fun i => Ld (R_ks kr) (16 * i) 16) (seq 0 8).
Definition des_block_leak (kr : nat) (enc : bool) (ks : list N) (x : N) : M N :=
  emits (ks_copy_trace kr) ;;;
  emit (Br SITE_DES_ENC enc) ;;;
  lr <- des_rounds_leak ks (des_split (des_IP x)) ;;
  ret (des_FP (des_join_swapped lr)).

(* cfb_one_basic: t = enc_dec_1(ivec[0]); then size&1, size&2, size&4 pieces.
   [off] = byte offset of the partial block in the buffers. *)
Definition SITE_CFB_1 : nat := 11.
Definition SITE_CFB_2 : nat := 12.
Definition SITE_CFB_4 : nat := 13.
Definition cfb_pieces_trace (off size : nat) : trace :=
  let b1 := Nat.odd size in
  let b2 := Nat.odd (Nat.div size 2) in
  let b4 := Nat.odd (Nat.div size 4) in
  let o1 := off in
  let o2 := (off + (if b1 then 1 else 0))%nat in
  let o4 := (o2 + (if b2 then 2 else 0))%nat in
  [Br SITE_CFB_1 b1] ++ (if b1 then [Ld R_src o1 1; St R_dst o1 1] else []) ++
  [Br SITE_CFB_2 b2] ++ (if b2 then [Ld R_src o2 2; St R_dst o2 2] else []) ++
  [Br SITE_CFB_4 b4] ++ (if b4 then [Ld R_src o4 4; St R_dst o4 4] else []).
Definition cfb_residue_leak (E : N -> M N) (cfb : bool) (iv : N) (off : nat) (c : bytes) : M bytes :=
  if cfb then
    t <- E iv ;;
    emits (cfb_pieces_trace off (length c)) ;;;
    ret (xor_bytes c (N_to_be 8 t))
  else ret [].

(* des_enc_cbc_basic / docsis_des_enc_basic: for (n = 0; n < nblocks; n++)
     out[n] = iv = enc_dec_1(in[n] ^ iv, ks, 1);   then `if (partial)` (DOCSIS only).
   The recursion is over the 8-byte chunks of the message ([chunks 8 msg], as in Spec/DES.v);
   [n] = number of the block. *)
Definition SITE_CBC_LOOP : nat := 14.
Definition SITE_PARTIAL : nat := 15.
Fixpoint cbc64_enc_leak (E : N -> M N) (cfb : bool) (iv : N) (n : nat) (cs : list bytes) : M bytes :=
  match cs with
  | [] => emit (Br SITE_CBC_LOOP false) ;;; (if cfb then emit (Br SITE_PARTIAL false) else ret tt) ;;; ret []
  | c :: t =>
      if Nat.eqb (length c) 8 then
        emit (Br SITE_CBC_LOOP true) ;;;
        emit (Ld R_src (8 * n) 8) ;;;
        y <- E (N.lxor (be_to_N c) iv) ;;
        emit (St R_dst (8 * n) 8) ;;;
        rest <- cbc64_enc_leak E cfb y (S n) t ;;
        ret (N_to_be 8 y ++ rest)
      else
        emit (Br SITE_CBC_LOOP false) ;;;
        (if cfb then emit (Br SITE_PARTIAL true) else ret tt) ;;;
        cfb_residue_leak E cfb iv (8 * n) c
  end.

(* des_dec_cbc_basic / docsis_des_dec_basic.  (For a DOCSIS message with a trailing partial
   block the C code runs cfb_one_basic BEFORE the CBC loop; the model, like Spec/DES.v, emits
   it after the loop: the two traces are permutations of each other and contain the same
   scans.) *)
Fixpoint cbc64_dec_leak (E D : N -> M N) (cfb : bool) (iv : N) (n : nat) (cs : list bytes) : M bytes :=
  match cs with
  | [] => emit (Br SITE_CBC_LOOP false) ;;; (if cfb then emit (Br SITE_PARTIAL false) else ret tt) ;;; ret []
  | c :: t =>
      if Nat.eqb (length c) 8 then
        emit (Br SITE_CBC_LOOP true) ;;;
        emit (Ld R_src (8 * n) 8) ;;;
        let x := be_to_N c in
        p <- D x ;;
        emit (St R_dst (8 * n) 8) ;;;
        rest <- cbc64_dec_leak E D cfb x (S n) t ;;
        ret (N_to_be 8 (N.lxor p iv) ++ rest)
      else
        emit (Br SITE_CBC_LOOP false) ;;;
        (if cfb then emit (Br SITE_PARTIAL true) else ret tt) ;;;
        cfb_residue_leak E cfb iv (8 * n) c
  end.

(* The jobs.  [ks], [ks1..3] are the schedules (16 subkeys each; ANY lists are accepted:
   the theorems quantify over all of them).  The IV is read once (ivec[0]). *)
Definition iv_read : M unit := emit (Ld R_iv 0 8).

Definition des_cbc_enc_leak (ks : list N) (iv msg : bytes) : M bytes :=
  iv_read ;;; cbc64_enc_leak (des_block_leak 0 true ks) false (be_to_N iv) 0 (chunks 8 msg).
Definition des_cbc_dec_leak (ks : list N) (iv msg : bytes) : M bytes :=
  iv_read ;;; cbc64_dec_leak (des_block_leak 0 true ks) (des_block_leak 0 false (rev ks)) false
                             (be_to_N iv) 0 (chunks 8 msg).

Definition des3_E_leak (ks1 ks2 ks3 : list N) (x : N) : M N :=
  a <- des_block_leak 0 true ks1 x ;;
  b <- des_block_leak 1 false (rev ks2) a ;;
  des_block_leak 2 true ks3 b.
Definition des3_D_leak (ks1 ks2 ks3 : list N) (x : N) : M N :=
  a <- des_block_leak 2 false (rev ks3) x ;;
  b <- des_block_leak 1 true ks2 a ;;
  des_block_leak 0 false (rev ks1) b.
Definition des3_cbc_enc_leak (ks1 ks2 ks3 : list N) (iv msg : bytes) : M bytes :=
  iv_read ;;; cbc64_enc_leak (des3_E_leak ks1 ks2 ks3) false (be_to_N iv) 0 (chunks 8 msg).
Definition des3_cbc_dec_leak (ks1 ks2 ks3 : list N) (iv msg : bytes) : M bytes :=
  iv_read ;;; cbc64_dec_leak (des3_E_leak ks1 ks2 ks3) (des3_D_leak ks1 ks2 ks3) false
                             (be_to_N iv) 0 (chunks 8 msg).

Definition docsis_des_enc_leak (ks : list N) (iv msg : bytes) : M bytes :=
  iv_read ;;; cbc64_enc_leak (des_block_leak 0 true ks) true (be_to_N iv) 0 (chunks 8 msg).
Definition docsis_des_dec_leak (ks : list N) (iv msg : bytes) : M bytes :=
  iv_read ;;; cbc64_dec_leak (des_block_leak 0 true ks) (des_block_leak 0 false (rev ks)) true
                             (be_to_N iv) 0 (chunks 8 msg).

(** ** Public trace functions of DES (what the theorems say the traces are) *)
Definition des_S_trace : trace :=
  flat_map (fun j => scan_trace (R_des_sbox j) SITE_LOOKUP32 64 0) (seq 0 8).
Definition des_block_trace (kr : nat) (enc : bool) (nrounds : nat) : trace :=
  ks_copy_trace kr ++ [Br SITE_DES_ENC enc] ++ concat (repeat des_S_trace nrounds).
Definition cfb_residue_trace (tE : trace) (cfb : bool) (off len : nat) : trace :=
  if cfb then tE ++ cfb_pieces_trace off len else [].
Fixpoint cbc64_trace (tE : trace) (tB : trace) (cfb : bool) (n : nat) (lens : list nat) : trace :=
  match lens with
  | [] => Br SITE_CBC_LOOP false :: (if cfb then [Br SITE_PARTIAL false] else [])
  | l :: t =>
      if Nat.eqb l 8 then
        Br SITE_CBC_LOOP true :: Ld R_src (8 * n) 8 :: tB ++ St R_dst (8 * n) 8 :: cbc64_trace tE tB cfb (S n) t
      else
        Br SITE_CBC_LOOP false :: (if cfb then [Br SITE_PARTIAL true] else []) ++
        cfb_residue_trace tE cfb (8 * n) l
  end.
(* chunk lengths of a message of [len] bytes *)
Fixpoint chunk_lens (fuel len : nat) : list nat :=
  match fuel with
  | O => []
  | S f => match len with
           | O => []
           | _ => Nat.min 8 len :: chunk_lens f (len - 8)
           end
  end.
Definition des_job_trace (tE tB : trace) (cfb : bool) (len : nat) : trace :=
  Ld R_iv 0 8 :: cbc64_trace tE tB cfb 0 (chunk_lens len len).
