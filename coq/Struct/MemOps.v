(* Struct/MemOps.v — byte-array store/load used by the lane-geometry models
   (HmacPad, ShaMb, CmacLast, CcmFormat).  Definitions only.
   A lane scratch buffer (extra_block, outer_block, init_blocks, scratch, final_block) is a
   [bytes]; a store of [data] at byte offset [off] replaces length-data bytes in place. *)
From IMB Require Import Lib.Bytes.

Definition write_at (off : nat) (data mem : bytes) : bytes :=
  firstn off mem ++ data ++ skipn (off + length data) mem.

(* [len] bytes at offset [off] *)
Definition read_at (off len : nat) (mem : bytes) : bytes := firstn len (skipn off mem).
