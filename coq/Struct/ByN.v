(* Struct/ByN.v — C01, structural layer (L2): how the library's block-mode kernels decompose
   the work.  Definitions only; theorems in Proofs/ByNProofs.v.

   Every by-N kernel (N = 4 on SSE no-AESNI / by4, 8 on SSE/AVX by8, 16 on VAES by16, 32 in
   the unrolled VAES main loops) has the shape

       process floor(n/N) groups of N blocks; then one tail group of n mod N (< N) blocks;
       then, for the byte-granular modes, a final partial block;

   carrying a small state from group to group (CTR: the byte-swapped counter register;
   CBC decrypt: the last ciphertext block; ECB: nothing).  [byN_run] is that skeleton, generic
   in the state type and in the function that processes ONE group of at most N blocks. *)
From Coq Require Import List NArith.
From IMB Require Import Lib.Bytes Spec.AES Spec.AESModes Struct.CtrKernel.
Import ListNotations.

Section Skeleton.
  Variable St : Type.
  (* one group: at most N blocks in, as many blocks out, new state *)
  Variable group : St -> list bytes -> list bytes * St.
  (* final partial block (1..15 bytes) *)
  Variable partial : St -> bytes -> bytes.
  Variable Nb : nat.

  (* [g] full groups; returns output blocks, state, unprocessed blocks *)
  Fixpoint byN_groups (g : nat) (st : St) (bs : list bytes) : list bytes * St * list bytes :=
    match g with
    | O => ([], st, bs)
    | S g' =>
      let '(o, st1) := group st (firstn Nb bs) in
      let '(os, st2, rest) := byN_groups g' st1 (skipn Nb bs) in
      (o ++ os, st2, rest)
    end.

  (* all whole blocks: floor(n/N) groups, then the tail group (skipped when empty) *)
  Definition byN_blocks (st : St) (bs : list bytes) : list bytes * St :=
    let '(o1, st1, rest) := byN_groups (Nat.div (length bs) Nb) st bs in
    match rest with
    | [] => (o1, st1)
    | _ => let '(o2, st2) := group st1 rest in (o1 ++ o2, st2)
    end.

  (* the message: whole blocks, then the partial block *)
  Definition byN_run (st : St) (msg : bytes) : bytes :=
    let '(bs, tl) := blocks16 msg in
    let '(out, st') := byN_blocks st bs in
    concat out ++ match tl with [] => [] | _ => partial st' tl end.
End Skeleton.

(* map with the index of the element, starting at [i] *)
Fixpoint mapi_from {A B : Type} (i : nat) (f : nat -> A -> B) (l : list A) : list B :=
  match l with
  | [] => []
  | x :: t => f i x :: mapi_from (S i) f t
  end.

(* ---------------------------------------------------------------------------------------- *)
(* CTR (IMB_CIPHER_CNTR): state = the byte-swapped counter register; lane i of a group uses
   register + ddq_add_i (paddd), the register then advances by the group size (paddd). *)
Definition ctr_group (E : bytes -> bytes) (reg : N) (bs : list bytes) : list bytes * N :=
  (mapi_from 0 (fun i b => xor_bytes b (E (ctr_lane32 reg (N.of_nat i)))) bs,
   paddd reg (ddq_add (N.of_nat (length bs)))).

Definition ctr_partial (E : bytes -> bytes) (reg : N) (tl : bytes) : bytes :=
  xor_bytes tl (E (ctr_lane32 reg 0)).

Definition ctr_byN (E : bytes -> bytes) (Nb : nat) (iv msg : bytes) : bytes :=
  byN_run N (ctr_group E) (ctr_partial E) Nb (ctr_reg (ctr_iv_block iv)) msg.

(* ---------------------------------------------------------------------------------------- *)
(* ECB: no state *)
Definition ecb_group (f : bytes -> bytes) (st : unit) (bs : list bytes) : list bytes * unit :=
  (map f bs, tt).

Definition ecb_byN (f : bytes -> bytes) (Nb : nat) (msg : bytes) : bytes :=
  byN_run unit (ecb_group f) (fun _ tl => tl) Nb tt msg.

(* ---------------------------------------------------------------------------------------- *)
(* CBC decrypt: state = IV register (previous ciphertext block).  Within a group all blocks
   are deciphered independently and block i is XORed with INPUT block i-1 (the IV register
   for i = 0): the kernel has loaded the N ciphertext blocks into registers before it stores
   anything, and saves the last one as the next IV. *)
Fixpoint xor_lists (a b : list bytes) : list bytes :=
  match a, b with
  | x :: a', y :: b' => xor_bytes x y :: xor_lists a' b'
  | _, _ => []
  end.

Definition cbc_dec_group (D : bytes -> bytes) (iv : bytes) (cs : list bytes)
  : list bytes * bytes :=
  (xor_lists (map D cs) (iv :: cs), last cs iv).

Definition cbc_dec_byN (D : bytes -> bytes) (Nb : nat) (iv msg : bytes) : bytes :=
  byN_run bytes (cbc_dec_group D) (fun _ tl => tl) Nb iv msg.

(* In-place operation (job->dst = job->src): ONE buffer [mem] of blocks.  A group first LOADS
   its (at most N) blocks from the current contents of the buffer at block position [pos],
   computes, then STORES the results over the same positions; the IV register carries the
   last loaded ciphertext block to the next group.  [g] groups. *)
Fixpoint cbc_dec_inplace_groups (D : bytes -> bytes) (Nb : nat) (g : nat)
    (iv : bytes) (pos : nat) (mem : list bytes) : list bytes * bytes :=
  match g with
  | O => (mem, iv)
  | S g' =>
    let cs := firstn Nb (skipn pos mem) in                              (* loads *)
    let '(outs, iv') := cbc_dec_group D iv cs in
    let mem' := firstn pos mem ++ outs ++ skipn (pos + length cs) mem in (* stores *)
    cbc_dec_inplace_groups D Nb g' iv' (pos + length cs) mem'
  end.

(* floor(n/N) full groups and the tail group (a group of 0 blocks changes nothing) *)
Definition cbc_dec_inplace (D : bytes -> bytes) (Nb : nat) (iv : bytes) (mem : list bytes)
  : list bytes :=
  fst (cbc_dec_inplace_groups D Nb (Nat.div (length mem) Nb + 1) iv 0 mem).
