(* Struct/GcmStream.v — C10: the AES-GCM / GMAC streaming (init / update / finalize) state machine
   over struct gcm_context_data of /repo/lib/intel-ipsec-mb.h.

   Modelled code (the logic is assembly; this file follows the macros of
   /repo/lib/include/gcm_sse.inc — the AVX2 / AVX512 / VAES files implement the same
   state machine, which the context-dump tie K10 checks after every call on every variant):
     GCM_INIT  (+ CALC_J0)                        -> [gcm_init]      aes_gcm_init_{128,192,256}_*,
                                                                      aes_gcm_init_var_iv_*
     GCM_ENC_DEC = PARTIAL_BLOCK ; whole blocks ; new partial block
                                                   -> [gcm_update]    aes_gcm_{enc,dec}_*_update_*
     GCM_COMPLETE                                  -> [gcm_finalize]  aes_gcm_{enc,dec}_*_finalize_*
     gcm_gmac_api_sse.inc  GMAC update (PARTIAL_BLOCK_GMAC ; CALC_AAD_HASH ; new partial block)
                                                   -> [gmac_update]   imb_aes_gmac_update_*
     lib/x86_64/gcm.c imb_aes_gmac_init_* / _finalize_*  -> [gmac_init] / [gmac_finalize]
     lib/include/job_api_gcm.h submit_gcm_sgl_enc / _dec  -> [gcm_sgl]
   The block cipher (key fixed) is the Section variable [E]; GF(2^128) arithmetic and GHASH are
   Spec/GF128.v.  H = E(0^128) stands for the HashKey table of struct gcm_key_data.

   Representation of the context fields (memory images are produced by [gctx_mem_*], the harness
   dumps the same bytes):
   * aad_hash[16] holds the GHASH accumulator byte-reflected: memory = N_to_le 16 g_hash where
     g_hash is the accumulator as the big-endian integer used by Spec/GF128.v.  While a partial
     block is pending its ciphertext bytes are ALREADY xored into the accumulator (at their byte
     position) but the multiplication by H is deferred until the block is complete (or finalize).
   * current_counter[16] is stored byte-reversed; the model keeps the 12-byte prefix [g_pre] and
     the 32-bit counter [g_ctr] of the LAST counter block used: memory = rev (g_pre ++ be32 g_ctr).
   * partial_block_enc_key[16] = E(counter block of the pending partial block); only bytes
     [partial_block_length, 16) (not yet used key stream) are defined across variants.
   * orig_IV[16] = J0.
   uint64_t lengths are [N] with plain additions (no 2^64 wrap modelled).  Definitions only. *)
From IMB Require Import Lib.Bytes Spec.GF128 Spec.AES Spec.GCM.
Local Open Scope N_scope.

Inductive gdir : Type := GEnc | GDec.
Inductive gsgl_state : Type := GSGL_INIT | GSGL_UPDATE | GSGL_COMPLETE | GSGL_ALL.

Record gctx : Type := mk_gctx {
  g_hash : N;          (* aad_hash[16] *)
  g_aad_len : N;       (* aad_length *)
  g_in_len : N;        (* in_length *)
  g_pbk : bytes;       (* partial_block_enc_key[16] *)
  g_oiv : bytes;       (* orig_IV[16] *)
  g_pre : bytes;       (* current_counter: 12-byte prefix *)
  g_ctr : N;           (* current_counter: 32-bit big-endian counter *)
  g_pbl : N            (* partial_block_length *)
}.

Definition gset_hash (c : gctx) (v : N) : gctx :=
  mk_gctx v (g_aad_len c) (g_in_len c) (g_pbk c) (g_oiv c) (g_pre c) (g_ctr c) (g_pbl c).
Definition gset_aad_len (c : gctx) (v : N) : gctx :=
  mk_gctx (g_hash c) v (g_in_len c) (g_pbk c) (g_oiv c) (g_pre c) (g_ctr c) (g_pbl c).
Definition gset_in_len (c : gctx) (v : N) : gctx :=
  mk_gctx (g_hash c) (g_aad_len c) v (g_pbk c) (g_oiv c) (g_pre c) (g_ctr c) (g_pbl c).
Definition gset_pbk (c : gctx) (v : bytes) : gctx :=
  mk_gctx (g_hash c) (g_aad_len c) (g_in_len c) v (g_oiv c) (g_pre c) (g_ctr c) (g_pbl c).
Definition gset_ctr (c : gctx) (v : N) : gctx :=
  mk_gctx (g_hash c) (g_aad_len c) (g_in_len c) (g_pbk c) (g_oiv c) (g_pre c) v (g_pbl c).
Definition gset_pbl (c : gctx) (v : N) : gctx :=
  mk_gctx (g_hash c) (g_aad_len c) (g_in_len c) (g_pbk c) (g_oiv c) (g_pre c) (g_ctr c) v.

(* xor [piece] into the accumulator at byte offset [off] of the 16-byte block *)
Definition hash_xor_at (y : N) (off : nat) (piece : bytes) : N :=
  N.lxor y (be_to_N (pad_right 16 (zeros off ++ piece))).

(* one increment of the 32-bit counter per block of [blks] (paddd on the low dword: no carry
   into the prefix) *)
Definition ctr_after (c : N) (blks : list bytes) : N :=
  fold_left (fun c _ => w32 (c + 1)) blks c.

Definition glen (l : bytes) : N := N.of_nat (length l).

Section Generic.
  Variable E : bytes -> bytes.
  (* Scheduling freedom of the implementations.  When a segment ends exactly on a block boundary
     the VAES/AVX512 code (gcm_vaes_avx512.inc, INITIAL_BLOCKS_PARTIAL in the multi_call case with
     16 blocks left: "for NUM_BLOCKS = 16, LENGTH stored in [PBlockLen] is never zero") leaves the
     LAST WHOLE BLOCK pending: its ciphertext is xored into aad_hash, the multiplication by H is
     deferred and partial_block_length is 16; PARTIAL_BLOCK / GCM_COMPLETE of the next call finish
     it.  Which updates do so is a property of the variant and of the segment length; the model
     takes it as an arbitrary policy [lazy ctx src] and every theorem holds for ALL policies.
     The SSE / AVX2 code never defers ([lazy] constantly false). *)
  Variable lazy : gctx -> bytes -> bool.

  Definition H : N := gcm_hash_subkey E.

  (* GCM_INIT (+ CALC_J0 when the IV length is not 12): [twelve] selects the entry points that
     read exactly 12 IV bytes (aes_gcm_init_NNN_ARCH), otherwise aes_gcm_init_var_iv_*, which takes the
     12-byte shortcut iff iv_len = 12 (gcm_sgl_api_sse.inc "cmp arg4, 12") *)
  Definition gcm_init (twelve : bool) (iv aad : bytes) : gctx :=
    let j0 := if twelve then firstn 12 iv ++ [0; 0; 0; 1] else gcm_j0 H iv in
    mk_gctx (ghash_from H 0 aad)           (* CALC_AAD_HASH: trailing partial block zero padded *)
            (glen aad) 0
            (zeros 16)                     (* "= 0" in the source comment; really xmm2^xmm3, never read *)
            j0 (firstn 12 j0) (be_to_N (skipn 12 j0)) 0.

  (* PARTIAL_BLOCK: finish (or continue) the pending partial block with the first bytes of the
     segment.  Returns the context, the bytes written and the number of input bytes consumed. *)
  Definition partial_block (ctx : gctx) (dir : gdir) (src : bytes) : gctx * bytes * nat :=
    let pbl := N.to_nat (g_pbl ctx) in
    match pbl with
    | O => (ctx, [], O)
    | S _ =>
        let n := Nat.min (length src) (16 - pbl)%nat in
        let inp := firstn n src in
        let out := xor_bytes inp (skipn pbl (g_pbk ctx)) in
        let ct := match dir with GEnc => out | GDec => inp end in
        let y := hash_xor_at (g_hash ctx) pbl ct in
        if Nat.leb 16 (pbl + length src)
        then (gset_pbl (gset_hash ctx (gf128_mul y H)) 0, out, n)     (* block complete: GHASH_MUL *)
        else (gset_pbl (gset_hash ctx y) (g_pbl ctx + glen src), out, n)
    end.

  (* GCM_ENC_DEC *)
  Definition gcm_update (ctx : gctx) (dir : gdir) (src : bytes) : gctx * bytes :=
    match src with
    | [] => (ctx, [])                                   (* cmp PLAIN_CYPH_LEN, 0 / je done *)
    | _ :: _ =>
      let defer := lazy ctx src in
      let ctx := gset_in_len ctx (g_in_len ctx + glen src) in
      let '(ctx, out1, n) := partial_block ctx dir src in
      let rest := skipn n src in
      let nb0 := Nat.div (length rest) 16 in
      (* a deferred last whole block is handled exactly like a 16-byte "partial" block *)
      let nb := if defer && Nat.eqb (length rest) (16 * nb0) && Nat.ltb 0 nb0 then (nb0 - 1)%nat else nb0 in
      let whole := firstn (16 * nb)%nat rest in
      let tail := skipn (16 * nb)%nat rest in
      (* INITIAL_BLOCKS / GHASH_8_ENCRYPT_8_PARALLEL / GHASH_LAST_8: whole blocks *)
      let blks := chunks 16 whole in
      let out2 := gctr_blocks E (g_pre ctx) (w32 (g_ctr ctx + 1)) blks in
      let ct2 := match dir with GEnc => out2 | GDec => whole end in
      let ctx := gset_hash ctx (ghash_from H (g_hash ctx) ct2) in
      let ctx := gset_ctr ctx (ctr_after (g_ctr ctx) blks) in
      match tail with
      | [] => (ctx, out1 ++ out2)
      | _ :: _ =>
          (* new partial block: INCR CNT, E(K, Yn) saved, text xored into the hash, no multiply *)
          let ctx := gset_pbl ctx (glen tail) in
          let ctx := gset_ctr ctx (w32 (g_ctr ctx + 1)) in
          let ctx := gset_pbk ctx (E (g_pre ctx ++ be32 (g_ctr ctx))) in
          let out3 := xor_bytes tail (g_pbk ctx) in
          let ct3 := match dir with GEnc => out3 | GDec => tail end in
          let ctx := gset_hash ctx (hash_xor_at (g_hash ctx) 0 ct3) in
          (ctx, out1 ++ out2 ++ out3)
      end
    end.

  (* GCM_COMPLETE *)
  Definition gcm_finalize (ctx : gctx) (taglen : nat) : gctx * bytes :=
    let y := if g_pbl ctx =? 0 then g_hash ctx else gf128_mul (g_hash ctx) H in
    let lenblk := be64 (8 * g_aad_len ctx) ++ be64 (8 * g_in_len ctx) in
    let s := ghash_step H y lenblk in
    let tag := firstn taglen (xor_bytes (E (g_oiv ctx)) (N_to_be 16 s)) in
    (* SAFE_DATA: AadHash and PBlockEncKey cleared *)
    (gset_pbk (gset_hash ctx 0) (zeros 16), tag).

  (* PARTIAL_BLOCK_GMAC *)
  Definition partial_block_gmac (ctx : gctx) (src : bytes) : gctx * nat :=
    let pbl := N.to_nat (g_pbl ctx) in
    match pbl with
    | O => (ctx, O)
    | S _ =>
        let n := Nat.min (length src) (16 - pbl)%nat in
        let y := hash_xor_at (g_hash ctx) pbl (firstn n src) in
        if Nat.leb 16 (pbl + length src)
        then (gset_pbl (gset_hash ctx (gf128_mul y H)) 0, n)
        else (gset_pbl (gset_hash ctx y) (g_pbl ctx + glen src), n)
    end.

  (* imb_aes_gmac_update_* *)
  Definition gmac_update (ctx : gctx) (src : bytes) : gctx :=
    match src with
    | [] => ctx
    | _ :: _ =>
      let ctx := gset_aad_len ctx (g_aad_len ctx + glen src) in    (* add [arg2 + AadLen], arg4 *)
      let '(ctx, n) := partial_block_gmac ctx src in
      let rest := skipn n src in
      let nb := Nat.div (length rest) 16 in
      let whole := firstn (16 * nb)%nat rest in
      let tail := skipn (16 * nb)%nat rest in
      let ctx := match whole with
                 | [] => ctx                                           (* jz no_full_blocks *)
                 | _ :: _ => gset_hash ctx (ghash_from H (g_hash ctx) whole)
                 end in
      match tail with
      | [] => ctx
      | _ :: _ => gset_hash (gset_pbl ctx (glen tail)) (hash_xor_at (g_hash ctx) 0 tail)
      end
    end.

  Definition gmac_init (iv : bytes) : gctx := gcm_init false iv [].
  Definition gmac_finalize (ctx : gctx) (taglen : nat) : gctx * bytes := gcm_finalize ctx taglen.

  Fixpoint gcm_update_all (ctx : gctx) (dir : gdir) (segs : list bytes) : gctx * list bytes :=
    match segs with
    | [] => (ctx, [])
    | s :: t =>
        let '(ctx, o) := gcm_update ctx dir s in
        let '(ctx, os) := gcm_update_all ctx dir t in
        (ctx, o :: os)
    end.

  Fixpoint gmac_update_all (ctx : gctx) (segs : list bytes) : gctx :=
    match segs with
    | [] => ctx
    | s :: t => gmac_update_all (gmac_update ctx s) t
    end.

  (* submit_gcm_sgl_enc / submit_gcm_sgl_dec (job_api_gcm.h): INIT and COMPLETE carry no text *)
  Definition gcm_sgl (st : gsgl_state) (ctx : gctx) (iv aad src : bytes) (segs : list bytes)
             (dir : gdir) (taglen : nat) : gctx * list bytes * option bytes :=
    match st with
    | GSGL_INIT => (gcm_init false iv aad, [], None)
    | GSGL_UPDATE => let '(ctx, o) := gcm_update ctx dir src in (ctx, [o], None)
    | GSGL_COMPLETE => let '(ctx, t) := gcm_finalize ctx taglen in (ctx, [], Some t)
    | GSGL_ALL =>
        let ctx := gcm_init false iv aad in
        let '(ctx, os) := gcm_update_all ctx dir segs in
        let '(ctx, t) := gcm_finalize ctx taglen in
        (ctx, os, Some t)
    end.

  (* direct API: init (12-byte or variable IV entry point), update per segment, finalize *)
  Definition gcm_run_direct (twelve : bool) (iv aad : bytes) (dir : gdir) (segs : list bytes)
             (taglen : nat) : gctx * list bytes * bytes :=
    let ctx := gcm_init twelve iv aad in
    let '(ctx, os) := gcm_update_all ctx dir segs in
    let '(ctx, t) := gcm_finalize ctx taglen in
    (ctx, os, t).

  Fixpoint gcm_job_updates (ctx : gctx) (iv aad : bytes) (segs : list bytes) (dir : gdir) (taglen : nat)
    : gctx * list bytes :=
    match segs with
    | [] => (ctx, [])
    | s :: t =>
        let '(ctx, o, _) := gcm_sgl GSGL_UPDATE ctx iv aad s [] dir taglen in
        let '(ctx, os) := gcm_job_updates ctx iv aad t dir taglen in
        (ctx, o ++ os)
    end.

  (* job API: IMB_SGL_INIT, one IMB_SGL_UPDATE per segment, IMB_SGL_COMPLETE *)
  Definition gcm_run_job_iuc (ctx0 : gctx) (iv aad : bytes) (dir : gdir) (segs : list bytes)
             (taglen : nat) : gctx * list bytes * option bytes :=
    let '(ctx, _, _) := gcm_sgl GSGL_INIT ctx0 iv aad [] [] dir taglen in
    let '(ctx, os) := gcm_job_updates ctx iv aad segs dir taglen in
    let '(ctx, _, t) := gcm_sgl GSGL_COMPLETE ctx iv aad [] [] dir taglen in
    (ctx, os, t).

  Definition gcm_run_job_all (ctx0 : gctx) (iv aad : bytes) (dir : gdir) (segs : list bytes)
             (taglen : nat) : gctx * list bytes * option bytes :=
    gcm_sgl GSGL_ALL ctx0 iv aad [] segs dir taglen.

  Definition gmac_run (iv : bytes) (segs : list bytes) (taglen : nat) : gctx * bytes :=
    gmac_finalize (gmac_update_all (gmac_init iv) segs) taglen.

  (* ---------- invariants ---------- *)

  (* After text whose ciphertext is [ct] (J0 = [j0], AAD = [aad]):
     ct = cw ++ cr with cw whole blocks and cr the pending block (partial_block_length <= 16
     bytes; 16 only after a deferred update); aad_hash = GHASH state over pad(aad) || cw, with cr xored in but not yet multiplied;
     the counter has advanced once per started block; partial_block_enc_key = E(counter block)
     while a partial block is pending. *)
  Definition gcm_stream_inv (j0 aad ct : bytes) (ctx : gctx) : Prop :=
    g_oiv ctx = j0 /\ g_pre ctx = firstn 12 j0 /\
    g_aad_len ctx = glen aad /\ g_in_len ctx = glen ct /\
    exists cw cr,
      ct = cw ++ cr /\ (exists k, length cw = (16 * k)%nat) /\ (length cr <= 16)%nat /\
      g_pbl ctx = glen cr /\
      g_hash ctx = hash_xor_at (ghash_from H (ghash_from H 0 aad) cw) 0 cr /\
      g_ctr ctx = ctr_after (be_to_N (skipn 12 j0)) (chunks 16 ct) /\
      (cr <> [] -> g_pbk ctx = E (g_pre ctx ++ be32 (g_ctr ctx))).

  (* GMAC: the message is hashed as AAD; msg = mw ++ mr likewise *)
  Definition gmac_stream_inv (j0 msg : bytes) (ctx : gctx) : Prop :=
    g_oiv ctx = j0 /\ g_aad_len ctx = glen msg /\ g_in_len ctx = 0 /\
    exists mw mr,
      msg = mw ++ mr /\ (exists k, length mw = (16 * k)%nat) /\ (length mr < 16)%nat /\
      g_pbl ctx = glen mr /\
      g_hash ctx = hash_xor_at (ghash_from H 0 mw) 0 mr.
End Generic.

(* ---------- AES instances (raw key of 16, 24 or 32 bytes) ---------- *)

Definition aesE (key : bytes) : bytes -> bytes := aes_enc_rk (aes_key_expand key).

Definition never_lazy (_ : gctx) (_ : bytes) : bool := false.
Definition gcm_init_aes (key : bytes) := gcm_init (aesE key).
Definition gcm_update_aes (key : bytes) := gcm_update (aesE key).
Definition gcm_finalize_aes (key : bytes) := gcm_finalize (aesE key).
Definition gmac_init_aes (key : bytes) := gmac_init (aesE key).
Definition gmac_update_aes (key : bytes) := gmac_update (aesE key).
Definition gcm_sgl_aes (key : bytes) := gcm_sgl (aesE key).

(* memory images of the fields the harness dumps *)
Definition gctx_mem_aad_hash (c : gctx) : bytes := N_to_le 16 (g_hash c).
Definition gctx_mem_counter (c : gctx) : bytes := rev (g_pre c ++ be32 (g_ctr c)).
Definition gctx_mem_pbk_live (c : gctx) : bytes :=
  if (0 <? g_pbl c) && (g_pbl c <? 16) then skipn (N.to_nat (g_pbl c)) (g_pbk c) else [].

Definition gctx_garbage : gctx :=
  mk_gctx 0 0 0 (repeat 165 16) (repeat 165 16) (repeat 165 12) 0 0.
