(* Struct/ChachaStream.v — C10: the ChaCha20-Poly1305 streaming / scatter-gather state machine.

   Statement-by-statement Gallina model of the C code in
     /repo/lib/x86_64/chacha20_poly1305.c
       init_chacha20_poly1305            (job, IMB_SGL_INIT)        -> [job_init]
       update_chacha20_poly1305_direct   (direct + job IMB_SGL_UPDATE) -> [update_direct]
       complete_chacha20_poly1305        (job, IMB_SGL_COMPLETE)    -> [job_complete]
       init_chacha20_poly1305_direct                                -> [init_direct]
       finalize_chacha20_poly1305_direct                            -> [finalize_direct]
       aead_chacha20_poly1305_sgl        (IMB_SGL_INIT/UPDATE/COMPLETE/ALL) -> [aead_sgl]
   over struct chacha20_poly1305_context_data of /repo/lib/intel-ipsec-mb.h.

   The assembly primitives called from that file are modelled by their specification:
     chacha20_enc_dec_ks_{sse,avx2,avx512}   -> [enc_dec_ks]   (key stream with leftover carry)
     poly1305_aead_update_*                   -> [paead_update] (16-byte blocks, last one zero padded)
     poly1305_aead_complete_*                 -> [paead_complete]
     poly1305_key_gen_{sse,avx}               -> [pkey_gen]
   The block primitives are Section variables, so every definition (and every theorem of
   Proofs/ChachaStreamProofs.v) is generic in them; the instances from Spec/ChaCha20.v and
   Spec/Poly1305.v are plugged in at the end of the file (names with suffix [_spec]) and are what
   the extracted model runs.

   Modelling conventions
   * uint64_t struct fields and locals are [N]; additions are plain (a 64-bit overflow of
     hash_len / last_block_count needs 2^64 bytes of text and is not modelled); the one
     subtraction that could wrap, [16 - ctx->remain_ct_bytes], is [sub64].
   * Pointers are replaced by the byte lists they point to; [memcpy_asm(dst+off, src, n)] is
     [write_at dst off (firstn n src)].  Parameter NULL checks (SAFE_PARAM) are not modelled:
     all pointers are valid.
   * A job's cipher and hash ranges coincide (msg_len_to_hash = msg_len_to_cipher, both offsets
     equal), as in Spec/ChaChaPoly.v.
   * [c_hash] is the value of hash[0..2] (radix 2^64, partially reduced) modulo 2^130-5.
   Definitions only; proofs are in Proofs/. *)
From IMB Require Import Lib.Bytes Spec.ChaCha20 Spec.Poly1305 Spec.ChaChaPoly.
Local Open Scope N_scope.

Inductive cdir : Type := Enc | Dec.                 (* IMB_DIR_ENCRYPT / IMB_DIR_DECRYPT *)
Inductive sgl_state : Type := SGL_INIT | SGL_UPDATE | SGL_COMPLETE | SGL_ALL.

(* struct chacha20_poly1305_context_data *)
Record cctx : Type := mk_cctx {
  c_hash : N;            (* uint64_t hash[3], as a residue mod 2^130-5 *)
  c_aad_len : N;         (* uint64_t aad_len *)
  c_hash_len : N;        (* uint64_t hash_len *)
  c_last_ks : bytes;     (* uint8_t last_ks[64] *)
  c_poly_key : bytes;    (* uint8_t poly_key[32] *)
  c_scratch : bytes;     (* uint8_t poly_scratch[16] *)
  c_lbc : N;             (* uint64_t last_block_count *)
  c_rks : N;             (* uint64_t remain_ks_bytes *)
  c_rct : N;             (* uint64_t remain_ct_bytes *)
  c_iv : bytes           (* uint8_t IV[12] *)
}.

Definition set_hash (c : cctx) (v : N) : cctx :=
  mk_cctx v (c_aad_len c) (c_hash_len c) (c_last_ks c) (c_poly_key c) (c_scratch c) (c_lbc c) (c_rks c) (c_rct c) (c_iv c).
Definition set_aad_len (c : cctx) (v : N) : cctx :=
  mk_cctx (c_hash c) v (c_hash_len c) (c_last_ks c) (c_poly_key c) (c_scratch c) (c_lbc c) (c_rks c) (c_rct c) (c_iv c).
Definition set_hash_len (c : cctx) (v : N) : cctx :=
  mk_cctx (c_hash c) (c_aad_len c) v (c_last_ks c) (c_poly_key c) (c_scratch c) (c_lbc c) (c_rks c) (c_rct c) (c_iv c).
Definition set_last_ks (c : cctx) (v : bytes) : cctx :=
  mk_cctx (c_hash c) (c_aad_len c) (c_hash_len c) v (c_poly_key c) (c_scratch c) (c_lbc c) (c_rks c) (c_rct c) (c_iv c).
Definition set_poly_key (c : cctx) (v : bytes) : cctx :=
  mk_cctx (c_hash c) (c_aad_len c) (c_hash_len c) (c_last_ks c) v (c_scratch c) (c_lbc c) (c_rks c) (c_rct c) (c_iv c).
Definition set_scratch (c : cctx) (v : bytes) : cctx :=
  mk_cctx (c_hash c) (c_aad_len c) (c_hash_len c) (c_last_ks c) (c_poly_key c) v (c_lbc c) (c_rks c) (c_rct c) (c_iv c).
Definition set_lbc (c : cctx) (v : N) : cctx :=
  mk_cctx (c_hash c) (c_aad_len c) (c_hash_len c) (c_last_ks c) (c_poly_key c) (c_scratch c) v (c_rks c) (c_rct c) (c_iv c).
Definition set_rks (c : cctx) (v : N) : cctx :=
  mk_cctx (c_hash c) (c_aad_len c) (c_hash_len c) (c_last_ks c) (c_poly_key c) (c_scratch c) (c_lbc c) v (c_rct c) (c_iv c).
Definition set_rct (c : cctx) (v : N) : cctx :=
  mk_cctx (c_hash c) (c_aad_len c) (c_hash_len c) (c_last_ks c) (c_poly_key c) (c_scratch c) (c_lbc c) (c_rks c) v (c_iv c).
Definition set_iv (c : cctx) (v : bytes) : cctx :=
  mk_cctx (c_hash c) (c_aad_len c) (c_hash_len c) (c_last_ks c) (c_poly_key c) (c_scratch c) (c_lbc c) (c_rks c) (c_rct c) v.

(* #define HASH_LEN_CLAMP 0xfffffffffffffff0ULL / HASH_REMAIN_CLAMP 0xfULL *)
Definition HASH_LEN_CLAMP : N := 18446744073709551600.
Definition HASH_REMAIN_CLAMP : N := 15.

(* a - b on uint64_t *)
Definition sub64 (a b : N) : N := w64 (w64 a + (18446744073709551616 - w64 b)).

(* memcpy(buf + off, data, length data) inside the array [buf] *)
Definition write_at (buf : bytes) (off : nat) (data : bytes) : bytes :=
  firstn off buf ++ data ++ skipn (off + length data) buf.

Definition len64 (l : bytes) : N := N.of_nat (length l).

Section Generic.
  (* chacha20 block function: key -> iv -> 32-bit block counter -> 64 bytes of key stream *)
  Variable ksblock : bytes -> bytes -> N -> bytes.
  (* one Poly1305 step on a block of at most 16 bytes, zero padded, pad bit 2^128:
     poly_key -> accumulator -> block -> accumulator *)
  Variable pblock : bytes -> N -> bytes -> N.
  (* final reduction and +S: poly_key -> accumulator -> 16-byte tag *)
  Variable pfinish : bytes -> N -> bytes.
  (* one-time key: key -> iv -> 32 bytes (R clamped || S) *)
  Variable pkey_gen : bytes -> bytes -> bytes.

  (* whole/partial 64-byte chunks xored with the blocks of counters ctr, ctr+1, ...
     (Spec.ChaCha20.chacha20_chunks for the Spec instance) *)
  Fixpoint ks_chunks (key iv : bytes) (ctr : N) (cs : list bytes) : bytes :=
    match cs with
    | [] => []
    | c :: t => xor_bytes c (ksblock key iv ctr) ++ ks_chunks key iv (ctr + 1) t
    end.

  (* void chacha20_enc_dec_ks_ARCH(src, dst, length, key, ctx)   (lib/sse_t1/chacha20_sse.asm l.1075,
     avx2_t1/chacha20_avx2.asm, avx512_t1/chacha20_avx512.asm): specification.
       length = 0: nothing happens.
       First the unused tail of last_ks (remain_ks_bytes bytes, stored at the END of last_ks) is
       consumed; if that covers the whole segment only remain_ks_bytes changes.  Otherwise
       remain_ks_bytes := 0 and the rest is ciphered with blocks last_block_count+1, +2, ...;
       if the last block is only partly used it is saved in last_ks and remain_ks_bytes is
       64 - (used bytes); last_block_count is advanced by the number of blocks generated. *)
  Definition enc_dec_ks (key : bytes) (ctx : cctx) (src : bytes) : cctx * bytes :=
    match src with
    | [] => (ctx, [])
    | _ :: _ =>
      let rem := N.to_nat (c_rks ctx) in
      let n := Nat.min (length src) rem in
      let prev := skipn (64 - rem)%nat (c_last_ks ctx) in
      let out1 := xor_bytes (firstn n src) prev in
      let src2 := skipn n src in
      match src2 with
      | [] => (set_rks ctx (c_rks ctx - N.of_nat n), out1)
      | _ :: _ =>
        let cs := chunks 64 src2 in
        let nblk := N.of_nat (length cs) in
        let r := length (last cs []) in
        let out2 := ks_chunks key (c_iv ctx) (c_lbc ctx + 1) cs in
        let blk_cnt := c_lbc ctx + nblk in
        let ctx := if Nat.ltb r 64
                   then set_rks (set_last_ks ctx (ksblock key (c_iv ctx) blk_cnt)) (64 - N.of_nat r)
                   else set_rks ctx 0 in
        (set_lbc ctx blk_cnt, out1 ++ out2)
      end
    end.

  (* void poly1305_aead_update_ARCH(msg, msg_len, hash, key): absorb msg in 16-byte blocks, a
     trailing partial block is zero padded to 16 bytes (pad bit always 2^128) *)
  Definition paead_update (pkey : bytes) (hash : N) (msg : bytes) : N :=
    fold_left (pblock pkey) (chunks 16 msg) hash.

  Definition paead_update_ctx (ctx : cctx) (msg : bytes) : cctx :=
    set_hash ctx (paead_update (c_poly_key ctx) (c_hash ctx) msg).

  (* ---- init_chacha20_poly1305_direct(key, ctx, iv, aad, aad_len, arch, check, ifma) ---- *)
  Definition init_direct (key : bytes) (ctx : cctx) (iv aad : bytes) : cctx :=
    let ctx := set_hash ctx 0 in                                  (* ctx->hash[0..2] = 0 *)
    let ctx := set_aad_len ctx (len64 aad) in                     (* ctx->aad_len = aad_len *)
    let ctx := set_hash_len ctx 0 in
    let ctx := set_lbc ctx 0 in
    let ctx := set_rks ctx 0 in
    let ctx := set_rct ctx 0 in
    let ctx := set_iv ctx (firstn 12 iv) in                       (* memcpy_asm(ctx->IV, iv, 12): whole array *)
    let ctx := set_poly_key ctx (pkey_gen key iv) in              (* poly1305_key_gen *)
    paead_update_ctx ctx aad.                                     (* hash over AAD *)

  (* the scratch-pad logic common to both branches of update_chacha20_poly1305_direct, applied to
     the buffer [ct] that holds this segment's ciphertext (dst on encrypt, src on decrypt);
     [bytes_to_copy] was computed on entry *)
  Definition update_hash_part (ctx : cctx) (ct : bytes) (len bytes_to_copy : N) : cctx :=
    (* memcpy_asm(ctx->poly_scratch + ctx->remain_ct_bytes, ct, bytes_to_copy) *)
    let ctx := set_scratch ctx (write_at (c_scratch ctx) (N.to_nat (c_rct ctx))
                                         (firstn (N.to_nat bytes_to_copy) ct)) in
    let ctx := set_rct ctx (c_rct ctx + bytes_to_copy) in         (* ctx->remain_ct_bytes += bytes_to_copy *)
    let ctx := if c_rct ctx =? 16                                  (* if (ctx->remain_ct_bytes == 16) *)
               then set_rct (paead_update_ctx ctx (firstn 16 (c_scratch ctx))) 0
               else ctx in
    let length_ := len - bytes_to_copy in                          (* length -= bytes_to_copy *)
    let remain_ct_bytes := N.land length_ HASH_REMAIN_CLAMP in
    let length_ := N.land length_ HASH_LEN_CLAMP in
    (* poly1305_aead_update(ct + bytes_to_copy, length, ...) *)
    let ctx := paead_update_ctx ctx (firstn (N.to_nat length_) (skipn (N.to_nat bytes_to_copy) ct)) in
    let remain_ct_ptr := skipn (N.to_nat (bytes_to_copy + length_)) ct in
    (* memcpy_asm(ctx->poly_scratch, remain_ct_ptr, remain_ct_bytes) *)
    let ctx := set_scratch ctx (write_at (c_scratch ctx) 0 (firstn (N.to_nat remain_ct_bytes) remain_ct_ptr)) in
    set_rct ctx (c_rct ctx + remain_ct_bytes).                     (* ctx->remain_ct_bytes += remain_ct_bytes *)

  (* ---- update_chacha20_poly1305_direct(key, ctx, dst, src, len, dir, ...) ---- *)
  Definition update_direct (key : bytes) (ctx : cctx) (src : bytes) (dir : cdir) : cctx * bytes :=
    let len := len64 src in
    let remain_bytes_to_fill := sub64 16 (c_rct ctx) in
    let bytes_to_copy :=
      if (0 <? c_rct ctx) && (0 <? remain_bytes_to_fill)
      then (if len <? remain_bytes_to_fill then len else remain_bytes_to_fill)
      else 0 in
    let ctx := set_hash_len ctx (c_hash_len ctx + len) in          (* ctx->hash_len += length *)
    match dir with
    | Enc =>
        let '(ctx, dst) := enc_dec_ks key ctx src in
        (update_hash_part ctx dst len bytes_to_copy, dst)
    | Dec =>
        let ctx := update_hash_part ctx src len bytes_to_copy in
        enc_dec_ks key ctx src
    end.

  (* last[0] = ctx->aad_len; last[1] = ctx->hash_len; poly update with it; complete; clear *)
  Definition finish_tag (ctx : cctx) : cctx * bytes :=
    let last := le64 (c_aad_len ctx) ++ le64 (c_hash_len ctx) in
    let ctx := paead_update_ctx ctx last in
    let tag := pfinish (c_poly_key ctx) (c_hash ctx) in            (* poly1305_aead_complete *)
    (* #ifdef SAFE_DATA (default build): clear_mem(last_ks), clear_mem(poly_key) *)
    let ctx := set_last_ks ctx (zeros 64) in
    let ctx := set_poly_key ctx (zeros 32) in
    (ctx, tag).

  (* ---- finalize_chacha20_poly1305_direct(ctx, tag, tag_len, ...) ---- *)
  Definition finalize_direct (ctx : cctx) (tag_len : nat) : cctx * bytes :=
    let ctx := if 0 <? c_rct ctx
               then set_rct (paead_update_ctx ctx (firstn (N.to_nat (c_rct ctx)) (c_scratch ctx))) 0
               else ctx in
    let '(ctx, auth_tag) := finish_tag ctx in
    (ctx, firstn tag_len auth_tag).                                (* memcpy_asm(tag, auth_tag, tag_len) *)

  (* ---- init_chacha20_poly1305(job, ...)   (IMB_SGL_INIT: context set-up + first segment) ---- *)
  Definition job_init (key : bytes) (ctx : cctx) (iv aad src : bytes) (dir : cdir) : cctx * bytes :=
    let msg_len := len64 src in
    let hash_len := N.land msg_len HASH_LEN_CLAMP in
    let remain_ct_bytes := N.land msg_len HASH_REMAIN_CLAMP in
    let ctx := set_hash ctx 0 in
    let ctx := set_aad_len ctx (len64 aad) in
    let ctx := set_hash_len ctx msg_len in
    let ctx := set_lbc ctx 0 in
    let ctx := set_rks ctx 0 in
    let ctx := set_rct ctx remain_ct_bytes in
    let ctx := set_iv ctx (firstn 12 iv) in
    let ctx := set_poly_key ctx (pkey_gen key iv) in
    let ctx := paead_update_ctx ctx aad in
    match dir with
    | Enc =>
        let '(ctx, dst) := enc_dec_ks key ctx src in
        let ctx := paead_update_ctx ctx (firstn (N.to_nat hash_len) dst) in
        let remain_ct_ptr := skipn (N.to_nat hash_len) dst in
        (set_scratch ctx (write_at (c_scratch ctx) 0 (firstn (N.to_nat remain_ct_bytes) remain_ct_ptr)), dst)
    | Dec =>
        let ctx := paead_update_ctx ctx (firstn (N.to_nat hash_len) src) in
        let remain_ct_ptr := skipn (N.to_nat hash_len) src in
        let ctx := set_scratch ctx (write_at (c_scratch ctx) 0 (firstn (N.to_nat remain_ct_bytes) remain_ct_ptr)) in
        enc_dec_ks key ctx src
    end.

  (* the hashing part of complete_chacha20_poly1305, on the buffer holding the ciphertext *)
  Definition complete_hash_part (ctx : cctx) (ct : bytes) (hash_len bytes_to_copy : N) : cctx :=
    let ctx := set_scratch ctx (write_at (c_scratch ctx) (N.to_nat (c_rct ctx))
                                         (firstn (N.to_nat bytes_to_copy) ct)) in
    let ctx := set_rct ctx (c_rct ctx + bytes_to_copy) in
    let ctx := if 0 <? c_rct ctx                                   (* if (ctx->remain_ct_bytes > 0) *)
               then set_rct (paead_update_ctx ctx (firstn (N.to_nat (c_rct ctx)) (c_scratch ctx))) 0
               else ctx in
    let hash_len := hash_len - bytes_to_copy in
    if hash_len =? 0 then ctx                                      (* if (hash_len != 0) *)
    else paead_update_ctx ctx (firstn (N.to_nat hash_len) (skipn (N.to_nat bytes_to_copy) ct)).

  (* ---- complete_chacha20_poly1305(job, ...)   (IMB_SGL_COMPLETE: last segment + tag) ---- *)
  Definition job_complete (key : bytes) (ctx : cctx) (src : bytes) (dir : cdir) : cctx * bytes * bytes :=
    let hash_len := len64 src in
    let remain_bytes_to_fill := sub64 16 (c_rct ctx) in
    let bytes_to_copy :=
      if (0 <? c_rct ctx) && (0 <? remain_bytes_to_fill)
      then (if hash_len <? remain_bytes_to_fill then hash_len else remain_bytes_to_fill)
      else 0 in
    let ctx := set_hash_len ctx (c_hash_len ctx + hash_len) in
    let '(ctx, dst) :=
      match dir with
      | Enc =>
          let '(ctx, dst) := enc_dec_ks key ctx src in
          (complete_hash_part ctx dst hash_len bytes_to_copy, dst)
      | Dec =>
          let ctx := complete_hash_part ctx src hash_len bytes_to_copy in
          enc_dec_ks key ctx src
      end in
    let '(ctx, tag) := finish_tag ctx in
    (ctx, dst, tag).

  (* for (i = 0; i < job->num_sgl_io_segs; i++) update_chacha20_poly1305_direct(...) *)
  Fixpoint update_all (key : bytes) (ctx : cctx) (segs : list bytes) (dir : cdir) : cctx * list bytes :=
    match segs with
    | [] => (ctx, [])
    | s :: t =>
        let '(ctx, o) := update_direct key ctx s dir in
        let '(ctx, os) := update_all key ctx t dir in
        (ctx, o :: os)
    end.

  (* ---- aead_chacha20_poly1305_sgl(job, arch, ifma): switch (job->sgl_state) ----
     job fields used: enc_keys [key], iv, u.CHACHA20_POLY1305.aad, cipher_direction, sgl_state,
     src/msg_len_to_cipher_in_bytes [src] (INIT/UPDATE/COMPLETE) or sgl_io_segs [segs] (ALL);
     auth_tag_output_len_in_bytes = 16 is enforced by is_job_invalid.
     Result: new context, per-segment outputs, the tag if this call produces one. *)
  Definition aead_sgl (st : sgl_state) (key : bytes) (ctx : cctx) (iv aad src : bytes)
             (segs : list bytes) (dir : cdir) : cctx * list bytes * option bytes :=
    match st with
    | SGL_INIT => let '(ctx, o) := job_init key ctx iv aad src dir in (ctx, [o], None)
    | SGL_UPDATE => let '(ctx, o) := update_direct key ctx src dir in (ctx, [o], None)
    | SGL_COMPLETE => let '(ctx, o, t) := job_complete key ctx src dir in (ctx, [o], Some t)
    | SGL_ALL =>
        let ctx := init_direct key ctx iv aad in
        let '(ctx, os) := update_all key ctx segs dir in
        let '(ctx, t) := finalize_direct ctx 16 in
        (* clear_mem(ctx->last_ks), clear_mem(ctx->poly_key) once more *)
        let ctx := set_poly_key (set_last_ks ctx (zeros 64)) (zeros 32) in
        (ctx, os, Some t)
    end.

  (* ---------- the three ways an application drives the state machine ---------- *)

  (* direct API: IMB_CHACHA20_POLY1305_INIT, _ENC/_DEC_UPDATE per segment, _FINALIZE *)
  Definition run_direct (ctx0 : cctx) (key iv aad : bytes) (dir : cdir) (segs : list bytes)
             (tag_len : nat) : cctx * list bytes * bytes :=
    let ctx := init_direct key ctx0 iv aad in
    let '(ctx, os) := update_all key ctx segs dir in
    let '(ctx, t) := finalize_direct ctx tag_len in
    (ctx, os, t).

  (* job API: one IMB_SGL_ALL job *)
  Definition run_job_all (ctx0 : cctx) (key iv aad : bytes) (dir : cdir) (segs : list bytes)
    : cctx * list bytes * option bytes :=
    aead_sgl SGL_ALL key ctx0 iv aad [] segs dir.

  Fixpoint job_updates (key : bytes) (ctx : cctx) (iv aad : bytes) (segs : list bytes) (dir : cdir)
    : cctx * list bytes :=
    match segs with
    | [] => (ctx, [])
    | s :: t =>
        let '(ctx, o, _) := aead_sgl SGL_UPDATE key ctx iv aad s [] dir in
        let '(ctx, os) := job_updates key ctx iv aad t dir in
        (ctx, o ++ os)
    end.

  (* job API: IMB_SGL_INIT carrying [first], IMB_SGL_UPDATE for each of [mids], IMB_SGL_COMPLETE
     carrying [last] (any of them may be empty) *)
  Definition run_job_iuc (ctx0 : cctx) (key iv aad : bytes) (dir : cdir)
             (first : bytes) (mids : list bytes) (last : bytes) : cctx * list bytes * option bytes :=
    let '(ctx, o1, _) := aead_sgl SGL_INIT key ctx0 iv aad first [] dir in
    let '(ctx, o2) := job_updates key ctx iv aad mids dir in
    let '(ctx, o3, t) := aead_sgl SGL_COMPLETE key ctx iv aad last [] dir in
    (ctx, o1 ++ o2 ++ o3, t).
End Generic.

(* ---------- instances from Spec ---------- *)

Definition ksblock_spec (key iv : bytes) (ctr : N) : bytes := chacha20_block key ctr iv.
(* the context's poly_key holds R (already clamped by the key generation) || S *)
Definition pblock_spec (pkey : bytes) (acc : N) (blk : bytes) : N :=
  poly_block_acc acc (le_to_N (firstn 16 pkey)) blk true.
Definition pfinish_spec (pkey : bytes) (acc : N) : bytes := poly_finish acc (poly_key_s pkey).
(* poly1305_key_gen_{sse,avx}: first 32 bytes of block 0, R clamped before it is stored *)
Definition pkey_gen_spec (key iv : bytes) : bytes :=
  let k := poly1305_key_gen key iv in
  N_to_le 16 (poly_key_r k) ++ skipn 16 k.

Definition init_direct_spec := init_direct pblock_spec pkey_gen_spec.
Definition update_direct_spec := update_direct ksblock_spec pblock_spec.
Definition finalize_direct_spec := finalize_direct pblock_spec pfinish_spec.
Definition aead_sgl_spec := aead_sgl ksblock_spec pblock_spec pfinish_spec pkey_gen_spec.
Definition run_direct_spec := run_direct ksblock_spec pblock_spec pfinish_spec pkey_gen_spec.
Definition run_job_all_spec := run_job_all ksblock_spec pblock_spec pfinish_spec pkey_gen_spec.
Definition run_job_iuc_spec := run_job_iuc ksblock_spec pblock_spec pfinish_spec pkey_gen_spec.

(* contents of a context the caller never initialised (the harness fills it with 0xA5) *)
Definition cctx_garbage : cctx :=
  mk_cctx 0 0 0 (repeat 165 64) (repeat 165 32) (repeat 165 16) 0 0 0 (repeat 165 12).

(* ---------- invariants and clean-up predicate (used in Props/Properties_C10.v) ---------- *)

Definition mult16 (n : nat) : Prop := exists k, n = (16 * k)%nat.

Section Inv.
  Variable ksblock : bytes -> bytes -> N -> bytes.
  Variable pblock : bytes -> N -> bytes -> N.
  Variable pkey_gen : bytes -> bytes -> bytes.

  (* [chacha_stream_inv key iv aad ct p ctx]: what the context holds after the text bytes
     processed so far, whose ciphertext is [ct] (p = length ct bytes):
     - hash = Poly1305 accumulator over pad16(aad) || ct[0 .. 16*floor(p/16)),
       poly_scratch[0..r) = ct[16*floor(p/16) .. p) with r = remain_ct_bytes = p mod 16, hash_len = p;
     - key stream position p: last_block_count = ceil(p/64), remain_ks_bytes = 64*ceil(p/64) - p,
       and if that is non-zero last_ks holds block number last_block_count. *)
  Definition chacha_stream_inv (key iv aad ct : bytes) (ctx : cctx) : Prop :=
    c_iv ctx = firstn 12 iv /\
    c_poly_key ctx = pkey_gen key iv /\
    c_aad_len ctx = len64 aad /\
    c_hash_len ctx = len64 ct /\
    length (c_scratch ctx) = 16%nat /\
    (exists cw cr,
        ct = cw ++ cr /\ mult16 (length cw) /\ (length cr < 16)%nat /\
        c_rct ctx = len64 cr /\
        firstn (length cr) (c_scratch ctx) = cr /\
        c_hash ctx = paead_update pblock (pkey_gen key iv)
                       (paead_update pblock (pkey_gen key iv) 0 aad) cw) /\
    c_rks ctx + len64 ct = 64 * c_lbc ctx /\
    c_rks ctx < 64 /\
    (0 < c_rks ctx -> c_last_ks ctx = ksblock key (firstn 12 iv) (c_lbc ctx)).
End Inv.

(* after complete / finalize the key stream block and the one-time key are wiped *)
Definition sgl_ctx_clean (ctx : cctx) : Prop :=
  c_last_ks ctx = zeros 64 /\ c_poly_key ctx = zeros 32.
