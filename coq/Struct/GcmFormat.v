(* Struct/GcmFormat.v — the GCM quantities as the library's kernels form them.  Definitions only.

   Transcribed from /repo/lib/include/gcm_sse.inc (GCM_INIT, CALC_J0, GCM_COMPLETE; the
   avx2 / avx512 / vaes twins gcm_avx_gen4.inc, gcm_vaes_avx512.inc, gcm_common_avx2_avx512.inc
   use the same formulas).  Registers hold blocks byte-reflected; in the big-endian integer view
   of Spec/GF128.v:
     GCM_INIT, 12-byte IV : J0 = iv[0..12) ++ 00 00 00 01         (movdqa xmm2,[ONEf]; pinsrq; pinsrd)
     CALC_J0, other IVs   : J0 = (GHASH(IV zero padded) xor (iv_len << 3)) * H
                            (movq of the 64-bit register iv_len*8 into the low lane = the last
                             8 bytes of the block; the upper 8 bytes stay 0)
     GCM_COMPLETE         : S = (Y xor ((aad_len << 3) << 64 | (in_len << 3))) * H
                            (shl r12,3 ; movq ; pslldq 8 ; pxor), tag = E(J0) xor S,
                            first auth_tag_len bytes stored (16 / 12 / 8 fast paths,
                            simd_store otherwise). *)
From Coq Require Import List NArith Bool Arith.
From IMB Require Import Lib.Bytes Spec.GF128.
Import ListNotations.
Local Open Scope N_scope.

Definition gcm_lib_bits64 (len : nat) : N := w64 (N.shiftl (N.of_nat len) 3).

Definition gcm_lib_j0 (h : N) (iv : bytes) : bytes :=
  if Nat.eqb (length iv) 12 then iv ++ [0; 0; 0; 1]
  else N_to_be 16 (gf128_mul (N.lxor (ghash_from h 0 iv) (gcm_lib_bits64 (length iv))) h).

Definition gcm_lib_len_word (alen clen : nat) : N :=
  N.lxor (N.shiftl (gcm_lib_bits64 alen) 64) (gcm_lib_bits64 clen).

Section Tag.
  Variable E : bytes -> bytes.
  Definition gcm_lib_tag (h : N) (j0 aad ct : bytes) (taglen : nat) : bytes :=
    let y := ghash_from h (ghash_from h 0 aad) ct in
    let s := gf128_mul (N.lxor y (gcm_lib_len_word (length aad) (length ct))) h in
    firstn taglen (xor_bytes (E j0) (N_to_be 16 s)).
End Tag.
