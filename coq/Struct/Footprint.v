(* Struct/Footprint.v -- hand-written.  Property C07: the memory CONTRACT of a job.

   For a job view (numbers only: modes, lengths, offsets, key sizes) the contract names
     - the caller OBJECTS the job refers to and their documented sizes        [objects]
     - the ranges the library may READ, attributed to those objects           [footprint_R]
     - the ranges it may WRITE (bit modes: masks of the first / last byte)    [footprint_W]
   and [run_job_mem] lifts a generic algorithm function (inputs = contents of the readable
   ranges, outputs = contents for the writable ranges) to an address-indexed memory.

   Definitions only; theorems are in Proofs/FootprintProofs.v and Props/Properties_C07.v.
   The same contract is implemented in C by harness/k3_place.c (function contract());
   checks/c07.py compares the two on every work item of a run (OCaml extraction of
   [fp_line], see Extract/ExtractFootprint.v) and k3_place enforces it on the real library.

   The contract says nothing about the kernels: C07 is claimed PARTIAL. *)
From Coq Require Import NArith List Bool.
From IMB Require Import Lib.Bytes Gen.GenEnums Gen.GenC07Sizes.
Import ListNotations.
Local Open Scope N_scope.

(* ------------------------------------------------------------------------- *)
(* caller objects *)

Inductive obj :=
| OSrc    (* message buffer: job->src[0 .. src_size) *)
| ODst    (* destination: job->dst[0 .. d_to) *)
| OIv     (* job->iv *)
| OAad    (* u.GCM.aad / u.CCM.aad / u.CHACHA20_POLY1305.aad / u.SNOW_V_AEAD.aad *)
| OTag    (* job->auth_tag_output *)
| OEnc    (* job->enc_keys (AES/SM4 schedule, gcm_key_data, DES schedule, 3DES pointer array, raw key) *)
| ODec    (* job->dec_keys when it is a different object *)
| OKs0 | OKs1 | OKs2   (* the three DES schedules a 3DES pointer array points to *)
| ONiv    (* cipher_fields.CBCS.next_iv *)
| OAk0    (* first word of the hash union: ipad / k1 / key_expanded / gcm_key_data / key *)
| OAk1    (* second word: opad / k2 / skey1 / auth IV / GHASH init tag *)
| OAk2.   (* third word: k3 / skey2 *)

Definition obj_eqb (a b : obj) : bool :=
  match a, b with
  | OSrc, OSrc | ODst, ODst | OIv, OIv | OAad, OAad | OTag, OTag | OEnc, OEnc | ODec, ODec
  | OKs0, OKs0 | OKs1, OKs1 | OKs2, OKs2 | ONiv, ONiv | OAk0, OAk0 | OAk1, OAk1 | OAk2, OAk2 => true
  | _, _ => false
  end.

Definition all_objs : list obj :=
  [OSrc; ODst; OIv; OAad; OTag; OEnc; ODec; OKs0; OKs1; OKs2; ONiv; OAk0; OAk1; OAk2].

(* ------------------------------------------------------------------------- *)
(* the job view: no addresses *)

Record fview := mk_fview {
  fv_cipher : N; fv_hash : N; fv_dir : N; fv_order : N; fv_key_len : N;
  fv_coff : N;      (* cipher_start_src_offset_in_bytes | _in_bits (SNOW3G / KASUMI bit modes) *)
  fv_clen : N;      (* msg_len_to_cipher_in_bytes | _in_bits (CNTR_BITLEN, SNOW3G, KASUMI) *)
  fv_hoff : N;      (* hash_start_src_offset_in_bytes *)
  fv_hlen : N;      (* msg_len_to_hash_in_bytes | _in_bits (CMAC_BITLEN, ZUC EIA3, SNOW3G UIA2) *)
  fv_iv_len : N; fv_tag_len : N; fv_aad_len : N;
  fv_aiv_len : N;   (* authentication IV (GMAC, ZUC EIA3, SNOW3G UIA2) / GHASH initial tag *)
  fv_akey_len : N;  (* raw authentication key the key material was prepared from; 0 = none *)
  fv_src_size : N;  (* size of the caller's message buffer *)
  fv_pli : N;       (* PON: PLI field (14 MS bits) of the XGEM header at src + hoff *)
  fv_snow3g_ks : N; (* IMB_SNOW3G_KEY_SCHED_SIZE(mgr) *)
  fv_kasumi_ks : N  (* IMB_KASUMI_KEY_SCHED_SIZE(mgr) *)
}.

(* ------------------------------------------------------------------------- *)
(* classification of the modes (numeric codes: Gen/GenEnums.v, from the header) *)

Inductive ckind :=
| CK_Null
| CK_AesBlock    (* CBC, ECB, CBCS_1_9, DOCSIS_SEC_BPI: decrypt uses the decrypt schedule *)
| CK_AesStream   (* CNTR, CNTR_BITLEN, CCM, PON_AES_CNTR, CFB: encrypt schedule both ways *)
| CK_Gcm         (* GCM, SM4_GCM: struct gcm_key_data *)
| CK_Des         (* DES, DOCSIS_DES: one 128-byte schedule *)
| CK_Des3        (* array of three schedule pointers *)
| CK_Sm4Block    (* SM4_ECB, SM4_CBC *)
| CK_Sm4Stream   (* SM4_CNTR *)
| CK_Snow3g | CK_Kasumi
| CK_Raw         (* ZUC_EEA3, CHACHA20, CHACHA20_POLY1305, SNOW_V, SNOW_V_AEAD: raw key bytes *)
| CK_Unsupported.

Definition ckind_of (c : N) : ckind :=
  if c =? IMB_CIPHER_NULL then CK_Null
  else if (c =? IMB_CIPHER_CBC) || (c =? IMB_CIPHER_ECB) || (c =? IMB_CIPHER_CBCS_1_9) ||
          (c =? IMB_CIPHER_DOCSIS_SEC_BPI) then CK_AesBlock
  else if (c =? IMB_CIPHER_CNTR) || (c =? IMB_CIPHER_CNTR_BITLEN) || (c =? IMB_CIPHER_CCM) ||
          (c =? IMB_CIPHER_PON_AES_CNTR) || (c =? IMB_CIPHER_CFB) then CK_AesStream
  else if (c =? IMB_CIPHER_GCM) || (c =? IMB_CIPHER_SM4_GCM) then CK_Gcm
  else if (c =? IMB_CIPHER_DES) || (c =? IMB_CIPHER_DOCSIS_DES) then CK_Des
  else if c =? IMB_CIPHER_DES3 then CK_Des3
  else if (c =? IMB_CIPHER_SM4_ECB) || (c =? IMB_CIPHER_SM4_CBC) then CK_Sm4Block
  else if c =? IMB_CIPHER_SM4_CNTR then CK_Sm4Stream
  else if c =? IMB_CIPHER_SNOW3G_UEA2_BITLEN then CK_Snow3g
  else if c =? IMB_CIPHER_KASUMI_UEA1_BITLEN then CK_Kasumi
  else if (c =? IMB_CIPHER_ZUC_EEA3) || (c =? IMB_CIPHER_CHACHA20) ||
          (c =? IMB_CIPHER_CHACHA20_POLY1305) || (c =? IMB_CIPHER_SNOW_V) ||
          (c =? IMB_CIPHER_SNOW_V_AEAD) then CK_Raw
  else CK_Unsupported.

Inductive hkind :=
| HK_None        (* NULL, plain SHA / SM3, CRCs, PON_CRC_BIP, DOCSIS_CRC32, AEAD tags: no key object *)
| HK_Hmac (state : N)   (* ipad / opad of [state] bytes *)
| HK_Xcbc
| HK_Cmac (sched : N)
| HK_Gmac        (* gcm_key_data + IV *)
| HK_Ghash       (* gcm_key_data + initial tag *)
| HK_ZucEia3     (* raw key + IV *)
| HK_Snow3gUia2  (* schedule + IV *)
| HK_KasumiUia1
| HK_Poly1305.

Definition hkind_of (h : N) : hkind :=
  if h =? IMB_AUTH_HMAC_SHA_1 then HK_Hmac 20
  else if (h =? IMB_AUTH_HMAC_SHA_224) || (h =? IMB_AUTH_HMAC_SHA_256) || (h =? IMB_AUTH_HMAC_SM3) then HK_Hmac 32
  else if (h =? IMB_AUTH_HMAC_SHA_384) || (h =? IMB_AUTH_HMAC_SHA_512) then HK_Hmac 64
  else if h =? IMB_AUTH_MD5 then HK_Hmac 16
  else if h =? IMB_AUTH_AES_XCBC then HK_Xcbc
  else if (h =? IMB_AUTH_AES_CMAC) || (h =? IMB_AUTH_AES_CMAC_BITLEN) then HK_Cmac 176
  else if h =? IMB_AUTH_AES_CMAC_256 then HK_Cmac 240
  else if (h =? IMB_AUTH_AES_GMAC_128) || (h =? IMB_AUTH_AES_GMAC_192) || (h =? IMB_AUTH_AES_GMAC_256) then HK_Gmac
  else if h =? IMB_AUTH_GHASH then HK_Ghash
  else if (h =? IMB_AUTH_ZUC_EIA3_BITLEN) || (h =? IMB_AUTH_ZUC256_EIA3_BITLEN) then HK_ZucEia3
  else if h =? IMB_AUTH_SNOW3G_UIA2_BITLEN then HK_Snow3gUia2
  else if h =? IMB_AUTH_KASUMI_UIA1 then HK_KasumiUia1
  else if h =? IMB_AUTH_POLY1305 then HK_Poly1305
  else HK_None.

Definition cipher_len_in_bits (c : N) : bool :=
  (c =? IMB_CIPHER_CNTR_BITLEN) || (c =? IMB_CIPHER_SNOW3G_UEA2_BITLEN) || (c =? IMB_CIPHER_KASUMI_UEA1_BITLEN).
Definition cipher_off_in_bits (c : N) : bool :=
  (c =? IMB_CIPHER_SNOW3G_UEA2_BITLEN) || (c =? IMB_CIPHER_KASUMI_UEA1_BITLEN).
Definition hash_len_in_bits (h : N) : bool :=
  (h =? IMB_AUTH_AES_CMAC_BITLEN) || (h =? IMB_AUTH_ZUC_EIA3_BITLEN) ||
  (h =? IMB_AUTH_ZUC256_EIA3_BITLEN) || (h =? IMB_AUTH_SNOW3G_UIA2_BITLEN).

Definition is_enc (j : fview) : bool := fv_dir j =? IMB_DIR_ENCRYPT.
Definition is_pon (j : fview) : bool := fv_cipher j =? IMB_CIPHER_PON_AES_CNTR.
Definition is_docsis_crc (j : fview) : bool := fv_hash j =? IMB_AUTH_DOCSIS_CRC32.
(* suites documented as in-place only: the destination is part of the source buffer *)
Definition ip_only (j : fview) : bool := is_pon j || is_docsis_crc j.
Definition has_cipher (j : fview) : bool := negb (fv_cipher j =? IMB_CIPHER_NULL).
Definition has_hash (j : fview) : bool := negb (fv_hash j =? IMB_AUTH_NULL).
Definition has_key (j : fview) : bool := negb (fv_key_len j =? 0).
Definition has_akey (j : fview) : bool := negb (fv_akey_len j =? 0).

Definition ceil8 (n : N) : N := (n + 7) / 8.

(* ------------------------------------------------------------------------- *)
(* destination range, relative to job->dst: bytes [d_from, d_to), masks of first / last byte *)

Definition bit_unaligned (j : fview) : bool :=
  cipher_off_in_bits (fv_cipher j) && negb (N.land (N.lor (fv_coff j) (fv_clen j)) 7 =? 0).

Definition d_from (j : fview) : N :=
  if bit_unaligned j then fv_coff j / 8 else 0.

Definition d_to (j : fview) : N :=
  if negb (has_cipher j) then 0
  else if is_pon j && negb (has_key j) then 0
  else if fv_cipher j =? IMB_CIPHER_CNTR_BITLEN then ceil8 (fv_clen j)
  else if cipher_off_in_bits (fv_cipher j) then
         (if bit_unaligned j then ceil8 (fv_coff j + fv_clen j) else fv_clen j / 8)
  else fv_clen j.

(* 0xff >> k  and  0xff << (8 - k), k = 0..7 *)
Definition mask_shr (k : N) : N := N.shiftr 255 k.
Definition mask_shl (k : N) : N := N.land (N.shiftl 255 (8 - k)) 255.

Definition d_mfirst (j : fview) : N :=
  if bit_unaligned j then mask_shr (N.land (fv_coff j) 7) else 255.

Definition d_mlast (j : fview) : N :=
  let e := if fv_cipher j =? IMB_CIPHER_CNTR_BITLEN then N.land (fv_clen j) 7
           else if bit_unaligned j then N.land (fv_coff j + fv_clen j) 7 else 0 in
  if e =? 0 then 255 else mask_shl e.

(* offset of job->dst inside the source buffer when the job runs in place *)
Definition doff_ip (j : fview) : N :=
  if negb (has_cipher j) then 0
  else if cipher_off_in_bits (fv_cipher j) then
         (if bit_unaligned j then 0 else fv_coff j / 8)
  else fv_coff j.

(* source bytes the cipher reads: [c_from, c_to) *)
Definition c_from (j : fview) : N :=
  if cipher_off_in_bits (fv_cipher j) then fv_coff j / 8 else fv_coff j.
Definition c_to (j : fview) : N :=
  if negb (has_cipher j) then c_from j
  else if fv_cipher j =? IMB_CIPHER_CNTR_BITLEN then fv_coff j + ceil8 (fv_clen j)
  else if cipher_off_in_bits (fv_cipher j) then ceil8 (fv_coff j + fv_clen j)
  else fv_coff j + fv_clen j.

(* source bytes the hash reads: [hoff, h_to) *)
Definition h_to (j : fview) : N :=
  fv_hoff j + (if hash_len_in_bits (fv_hash j) then ceil8 (fv_hlen j) else fv_hlen j).

(* ------------------------------------------------------------------------- *)
(* objects and their documented sizes *)

Definition aes_sched (kl : N) : N :=
  if kl =? 16 then 176 else if kl =? 24 then 208 else if kl =? 32 then 240 else 0.

Definition cipher_key_objs (j : fview) : list (obj * N) :=
  if negb (has_key j) then [] else
  match ckind_of (fv_cipher j) with
  | CK_AesBlock => [(OEnc, aes_sched (fv_key_len j)); (ODec, aes_sched (fv_key_len j))]
  | CK_AesStream => [(OEnc, aes_sched (fv_key_len j))]
  | CK_Gcm => [(OEnc, SZ_GCM_KEY_DATA)]
  | CK_Des => [(OEnc, SZ_DES_SCHED)]
  | CK_Des3 => [(OEnc, 24); (OKs0, SZ_DES_SCHED); (OKs1, SZ_DES_SCHED); (OKs2, SZ_DES_SCHED)]
  | CK_Sm4Block => [(OEnc, SZ_SM4_SCHED); (ODec, SZ_SM4_SCHED)]
  | CK_Sm4Stream => [(OEnc, SZ_SM4_SCHED)]
  | CK_Snow3g => [(OEnc, fv_snow3g_ks j)]
  | CK_Kasumi => [(OEnc, fv_kasumi_ks j)]
  | CK_Raw => [(OEnc, N.min (fv_key_len j) 64)]
  | CK_Null | CK_Unsupported => []
  end.

Definition opt_obj (o : obj) (sz : N) : list (obj * N) := if sz =? 0 then [] else [(o, sz)].

Definition auth_key_objs (j : fview) : list (obj * N) :=
  if negb (has_akey j) then [] else
  match hkind_of (fv_hash j) with
  | HK_None => []
  | HK_Hmac st => [(OAk0, st); (OAk1, st)]
  | HK_Xcbc => [(OAk0, 176); (OAk1, 16); (OAk2, 16)]
  | HK_Cmac s => [(OAk0, s); (OAk1, 16); (OAk2, 16)]
  | HK_Gmac | HK_Ghash => (OAk0, SZ_GCM_KEY_DATA) :: opt_obj OAk1 (fv_aiv_len j)
  | HK_ZucEia3 => (OAk0, fv_akey_len j) :: opt_obj OAk1 (fv_aiv_len j)
  | HK_Snow3gUia2 => (OAk0, fv_snow3g_ks j) :: opt_obj OAk1 (fv_aiv_len j)
  | HK_KasumiUia1 => [(OAk0, fv_kasumi_ks j)]
  | HK_Poly1305 => [(OAk0, 32)]
  end.

Definition objects (j : fview) : list (obj * N) :=
  [(OSrc, fv_src_size j)] ++
  (if has_cipher j && negb (ip_only j) then [(ODst, d_to j)] else []) ++
  opt_obj OIv (fv_iv_len j) ++
  opt_obj OAad (fv_aad_len j) ++
  (if has_hash j then opt_obj OTag (fv_tag_len j) else []) ++
  cipher_key_objs j ++
  (if fv_cipher j =? IMB_CIPHER_CBCS_1_9 then [(ONiv, 16)] else []) ++
  auth_key_objs j.

Fixpoint lookup_size (l : list (obj * N)) (o : obj) : N :=
  match l with
  | [] => 0
  | (o', s) :: t => if obj_eqb o' o then s else lookup_size t o
  end.
Definition obj_size (j : fview) (o : obj) : N := lookup_size (objects j) o.

(* ------------------------------------------------------------------------- *)
(* ranges relative to objects *)

Record orange := mk_or {
  o_obj : obj; o_off : N; o_len : N;
  o_mfirst : N;   (* bits of the first byte that belong to the range (255 = all) *)
  o_mlast : N     (* bits of the last byte that belong to the range *)
}.
Definition full (o : obj) (off len : N) : orange := mk_or o off len 255 255.
Definition opt_range (r : orange) : list orange := if o_len r =? 0 then [] else [r].

(* documented writes inside the source buffer besides the destination range *)
Definition src_extra_W (j : fview) : list orange :=
  (if is_docsis_crc j && is_enc j && (14 <=? fv_hlen j)
   then [full OSrc (fv_hoff j + fv_hlen j) 4] else []) ++      (* CRC32 behind the frame *)
  (if is_pon j && is_enc j
   then full OSrc (fv_hoff j) 8 ::                              (* XGEM header: HEC update *)
        (if 4 <? fv_pli j then [full OSrc (fv_coff j + fv_pli j - 4) 4] else [])  (* payload CRC *)
   else []).

Definition footprint_W (j : fview) : list orange :=
  opt_range (mk_or (if ip_only j then OSrc else ODst)
                   (d_from j + (if ip_only j then doff_ip j else 0))
                   (d_to j - d_from j) (d_mfirst j) (d_mlast j)) ++
  src_extra_W j ++
  (if has_hash j then opt_range (full OTag 0 (fv_tag_len j)) else []) ++
  (if fv_cipher j =? IMB_CIPHER_CBCS_1_9 then [full ONiv 0 16] else []).

(* every key / IV / AAD object is readable as a whole *)
Definition input_obj (o : obj) : bool :=
  match o with OSrc | ODst | OTag | ONiv => false | _ => true end.

Definition footprint_R (j : fview) : list orange :=
  opt_range (full OSrc (c_from j) (c_to j - c_from j)) ++
  (if has_hash j then opt_range (full OSrc (fv_hoff j) (h_to j - fv_hoff j)) else []) ++
  (if is_pon j then [full OSrc (fv_hoff j) 8] else []) ++
  map (fun os => full (fst os) 0 (snd os)) (filter (fun os => input_obj (fst os)) (objects j)).

(* ------------------------------------------------------------------------- *)
(* acceptance: what the caller must guarantee for the ranges to lie in the objects.
   (The message-buffer conditions are the harness range check; the PON clause for
   key_len = 0 is NOT checked by the library's is_job_invalid: finding F2 of C07_NOTES.md.) *)

Definition accepted (j : fview) : bool :=
  (c_to j <=? fv_src_size j) && (c_from j <=? c_to j) &&
  (if has_hash j then h_to j <=? fv_src_size j else true) &&
  (if is_docsis_crc j && is_enc j && (14 <=? fv_hlen j) then fv_hoff j + fv_hlen j + 4 <=? fv_src_size j else true) &&
  (if is_pon j then (fv_hoff j + 8 <=? fv_src_size j) &&
                    ((fv_pli j <=? 4) || (fv_coff j + fv_pli j <=? fv_src_size j)) else true) &&
  (if has_hash j && (fv_hash j =? IMB_AUTH_GHASH) then fv_tag_len j <=? fv_aiv_len j else true).

(* ------------------------------------------------------------------------- *)
(* address-indexed memory *)

Definition mem := N -> N.
Definition layout := obj -> N.    (* base address of every object *)

Record arange := mk_ar { ar_base : N; ar_len : N; ar_mfirst : N; ar_mlast : N }.

Definition abs_range (lay : layout) (r : orange) : arange :=
  mk_ar (lay (o_obj r) + o_off r) (o_len r) (o_mfirst r) (o_mlast r).

Definition in_arange (a : N) (r : arange) : Prop := ar_base r <= a /\ a < ar_base r + ar_len r.
Definition in_aranges (a : N) (rs : list arange) : Prop := exists r, In r rs /\ in_arange a r.

(* mask applying to the i-th byte of a range *)
Definition byte_mask (r : arange) (i : N) : N :=
  N.land (if i =? 0 then ar_mfirst r else 255) (if i + 1 =? ar_len r then ar_mlast r else 255).

(* bits of [new] where the mask is set, bits of [old] elsewhere *)
Definition merge_byte (mask old new : N) : N :=
  N.lor (N.ldiff (w8 old) mask) (N.land (w8 new) mask).

Definition upd (m : mem) (a v : N) : mem := fun x => if x =? a then v else m x.

Fixpoint read_bytes (m : mem) (base : N) (n : nat) : bytes :=
  match n with O => [] | S k => m base :: read_bytes m (base + 1) k end.
Definition read_range (m : mem) (r : arange) : bytes := read_bytes m (ar_base r) (N.to_nat (ar_len r)).

(* write bytes i = from .. from+n-1 of the range; missing output bytes count as 0 *)
Fixpoint write_from (m : mem) (r : arange) (bs : bytes) (i : N) (n : nat) : mem :=
  match n with
  | O => m
  | S k => let a := ar_base r + i in
           write_from (upd m a (merge_byte (byte_mask r i) (m a) (nth (N.to_nat i) bs 0))) r bs (i + 1) k
  end.
Definition write_range (m : mem) (r : arange) (bs : bytes) : mem :=
  write_from m r bs 0 (N.to_nat (ar_len r)).

Fixpoint write_ranges (m : mem) (rs : list arange) (outs : list bytes) : mem :=
  match rs with
  | [] => m
  | r :: t => write_ranges (write_range m r (hd [] outs)) t (tl outs)
  end.

(* the bytes a masked write merges with: first / last byte of a range with a partial mask *)
Definition rmw_edges (r : arange) : list arange :=
  if ar_len r =? 0 then [] else
  (if ar_mfirst r =? 255 then [] else [mk_ar (ar_base r) 1 255 255]) ++
  (if ar_mlast r =? 255 then [] else [mk_ar (ar_base r + ar_len r - 1) 1 255 255]).

Definition R_abs (j : fview) (lay : layout) : list arange := map (abs_range lay) (footprint_R j).
Definition W_abs (j : fview) (lay : layout) : list arange := map (abs_range lay) (footprint_W j).
(* everything the result may depend on: the readable ranges + read-modify-write edges *)
Definition R_all (j : fview) (lay : layout) : list arange :=
  R_abs j lay ++ flat_map rmw_edges (W_abs j lay).

Section Lift.
  (* The algorithm: job view (no addresses) and contents of the readable ranges, in the order of
     [footprint_R], to the contents of the writable ranges, in the order of [footprint_W]. *)
  Variable F : fview -> list bytes -> list bytes.

  Definition job_inputs (j : fview) (lay : layout) (m : mem) : list bytes :=
    map (read_range m) (R_abs j lay).

  Definition run_job_mem (j : fview) (lay : layout) (m : mem) : mem :=
    write_ranges m (W_abs j lay) (F j (job_inputs j lay m)).
End Lift.

(* ------------------------------------------------------------------------- *)
(* layouts *)

(* extent of an object under a layout *)
Definition obj_extent (j : fview) (lay : layout) (o : obj) : arange :=
  mk_ar (lay o) (obj_size j o) 255 255.

Definition disjoint_ar (x y : arange) : Prop :=
  ar_len x = 0 \/ ar_len y = 0 \/ ar_base x + ar_len x <= ar_base y \/ ar_base y + ar_len y <= ar_base x.
Definition disjoint_arb (x y : arange) : bool :=
  (ar_len x =? 0) || (ar_len y =? 0) || (ar_base x + ar_len x <=? ar_base y) || (ar_base y + ar_len y <=? ar_base x).

(* out-of-place: all objects of the job pairwise disjoint *)
Definition oop_layout_ok (j : fview) (lay : layout) : Prop :=
  forall a b, In a all_objs -> In b all_objs -> a <> b ->
              disjoint_ar (obj_extent j lay a) (obj_extent j lay b).

(* in place: dst = src + doff_ip, everything else disjoint *)
Definition ip_layout (j : fview) (lay : layout) : layout :=
  fun o => match o with ODst => lay OSrc + doff_ip j | _ => lay o end.

Definition writes_src (j : fview) : bool :=
  existsb (fun r => obj_eqb (o_obj r) OSrc) (footprint_W j).
Definition reads_dst (j : fview) : bool :=
  existsb (fun r => obj_eqb (o_obj r) ODst) (footprint_R j).

(* mask of the i-th byte of the destination (0 outside [d_from, d_to)) *)
Definition dst_mask (j : fview) (i : N) : N :=
  if (d_from j <=? i) && (i <? d_to j) then
    N.land (if i =? d_from j then d_mfirst j else 255) (if i + 1 =? d_to j then d_mlast j else 255)
  else 0.

(* ------------------------------------------------------------------------- *)
(* one line per view, compared literally with `k3_place --footprint` by checks/c07.py *)

Definition obj_index (o : obj) : N :=
  match o with
  | OSrc => 0 | ODst => 1 | OIv => 2 | OAad => 3 | OTag => 4 | OEnc => 5 | ODec => 6
  | OKs0 => 7 | OKs1 => 8 | OKs2 => 9 | ONiv => 10 | OAk0 => 11 | OAk1 => 12 | OAk2 => 13
  end.

(* objects as (index, size); write ranges as (index, from, to, mfirst, mlast) *)
Definition fp_objs (j : fview) : list (N * N) := map (fun os => (obj_index (fst os), snd os)) (objects j).
Definition fp_W (j : fview) : list (N * (N * (N * (N * N)))) :=
  map (fun r => (obj_index (o_obj r), (o_off r, (o_off r + o_len r, (o_mfirst r, o_mlast r))))) (footprint_W j).
