(* Struct/CcmFormat.v — the byte layouts the CCM CBC-MAC lane manager builds.  Definitions only.

   Transcribed from /repo/lib/include/mb_mgr_aes_ccm_submit_flush_sse.inc (submit part; used by
   sse_t1/mb_mgr_aes_ccm_auth_submit_flush_x8_sse.asm; the avx2_t1 ..._x8_avx.asm and avx512_t2
   ..._x16_vaes_avx512.asm twins have the same sequence):
       flags = 14 - iv_len                                  ; L' = 15 - iv_len - 1
       flags |= (auth_tag_output_len - 2) << 2              ; M' << 3 with the /2 folded in
       init_block0 = 0; bytes 1..7 := iv[0..7) (pinsrb 1 / pinsrw 1 / pinsrd 1)
       iv_len = 8:  pinsrb [iv+7],8        9: pinsrb [iv+8],9 + (8)     10: pinsrb [iv+9],10 + (9)
       iv_len = 11: pinsrd [iv+7],2       12: pinsrb [iv+11],12 + (11)  13: pinsrb [iv+12],13 + (12)
       bytes 14,15 := msg_len_to_hash (16 bit, xchg al,ah = big-endian)
       auth_len = 16;  if aad_len != 0: auth_len = (aad_len + 2 + 15 + 16) & -16, flags |= 0x40,
           16 zero bytes at init_blocks + auth_len - 16, 16-bit big-endian aad_len at +16,
           aad copied to +18
       byte 0 := flags; init_blocks[0..16) := init_block0; lens = auth_len; in = init_blocks
   init_blocks is 64 bytes per lane, hence aad_len <= 46 (IMB_CCM_AAD_MAX_SIZE, checked by
   is_job_invalid).  After the init blocks the lane runs the whole 16-byte blocks of the
   message straight from the source and finally (%%_prepare_partial_block_to_auth) the
   remaining msg_len & 15 bytes loaded zero-extended (simd_load_sse_15_1) into
   init_blocks + 16.  The tag is (E(counter block 0) xor IV slot) truncated. *)
From Coq Require Import List NArith Bool Arith.
From IMB Require Import Lib.Bytes Struct.MemOps.
Import ListNotations.

Definition ccm_lib_flags (iv_len taglen : N) (has_aad : bool) : N :=
  N.lor (N.lor (14 - iv_len) (N.shiftl (taglen - 2) 2)) (if has_aad then 64%N else 0%N).

(* the (position, bytes) inserts performed on the zeroed register for a nonce of 7..13 bytes *)
Definition ccm_nonce_inserts (iv : bytes) : list (nat * bytes) :=
  let first7 := [(1, firstn 1 iv); (2, read_at 1 2 iv); (4, read_at 3 4 iv)] in
  let b i := (i + 1, read_at i 1 iv) in          (* pinsrb [iv + i], i + 1 *)
  let d := (8, read_at 7 4 iv) in                (* pinsrd [iv + 7], 2 *)
  match length iv with
  | 7 => first7
  | 8 => first7 ++ [b 7]
  | 9 => first7 ++ [b 8; b 7]
  | 10 => first7 ++ [b 9; b 8; b 7]
  | 11 => first7 ++ [d]
  | 12 => first7 ++ [b 11; d]
  | 13 => first7 ++ [b 12; b 11; d]
  | _ => []
  end.

Definition apply_inserts (ins : list (nat * bytes)) (reg : bytes) : bytes :=
  fold_left (fun r p => write_at (fst p) (snd p) r) ins reg.

(* Block 0 as stored *)
Definition ccm_lib_b0 (iv : bytes) (taglen : nat) (has_aad : bool) (msg_len : N) : bytes :=
  let r1 := apply_inserts (ccm_nonce_inserts iv) (zeros 16) in
  let r2 := write_at 14 (N_to_be 2 (w16 msg_len)) r1 in
  write_at 0 [ccm_lib_flags (N.of_nat (length iv)) (N.of_nat taglen) has_aad] r2.

Definition ccm_lib_auth_len (aad_len : nat) : nat :=
  if Nat.eqb aad_len 0 then 16 else ((aad_len + 33) / 16) * 16.       (* (x + 33) & -16 *)

(* the lane's 64-byte init_blocks area after submit; [stale] = previous contents *)
Definition ccm_lib_init_blocks (stale iv aad : bytes) (taglen : nat) (msg_len : N) : bytes :=
  let al := length aad in
  let b0 := ccm_lib_b0 iv taglen (negb (Nat.eqb al 0)) msg_len in
  if Nat.eqb al 0 then write_at 0 b0 stale
  else
    let m1 := write_at (ccm_lib_auth_len al - 16) (zeros 16) stale in
    let m2 := write_at 16 (N_to_be 2 (w16 (N.of_nat al))) m1 in
    let m3 := write_at 18 aad m2 in
    write_at 0 b0 m3.

(* zero padding up to the next multiple of 16 *)
Definition pad16_len (n : nat) : nat := (16 - n mod 16) mod 16.
Definition zpad16 (l : bytes) : bytes := l ++ zeros (pad16_len (length l)).

(* every byte the lane's CBC-MAC kernel consumes, in order *)
Definition ccm_lane_stream (stale iv aad msg : bytes) (taglen : nat) : bytes :=
  let ib := ccm_lib_init_blocks stale iv aad taglen (N.of_nat (length msg)) in
  firstn (ccm_lib_auth_len (length aad)) ib ++ zpad16 msg.

Section Lane.
  Variable E : bytes -> bytes.
  (* IV slot after the CBC-MAC kernel ran over the stream from IV = 0 *)
  Definition ccm_lane_mac (stale iv aad msg : bytes) (taglen : nat) : bytes :=
    fold_left (fun x b => E (xor_bytes b x)) (chunks 16 (ccm_lane_stream stale iv aad msg taglen))
              (zeros 16).
End Lane.
