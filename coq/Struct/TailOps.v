(* Struct/TailOps.v — C01, structural layer (L2): partial-byte / partial-block operations as
   the kernels do them (load - merge - store), as operations on values.  Definitions only.

   CNTR_BITLEN (/repo/lib/sse_t1/aes128_cntr_by8_sse.asm, "Clear all the bits that do not need
   to be preserved from the output"; /repo/lib/include/aes_cntr_by16_vaes_avx512.inc): with
   r = bitlen mod 8 <> 0 the last output byte keeps the 8 - r low bits that were in dst. *)
From Coq Require Import List NArith.
From IMB Require Import Lib.Bytes.
Import ListNotations.

(* number of bytes a bit length covers: ceil(bitlen / 8) *)
Definition ctr_bits_nbytes (bitlen : N) : nat := N.to_nat (N.shiftr (bitlen + 7) 3).

(* mask of the bits of the last byte that are preserved from dst: 0xff >> (bitlen mod 8) *)
Definition ctr_bits_keep (bitlen : N) : N := N.shiftr 255 (N.land bitlen 7).

(* merge: the bits outside [keep] from the new value [a], the bits in [keep] from dst byte [d] *)
Definition merge_keep (keep a d : N) : N :=
  N.lor (N.land a (N.lxor keep 255)) (N.land d keep).

(* CBCS 1:9: the chaining value the encryption loop holds after the last block, i.e. what the
   kernel stores to job->cipher_fields.CBCS.next_iv ([k] = blocks to skip before the next
   encrypted one) *)
Fixpoint cbcs_enc_final_chain (E : bytes -> bytes) (ch : bytes) (k : nat) (bs : list bytes)
  : bytes :=
  match bs with
  | [] => ch
  | b :: r =>
    match k with
    | O => cbcs_enc_final_chain E (E (xor_bytes b ch)) 9 r
    | S k' => cbcs_enc_final_chain E ch k' r
    end
  end.

(* a 16-byte block of in-range bytes *)
Definition blk_ok (b : bytes) : Prop := length b = 16 /\ bytes_ok b = true.
