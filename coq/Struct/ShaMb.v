(* Struct/ShaMb.v — the C multi-buffer manager for plain SHA-1/224/256/384/512 jobs.
   Definitions only.

   Transcribed from /repo/lib/include/sha_mb_mgr.h:
     submit_flush_job_sha_1 / _256 / _512 (identical bodies up to types), called from
     sse_t1/sha_mb_sse.c, sse_t2/sha_ni_mb_sse.c, avx2_t1/sha_mb_avx2.c, avx2_t4/sha_ni_avx2.c,
     avx512_t1/sha_mb_avx512.c with (blk_size, pad_size) = (64, 8) for SHA-1/224/256
     (IMB_SHA1_BLOCK_SIZE, SHA1_PAD_SIZE ...) and (128, 16) for SHA-384/512 (constants.h).

     submit:  lens[lane] = msg_len_to_hash_in_bytes (BYTES here, not blocks);
              ldata[lane].extra_blocks = 1; digest := the algorithm's initial value
     loop:    min_len     = lens[min_idx]
              min_len_blk = min_len & ~(blk_size - 1);   all lens -= min_len_blk
              r           = min_len % blk_size
              if (r >= blk_size - pad_size) extra_blocks = 2
              if (min_len >= blk_size) kernel(args, min_len / blk_size)     -- whole blocks
              if (extra_blocks != 0) create_extra_blocks(state, blk_size, r, min_idx)
              while (lens[min_idx] != 0)
     sha1/sha256/sha512_create_extra_blocks:
              xblk_size = blk_size * extra_blocks
              memset(extra_block, 0, sizeof extra_block)          -- 2*64+8 / 2*128+16 bytes
              var_memcpy(extra_block, data_ptr[min_idx], r)       -- the r bytes after the blocks
              extra_block[r] = 0x80
              store8_be(&extra_block[xblk_size - 8], msg_len_to_hash_in_bytes * 8)
              data_ptr[min_idx] = extra_block; lens[min_idx] = xblk_size; extra_blocks = 0
   Every amount subtracted from a lane's length is a multiple of blk_size, hence when a lane
   becomes the minimum with extra_blocks != 0 its remaining length r is len mod blk_size and
   data_ptr points len - r bytes into the message (the lane kernel advances the pointers by
   the blocks it consumed).  The interleaving of lanes is the generic scheduler of Mgr/Ooo.v
   (Props/Properties_C04.v); here is what ONE job feeds to the compression function. *)
From Coq Require Import List NArith Bool Arith.
From IMB Require Import Lib.Bytes Struct.MemOps.
Import ListNotations.

Record sha_mb_cfg : Type := MkShaMbCfg {
  sm_B : nat;       (* blk_size *)
  sm_pad : nat      (* pad_size: bytes of the length field *)
}.

Definition SM_SHA1_256 : sha_mb_cfg := MkShaMbCfg 64 8.     (* SHA-1, SHA-224, SHA-256 *)
Definition SM_SHA512   : sha_mb_cfg := MkShaMbCfg 128 16.   (* SHA-384, SHA-512 *)

Section ShaMbJob.
  Variable c : sha_mb_cfg.
  Let B := sm_B c.
  Let P := sm_pad c.

  Definition sha_mb_r (len : nat) : nat := len mod B.

  Definition sha_mb_extra_blocks (len : nat) : nat :=
    if Nat.leb (B - P) (sha_mb_r len) then 2 else 1.

  Definition sha_mb_xblk_size (len : nat) : nat := B * sha_mb_extra_blocks len.

  Definition sha_mb_extra_block_size : nat := 2 * B + P.

  (* store8_be of the uint64_t product len * 8 *)
  Definition sha_mb_len_field (len : nat) : bytes := N_to_be 8 (w64 (N.of_nat len * 8)).

  (* create_extra_blocks; [tail] = the r bytes at data_ptr *)
  Definition sha_mb_create_extra_blocks (tail : bytes) (len : nat) : bytes :=
    let m0 := zeros sha_mb_extra_block_size in
    let m1 := write_at 0 tail m0 in
    let m2 := write_at (sha_mb_r len) [128%N] m1 in
    write_at (sha_mb_xblk_size len - 8) (sha_mb_len_field len) m2.

  (* whole blocks consumed directly from the message *)
  Definition sha_mb_src_bytes (msg : bytes) : bytes := firstn (B * (length msg / B)) msg.

  (* the lens[] bytes consumed from extra_block *)
  Definition sha_mb_extra_bytes (msg : bytes) : bytes :=
    let len := length msg in
    read_at 0 (sha_mb_xblk_size len)
            (sha_mb_create_extra_blocks (skipn (len - sha_mb_r len) msg) len).

  Definition sha_mb_stream (msg : bytes) : bytes := sha_mb_src_bytes msg ++ sha_mb_extra_bytes msg.
End ShaMbJob.
