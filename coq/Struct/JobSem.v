(* Struct/JobSem.v — job semantics: what one IMB_JOB computes, as a function of
   the K1 work item (harness/K1_FORMAT.md).  Definitions only.

   [job_model w] = Some (area, tag):
     area = the whole destination area after the job (length msg bytes; it
            starts as the harness pre-fill 0xC3 xor (i land 255) for an
            out-of-place item and as msg for an in-place item);
     tag  = the bytes the job writes to the tag buffer.  It has [wi_tag] bytes
            when every requested tag byte is specified.  When it is SHORTER than
            [wi_tag], the remaining tag bytes are unspecified (only PON with
            PLI <= 4 and DOCSIS_CRC32 with hash length < 14, see K1_NOTES.md).
   None = combination / geometry not modelled or not specified by the published
          algorithm + the documented API (K1_NOTES.md lists every such case).

   The model composes the Spec/ functions exactly as the API defines a job:
   cipher stage: reads src[coff, coff+clen), writes the destination area at the
   dst-offset rule of the harness; hash stage: reads [hoff, hoff+hlen) of the
   source buffer (of the destination area when hdst = 1) AS IT STANDS WHEN THE
   STAGE RUNS (IMB_ORDER_CIPHER_HASH: after the cipher; IMB_ORDER_HASH_CIPHER:
   before).  It is the PUBLISHED ALGORITHM plus the documented API conventions;
   it deliberately does not reproduce library quirks (K1_NOTES.md, triage list). *)
From Coq Require Import List NArith Bool.
From IMB Require Import Lib.Bytes.
From IMB Require Spec.AES Spec.AESModes Spec.GF128 Spec.GCM Spec.CMAC Spec.CCM.
From IMB Require Spec.SHA Spec.MD5 Spec.SM3 Spec.HMAC.
From IMB Require Spec.ChaCha20 Spec.Poly1305 Spec.ChaChaPoly Spec.CRC Spec.PON.
From IMB Require Spec.DES Spec.SM4 Spec.ZUC Spec.SNOW3G Spec.KASUMI Spec.SNOWV.
Import ListNotations.
Local Open Scope N_scope.

(* ------------------------------------------------------------------------- *)
(* The work item (one line of a K1 case file)                                 *)
(* ------------------------------------------------------------------------- *)
Record work_item : Type := mkWI {
  wi_cipher : N;          (* IMB_CIPHER_MODE *)
  wi_hash : N;            (* IMB_HASH_ALG *)
  wi_dir : N;             (* 1 encrypt, 2 decrypt *)
  wi_order : N;           (* 1 cipher-hash, 2 hash-cipher *)
  wi_key : bytes;
  wi_akey : bytes;
  wi_iv : bytes;
  wi_aiv : bytes;
  wi_aad : bytes;
  wi_msg : bytes;
  wi_coff : N;            (* bytes; bits for cipher 15, 16 *)
  wi_clen : N;            (* bytes; bits for cipher 13, 15, 16 *)
  wi_hoff : N;            (* bytes *)
  wi_hlen : N;            (* bytes; bits for hash 18, 20, 22, 31 *)
  wi_tag : N;             (* auth_tag_output_len_in_bytes *)
  wi_inplace : bool;
  wi_doff : option N;     (* explicit dst pointer offset; None = harness default *)
  wi_hdst : bool          (* hash offset counts from the destination area *)
}.

(* ------------------------------------------------------------------------- *)
(* Small helpers                                                              *)
(* ------------------------------------------------------------------------- *)
Definition bind {A B} (o : option A) (f : A -> option B) : option B :=
  match o with Some x => f x | None => None end.
Notation "'do' x <- a ; b" := (bind a (fun x => b))
  (at level 200, x pattern, a at level 100, b at level 200).
Definition guard (b : bool) : option unit := if b then Some tt else None.

Definition lenN (l : bytes) : N := N.of_nat (length l).

Fixpoint fill_from (n : nat) (i : N) (c : N) : bytes :=
  match n with O => [] | S k => N.lxor c (N.land i 255) :: fill_from k (i + 1) c end.
(* harness pre-fill of the destination buffer / of the tag buffer *)
Definition dst_prefill (n : nat) : bytes := fill_from n 0 195.   (* 0xC3 *)
Definition tag_prefill (n : nat) : bytes := fill_from n 0 60.    (* 0x3C *)

(* buf[off, off+len), None if the range leaves the buffer *)
Definition slice_opt (buf : bytes) (off len : N) : option bytes :=
  if off + len <=? lenN buf
  then Some (firstn (N.to_nat len) (skipn (N.to_nat off) buf))
  else None.

(* overwrite area[off, off + length data), None if it does not fit *)
Definition splice_opt (area : bytes) (off : N) (data : bytes) : option bytes :=
  if off + lenN data <=? lenN area
  then let o := N.to_nat off in
       Some (firstn o area ++ data ++ skipn (o + length data) area)
  else None.

Definition ceil8 (n : N) : N := N.shiftr (n + 7) 3.
Definition mem (x : N) (l : list N) : bool := existsb (N.eqb x) l.
Definition is_aes_klen (k : N) : bool := mem k [16; 24; 32].

(* codes of harness/K1_FORMAT.md = enum values of lib/intel-ipsec-mb.h *)
Definition C_CBC := 1.  Definition C_CNTR := 2.  Definition C_NULL := 3.
Definition C_DOCSIS_SEC_BPI := 4.  Definition C_GCM := 5.  Definition C_DES := 7.
Definition C_DOCSIS_DES := 8.  Definition C_CCM := 9.  Definition C_DES3 := 10.
Definition C_PON := 11.  Definition C_ECB := 12.  Definition C_CNTR_BITLEN := 13.
Definition C_ZUC_EEA3 := 14.  Definition C_SNOW3G_UEA2 := 15.  Definition C_KASUMI_UEA1 := 16.
Definition C_CBCS_1_9 := 17.  Definition C_CHACHA20 := 18.  Definition C_CHACHA20_POLY1305 := 19.
Definition C_SNOW_V := 21.  Definition C_SNOW_V_AEAD := 22.  Definition C_SM4_ECB := 24.
Definition C_SM4_CBC := 25.  Definition C_CFB := 26.  Definition C_SM4_CNTR := 27.
Definition C_SM4_GCM := 28.

Definition H_HMAC_SHA_1 := 1.  Definition H_HMAC_SHA_224 := 2.  Definition H_HMAC_SHA_256 := 3.
Definition H_HMAC_SHA_384 := 4.  Definition H_HMAC_SHA_512 := 5.  Definition H_AES_XCBC := 6.
Definition H_MD5 := 7.  Definition H_NULL := 8.  Definition H_AES_GMAC := 9.
Definition H_AES_CCM := 11.  Definition H_AES_CMAC := 12.  Definition H_SHA_1 := 13.
Definition H_SHA_224 := 14.  Definition H_SHA_256 := 15.  Definition H_SHA_384 := 16.
Definition H_SHA_512 := 17.  Definition H_AES_CMAC_BITLEN := 18.  Definition H_PON_CRC_BIP := 19.
Definition H_ZUC_EIA3 := 20.  Definition H_DOCSIS_CRC32 := 21.  Definition H_SNOW3G_UIA2 := 22.
Definition H_KASUMI_UIA1 := 23.  Definition H_GMAC_128 := 24.  Definition H_GMAC_192 := 25.
Definition H_GMAC_256 := 26.  Definition H_AES_CMAC_256 := 27.  Definition H_POLY1305 := 28.
Definition H_CHACHA20_POLY1305 := 29.  Definition H_ZUC256_EIA3 := 31.  Definition H_SNOW_V_AEAD := 32.
Definition H_CRC_FIRST := 34.  Definition H_CRC_LAST := 45.
Definition H_GHASH := 46.  Definition H_SM3 := 47.  Definition H_HMAC_SM3 := 48.
Definition H_SM4_GCM := 49.

(* ciphers / hashes that only exist as one half of a fixed pair *)
Definition paired_ciphers : list N :=
  [C_GCM; C_CCM; C_PON; C_CHACHA20_POLY1305; C_SNOW_V_AEAD; C_SM4_GCM].
Definition paired_hashes : list N :=
  [H_AES_GMAC; H_AES_CCM; H_PON_CRC_BIP; H_DOCSIS_CRC32; H_CHACHA20_POLY1305; H_SNOW_V_AEAD; H_SM4_GCM].

Definition cipher_len_in_bits (c : N) : bool := mem c [C_CNTR_BITLEN; C_SNOW3G_UEA2; C_KASUMI_UEA1].
Definition cipher_off_in_bits (c : N) : bool := mem c [C_SNOW3G_UEA2; C_KASUMI_UEA1].
Definition hash_len_in_bits (h : N) : bool :=
  mem h [H_AES_CMAC_BITLEN; H_ZUC_EIA3; H_ZUC256_EIA3; H_SNOW3G_UIA2].

(* K1_FORMAT.md "Buffers": offset of job->dst inside the destination area *)
Definition default_doff (w : work_item) : N :=
  let c := wi_cipher w in
  if c =? C_NULL then 0
  else if cipher_off_in_bits c
       then (if N.land (N.lor (wi_coff w) (wi_clen w)) 7 =? 0 then N.shiftr (wi_coff w) 3 else 0)
       else wi_coff w.
Definition eff_doff (w : work_item) : N :=
  match wi_doff w with Some d => d | None => default_doff w end.
(* in place the harness default (dst = src + offset) is the only defined layout *)
Definition doff_ok (w : work_item) : bool :=
  negb (wi_inplace w) || (eff_doff w =? default_doff w).

(* ------------------------------------------------------------------------- *)
(* Bit-granular stream ciphers (SNOW3G UEA2, KASUMI F8): the published f8      *)
(* functions xor LENGTH key-stream bits onto LENGTH message bits; every other  *)
(* bit of the destination keeps its value.  [ks n] = at least n key-stream     *)
(* bytes.  Source bits [8q+r, 8q+r+bitlen) go to the same bit positions of the *)
(* destination region that starts at byte dq of the area.                      *)
(* ------------------------------------------------------------------------- *)
Definition bit_stream_cipher (ks : nat -> bytes) (src area : bytes) (bitoff bitlen dq : N)
  : option bytes :=
  let q := N.shiftr bitoff 3 in
  let r := N.land bitoff 7 in
  let nb := ceil8 (r + bitlen) in
  do _ <- guard ((q + nb <=? lenN src) && (dq + nb <=? lenN area));
  let cs := firstn (N.to_nat nb) (KASUMI.shift_stream r 0 (ks (N.to_nat nb))) in
  let d := N.to_nat dq in
  Some (firstn d area ++
        KASUMI.f8_merge cs (skipn (N.to_nat q) src) (skipn d area) r (r + bitlen) 0).

Definition snow3g_ks (key iv : bytes) (n : nat) : bytes :=
  SNOW3G.snow3g_ks_bytes (SNOW3G.snow3g_keystream key iv (Nat.div (n + 3) 4)).
Definition kasumi_ks (key iv : bytes) (n : nat) : bytes :=
  KASUMI.kasumi_f8_keystream key iv (Nat.div (n + 7) 8).

(* PON: AES-128-CTR whose 16-byte IV is a 128-bit big-endian counter *)
Definition pon_ctr (key iv msg : bytes) : bytes :=
  AESModes.ctr_w_gen (AES.aes_enc_rk (AES.aes_key_expand key)) 16 iv msg.

(* CBCS 1:9 with the AES variant selected by the key length (header: key sizes
   16/24/32 accepted, so AES-128/192/256) *)
Definition cbcs_run (enc : bool) (key iv inp : bytes) : bytes :=
  if enc then AESModes.cbcs_enc key iv inp else AESModes.cbcs_dec key iv inp.

(* ------------------------------------------------------------------------- *)
(* Cipher stage of a generic (non-paired) job: new content of the area         *)
(* ------------------------------------------------------------------------- *)
Definition byte_cipher_fn (w : work_item) : option (bytes -> bytes) :=
  let c := wi_cipher w in
  let key := wi_key w in let iv := wi_iv w in
  let kl := lenN key in let il := lenN iv in
  let n := wi_clen w in
  let enc := wi_dir w =? 1 in
  let blk16 := (0 <? n) && (N.land n 15 =? 0) in
  let blk8 := (0 <? n) && (N.land n 7 =? 0) in
  if c =? C_CBC then
    do _ <- guard (is_aes_klen kl && (il =? 16) && blk16);
    Some (if enc then AESModes.cbc_enc key iv else AESModes.cbc_dec key iv)
  else if c =? C_CNTR then
    do _ <- guard (is_aes_klen kl && mem il [12; 16] && (0 <? n));
    Some (AESModes.ctr key iv)
  else if c =? C_ECB then
    do _ <- guard (is_aes_klen kl && blk16);
    Some (if enc then AESModes.ecb_enc key else AESModes.ecb_dec key)
  else if c =? C_CFB then
    do _ <- guard (is_aes_klen kl && (il =? 16) && (0 <? n));
    Some (if enc then AESModes.cfb_enc key iv else AESModes.cfb_dec key iv)
  else if c =? C_DOCSIS_SEC_BPI then
    do _ <- guard (mem kl [16; 32] && (il =? 16));
    Some (if enc then AESModes.docsis_aes_enc key iv else AESModes.docsis_aes_dec key iv)
  else if c =? C_DES then
    do _ <- guard ((kl =? 8) && (il =? 8) && blk8);
    Some (if enc then DES.des_cbc_enc key iv else DES.des_cbc_dec key iv)
  else if c =? C_DOCSIS_DES then
    do _ <- guard ((kl =? 8) && (il =? 8) && (0 <? n));
    Some (if enc then DES.docsis_des_enc key iv else DES.docsis_des_dec key iv)
  else if c =? C_DES3 then
    do _ <- guard ((kl =? 24) && (il =? 8) && blk8);
    let k1 := firstn 8 key in let k2 := firstn 8 (skipn 8 key) in let k3 := skipn 16 key in
    Some (if enc then DES.des3_cbc_enc k1 k2 k3 iv else DES.des3_cbc_dec k1 k2 k3 iv)
  else if c =? C_ZUC_EEA3 then
    do _ <- guard ((0 <? n) && (((kl =? 16) && (il =? 16)) || ((kl =? 32) && mem il [23; 25])));
    Some (if kl =? 32 then ZUC.zuc256_eea3 key iv else ZUC.zuc_eea3 key iv)
  else if c =? C_CHACHA20 then
    do _ <- guard ((kl =? 32) && (il =? 12) && (0 <? n));
    Some (ChaCha20.chacha20_job key iv)
  else if c =? C_SNOW_V then
    do _ <- guard ((kl =? 32) && (il =? 16));
    Some (SNOWV.snowv key iv)
  else if c =? C_SM4_ECB then
    do _ <- guard ((kl =? 16) && blk16);
    Some (if enc then SM4.sm4_ecb_enc key else SM4.sm4_ecb_dec key)
  else if c =? C_SM4_CBC then
    do _ <- guard ((kl =? 16) && (il =? 16) && blk16);
    Some (if enc then SM4.sm4_cbc_enc key iv else SM4.sm4_cbc_dec key iv)
  else if c =? C_SM4_CNTR then
    do _ <- guard ((kl =? 16) && mem il [12; 16] && (0 <? n));
    Some (SM4.sm4_ctr key iv)
  else None.

Definition cipher_stage (w : work_item) (src area : bytes) : option bytes :=
  let c := wi_cipher w in
  let key := wi_key w in let iv := wi_iv w in
  if c =? C_NULL then Some area
  else
    do _ <- guard (mem (wi_dir w) [1; 2] && doff_ok w);
    let d := eff_doff w in
    if c =? C_CNTR_BITLEN then
      (* 128-EEA2: clen bits from byte coff; the bits of the last byte beyond
         the message keep the destination's value *)
      let nb := ceil8 (wi_clen w) in
      do _ <- guard (is_aes_klen (lenN key) && (lenN iv =? 16) && (0 <? wi_clen w));
      do inp <- slice_opt src (wi_coff w) nb;
      do old <- slice_opt area d nb;
      splice_opt area d (AESModes.ctr_bits key iv inp (wi_clen w) old)
    else if c =? C_SNOW3G_UEA2 then
      do _ <- guard ((lenN key =? 16) && (lenN iv =? 16) && (0 <? wi_clen w));
      if N.land (N.lor (wi_coff w) (wi_clen w)) 7 =? 0 then
        bit_stream_cipher (snow3g_ks key iv) src area (wi_coff w) (wi_clen w) d
      else
        do _ <- guard (match wi_doff w with None => true | Some x => x =? 0 end);
        bit_stream_cipher (snow3g_ks key iv) src area (wi_coff w) (wi_clen w) (N.shiftr (wi_coff w) 3)
    else if c =? C_KASUMI_UEA1 then
      do _ <- guard ((lenN key =? 16) && (lenN iv =? 8) && (0 <? wi_clen w));
      if N.land (N.lor (wi_coff w) (wi_clen w)) 7 =? 0 then
        bit_stream_cipher (kasumi_ks key iv) src area (wi_coff w) (wi_clen w) d
      else
        do _ <- guard (match wi_doff w with None => true | Some x => x =? 0 end);
        bit_stream_cipher (kasumi_ks key iv) src area (wi_coff w) (wi_clen w) (N.shiftr (wi_coff w) 3)
    else if c =? C_CBCS_1_9 then
      do _ <- guard (is_aes_klen (lenN key) && (lenN iv =? 16) &&
                     (0 <? wi_clen w) && (N.land (wi_clen w) 15 =? 0));
      do inp <- slice_opt src (wi_coff w) (wi_clen w);
      do old <- slice_opt area d (wi_clen w);
      (* only the 1-in-10 processed blocks are written; the others keep the
         destination's content (they ARE the source in place) *)
      splice_opt area d (AESModes.cbcs_oop (cbcs_run (wi_dir w =? 1) key iv inp) old)
    else
      do f <- byte_cipher_fn w;
      do inp <- slice_opt src (wi_coff w) (wi_clen w);
      splice_opt area d (f inp).

(* CBCS: content of the 16-byte next_iv buffer after the job *)
Definition job_model_niv (w : work_item) : option bytes :=
  if wi_cipher w =? C_CBCS_1_9 then
    do inp <- slice_opt (wi_msg w) (wi_coff w) (wi_clen w);
    do _ <- guard (is_aes_klen (lenN (wi_key w)) && (lenN (wi_iv w) =? 16) && mem (wi_dir w) [1; 2]);
    let ct := if wi_dir w =? 1 then cbcs_run true (wi_key w) (wi_iv w) inp else inp in
    Some (AESModes.cbcs_next_iv (wi_iv w) ct)
  else None.

(* Destination bits on which the published algorithms AND the header are silent:
   for the three bit-length cipher modes the bits of the last message byte that
   lie beyond the last message bit.  [job_model] keeps the destination's value
   there (a job "writes exactly the bits" of the message); the differ reports a
   library/model difference confined to these bits as an undocumented corner,
   not as a wrong cipher output.  Result: (byte index in the area, bit mask). *)
Definition job_model_loose (w : work_item) : list (N * N) :=
  let c := wi_cipher w in
  if cipher_len_in_bits c then
    let inbits := cipher_off_in_bits c in
    let startbit := if inbits then wi_coff w else 8 * wi_coff w in
    let endbit := startbit + wi_clen w in
    let r := N.land endbit 7 in
    if (r =? 0) || (wi_clen w =? 0) then []
    else
      let q := N.shiftr startbit 3 in
      let aligned := N.land (N.lor startbit (wi_clen w)) 7 =? 0 in
      let dq := if inbits && negb aligned then q else eff_doff w in
      [(N.shiftr endbit 3 - q + dq, N.shiftr 255 r)]
  else [].

(* ------------------------------------------------------------------------- *)
(* Hash stage of a generic job: the full-length value of the algorithm         *)
(* ------------------------------------------------------------------------- *)
Definition crc_of_code (h : N) : option CRC.crc_alg :=
  nth_error [CRC.CRC32_ETHERNET_FCS; CRC.CRC32_SCTP; CRC.CRC32_WIMAX_OFDMA_DATA; CRC.CRC24_LTE_A;
             CRC.CRC24_LTE_B; CRC.CRC16_X25; CRC.CRC16_FP_DATA; CRC.CRC11_FP_HEADER;
             CRC.CRC10_IUUP_DATA; CRC.CRC8_WIMAX_OFDMA_HCS; CRC.CRC7_FP_HEADER; CRC.CRC6_IUUP_HEADER]
            (N.to_nat (h - H_CRC_FIRST)).

(* [inp] = the bytes of the hashed range (ceil(hlen/8) bytes for bit lengths) *)
Definition hash_value (w : work_item) (inp : bytes) : option bytes :=
  let h := wi_hash w in
  let ak := wi_akey w in let al := lenN ak in
  let aiv := wi_aiv w in
  let bits := wi_hlen w in
  let hmac (f : bytes -> bytes -> bytes) :=
      do _ <- guard (0 <? al); Some (f ak inp) in
  if h =? H_HMAC_SHA_1 then hmac HMAC.hmac_sha1
  else if h =? H_HMAC_SHA_224 then hmac HMAC.hmac_sha224
  else if h =? H_HMAC_SHA_256 then hmac HMAC.hmac_sha256
  else if h =? H_HMAC_SHA_384 then hmac HMAC.hmac_sha384
  else if h =? H_HMAC_SHA_512 then hmac HMAC.hmac_sha512
  else if h =? H_MD5 then hmac HMAC.hmac_md5
  else if h =? H_HMAC_SM3 then hmac HMAC.hmac_sm3
  else if h =? H_SHA_1 then Some (SHA.sha1 inp)
  else if h =? H_SHA_224 then Some (SHA.sha224 inp)
  else if h =? H_SHA_256 then Some (SHA.sha256 inp)
  else if h =? H_SHA_384 then Some (SHA.sha384 inp)
  else if h =? H_SHA_512 then Some (SHA.sha512 inp)
  else if h =? H_SM3 then Some (SM3.sm3 inp)
  else if h =? H_AES_XCBC then
    do _ <- guard (al =? 16); Some (CMAC.xcbc ak inp)
  else if h =? H_AES_CMAC then
    do _ <- guard (al =? 16); Some (CMAC.cmac ak inp)
  else if h =? H_AES_CMAC_256 then
    do _ <- guard (al =? 32); Some (CMAC.cmac ak inp)
  else if h =? H_AES_CMAC_BITLEN then
    do _ <- guard (al =? 16); Some (CMAC.cmac_bits ak inp bits)
  else if h =? H_ZUC_EIA3 then
    do _ <- guard ((al =? 16) && (lenN aiv =? 16) && (0 <? bits));
    Some (ZUC.zuc_eia3 ak aiv inp bits)
  else if h =? H_ZUC256_EIA3 then
    do _ <- guard ((al =? 32) && mem (lenN aiv) [23; 25] && (0 <? bits) && mem (wi_tag w) [4; 8; 16]);
    (* the ZUC-256 MAC is a different function for each tag size *)
    Some (ZUC.zuc256_eia3 ak aiv inp bits (N.to_nat (wi_tag w)))
  else if h =? H_SNOW3G_UIA2 then
    do _ <- guard ((al =? 16) && (lenN aiv =? 16) && (0 <? bits));
    Some (SNOW3G.snow3g_uia2 ak aiv inp bits)
  else if h =? H_KASUMI_UIA1 then
    do _ <- guard (al =? 16); Some (KASUMI.kasumi_f9 ak inp)
  else if mem h [H_GMAC_128; H_GMAC_192; H_GMAC_256] then
    do _ <- guard ((al =? 16 + 8 * (h - H_GMAC_128)) && (0 <? lenN aiv));
    Some (GCM.gmac ak aiv inp 16)
  else if h =? H_POLY1305 then
    do _ <- guard (al =? 32); Some (Poly1305.poly1305_mac ak inp)
  else if h =? H_GHASH then
    (* akey = the hash key H itself; aiv = initial value.  A GHASH state is 16
       bytes: tag lengths below 16 are not specified (K1_NOTES.md) *)
    do _ <- guard ((al =? 16) && (lenN aiv =? 16) && (wi_tag w =? 16));
    Some (GF128.ghash_update ak aiv inp)
  else if (H_CRC_FIRST <=? h) && (h <=? H_CRC_LAST) then
    do a <- crc_of_code h;
    do _ <- guard (wi_tag w =? 4);
    Some (CRC.crc_job_tag a inp)
  else None.

(* tag written by the hash stage reading from [buf] *)
Definition hash_stage (w : work_item) (buf : bytes) : option bytes :=
  let h := wi_hash w in
  if h =? H_NULL then Some (tag_prefill (N.to_nat (wi_tag w)))      (* tag buffer untouched *)
  else
    let nbytes := if hash_len_in_bits h then ceil8 (wi_hlen w) else wi_hlen w in
    do inp <- slice_opt buf (wi_hoff w) nbytes;
    do full <- hash_value w inp;
    do _ <- guard ((0 <? wi_tag w) && (wi_tag w <=? lenN full));
    Some (firstn (N.to_nat (wi_tag w)) full).

(* ------------------------------------------------------------------------- *)
(* Generic chained job                                                        *)
(* ------------------------------------------------------------------------- *)
Definition generic_job (w : work_item) (src area0 : bytes) : option (bytes * bytes) :=
  let inpl := wi_inplace w in
  if wi_order w =? 1 then
    (* IMB_ORDER_CIPHER_HASH: the hash sees the buffers after the cipher ran *)
    do area1 <- cipher_stage w src area0;
    let hbuf := if inpl || wi_hdst w then area1 else src in
    do tag <- hash_stage w hbuf;
    Some (area1, tag)
  else if wi_order w =? 2 then
    (* IMB_ORDER_HASH_CIPHER: the hash sees the buffers before the cipher runs *)
    let hbuf := if inpl || wi_hdst w then area0 else src in
    do tag <- hash_stage w hbuf;
    do area1 <- cipher_stage w src area0;
    Some (area1, tag)
  else None.

(* ------------------------------------------------------------------------- *)
(* AEAD and combined pairs                                                    *)
(* ------------------------------------------------------------------------- *)
Definition trunc_tag (w : work_item) (full : bytes) : option bytes :=
  do _ <- guard ((0 <? wi_tag w) && (wi_tag w <=? lenN full));
  Some (firstn (N.to_nat (wi_tag w)) full).

(* common shape: (ct|pt, full tag) computed from the ciphered range *)
Definition aead_job (w : work_item) (src area0 : bytes)
           (run : bytes -> bytes * bytes) : option (bytes * bytes) :=
  do _ <- guard (mem (wi_dir w) [1; 2] && doff_ok w && mem (wi_order w) [1; 2]);
  do inp <- slice_opt src (wi_coff w) (wi_clen w);
  let '(out, full) := run inp in
  do area1 <- splice_opt area0 (eff_doff w) out;
  do tag <- trunc_tag w full;
  Some (area1, tag).

Definition same_ranges (w : work_item) : bool :=
  (wi_hoff w =? wi_coff w) && (wi_hlen w =? wi_clen w).

Definition gcm_job (w : work_item) (src area0 : bytes) : option (bytes * bytes) :=
  let key := wi_key w in let iv := wi_iv w in let aad := wi_aad w in
  do _ <- guard (is_aes_klen (lenN key) && (0 <? lenN iv) && (wi_tag w <=? 16));
  let E := AES.aes_enc_rk (AES.aes_key_expand key) in
  aead_job w src area0
    (fun inp => if wi_dir w =? 1 then GCM.gcm_enc_gen E iv aad inp 16
                else GCM.gcm_dec_gen E iv aad inp 16).

Definition sm4_gcm_job (w : work_item) (src area0 : bytes) : option (bytes * bytes) :=
  let key := wi_key w in let iv := wi_iv w in let aad := wi_aad w in
  do _ <- guard ((lenN key =? 16) && (0 <? lenN iv) && (wi_tag w <=? 16));
  let E := SM4.sm4_crypt_rk (SM4.sm4_key_expand key) in
  aead_job w src area0
    (fun inp => if wi_dir w =? 1 then GCM.gcm_enc_gen E iv aad inp 16
                else GCM.gcm_dec_gen E iv aad inp 16).

Definition ccm_job (w : work_item) (src area0 : bytes) : option (bytes * bytes) :=
  let key := wi_key w in let iv := wi_iv w in let aad := wi_aad w in
  let t := wi_tag w in
  do _ <- guard (mem (lenN key) [16; 32] && (7 <=? lenN iv) && (lenN iv <=? 13) &&
                 (lenN aad <=? 46) && mem t [4; 6; 8; 10; 12; 14; 16] && same_ranges w);
  (* the CCM tag depends on its length (B0 flags), so it is not a truncation *)
  aead_job w src area0
    (fun inp => if wi_dir w =? 1 then CCM.ccm_enc key iv aad inp (N.to_nat t)
                else CCM.ccm_dec key iv aad inp (N.to_nat t)).

Definition chachapoly_job (w : work_item) (src area0 : bytes) : option (bytes * bytes) :=
  let key := wi_key w in let iv := wi_iv w in let aad := wi_aad w in
  do _ <- guard ((lenN key =? 32) && (lenN iv =? 12) && same_ranges w);
  aead_job w src area0
    (fun inp => if wi_dir w =? 1 then ChaChaPoly.chachapoly_enc key iv aad inp
                else ChaChaPoly.chachapoly_dec key iv aad inp).

Definition snowv_aead_job (w : work_item) (src area0 : bytes) : option (bytes * bytes) :=
  let key := wi_key w in let iv := wi_iv w in let aad := wi_aad w in
  do _ <- guard ((lenN key =? 32) && (lenN iv =? 16) && same_ranges w);
  aead_job w src area0
    (fun inp => if wi_dir w =? 1 then SNOWV.snowv_aead_enc key iv aad inp
                else SNOWV.snowv_aead_dec key iv aad inp).

(* DOCSIS SEC BPI + CRC32, in place: the frame is the whole buffer.  Encrypt:
   Ethernet CRC32 over [hoff, hoff+hlen) stored little-endian right behind it,
   then BPI encryption of [coff, coff+clen); decrypt: the reverse, the tag is
   the CRC recomputed over the decrypted frame.  hlen < 14: no CRC, tag
   unspecified (returned empty). *)
Definition docsis_crc_job (w : work_item) (src : bytes) : option (bytes * bytes) :=
  let key := wi_key w in let iv := wi_iv w in
  let ho := N.to_nat (wi_hoff w) in let hl := N.to_nat (wi_hlen w) in
  let co := N.to_nat (wi_coff w) in let cl := N.to_nat (wi_clen w) in
  let crc_room := if 14 <=? wi_hlen w then 4 else 0 in
  do _ <- guard (wi_inplace w && doff_ok w && mem (lenN key) [16; 32] && (lenN (wi_iv w) =? 16) &&
                 (wi_tag w =? 4) &&
                 (wi_coff w + wi_clen w <=? lenN src) &&
                 (wi_hoff w + wi_hlen w + crc_room <=? lenN src) &&
                 CRC.docsis_job_geometry_accepted ho hl co cl);
  let fin (r : bytes * option bytes) :=
      Some (fst r, match snd r with Some t => t | None => [] end) in
  if (wi_dir w =? 1) && (wi_order w =? 2) then
    fin (CRC.docsis_crc_enc AESModes.docsis_aes_enc key iv src ho hl co cl)
  else if (wi_dir w =? 2) && (wi_order w =? 1) then
    fin (CRC.docsis_crc_dec AESModes.docsis_aes_dec key iv src ho hl co cl)
  else None.

(* PON: frame = src[hoff, hoff+hlen) = 8-byte XGEM header ++ payload; the
   payload is ciphered (coff = hoff + 8, clen = hlen - 8) or not (clen = 0).
   Tag = BIP (4 bytes) ++ CRC (4 bytes, only defined when PLI > 4). *)
Definition pon_job (w : work_item) (src : bytes) : option (bytes * bytes) :=
  let key := wi_key w in let iv := wi_iv w in
  let hl := wi_hlen w in
  do _ <- guard (wi_inplace w && doff_ok w && (wi_tag w =? 8) && (8 <=? hl) && (N.land hl 3 =? 0) &&
                 (wi_coff w =? wi_hoff w + 8) &&
                 ((wi_clen w =? 0) || ((wi_clen w =? hl - 8) && (lenN key =? 16) && (lenN iv =? 16))));
  do frame <- slice_opt src (wi_hoff w) hl;
  let pli := PON.pon_pli frame in
  do _ <- guard ((pli <=? 4) || (pli <=? hl - 8));
  let ctr := if wi_clen w =? 0 then PON.pon_no_ctr else pon_ctr in
  let run := if (wi_dir w =? 1) && (wi_order w =? 2) then Some (PON.pon_enc ctr key iv frame)
             else if (wi_dir w =? 2) && (wi_order w =? 1) then Some (PON.pon_dec ctr key iv frame)
             else None in
  do r <- run;
  do area1 <- splice_opt src (wi_hoff w) (fst r);
  Some (area1, snd r).

(* ------------------------------------------------------------------------- *)
(* The job                                                                    *)
(* ------------------------------------------------------------------------- *)
Definition job_model (w : work_item) : option (bytes * bytes) :=
  let src := wi_msg w in
  let area0 := if wi_inplace w then src else dst_prefill (length src) in
  let c := wi_cipher w in let h := wi_hash w in
  if (c =? C_GCM) && (h =? H_AES_GMAC) then gcm_job w src area0
  else if (c =? C_SM4_GCM) && (h =? H_SM4_GCM) then sm4_gcm_job w src area0
  else if (c =? C_CCM) && (h =? H_AES_CCM) then ccm_job w src area0
  else if (c =? C_CHACHA20_POLY1305) && (h =? H_CHACHA20_POLY1305) then chachapoly_job w src area0
  else if (c =? C_SNOW_V_AEAD) && (h =? H_SNOW_V_AEAD) then snowv_aead_job w src area0
  else if (c =? C_DOCSIS_SEC_BPI) && (h =? H_DOCSIS_CRC32) then docsis_crc_job w src
  else if (c =? C_PON) && (h =? H_PON_CRC_BIP) then pon_job w src
  else if mem c paired_ciphers || mem h paired_hashes then None
  else generic_job w src area0.
