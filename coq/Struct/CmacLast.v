(* Struct/CmacLast.v — last-block handling of the AES-CMAC and AES-XCBC lane managers.
   Definitions only.

   CMAC: /repo/lib/include/mb_mgr_aes_cmac_submit_flush_sse.inc (instantiated by
   sse_t1/mb_mgr_aes_cmac_submit_flush_x8_sse.asm, and the avx2_t1 / avx512_t2 twins
   mb_mgr_aes128_cmac_submit_flush_x8_avx.asm, mb_mgr_aes256_cmac_..., ..._x16_vaes_avx512.asm
   which contain the same sequence).  Submit:
       len   = (msg_len_to_hash_in_bits + 7) >> 3        rbits = bits & 7
       n     = (len + 15) >> 4                            r     = len & 15
       n = 0 (%%_lt_one_block):  lens = 16, in = scratch, n := 1, -> %%_not_complete_block
       else: in = src, lens = (n-1)*16, IV slot = 0
       rbits != 0  -> %%_not_complete_block_3gpp
       r = 0       -> %%_complete_block:      M_last = M_n xor K1      (skey1)
       otherwise   -> %%_not_complete_block:  M_last = (M_n[0..r) ++ 0x80 ++ 0...) xor K2
                      (16 bytes loaded from padding_0x80_tab16 + 16 - r, then r message bytes
                       copied over the front)
       3gpp: load r bytes of the last block zero-extended (a full block if r = 0) and let
             idx = r-1 (15); byte idx := (byte & ~(0xff >> rbits)) | ((0xff>>rbits)>>1 ^ (0xff>>rbits));
             M_last = that xor K2
   Rounds: the CBC-MAC kernel runs lens/16 blocks from in[]; at length 0 with init_done = 0 the
   lane is re-armed with in = scratch (M_last), lens = 16; at the next length 0 the IV slot is
   the tag (first auth_tag_output_len_in_bytes bytes copied out).

   XCBC: /repo/lib/sse_t1/mb_mgr_aes128_xcbc_submit_x4_sse.asm (avx2_t1 x8, avx512_t2 x16 twins):
       len <= 16 (small_buffer): in = final_block; len = 16 -> fast_copy else slow_copy
       len >  16: in = src; last_len = len & 15; 0 -> fast_copy else slow_copy
       fast_copy:  final_block = M[n] xor K2;  len -= 16
       slow_copy:  len &= ~15; last_len bytes copied to final_block + 16 - last_len,
                   final_block[16..32) = 0x80 00..00, 16 bytes loaded from
                   final_block + 16 - last_len, xor K3, stored to final_block[0..16)
       ICV slot = 0; lens = len; at length 0 with final_done = 0: lens = 16, in = final_block. *)
From Coq Require Import List NArith Bool Arith.
From IMB Require Import Lib.Bytes Struct.MemOps.
Import ListNotations.

(* x86_64/const.asm padding_0x80_tab16: 16 zero bytes, 0x80, 15 zero bytes *)
Definition padding_0x80_tab16 : bytes := zeros 16 ++ 128%N :: zeros 15.

Section CbcMacLane.
  (* the block cipher under the lane's key *)
  Variable E : bytes -> bytes.

  (* one block of the CBC-MAC kernel: IV slot := E(block xor IV slot) *)
  Definition cbc_mac_step (x b : bytes) : bytes := E (xor_bytes b x).

  (* the kernel run over [data] (a whole number of 16-byte blocks) *)
  Definition cbc_mac_run (x : bytes) (data : bytes) : bytes :=
    fold_left cbc_mac_step (chunks 16 data) x.

  (* ---------- CMAC ---------- *)
  Definition cmac_len_bytes (bits : N) : nat := N.to_nat (N.shiftr (bits + 7) 3).
  Definition cmac_rbits (bits : N) : N := N.land bits 7.
  Definition cmac_n (len : nat) : nat := (len + 15) / 16.
  Definition cmac_r (len : nat) : nat := len mod 16.

  Definition cmac_mlast_complete (blk k1 : bytes) : bytes := xor_bytes blk k1.

  Definition cmac_mlast_partial (tail k2 : bytes) : bytes :=
    let r := length tail in
    xor_bytes (write_at 0 tail (read_at (16 - r) 16 padding_0x80_tab16)) k2.

  (* pandn with 0xff >> rbits, por with the single padding bit *)
  Definition cmac_3gpp_byte (x rbits : N) : N :=
    let m := N.shiftr 255 rbits in
    N.lor (N.land x (N.lxor 255 m)) (N.lxor (N.shiftr m 1) m).

  (* [blk] = the r (or 16) bytes loaded; the register is zero beyond them *)
  Definition cmac_mlast_3gpp (blk k2 : bytes) (rbits : N) : bytes :=
    let idx := length blk - 1 in
    xor_bytes (pad_right 16 (firstn idx blk ++ [cmac_3gpp_byte (nth idx blk 0%N) rbits])) k2.

  (* the tag left in the IV slot; [msg] is the source buffer from hash_start on *)
  Definition cmac_lane (k1 k2 msg : bytes) (bits : N) : bytes :=
    let len := cmac_len_bytes bits in
    let rbits := cmac_rbits bits in
    let n := cmac_n len in
    let r := cmac_r len in
    if Nat.eqb n 0 then
      cbc_mac_step (zeros 16) (cmac_mlast_partial [] k2)
    else
      let body := firstn ((n - 1) * 16) msg in
      let lastblk := read_at ((n - 1) * 16) (if Nat.eqb r 0 then 16 else r) msg in
      let mlast :=
        if negb (N.eqb rbits 0) then cmac_mlast_3gpp lastblk k2 rbits
        else if Nat.eqb r 0 then cmac_mlast_complete lastblk k1
        else cmac_mlast_partial lastblk k2 in
      cbc_mac_step (cbc_mac_run (zeros 16) body) mlast.

  (* byte-length jobs (IMB_AUTH_AES_CMAC, _CMAC_256): the submit code reads the length through
     the same union field in bits = 8 * bytes *)
  Definition cmac_lane_bytes (k1 k2 msg : bytes) : bytes :=
    cmac_lane k1 k2 msg (8 * N.of_nat (length msg)).

  (* ---------- XCBC ---------- *)
  (* final_block is a 32-byte scratch; [stale] its previous contents *)
  Definition xcbc_slow_final (stale tail k3 : bytes) : bytes :=
    let ll := length tail in
    let m1 := write_at (16 - ll) tail stale in
    let m2 := write_at 16 (128%N :: zeros 15) m1 in
    xor_bytes (read_at (16 - ll) 16 m2) k3.

  Definition xcbc_lane (k2 k3 stale msg : bytes) : bytes :=
    let len := length msg in
    let last_len := len mod 16 in
    let fast := if Nat.leb len 16 then Nat.eqb len 16 else Nat.eqb last_len 0 in
    let body_len := if fast then len - 16 else len - last_len in
    let final :=
      if fast then xor_bytes (skipn (len - 16) msg) k2
      else xcbc_slow_final stale (skipn (len - last_len) msg) k3 in
    cbc_mac_step (cbc_mac_run (zeros 16) (firstn body_len msg)) final.
End CbcMacLane.
