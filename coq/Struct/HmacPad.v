(* Struct/HmacPad.v — lane geometry of the multi-buffer HMAC managers.  Definitions only.

   Transcribed from
     /repo/lib/sse_t1/mb_mgr_hmac_sha1_submit_sse.asm     (B = 64, also sha1 *_ni_*, avx2, avx512)
     /repo/lib/sse_t1/mb_mgr_hmac_sha256_submit_sse.asm   (B = 64; SHA224 variant by %ifdef)
     /repo/lib/sse_t1/mb_mgr_hmac_sha512_submit_sse.asm   (B = 128; SHA384 variant by %define)
     /repo/lib/sse_t1/mb_mgr_hmac_md5_submit_sse.asm      (B = 64, length little-endian)
     the matching *_flush_* files (they reuse the stored extra_blocks / start_offset /
     size_offset of each lane; no new arithmetic), and
     /repo/lib/x86_64/ooo_mgr_reset.c ooo_mgr_hmac_*_reset (idle contents of extra_block and
     outer_block).
   The avx2_t1 / avx512_t1 / sse_t2 twins contain the same instruction sequence for this part
   (`and last_len, 63; lea extra_blocks,[last_len+9+63]; shr extra_blocks,6; ...`).

   Submit (sha1 file, lines 133-191):
       last_len     = len & (B-1)
       extra_blocks = (last_len + 9 + (B-1)) >> log2 B          (B = 128: last_len + 17 + 127)
       copy: len >= B : extra_block[0..B)      := src[len-B .. len)      (fast_copy)
             len <  B : extra_block[B-len..B)  := src[0 .. len)          (copy_lt64)
       size_offset  = extra_blocks*B - last_len + (B-8)
       start_offset = B - last_len
       store64(extra_block + size_offset, bswap64(8*B + 8*len))      (MD5: no bswap)
       lane digest := job->auth_key_xor_ipad
       len >= B : lane runs len/B blocks from src, then (proc_extra_blocks) extra_blocks blocks
                  from extra_block + start_offset
       len <  B : lane runs extra_blocks blocks from extra_block + start_offset at once
   proc_outer: store64(extra_block + size_offset, 0)  (restores the idle contents);
       outer_block[0..dlen) := byte-swapped digest words; lane digest := auth_key_xor_opad;
       one block from outer_block.
   Idle contents (ooo_mgr_hmac_*_reset): extra_block[B] = 0x80, everything after it 0
   (bytes [0,B) are left-overs of earlier jobs, never cleared except by SAFE_DATA);
   outer_block[dlen] = 0x80, outer_block[B-2..B) = big-endian (B+dlen)*8 (MD5: [56..58) little
   endian), other bytes after dlen 0. *)
From Coq Require Import List NArith Bool Arith.
From IMB Require Import Lib.Bytes Struct.MemOps Spec.SHA.
Import ListNotations.

Record hmac_geom : Type := MkHmacGeom {
  hg_B : nat;          (* block size: 64 / 128 *)
  hg_L : nat;          (* bytes the standard reserves for the length: 8 / 16
                          (the "9" and "17" of the asm are 1 + hg_L) *)
  hg_be : bool         (* length field big-endian (bswap) / little-endian (MD5) *)
}.

Definition G_SHA1_256 : hmac_geom := MkHmacGeom 64 8 true.    (* SHA-1, SHA-224, SHA-256 *)
Definition G_SHA512   : hmac_geom := MkHmacGeom 128 16 true.  (* SHA-384, SHA-512 *)
Definition G_MD5      : hmac_geom := MkHmacGeom 64 8 false.

Section HmacLane.
  Variable g : hmac_geom.
  Let B := hg_B g.
  Let L := hg_L g.

  Definition last_len (len : nat) : nat := len mod B.
  Definition extra_blocks (len : nat) : nat := (last_len len + (L + 1) + (B - 1)) / B.
  Definition start_offset (len : nat) : nat := B - last_len len.
  Definition size_offset (len : nat) : nat := extra_blocks len * B - last_len len + (B - 8).

  (* the 8 bytes stored at extra_block + size_offset: lea tmp,[8*B + 8*len] is a 64-bit
     register computation *)
  Definition len_field (len : nat) : bytes :=
    let v := w64 (8 * N.of_nat B + 8 * N.of_nat len)%N in
    if hg_be g then N_to_be 8 v else N_to_le 8 v.

  (* sizeof extra_block = 2*B + L  (2*64+8 / 2*128+16, ipsec_ooo_mgr.h) *)
  Definition extra_block_size : nat := 2 * B + L.

  (* idle lane: [stale] = B left-over bytes, then the pre-set 0x80, then zeros *)
  Definition extra_block_idle (stale : bytes) : bytes := stale ++ 128%N :: zeros (B + L - 1).

  (* fast_copy / copy_lt64 *)
  Definition copy_tail (msg mem : bytes) : bytes :=
    let len := length msg in
    if Nat.leb B len then write_at 0 (skipn (len - B) msg) mem
    else write_at (B - len) msg mem.

  (* extra_block after submit *)
  Definition extra_block_submit (stale msg : bytes) : bytes :=
    let len := length msg in
    write_at (size_offset len) (len_field len) (copy_tail msg (extra_block_idle stale)).

  (* extra_block after proc_outer cleared the length *)
  Definition extra_block_after_outer (stale msg : bytes) : bytes :=
    write_at (size_offset (length msg)) (zeros 8) (extra_block_submit stale msg).

  (* bytes hashed straight from the source buffer: len/B whole blocks *)
  Definition lane_src_bytes (msg : bytes) : bytes := firstn (B * (length msg / B)) msg.

  (* bytes hashed from extra_block + start_offset: extra_blocks whole blocks *)
  Definition lane_extra_bytes (stale msg : bytes) : bytes :=
    let len := length msg in
    read_at (start_offset len) (B * extra_blocks len) (extra_block_submit stale msg).

  (* everything the inner pass feeds to the compression function after the ipad block *)
  Definition lane_stream (stale msg : bytes) : bytes :=
    lane_src_bytes msg ++ lane_extra_bytes stale msg.
End HmacLane.

(* ---------- outer block ---------- *)

Record hmac_outer_cfg : Type := MkOuterCfg {
  oc_geom : hmac_geom;
  oc_dlen : nat;                 (* digest bytes copied to outer_block *)
  oc_len_off : nat;              (* where reset stores the two non-zero length bytes *)
  oc_len_bytes : bytes;          (* those two bytes, in memory order *)
  oc_fix : option (nat * bytes)  (* store repeated on every proc_outer (SHA-224 only) *)
}.

(* ooo_mgr_hmac_sha1_reset:   [20] = 0x80, [62] = 0x02, [63] = 0xa0
   ooo_mgr_hmac_sha224_reset: [28] = 0x80, [62] = 0x02, [63] = 0xe0; proc_outer stores 32 bytes
       (7 digest words and a zero dword) and then `mov dword [outer_block + 7*4], 0x80`
   ooo_mgr_hmac_sha256_reset: [32] = 0x80, [62] = 0x03, [63] = 0x00
   ooo_mgr_hmac_sha384_reset: [48] = 0x80, [126] = 0x05, [127] = 0x80
   ooo_mgr_hmac_sha512_reset: [64] = 0x80, [126] = 0x06, [127] = 0x00
   ooo_mgr_hmac_md5_reset:    [16] = 0x80, [56] = 0x80, [57] = 0x02 *)
Definition OC_SHA1   := MkOuterCfg G_SHA1_256 20 62 [2; 160]%N None.
Definition OC_SHA224 := MkOuterCfg G_SHA1_256 28 62 [2; 224]%N (Some (28, [128; 0; 0; 0]%N)).
Definition OC_SHA256 := MkOuterCfg G_SHA1_256 32 62 [3; 0]%N None.
Definition OC_SHA384 := MkOuterCfg G_SHA512 48 126 [5; 128]%N None.
Definition OC_SHA512 := MkOuterCfg G_SHA512 64 126 [6; 0]%N None.
Definition OC_MD5    := MkOuterCfg G_MD5 16 56 [128; 2]%N None.

Definition all_outer_cfgs : list hmac_outer_cfg :=
  [OC_SHA1; OC_SHA224; OC_SHA256; OC_SHA384; OC_SHA512; OC_MD5].

(* outer_block after reset; [stale] = oc_dlen bytes (zeros after reset, an earlier inner digest
   later on) *)
Definition outer_block_idle (c : hmac_outer_cfg) (stale : bytes) : bytes :=
  let B := hg_B (oc_geom c) in
  stale ++ write_at (oc_len_off c - oc_dlen c) (oc_len_bytes c)
                    (128%N :: zeros (B - oc_dlen c - 1)).

(* proc_outer: store the inner digest (SHA-224: 28 digest bytes + 4 zero bytes, then the fix) *)
Definition outer_block_filled (c : hmac_outer_cfg) (stale inner : bytes) : bytes :=
  match oc_fix c with
  | None => write_at 0 inner (outer_block_idle c stale)
  | Some (off, v) =>
      write_at off v (write_at 0 (inner ++ zeros (length v)) (outer_block_idle c stale))
  end.

(* ---------- the whole HMAC job as the lane computes it ---------- *)
(* X supplies the compression function, (de)serialisation and digest extraction; ipad / opad are
   the buffers job->u.HMAC._hashed_auth_key_xor_ipad / _opad; [stale_x] / [stale_o] are whatever
   the lane's extra_block[0..B) / outer_block[0..dlen) held before. *)
Definition hmac_lane_inner (X : md_hash) (g : hmac_geom) (ipad stale_x msg : bytes) : bytes :=
  let n := length (md_ser X (md_init X)) in
  let st0 := md_deser X (firstn n ipad) in
  let st1 := md_run_blocks X st0 (lane_src_bytes g msg) in
  let st2 := md_run_blocks X st1 (lane_extra_bytes g stale_x msg) in
  md_digest X st2.

Definition hmac_lane_tag (X : md_hash) (c : hmac_outer_cfg)
           (ipad opad stale_x stale_o msg : bytes) : bytes :=
  let n := length (md_ser X (md_init X)) in
  let inner := hmac_lane_inner X (oc_geom c) ipad stale_x msg in
  let st3 := md_run_blocks X (md_deser X (firstn n opad)) (outer_block_filled c stale_o inner) in
  md_digest X st3.

(* tag store: the job gets the first auth_tag_output_len_in_bytes bytes (12 / full, or any
   length the checker accepts) *)
Definition tag_store (taglen : nat) (digest : bytes) : bytes := firstn taglen digest.
