(* Struct/CtrKernel.v — C01, structural layer (L2): how the CTR kernels compute the counter
   blocks.  Definitions only; theorems in Proofs/CtrKernelProofs.v.

   Source (never modified): /repo/lib/sse_t1/aes128_cntr_by8_sse.asm (macro do_aes),
   /repo/lib/avx2_t1/aes128_cntr_by8_avx.asm, /repo/lib/include/aes_cntr_by16_vaes_avx512.inc,
   /repo/lib/include/aes_cntr_by16_vaes_avx2.inc (macro do_aes).

   A 128-bit register is the N whose little-endian byte string is the register's memory
   image: [load16] = movdqu from memory, [store16] = movdqu to memory.

   * Every kernel first byte-swaps the counter block ([pshufb xcounter, byteswap_const],
     byteswap_const = 0x000102..0f: full 16-byte reversal) so that the big-endian block
     counter in bytes 12..15 becomes the LOW 32-bit lane (CNTR, CCM) / low 64-bit lane
     (CNTR_BITLEN) of the register.
   * Lane i of a group gets  xcounter + ddq_add_i  where ddq_add_i = (i, 0) as two qwords and
     the addition is  paddd  (four independent 32-bit lane adds; %define %%PADD paddd) for
     CNTR / CCM, or  paddq  (two 64-bit lane adds) for CNTR_BITLEN, then is swapped back
     ([pshufb xdata_i, xbyteswap]).  After the group  xcounter += ddq_add_<by>  with the same
     instruction.
   * The AVX2-VAES by16 code (aes_cntr_by16_vaes_avx2.inc, do_aes 16) keeps the counter in
     MEMORY byte order and tracks its low byte in a GPR ([tmp]): if tmp <= 255-16 it adds
     ddq_add_be_i = (0, i << 56), i.e. i into byte 15 with vpaddd (no carry possible);
     otherwise it takes the slow path: byteswap, vpaddd ddq_add_i, byteswap back.        *)
From Coq Require Import List NArith.
From IMB Require Import Lib.Bytes.
Import ListNotations.
Local Open Scope N_scope.

Definition load16 (bs : bytes) : N := le_to_N bs.
Definition store16 (x : N) : bytes := N_to_le 16 x.

(* pshufb with byteswap_const: reverse the 16 bytes *)
Definition bswap128 (x : N) : N := le_to_N (rev (N_to_le 16 x)).

(* lane j of width B = 2^w *)
Definition lane (B : N) (j : nat) (x : N) : N := (x / B ^ N.of_nat j) mod B.

(* one lane of a packed add: (lane_j x + lane_j y) mod B, put back at lane j *)
Definition padd_lane (B : N) (j : nat) (x y : N) : N :=
  ((lane B j x + lane B j y) mod B) * B ^ N.of_nat j.

Definition B32 : N := 2 ^ 32.
Definition B64 : N := 2 ^ 64.

(* paddd xmm, xmm : four 32-bit lanes *)
Definition paddd (x y : N) : N :=
  padd_lane B32 0 x y + padd_lane B32 1 x y + padd_lane B32 2 x y + padd_lane B32 3 x y.

(* paddq xmm, xmm : two 64-bit lanes *)
Definition paddq (x y : N) : N := padd_lane B64 0 x y + padd_lane B64 1 x y.

(* ddq_add_i : DQ i, 0 *)
Definition ddq_add (i : N) : N := i.
(* vavx2_ctr_ddq_add_be_i : DQ 0, i << 56 *)
Definition ddq_add_be (i : N) : N := i * 2 ^ 120.

(* the byte-swapped counter register the kernel keeps *)
Definition ctr_reg (ctrblk : bytes) : N := bswap128 (load16 ctrblk).

(* counter block of lane i, from the register (paddd path: CNTR, CCM) *)
Definition ctr_lane32 (reg : N) (i : N) : bytes := store16 (bswap128 (paddd reg (ddq_add i))).
(* paddq path: CNTR_BITLEN *)
Definition ctr_lane64 (reg : N) (i : N) : bytes := store16 (bswap128 (paddq reg (ddq_add i))).

(* i-th counter block from the counter block in memory *)
Definition ctr_blk_paddd (ctrblk : bytes) (i : N) : bytes := ctr_lane32 (ctr_reg ctrblk) i.
Definition ctr_blk_paddq (ctrblk : bytes) (i : N) : bytes := ctr_lane64 (ctr_reg ctrblk) i.

(* AVX2-VAES by16: fast path adds into byte 15 of the memory-order block *)
Definition ctr_blk_fast (ctrblk : bytes) (i : N) : bytes :=
  store16 (paddd (load16 ctrblk) (ddq_add_be i)).

(* [span] = number of counter values the group consumes (16 in do_aes 16); the test is on the
   low byte of the big-endian counter = byte 15 of the block ([cmp tmp, 255-16 ; ja overflow]) *)
Definition ctr_blk_lowbyte (span : N) (ctrblk : bytes) (i : N) : bytes :=
  if nth 15 ctrblk 0 + span <=? 255 then ctr_blk_fast ctrblk i else ctr_blk_paddd ctrblk i.

(* what Spec/AESModes.v [ctr_loop] uses for block index i (32-bit counter) *)
Definition ctr_blk_spec32 (ctrblk : bytes) (i : N) : bytes :=
  firstn 12 ctrblk ++ be32 ((be_to_N (skipn 12 ctrblk) + i) mod 2 ^ 32).
(* 64-bit counter (CNTR_BITLEN) *)
Definition ctr_blk_spec64 (ctrblk : bytes) (i : N) : bytes :=
  firstn 8 ctrblk ++ be64 ((be_to_N (skipn 8 ctrblk) + i) mod 2 ^ 64).
