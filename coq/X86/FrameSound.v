(** * X86/FrameSound.v -- soundness of the certificate validator (C18)

    Main results (no axioms):

      [frame_check_sound] : if [prog_ok P = true] then every complete activation
         (entry to [ret], DF clear on entry) of every function [d] of [P] ends in a
         state that satisfies [d]'s summary: the promised registers hold their entry
         values, rsp = entry rsp + 8, the return address popped is the one found at
         the entry rsp, memory at and above the entry rsp is unchanged, DF = 0 and
         (if promised) MXCSR holds its entry value.

      [frame_check_sysv] : for the functions flagged callable-from-C this is the full
         System V summary (rbx, rbp, r12-r15 preserved, MXCSR preserved). *)

From Coq Require Import ZArith List Bool Lia String.
From IMB Require Import X86.Frame X86.FrameCheck.
Import ListNotations.
Local Open Scope Z_scope.

(** ** Concretisation *)

Record env := mkE { eR : reg -> Z; eM : Z -> Z; eMX : Z }.
Definition S0 (e : env) : Z := eR e RSP.

Definition gv (e : env) (F : nat -> Z) (v : aval) (x : Z) : Prop :=
  match v with
  | ATop => True
  | AEntry r => x = eR e r
  | AStk l k => x = F l + k
  | AFlags d => df_of x = d
  end.

Definition levels_ok (F : nat -> Z) (lv : list (nat * Z)) : Prop :=
  forall i p o, nth_error lv i = Some (p, o) -> (p <= i)%nat /\ F (S i) <= F p + o.

Definition gamma (e : env) (a : astate) (c : cstate) : Prop :=
  exists F,
    F 0%nat = S0 e /\
    levels_ok F (alv a) /\
    (forall r, gv e F (look_r (ar a) r) (cr c r)) /\
    (forall l k, gv e F (look_s (asl a) (l, k)) (cm c (F l + k))) /\
    (forall x, S0 e <= x -> cm c x = eM e x) /\
    (forall d, adf a = Some d -> cdf c = d) /\
    (amx a = true -> cmx c = eMX e).

Ltac gsplit := split; [|split; [|split; [|split; [|split; [|split]]]]].

(** ** Abstract values *)

Lemma aval_eqb_eq v w : aval_eqb v w = true -> v = w.
Proof.
  destruct v, w; simpl; try discriminate; intros H.
  - reflexivity.
  - apply Z.eqb_eq in H. congruence.
  - apply andb_true_iff in H. destruct H as [H1 H2].
    apply Nat.eqb_eq in H1. apply Z.eqb_eq in H2. congruence.
  - apply Bool.eqb_prop in H. congruence.
Qed.

Lemma le_val_sound e F v w x : le_val v w = true -> gv e F v x -> gv e F w x.
Proof.
  unfold le_val. destruct w; simpl; auto; intros H G; apply aval_eqb_eq in H; subst v; exact G.
Qed.

(** ** Association lists *)

Section ASSOC_LEMMAS.
  Context {K : Type}.
  Variable keqb : K -> K -> bool.
  Hypothesis keqb_eq : forall a b, keqb a b = true -> a = b.

  Lemma look_kill_cases p (l : list (K * aval)) k :
    (look keqb (kill p l) k = look keqb l k /\ p k (look keqb l k) = true) \/
    look keqb (kill p l) k = ATop.
  Proof.
    induction l as [|[k' v] t IH]; simpl.
    - right; reflexivity.
    - destruct (p k' v) eqn:Hp; simpl.
      + destruct (keqb k' k) eqn:Hk.
        * apply keqb_eq in Hk. subst k'. left; split; auto.
        * exact IH.
      + destruct (keqb k' k) eqn:Hk.
        * right; reflexivity.
        * exact IH.
  Qed.

  Lemma kill_ind (Q : aval -> Prop) p (l : list (K * aval)) k :
    Q ATop -> (p k (look keqb l k) = true -> Q (look keqb l k)) -> Q (look keqb (kill p l) k).
  Proof.
    intros HT H. destruct (look_kill_cases p l k) as [[Heq Hp]|Heq]; rewrite Heq; auto.
  Qed.

  Lemma look_In (l : list (K * aval)) k :
    look keqb l k = ATop \/ exists e, In e l /\ fst e = k.
  Proof.
    induction l as [|[k' v] t IH]; simpl.
    - left; reflexivity.
    - destruct (keqb k' k) eqn:Hk.
      + right. exists (k', v). split; [left; reflexivity|]. apply keqb_eq. exact Hk.
      + destruct IH as [IH|(e & Hin & He)]; [left; exact IH|].
        right. exists e. split; [right; exact Hin|exact He].
  Qed.

  Lemma le_assoc_sound (a b : list (K * aval)) k :
    le_assoc keqb a b = true -> le_val (look keqb a k) (look keqb b k) = true.
  Proof.
    unfold le_assoc. intros H. rewrite forallb_forall in H.
    destruct (look_In b k) as [Ht|(e & Hin & He)].
    - rewrite Ht. reflexivity.
    - specialize (H e Hin). rewrite He in H. exact H.
  Qed.
End ASSOC_LEMMAS.

Lemma zeqb_eq' : forall a b : Z, Z.eqb a b = true -> a = b.
Proof. intros a b H. apply Z.eqb_eq. exact H. Qed.

Lemma skey_eqb_eq : forall a b : skey, skey_eqb a b = true -> a = b.
Proof.
  intros [l k] [l' k']. unfold skey_eqb. simpl. intros H.
  apply andb_true_iff in H. destruct H as [H1 H2].
  apply Nat.eqb_eq in H1. apply Z.eqb_eq in H2. congruence.
Qed.

Lemma skey_eqb_refl : forall a : skey, skey_eqb a a = true.
Proof. intros [l k]. unfold skey_eqb. simpl. rewrite Nat.eqb_refl, Z.eqb_refl. reflexivity. Qed.

Lemma look_r_cons_same l r v : look_r ((r, v) :: l) r = v.
Proof. unfold look_r. simpl. rewrite Z.eqb_refl. reflexivity. Qed.

Lemma look_r_cons r' v l r : look_r ((r', v) :: l) r = if Z.eqb r' r then v else look_r l r.
Proof. reflexivity. Qed.

Lemma upd_same f x v : upd f x v x = v.
Proof. unfold upd. rewrite Z.eqb_refl. reflexivity. Qed.

Lemma upd_other f x v y : y <> x -> upd f x v y = f y.
Proof. unfold upd. intros H. destruct (Z.eqb y x) eqn:E; auto. apply Z.eqb_eq in E. contradiction. Qed.

(** registers after binding [d] to an abstract value that describes the new concrete value *)
Lemma gv_regs_cons e F ra (f : Z -> Z) d v x :
  (forall r, gv e F (look_r ra r) (f r)) -> gv e F v x ->
  forall r, gv e F (look_r ((d, v) :: ra) r) (upd f d x r).
Proof.
  intros H Hv r. rewrite look_r_cons. unfold upd.
  rewrite Z.eqb_sym. destruct (Z.eqb r d) eqn:E; auto.
Qed.

(** ** Frame levels *)

Lemma rel_fuel_sound F lv : levels_ok F lv ->
  forall fuel a b d, rel_fuel fuel lv a b = Some d -> F a <= F b + d.
Proof.
  intros HL. induction fuel as [|f IH]; intros a b d; simpl.
  - destruct (Nat.eqb a b) eqn:E; try discriminate.
    apply Nat.eqb_eq in E. subst. intros H. inversion H. lia.
  - destruct (Nat.eqb a b) eqn:E.
    + apply Nat.eqb_eq in E. subst. intros H. inversion H. lia.
    + destruct a as [|a']; try discriminate.
      destruct (nth_error lv a') as [[p o]|] eqn:En; try discriminate.
      destruct (rel_fuel f lv p b) as [d'|] eqn:Er; try discriminate.
      intros H. inversion H. subst d.
      apply IH in Er. destruct (HL _ _ _ En) as [_ Hb]. lia.
Qed.

Lemma rel_sound F lv a b d : levels_ok F lv -> rel lv a b = Some d -> F a <= F b + d.
Proof. intros HL H. eapply rel_fuel_sound; eauto. Qed.

Lemma disjoint_sound F lv a k n b j :
  levels_ok F lv -> disjoint lv a k n b j = true ->
  F b + j + 8 <= F a + k \/ F a + k + n <= F b + j.
Proof.
  intros HL H. unfold disjoint in H. apply orb_true_iff in H. destruct H as [H|H].
  - destruct (rel lv a b) as [d|] eqn:E; try discriminate.
    apply Z.leb_le in H. pose proof (rel_sound _ _ _ _ _ HL E). right. lia.
  - destruct (rel lv b a) as [d|] eqn:E; try discriminate.
    apply Z.leb_le in H. pose proof (rel_sound _ _ _ _ _ HL E). left. lia.
Qed.

(** ** Stores *)

Lemma store_at_sound e a c l k n v a' (m' : Z -> Z) :
  store_at a l k n v = Some a' ->
  forall F,
    F 0%nat = S0 e -> levels_ok F (alv a) ->
    (forall l k, gv e F (look_s (asl a) (l, k)) (cm c (F l + k))) ->
    (forall x, S0 e <= x -> cm c x = eM e x) ->
    stored (F l + k) n (cm c) m' ->
    (n = 8 -> gv e F v (m' (F l + k))) ->
    ar a' = ar a /\ alv a' = alv a /\ adf a' = adf a /\ amx a' = amx a /\
    (forall l k, gv e F (look_s (asl a') (l, k)) (m' (F l + k))) /\
    (forall x, S0 e <= x -> m' x = eM e x).
Proof.
  unfold store_at. intros H F HF0 HL HS HM Hst Hv.
  destruct (rel (alv a) l 0%nat) as [d|] eqn:Er; try discriminate.
  destruct (d + k + n <=? 0) eqn:Eb; try discriminate.
  apply Z.leb_le in Eb. pose proof (rel_sound _ _ _ _ _ HL Er) as Hr. rewrite HF0 in Hr.
  inversion H; subst a'; clear H; simpl.
  repeat split; auto.
  - (* slots *)
    intros l2 k2.
    assert (Hkill : gv e F (look_s (kill (fun key _ => disjoint (alv a) l k n (fst key) (snd key)) (asl a)) (l2, k2))
                         (m' (F l2 + k2))).
    { apply (kill_ind skey_eqb skey_eqb_eq (fun v0 => gv e F v0 (m' (F l2 + k2)))).
      - exact I.
      - simpl. intros Hp. apply (disjoint_sound F) in Hp; auto.
        rewrite Hst by lia. apply HS. }
    destruct (n =? 8) eqn:En; auto.
    apply Z.eqb_eq in En. unfold look_s. simpl.
    destruct (skey_eqb (l, k) (l2, k2)) eqn:Ek.
    + apply skey_eqb_eq in Ek. inversion Ek; subst l2 k2. apply Hv. exact En.
    + exact Hkill.
  - (* memory at and above the entry rsp *)
    intros x Hx. rewrite Hst by lia. apply HM. exact Hx.
Qed.

(** ** The order *)

Lemma prefix_nth b : forall a i x, prefix b a = true -> nth_error b i = Some x -> nth_error a i = Some x.
Proof.
  induction b as [|[p o] b' IH]; intros a i x H Hn.
  - destruct i; discriminate.
  - destruct a as [|[p' o'] a']; simpl in H; try discriminate.
    apply andb_true_iff in H. destruct H as [H H3].
    apply andb_true_iff in H. destruct H as [H1 H2].
    apply Nat.eqb_eq in H1. apply Z.eqb_eq in H2. subst.
    destruct i; simpl in *; eauto.
Qed.

Lemma le_state_sound e a b c : le_state a b = true -> gamma e a c -> gamma e b c.
Proof.
  unfold le_state. intros H [F (HF0 & HL & HR & HS & HM & HD & HX)].
  repeat (apply andb_true_iff in H; destruct H as [H ?]).
  exists F. gsplit; auto.
  - intros i p o Hn. apply HL. eapply prefix_nth; eauto.
  - intros r. eapply le_val_sound; [|apply HR].
    apply (le_assoc_sound Z.eqb zeqb_eq'). assumption.
  - intros l k. eapply le_val_sound; [|apply HS].
    apply (le_assoc_sound skey_eqb skey_eqb_eq). assumption.
  - intros d Hd. rewrite Hd in *. destruct (adf a) as [d'|]; try discriminate.
    rewrite (HD d' eq_refl). symmetry. apply Bool.eqb_prop. assumption.
  - intros Hb. rewrite Hb in *. simpl in *. apply HX. assumption.
Qed.

(** ** One instruction *)

Section STEP.
Local Arguments look_r : simpl never.
Local Arguments look_s : simpl never.
Local Arguments look : simpl never.
Local Arguments kill : simpl never.
Local Arguments upd : simpl never.

Lemma gv_shift e F v k x : gv e F v x -> gv e F (shift v k) (x + k).
Proof. destruct v; simpl; auto. intros ->. lia. Qed.

Lemma gv_val_ok e F F' n v x :
  (forall l, (l <= n)%nat -> F' l = F l) -> val_ok n v = true -> gv e F v x -> gv e F' v x.
Proof.
  intros HF Hok. destruct v; simpl in *; auto.
  apply Nat.leb_le in Hok. rewrite HF by exact Hok. auto.
Qed.

Lemma tr_sound e tbl i a a' c c' :
  is_call i = false -> tr tbl i a = Some a' -> cstep i c c' -> gamma e a c -> gamma e a' c'.
Proof.
  intros Hnc Htr Hst [F (HF0 & HL & HR & HS & HM & HD & HX)].
  destruct i; simpl in Hnc; try discriminate; simpl in Htr, Hst.
  - (* IClob *)
    inversion Htr; subst a'; clear Htr. destruct Hst as (Hr & Hm & Hd & Hx).
    exists F. cbn [ar asl alv adf amx]. rewrite Hm, Hd, Hx. gsplit; auto.
    intros r. apply (kill_ind Z.eqb zeqb_eq' (fun v0 => gv e F v0 (cr c' r))); [exact I|].
    intros Hp. apply negb_true_iff in Hp. rewrite (Hr _ Hp). apply HR.
  - (* IMov *)
    inversion Htr; subst a'; clear Htr. destruct Hst as (Hr & Hm & Hd & Hx).
    exists F. cbn [ar asl alv adf amx]. rewrite Hr, Hm, Hd, Hx. gsplit; auto.
    apply gv_regs_cons; auto.
  - (* ILea *)
    inversion Htr; subst a'; clear Htr. destruct Hst as (Hr & Hm & Hd & Hx).
    exists F. cbn [ar asl alv adf amx]. rewrite Hr, Hm, Hd, Hx. gsplit; auto.
    apply gv_regs_cons; auto. apply gv_shift. apply HR.
  - (* IAndSp *)
    destruct (look_r (ar a) RSP) as [| |l k|] eqn:Ersp; try discriminate.
    destruct (Nat.leb l (List.length (alv a))) eqn:Eln; try discriminate.
    apply Nat.leb_le in Eln.
    inversion Htr; subst a'; clear Htr.
    destruct Hst as ((v & Hv & Hr) & Hm & Hd & Hx).
    set (n := List.length (alv a)) in *.
    pose proof (HR RSP) as Hsp. rewrite Ersp in Hsp. simpl in Hsp.
    set (F' := fun i => if Nat.eqb i (S n) then v else F i).
    assert (HF' : forall i, (i <= n)%nat -> F' i = F i).
    { intros i Hi. unfold F'. destruct (Nat.eqb i (S n)) eqn:E; auto. apply Nat.eqb_eq in E. lia. }
    exists F'. cbn [ar asl alv adf amx]. rewrite Hr, Hm, Hd, Hx. gsplit; try assumption.
    + intros i p o H.
      destruct (Nat.lt_ge_cases i n) as [Hi|Hi].
      * rewrite nth_error_app1 in H by exact Hi. destruct (HL _ _ _ H) as [Hp Hb].
        split; [exact Hp|]. rewrite !HF' by lia. exact Hb.
      * rewrite nth_error_app2 in H by exact Hi. fold n in H.
        destruct (i - n)%nat as [|j] eqn:Ej; simpl in H.
        -- injection H as Hp1 Ho1. subst p o. assert (i = n) by lia. subst i.
           split; [exact Eln|].
           rewrite (HF' l) by lia. unfold F'. rewrite Nat.eqb_refl. lia.
        -- destruct j; discriminate.
    + intros r. rewrite look_r_cons. unfold upd. rewrite Z.eqb_sym.
      destruct (Z.eqb r RSP) eqn:E.
      * simpl. unfold F'. rewrite Nat.eqb_refl. lia.
      * apply (kill_ind Z.eqb zeqb_eq' (fun v0 => gv e F' v0 (cr c r))); [exact I|].
        intros Hp. eapply gv_val_ok; eauto.
    + intros l2 k2.
      apply (kill_ind skey_eqb skey_eqb_eq (fun v0 => gv e F' v0 (cm c (F' l2 + k2)))); [exact I|].
      simpl. intros Hp. apply andb_true_iff in Hp. destruct Hp as [Hp1 Hp2]. apply Nat.leb_le in Hp1.
      rewrite HF' by exact Hp1. eapply gv_val_ok; eauto.
  - (* IPush *)
    destruct (look_r (ar a) RSP) as [| |l j|] eqn:Ersp; try discriminate.
    destruct Hst as (Hr & Hstd & Hval & Hd & Hx).
    pose proof (HR RSP) as Hsp. rewrite Ersp in Hsp. simpl in Hsp.
    match type of Htr with store_at ?A _ _ _ ?V = _ => set (a1 := A) in *; set (v := V) in * end.
    assert (Haddr : cr c RSP - 8 = F l + (j - 8)) by lia.
    rewrite Haddr in *.
    destruct (store_at_sound e a1 c l (j - 8) 8 v a' (cm c') Htr F HF0 HL HS HM Hstd) as (E1 & E2 & E3 & E4 & HS' & HM').
    { intros _. subst v. destruct s; simpl.
      - rewrite Hval. apply HR.
      - exact I.
      - destruct (adf a) as [d|] eqn:Ed; simpl; auto. rewrite Hval. apply HD. reflexivity. }
    exists F. rewrite E1, E2, E3, E4. subst a1. cbn [ar asl alv adf amx]. rewrite Hr, Hd, Hx. gsplit; auto.
    apply gv_regs_cons; auto. simpl. lia.
  - (* IPop *)
    destruct (look_r (ar a) RSP) as [| |l j|] eqn:Ersp; try discriminate.
    destruct Hst as (Hm & Hx & Hrest).
    pose proof (HR RSP) as Hsp. rewrite Ersp in Hsp. simpl in Hsp.
    pose proof (HS l j) as Hslot. rewrite <- Hsp in Hslot.
    assert (Hrsp : forall r, gv e F (look_r ((RSP, AStk l (j + 8)) :: ar a) r) (upd (cr c) RSP (cr c RSP + 8) r)).
    { apply gv_regs_cons; auto. simpl. lia. }
    destruct d; inversion Htr; subst a'; clear Htr; destruct Hrest as (Hr & Hd).
    + exists F. cbn [ar asl alv adf amx]. rewrite Hr, Hm, Hd, Hx. gsplit; auto.
      apply gv_regs_cons; auto.
    + exists F. cbn [ar asl alv adf amx]. rewrite Hr, Hm, Hd, Hx. gsplit; auto.
    + exists F. cbn [ar asl alv adf amx]. rewrite Hr, Hm, Hd, Hx. gsplit; auto.
      intros d Hdd. destruct (look_s (asl a) (l, j)); try discriminate.
      inversion Hdd; subst. exact Hslot.
  - (* IStore *)
    destruct (look_r (ar a) b) as [| |l j|] eqn:Eb; try discriminate.
    destruct Hst as (Hr & Hstd & Hval & Hd & Hx).
    pose proof (HR b) as Hb. rewrite Eb in Hb. simpl in Hb.
    assert (Haddr : cr c b + k = F l + (j + k)) by lia.
    rewrite Haddr in *.
    destruct (store_at_sound e a c l (j + k) n _ a' (cm c') Htr F HF0 HL HS HM Hstd) as (E1 & E2 & E3 & E4 & HS' & HM').
    { intros Hn. destruct s; simpl; auto. rewrite (Hval Hn). apply HR. }
    exists F. rewrite E1, E2, E3, E4. rewrite Hr, Hd, Hx. gsplit; auto.
  - (* ILoad *)
    inversion Htr; subst a'; clear Htr. destruct Hst as (Hr & Hm & Hd & Hx).
    exists F. cbn [ar asl alv adf amx]. rewrite Hr, Hm, Hd, Hx. gsplit; auto.
    apply gv_regs_cons; auto.
    destruct (look_r (ar a) b) as [| |l j|] eqn:Eb; simpl; auto.
    pose proof (HR b) as Hb. rewrite Eb in Hb. simpl in Hb.
    replace (cr c b + k) with (F l + (j + k)) by lia. apply HS.
  - (* ISetDF *)
    inversion Htr; subst a'; clear Htr. destruct Hst as (Hr & Hm & Hd & Hx).
    exists F. cbn [ar asl alv adf amx]. rewrite Hr, Hm, Hx. gsplit; auto.
    intros d Hdd. injection Hdd as <-. exact Hd.
  - (* IWriteMx *)
    inversion Htr; subst a'; clear Htr. destruct Hst as (Hr & Hm & Hd).
    exists F. cbn [ar asl alv adf amx]. rewrite Hr, Hm, Hd. gsplit; auto.
    intros Hf. discriminate.
Qed.

(** ** Calls *)

Lemma sum_le_sound R0 M0 MX0 s1 s2 c ra :
  sum_le s1 s2 = true -> post R0 M0 MX0 s2 c ra -> post R0 M0 MX0 s1 c ra.
Proof.
  unfold sum_le. intros H (P1 & P2 & P3 & P4 & P5 & P6).
  apply andb_true_iff in H. destruct H as [H1 H2].
  rewrite forallb_forall in H1.
  repeat split; auto.
  - intros r Hin Hb. apply P1; auto. specialize (H1 r Hin). rewrite Hb in H1. exact H1.
  - intros Hm. apply P6. rewrite Hm in H2. exact H2.
Qed.

(** the callee satisfied summary [s] relative to the state [c1] right after the return
    address was pushed; then the abstract call transfer is sound *)
Lemma call_sound e tbl g s a a' c c1 c2 ra :
  lookup_sum tbl g = Some s ->
  tr tbl (ICall g) a = Some a' ->
  gamma e a c -> call_push c c1 ->
  post (cr c1) (cm c1) (cmx c1) s c2 ra ->
  gamma e a' c2.
Proof.
  intros Hlk Htr [F (HF0 & HL & HR & HS & HM & HD & HX)] (Hr1 & Hst1 & Hd1 & Hx1) (P1 & P2 & P3 & P4 & P5 & P6).
  simpl in Htr. rewrite Hlk in Htr.
  destruct (look_r (ar a) RSP) as [| |l j|] eqn:Ersp; try discriminate.
  destruct (adf a) as [[|]|] eqn:Edf; try discriminate.
  destruct (rel (alv a) l 0%nat) as [d|] eqn:Er; try discriminate.
  destruct (d + j <=? 0) eqn:Eb; try discriminate.
  apply Z.leb_le in Eb. pose proof (rel_sound _ _ _ _ _ HL Er) as Hr0. rewrite HF0 in Hr0.
  inversion Htr; subst a'; clear Htr.
  pose proof (HR RSP) as Hsp. rewrite Ersp in Hsp. simpl in Hsp.
  assert (Hrsp1 : cr c1 RSP = cr c RSP - 8) by (rewrite Hr1; apply upd_same).
  (* memory at and above the caller's rsp is untouched by the call *)
  assert (Hmem : forall x, cr c RSP <= x -> cm c2 x = cm c x).
  { intros x Hx. rewrite P3 by lia. apply Hst1. lia. }
  exists F. cbn [ar asl alv adf amx]. gsplit; auto.
  - intros r. apply (kill_ind Z.eqb zeqb_eq' (fun v0 => gv e F v0 (cr c2 r))); [exact I|].
    intros Hp. apply orb_true_iff in Hp. destruct Hp as [Hp|Hp].
    + apply Z.eqb_eq in Hp. subst r. rewrite P2, Hrsp1.
      replace (cr c RSP - 8 + 8) with (cr c RSP) by lia. apply HR.
    + apply andb_true_iff in Hp. destruct Hp as [Hin Hbit].
      change (existsb (Z.eqb r) gprs = true) in Hin.
      apply existsb_exists in Hin. destruct Hin as (r' & Hin & Heq'). apply Z.eqb_eq in Heq'. subst r'.
      rewrite (P1 r Hin Hbit). rewrite Hr1.
      rewrite upd_other. apply HR.
      intro; subst r. simpl in Hin. unfold RSP in Hin. intuition discriminate.
  - intros l2 k2.
    apply (kill_ind skey_eqb skey_eqb_eq (fun v0 => gv e F v0 (cm c2 (F l2 + k2)))); [exact I|].
    simpl. intros Hp. destruct (rel (alv a) l l2) as [d2|] eqn:Er2; try discriminate.
    apply Z.leb_le in Hp. pose proof (rel_sound _ _ _ _ _ HL Er2).
    rewrite Hmem by lia. apply HS.
  - intros x Hx. unfold S0 in *. rewrite Hmem by lia. apply HM. exact Hx.
  - intros d0 Hd0. inversion Hd0; subst. exact P5.
  - intros Hm. apply andb_true_iff in Hm. destruct Hm as [Hm1 Hm2].
    rewrite (P6 Hm2). rewrite Hx1. apply HX. exact Hm1.
Qed.

End STEP.

(** ** Entry and exit *)

Definition env_of (c : cstate) : env := mkE (cr c) (cm c) (cmx c).

Lemma look_init_gpr r : In r gprs -> look_r (ar init_state) r = AEntry r.
Proof.
  simpl. intros H.
  repeat (destruct H as [H|H]; [subst r; reflexivity|]). contradiction.
Qed.

Lemma look_init r :
  (r = RSP /\ look_r (ar init_state) r = AStk 0 0) \/
  look_r (ar init_state) r = AEntry r \/
  look_r (ar init_state) r = ATop.
Proof.
  unfold look_r, init_state. cbn -[Z.eqb].
  repeat match goal with
         | |- context [Z.eqb ?k r] =>
             let E := fresh in destruct (Z.eqb k r) eqn:E;
             [apply Z.eqb_eq in E; subst r; auto|]
         end.
  auto.
Qed.

Lemma gamma_init c : cdf c = false -> gamma (env_of c) init_state c.
Proof.
  intros Hdf. exists (fun _ => cr c RSP). gsplit; auto.
  - intros i p o H. destruct i; discriminate.
  - intros r. destruct (look_init r) as [[-> H]|[H|H]]; rewrite H; simpl; auto. lia.
  - intros l k. exact I.
  - intros d H. inversion H; subst. exact Hdf.
Qed.

Lemma exit_ok_sound e s a c :
  exit_ok s a = true -> gamma e a c ->
  post (eR e) (eM e) (eMX e) s (fst (ret_state c)) (snd (ret_state c)).
Proof.
  unfold exit_ok. intros H [F (HF0 & HL & HR & HS & HM & HD & HX)].
  repeat (apply andb_true_iff in H; destruct H as [H ?]).
  apply aval_eqb_eq in H. pose proof (HR RSP) as Hsp. rewrite H in Hsp. simpl in Hsp.
  rewrite HF0 in Hsp. unfold S0 in *.
  destruct (adf a) as [[|]|] eqn:Edf; try discriminate.
  rewrite forallb_forall in H1.
  unfold ret_state, post. simpl. repeat split.
  - intros r Hin Hbit. specialize (H1 r Hin). rewrite Hbit in H1. simpl in H1.
    apply aval_eqb_eq in H1. pose proof (HR r) as Hr. rewrite H1 in Hr. simpl in Hr.
    rewrite upd_other. exact Hr.
    intro; subst r. simpl in Hin. unfold RSP in Hin. intuition discriminate.
  - rewrite upd_same. lia.
  - intros x Hx. apply HM. exact Hx.
  - replace (cr c RSP) with (eR e RSP) by lia. apply HM. lia.
  - apply HD. reflexivity.
  - intros Hm. rewrite Hm in *. simpl in *. apply HX. assumption.
Qed.

(** ** Programs *)

Lemma find_def_In P g d : find_def P g = Some d -> In d P /\ d_name d = g.
Proof.
  induction P as [|d' P' IH]; simpl; try discriminate.
  destruct (String.eqb (d_name d') g) eqn:E.
  - intros H. inversion H; subst. split; auto. apply String.eqb_eq. exact E.
  - intros H. destruct (IH H). auto.
Qed.

Lemma find_block_In bs l b : find_block_in bs l = Some b -> In (l, b) bs.
Proof.
  induction bs as [|[l' b'] t IH]; simpl; try discriminate.
  destruct (Pos.eqb l' l) eqn:E.
  - intros H. inversion H; subst. apply Pos.eqb_eq in E. subst. left; reflexivity.
  - intros H. right. apply IH. exact H.
Qed.

Lemma lookup_sum_In t g s : lookup_sum t g = Some s -> In (g, s) t.
Proof.
  induction t as [|[g' s'] t' IH]; simpl; try discriminate.
  destruct (String.eqb g' g) eqn:E.
  - intros H. inversion H; subst. apply String.eqb_eq in E. subst. left; reflexivity.
  - intros H. right. apply IH. exact H.
Qed.

Section PROGRAM.
Variable P : list fdef.
Hypothesis Pok : prog_ok P = true.

Lemma P_fdef_ok d : In d P -> fdef_ok d = true.
Proof.
  intros H. unfold prog_ok in Pok. apply andb_true_iff in Pok. destruct Pok as [H1 _].
  rewrite forallb_forall in H1. apply H1. exact H.
Qed.

Lemma P_link_ok d : In d P -> link_ok P d = true.
Proof.
  intros H. unfold prog_ok in Pok. apply andb_true_iff in Pok. destruct Pok as [_ H2].
  rewrite forallb_forall in H2. apply H2. exact H.
Qed.

Definition ann_of (d : fdef) : annot := annot_of (d_ann d).

Lemma P_check_block d l is t :
  In d P -> find_block (d_fn d) l = Some (is, t) ->
  exists a, ann_of d l = Some a /\ check_code (d_tbl d) (d_sum d) (ann_of d) is t a = true.
Proof.
  intros Hd Hf. pose proof (P_fdef_ok d Hd) as Hok. unfold fdef_ok in Hok.
  apply andb_true_iff in Hok. destruct Hok as [Hok _]. unfold check_fn in Hok.
  apply andb_true_iff in Hok. destruct Hok as [_ Hbl]. rewrite forallb_forall in Hbl.
  apply find_block_In in Hf. specialize (Hbl _ Hf). unfold check_block in Hbl. simpl in Hbl.
  unfold ann_of. destruct (annot_of (d_ann d) l) as [a|]; try discriminate.
  exists a. split; auto.
Qed.

Lemma P_entry d :
  In d P -> le_to (ann_of d) init_state (f_entry (d_fn d)) = true.
Proof.
  intros Hd. pose proof (P_fdef_ok d Hd) as Hok. unfold fdef_ok in Hok.
  apply andb_true_iff in Hok. destruct Hok as [Hok _]. unfold check_fn in Hok.
  apply andb_true_iff in Hok. destruct Hok as [Hin _]. exact Hin.
Qed.

(** jumping to label [l] from a state abstracted by [a] with [a ⊑ ann l] *)
Lemma le_to_block d e a c l is t :
  In d P -> le_to (ann_of d) a l = true -> gamma e a c ->
  find_block (d_fn d) l = Some (is, t) ->
  exists b, gamma e b c /\ check_code (d_tbl d) (d_sum d) (ann_of d) is t b = true.
Proof.
  intros Hd Hle Hg Hf. unfold le_to in Hle.
  destruct (P_check_block d l is t Hd Hf) as (b & Hb & Hc).
  rewrite Hb in Hle. exists b. split; auto. eapply le_state_sound; eauto.
Qed.

Theorem run_sound :
  forall f is t c r, run (code_of P) f is t c r ->
  forall d e a, In d P -> d_fn d = f -> gamma e a c ->
    check_code (d_tbl d) (d_sum d) (ann_of d) is t a = true ->
    post (eR e) (eM e) (eMX e) (d_sum d) (fst r) (snd r).
Proof.
  induction 1; intros d e a Hd Hfn Hg Hc; unfold check_code in Hc; cbn [tr_list check_term] in Hc.
  - (* run_step *)
    destruct (tr (d_tbl d) i a) as [a1|] eqn:Etr; try discriminate.
    apply (IHrun d e a1 Hd Hfn); [|exact Hc].
    eapply tr_sound; eauto.
  - (* run_call_def *)
    destruct (tr (d_tbl d) (ICall g) a) as [a1|] eqn:Etr; try discriminate.
    assert (Hlk : exists s, lookup_sum (d_tbl d) g = Some s).
    { simpl in Etr. destruct (lookup_sum (d_tbl d) g) as [s|]; try discriminate. eauto. }
    destruct Hlk as [s Hlk].
    unfold code_of in H. destruct (find_def P g) as [dg|] eqn:Efd; try discriminate.
    inversion H; subst gf; clear H.
    destruct (find_def_In _ _ _ Efd) as [Hdg _].
    (* link: the assumed summary is implied by the callee's validated summary *)
    pose proof (P_link_ok d Hd) as Hlink. unfold link_ok in Hlink. rewrite forallb_forall in Hlink.
    specialize (Hlink _ (lookup_sum_In _ _ _ Hlk)). simpl in Hlink. rewrite Efd in Hlink.
    (* the callee *)
    assert (Hdf1 : cdf c1 = false).
    { destruct H1 as (_ & _ & Hd1 & _). rewrite Hd1.
      destruct Hg as [F (_ & _ & _ & _ & _ & HD & _)].
      simpl in Etr. rewrite Hlk in Etr.
      destruct (look_r (ar a) RSP); try discriminate.
      destruct (adf a) as [[|]|] eqn:Edf; try discriminate.
      apply HD. reflexivity. }
    destruct (le_to_block dg (env_of c1) init_state c1 _ _ _ Hdg (P_entry dg Hdg) (gamma_init c1 Hdf1) H0)
      as (b & Hgb & Hcb).
    pose proof (IHrun1 dg (env_of c1) b Hdg eq_refl Hgb Hcb) as Hpost. simpl in Hpost.
    apply (IHrun2 d e a1 Hd Hfn); [|exact Hc].
    eapply (call_sound e (d_tbl d) g s a a1 c c1 c2 ra); eauto.
    eapply sum_le_sound; eauto.
  - (* run_call_ext *)
    destruct (tr (d_tbl d) (ICall g) a) as [a1|] eqn:Etr; try discriminate.
    assert (Hlk : exists s, lookup_sum (d_tbl d) g = Some s).
    { simpl in Etr. destruct (lookup_sum (d_tbl d) g) as [s|]; try discriminate. eauto. }
    destruct Hlk as [s Hlk].
    unfold code_of in H. destruct (find_def P g) as [dg|] eqn:Efd; try discriminate.
    pose proof (P_link_ok d Hd) as Hlink. unfold link_ok in Hlink. rewrite forallb_forall in Hlink.
    specialize (Hlink _ (lookup_sum_In _ _ _ Hlk)). simpl in Hlink. rewrite Efd in Hlink.
    apply (IHrun d e a1 Hd Hfn); [|exact Hc].
    eapply (call_sound e (d_tbl d) g s a a1 c c1 c2 (cm c1 (cr c1 RSP))); eauto.
    eapply sum_le_sound; eauto.
  - (* run_jmp *)
    subst f. destruct (le_to_block d e a c l is t Hd Hc Hg H) as (b & Hgb & Hcb).
    eapply IHrun; eauto.
  - (* run_jcc1 *)
    subst f. apply andb_true_iff in Hc. destruct Hc as [Hc1 Hc2].
    destruct (le_to_block d e a c l1 is t Hd Hc1 Hg H) as (b & Hgb & Hcb).
    eapply IHrun; eauto.
  - (* run_jcc2 *)
    subst f. apply andb_true_iff in Hc. destruct Hc as [Hc1 Hc2].
    destruct (le_to_block d e a c l2 is t Hd Hc2 Hg H) as (b & Hgb & Hcb).
    eapply IHrun; eauto.
  - (* run_ret *)
    eapply exit_ok_sound; eauto.
Qed.

Theorem frame_check_sound_P :
  forall d, In d P -> forall c r, cdf c = false ->
  exec (code_of P) (d_fn d) c r ->
  post (cr c) (cm c) (cmx c) (d_sum d) (fst r) (snd r).
Proof.
  intros d Hd c r Hdf (is & t & Hf & Hrun).
  destruct (le_to_block d (env_of c) init_state c _ _ _ Hd (P_entry d Hd) (gamma_init c Hdf) Hf)
    as (b & Hgb & Hcb).
  exact (run_sound _ _ _ _ _ Hrun d (env_of c) b Hd eq_refl Hgb Hcb).
Qed.

End PROGRAM.

Theorem frame_check_sound :
  forall P : list fdef, prog_ok P = true ->
  forall d, In d P -> forall c r, cdf c = false ->
  exec (code_of P) (d_fn d) c r ->
  post (cr c) (cm c) (cmx c) (d_sum d) (fst r) (snd r).
Proof. intros P Pok. exact (frame_check_sound_P P Pok). Qed.

Theorem frame_check_sysv :
  forall P : list fdef, prog_ok P = true ->
  forall d, In d P -> d_creach d = true ->
  forall c r, cdf c = false -> exec (code_of P) (d_fn d) c r ->
  post (cr c) (cm c) (cmx c) sysv (fst r) (snd r).
Proof.
  intros P Pok d Hd Hcr c r Hdf Hex.
  pose proof (frame_check_sound P Pok d Hd c r Hdf Hex) as Hpost.
  pose proof (P_fdef_ok P Pok d Hd) as Hok. unfold fdef_ok in Hok.
  apply andb_true_iff in Hok. destruct Hok as [_ Hs]. rewrite Hcr in Hs. simpl in Hs.
  eapply sum_le_sound; eauto.
Qed.

Print Assumptions frame_check_sound.
Print Assumptions frame_check_sysv.
