(** * X86/Frame.v -- the x86-64 *frame machine* (property C18)

    A deliberately small abstract machine that keeps exactly the part of the
    processor state the System V calling convention talks about:

      - the sixteen 64-bit general purpose registers (index = hardware
        encoding, rsp = 4),
      - the *stack memory* (address -> 64-bit word stored at that address),
      - the direction flag DF,
      - the SIMD control/status register MXCSR.

    The translator T5 (translators/t5_cfg.py) maps every instruction of every
    NASM object of the library to one of the frame instructions below (or to
    nothing when the instruction touches none of the above).  The semantics
    is a *relation*: clobbered registers receive arbitrary values, conditional
    branches go both ways, stores of untracked data write arbitrary words.

    Memory model.  [cm c x] is the 64-bit word found at byte address [x].
    An n-byte store at address [a] leaves every word that does not overlap
    [a, a+n) unchanged (predicate [stored]) and says nothing about the words
    that do overlap -- a sound over-approximation of byte-granular memory.
    Addresses are unbounded integers (no 2^64 wrap-around).

    Assumption A1 (see C18_NOTES.md).  [cm] is written only by the frame
    instructions [IPush], [IStore] and by calls.  T5 emits [IStore] for every
    store whose address it can resolve to a stack address (rsp-relative, or
    relative to a register holding a known stack address such as a frame
    pointer); stores through other pointers (message/key/state buffers, and
    pointers into scratch areas whose offset is data dependent) are not
    represented: the model assumes they do not overwrite a live save slot or
    the caller's frame.  The dynamic check K4 tests this assumption.

    Calls.  The semantics is big-step: [run] relates a code position and a
    start state to the state right after the function's [ret] (together with
    the return address that [ret] popped).  A call to a function defined in
    the program runs the callee's body; a call to an undefined name (a C
    function) is assumed to obey the System V convention ([sysv_post]). *)

From Coq Require Import ZArith List Bool Lia String.
Import ListNotations.
Local Open Scope Z_scope.

(** ** Registers *)

Definition reg := Z.
Definition RSP : reg := 4.
(** all general purpose registers except rsp *)
Definition gprs : list reg := [0;1;2;3;5;6;7;8;9;10;11;12;13;14;15].
(** rbx rbp r12 r13 r14 r15 as a bit mask *)
Definition SYSV_MASK : Z := 61480.

(** ** Instructions *)

Inductive src := SReg (r : reg) | SAny | SFlags.

Inductive instr :=
| IClob (m : Z)                                  (* arbitrary values into the registers whose bit is set in m *)
| IMov (d s : reg)                               (* d := s                       (64 bit) *)
| ILea (d b : reg) (k : Z)                       (* d := b + k                   (lea / add imm / sub imm) *)
| IAndSp                                         (* rsp := rsp & -2^n            (new rsp <= old rsp) *)
| IPush (s : src)                                (* push reg / push <untracked> / pushfq *)
| IPop (d : src)                                 (* pop reg  / pop <discard>    / popfq *)
| IStore (b : reg) (k n : Z) (s : option reg)    (* n-byte store at [b+k]; the 64-bit register s when given (n = 8) *)
| ILoad (d b : reg) (k : Z)                      (* d := 8 bytes at [b+k] *)
| ISetDF (b : bool)                              (* cld / std *)
| IWriteMx                                       (* ldmxcsr & co: MXCSR := arbitrary *)
| ICall (f : string).

Inductive term :=
| TJmp (l : positive)
| TJcc (l1 l2 : positive)
| TRet.

Definition block : Type := list instr * term.

Record fn := { f_entry : positive; f_blocks : list (positive * block) }.

Fixpoint find_block_in (bs : list (positive * block)) (l : positive) : option block :=
  match bs with
  | [] => None
  | (l', b) :: t => if Pos.eqb l' l then Some b else find_block_in t l
  end.
Definition find_block (f : fn) (l : positive) : option block := find_block_in (f_blocks f) l.

(** ** Concrete states *)

Record cstate := mkC { cr : reg -> Z; cm : Z -> Z; cdf : bool; cmx : Z }.

Definition upd (f : Z -> Z) (x v : Z) : Z -> Z := fun y => if Z.eqb y x then v else f y.

(** an [n]-byte store at [a] turned memory [m] into [m'] *)
Definition stored (a n : Z) (m m' : Z -> Z) : Prop :=
  forall x, x + 8 <= a \/ a + n <= x -> m' x = m x.

(** bit 10 of RFLAGS is DF *)
Definition df_of (v : Z) : bool := Z.testbit v 10.

(** ** One step of a non-call instruction *)

Definition cstep (i : instr) (c c' : cstate) : Prop :=
  match i with
  | IClob m =>
      (forall r, Z.testbit m r = false -> cr c' r = cr c r) /\
      cm c' = cm c /\ cdf c' = cdf c /\ cmx c' = cmx c
  | IMov d s =>
      cr c' = upd (cr c) d (cr c s) /\ cm c' = cm c /\ cdf c' = cdf c /\ cmx c' = cmx c
  | ILea d b k =>
      cr c' = upd (cr c) d (cr c b + k) /\ cm c' = cm c /\ cdf c' = cdf c /\ cmx c' = cmx c
  | IAndSp =>
      (exists v, v <= cr c RSP /\ cr c' = upd (cr c) RSP v) /\
      cm c' = cm c /\ cdf c' = cdf c /\ cmx c' = cmx c
  | IPush s =>
      let a := cr c RSP - 8 in
      cr c' = upd (cr c) RSP a /\ stored a 8 (cm c) (cm c') /\
      match s with
      | SReg r => cm c' a = cr c r
      | SAny => True
      | SFlags => df_of (cm c' a) = cdf c
      end /\ cdf c' = cdf c /\ cmx c' = cmx c
  | IPop d =>
      let a := cr c RSP in
      let v := cm c a in
      cm c' = cm c /\ cmx c' = cmx c /\
      match d with
      | SReg r => cr c' = upd (upd (cr c) RSP (a + 8)) r v /\ cdf c' = cdf c
      | SAny => cr c' = upd (cr c) RSP (a + 8) /\ cdf c' = cdf c
      | SFlags => cr c' = upd (cr c) RSP (a + 8) /\ cdf c' = df_of v
      end
  | IStore b k n s =>
      let a := cr c b + k in
      cr c' = cr c /\ stored a n (cm c) (cm c') /\
      match s with Some r => n = 8 -> cm c' a = cr c r | None => True end /\
      cdf c' = cdf c /\ cmx c' = cmx c
  | ILoad d b k =>
      cr c' = upd (cr c) d (cm c (cr c b + k)) /\ cm c' = cm c /\ cdf c' = cdf c /\ cmx c' = cmx c
  | ISetDF b =>
      cr c' = cr c /\ cm c' = cm c /\ cdf c' = b /\ cmx c' = cmx c
  | IWriteMx =>
      cr c' = cr c /\ cm c' = cm c /\ cdf c' = cdf c
  | ICall _ => False
  end.

Definition is_call (i : instr) : bool := match i with ICall _ => true | _ => false end.

(** the [call] instruction itself: push a return address *)
Definition call_push (c c1 : cstate) : Prop :=
  cr c1 = upd (cr c) RSP (cr c RSP - 8) /\ stored (cr c RSP - 8) 8 (cm c) (cm c1) /\
  cdf c1 = cdf c /\ cmx c1 = cmx c.

(** [ret]: pop the return address *)
Definition ret_state (c : cstate) : cstate * Z :=
  (mkC (upd (cr c) RSP (cr c RSP + 8)) (cm c) (cdf c) (cmx c), cm c (cr c RSP)).

(** ** Summaries and the calling-convention post-condition *)

Record summary := mkSum { s_pres : Z (* bit mask of preserved registers *); s_mx : bool (* MXCSR preserved *) }.
Definition sysv : summary := mkSum SYSV_MASK true.

(** [post R0 M0 MX0 s c' ra]: relative to the entry registers [R0] (so the entry
    rsp is [R0 RSP]), entry memory [M0] and entry MXCSR [MX0], the state [c']
    right after [ret] and the popped return address [ra] satisfy summary [s]. *)
Definition post (R0 : reg -> Z) (M0 : Z -> Z) (MX0 : Z) (s : summary) (c' : cstate) (ra : Z) : Prop :=
  (forall r, In r gprs -> Z.testbit (s_pres s) r = true -> cr c' r = R0 r) /\
  cr c' RSP = R0 RSP + 8 /\
  (forall x, R0 RSP <= x -> cm c' x = M0 x) /\
  ra = M0 (R0 RSP) /\
  cdf c' = false /\
  (s_mx s = true -> cmx c' = MX0).

(** behaviour assumed of a function that is not part of the program (compiled C) *)
Definition sysv_post (c1 c2 : cstate) : Prop :=
  post (cr c1) (cm c1) (cmx c1) sysv c2 (cm c1 (cr c1 RSP)).

(** ** Big-step execution from a code position to the function's [ret] *)

Section RUN.
Variable P : string -> option fn.

Inductive run : fn -> list instr -> term -> cstate -> cstate * Z -> Prop :=
| run_step : forall f i is t c c1 r,
    is_call i = false -> cstep i c c1 -> run f is t c1 r -> run f (i :: is) t c r
| run_call_def : forall f g gf gis gt is t c c1 c2 ra r,
    P g = Some gf -> find_block gf (f_entry gf) = Some (gis, gt) ->
    call_push c c1 -> run gf gis gt c1 (c2, ra) ->
    run f is t c2 r -> run f (ICall g :: is) t c r
| run_call_ext : forall f g is t c c1 c2 r,
    P g = None -> call_push c c1 -> sysv_post c1 c2 ->
    run f is t c2 r -> run f (ICall g :: is) t c r
| run_jmp : forall f l is t c r,
    find_block f l = Some (is, t) -> run f is t c r -> run f [] (TJmp l) c r
| run_jcc1 : forall f l1 l2 is t c r,
    find_block f l1 = Some (is, t) -> run f is t c r -> run f [] (TJcc l1 l2) c r
| run_jcc2 : forall f l1 l2 is t c r,
    find_block f l2 = Some (is, t) -> run f is t c r -> run f [] (TJcc l1 l2) c r
| run_ret : forall f c, run f [] TRet c (ret_state c).

(** a complete activation of function [f]: from its entry to its [ret] *)
Definition exec (f : fn) (c : cstate) (r : cstate * Z) : Prop :=
  exists is t, find_block f (f_entry f) = Some (is, t) /\ run f is t c r.

End RUN.
