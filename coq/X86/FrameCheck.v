(** * X86/FrameCheck.v -- abstract domain, transfer function and certificate validator (C18)

    The validator does not compute fixpoints.  It receives, for every function,
    the CFG, a candidate annotation (one abstract state per basic block, computed
    by the untrusted abstract interpreter inside T5), the summary the function
    claims, and the table of summaries of the functions it calls, and checks

      (i)   init ⊑ ann(entry);
      (ii)  for every block, pushing ann(block) through the block's instructions
            with [tr] succeeds and the result is ⊑ the annotation of every successor;
      (iii) [tr] refuses every push/store that is not provably strictly below the
            entry rsp, every call with a misplaced rsp or with DF possibly set;
      (iv)  at every [ret]: rsp = entry rsp, DF = 0, every register promised by the
            summary holds its entry value, MXCSR untouched if promised.

    Soundness is proved in FrameSound.v.  Everything here is executable
    ([vm_compute]).

    Abstract values.  [AStk l k] denotes F_l + k where F_0 is the entry rsp and
    F_l (l >= 1) is the value rsp received from the l-th [and rsp,-2^n] that was
    executed on the path (the "aligned frame base" of DESIGN.md; levels nest
    because some functions build a second aligned frame inside the first).  For
    every level the state records a parent level p and an offset o with
    F_l <= F_p + o, which is all that is needed to prove that a store into the
    new frame lies below the slots of the enclosing frames and below the
    return address. *)

From Coq Require Import ZArith List Bool Lia String FMapPositive.
From IMB Require Import X86.Frame.
Import ListNotations.
Local Open Scope Z_scope.

(** ** Abstract values and association lists *)

Inductive aval :=
| ATop
| AEntry (r : reg)          (* the value register r had on entry *)
| AStk (l : nat) (k : Z)    (* F_l + k *)
| AFlags (d : bool).        (* a flags word whose DF bit is d *)

Definition aval_eqb (v w : aval) : bool :=
  match v, w with
  | ATop, ATop => true
  | AEntry r, AEntry r' => Z.eqb r r'
  | AStk l k, AStk l' k' => Nat.eqb l l' && Z.eqb k k'
  | AFlags d, AFlags d' => Bool.eqb d d'
  | _, _ => false
  end.

(** v ⊑ w *)
Definition le_val (v w : aval) : bool :=
  match w with ATop => true | _ => aval_eqb v w end.

Section ASSOC.
  Context {K : Type}.
  Variable keqb : K -> K -> bool.

  Fixpoint look (l : list (K * aval)) (k : K) : aval :=
    match l with
    | [] => ATop
    | (k', v) :: t => if keqb k' k then v else look t k
    end.

  (** entries failing [p] are overwritten with Top (positions are kept, so shadowed
      duplicates can never resurface) *)
  Definition kill (p : K -> aval -> bool) (l : list (K * aval)) : list (K * aval) :=
    map (fun e => if p (fst e) (snd e) then e else (fst e, ATop)) l.

  (** for every key bound in [b]: (value in a) ⊑ (value in b); keys not bound in [b] are Top there.
      Values are compared through [look], so shadowed duplicates in [b] are harmless. *)
  Definition le_assoc (a b : list (K * aval)) : bool :=
    forallb (fun e => le_val (look a (fst e)) (look b (fst e))) b.
End ASSOC.

Definition skey : Type := nat * Z.
Definition skey_eqb (a b : skey) : bool := Nat.eqb (fst a) (fst b) && Z.eqb (snd a) (snd b).

Definition look_r := look Z.eqb.
Definition look_s := look skey_eqb.

(** ** Abstract states *)

Record astate := mkA {
  ar  : list (reg * aval);      (* registers (missing = Top) *)
  asl : list (skey * aval);     (* 8-byte stack slots, key (level, offset) (missing = Top) *)
  alv : list (nat * Z);         (* alv[i] = (p, o):  F_(i+1) <= F_p + o,  p <= i *)
  adf : option bool;            (* DF, when known *)
  amx : bool                    (* MXCSR still holds its entry value *)
}.

Definition init_state : astate :=
  mkA ((RSP, AStk 0 0) :: map (fun r => (r, AEntry r)) gprs) [] [] (Some false) true.

(** [rel lv a b = Some d] implies F_a <= F_b + d (b is a or an ancestor of a) *)
Fixpoint rel_fuel (fuel : nat) (lv : list (nat * Z)) (a b : nat) : option Z :=
  if Nat.eqb a b then Some 0 else
  match fuel with
  | O => None
  | S f =>
      match a with
      | O => None
      | S a' =>
          match nth_error lv a' with
          | Some (p, o) => match rel_fuel f lv p b with Some d => Some (o + d) | None => None end
          | None => None
          end
      end
  end.
Definition rel (lv : list (nat * Z)) (a b : nat) : option Z := rel_fuel (S (List.length lv)) lv a b.

(** the 8-byte slot (b, j) is provably disjoint from the n bytes at (a, k) *)
Definition disjoint (lv : list (nat * Z)) (a : nat) (k n : Z) (b : nat) (j : Z) : bool :=
  match rel lv a b with Some d => d + k + n <=? j | None => false end ||
  match rel lv b a with Some d => d + j + 8 <=? k | None => false end.

Definition shift (v : aval) (k : Z) : aval :=
  match v with AStk l j => AStk l (j + k) | _ => ATop end.

Definition val_ok (n : nat) (v : aval) : bool :=
  match v with AStk l _ => Nat.leb l n | _ => true end.

(** n-byte store at F_l + k of a value abstracted by v (recorded when n = 8) *)
Definition store_at (a : astate) (l : nat) (k n : Z) (v : aval) : option astate :=
  match rel (alv a) l 0%nat with
  | Some d =>
      if d + k + n <=? 0 then
        let sl := kill (fun key _ => disjoint (alv a) l k n (fst key) (snd key)) (asl a) in
        Some (mkA (ar a) (if n =? 8 then ((l, k), v) :: sl else sl) (alv a) (adf a) (amx a))
      else None
  | None => None
  end.

(** ** Summaries *)

Definition table := list (string * summary).
Fixpoint lookup_sum (t : table) (g : string) : option summary :=
  match t with
  | [] => None
  | (g', s) :: t' => if String.eqb g' g then Some s else lookup_sum t' g
  end.

(** s1 promises no more than s2 *)
Definition sum_le (s1 s2 : summary) : bool :=
  forallb (fun r => implb (Z.testbit (s_pres s1) r) (Z.testbit (s_pres s2) r)) gprs &&
  implb (s_mx s1) (s_mx s2).

(** ** Transfer function *)

Definition tr (tbl : table) (i : instr) (a : astate) : option astate :=
  match i with
  | IClob m =>
      Some (mkA (kill (fun r _ => negb (Z.testbit m r)) (ar a)) (asl a) (alv a) (adf a) (amx a))
  | IMov d s =>
      Some (mkA ((d, look_r (ar a) s) :: ar a) (asl a) (alv a) (adf a) (amx a))
  | ILea d b k =>
      Some (mkA ((d, shift (look_r (ar a) b) k) :: ar a) (asl a) (alv a) (adf a) (amx a))
  | IAndSp =>
      match look_r (ar a) RSP with
      | AStk l k =>
          let n := List.length (alv a) in
          if Nat.leb l n then
            Some (mkA ((RSP, AStk (S n) 0) :: kill (fun _ v => val_ok n v) (ar a))
                      (kill (fun key v => Nat.leb (fst key) n && val_ok n v) (asl a))
                      (alv a ++ [(l, k)]) (adf a) (amx a))
          else None
      | _ => None
      end
  | IPush s =>
      match look_r (ar a) RSP with
      | AStk l j =>
          let v := match s with
                   | SReg r => look_r (ar a) r
                   | SAny => ATop
                   | SFlags => match adf a with Some d => AFlags d | None => ATop end
                   end in
          store_at (mkA ((RSP, AStk l (j - 8)) :: ar a) (asl a) (alv a) (adf a) (amx a)) l (j - 8) 8 v
      | _ => None
      end
  | IPop d =>
      match look_r (ar a) RSP with
      | AStk l j =>
          let v := look_s (asl a) (l, j) in
          let ar' := (RSP, AStk l (j + 8)) :: ar a in
          match d with
          | SReg r => Some (mkA ((r, v) :: ar') (asl a) (alv a) (adf a) (amx a))
          | SAny => Some (mkA ar' (asl a) (alv a) (adf a) (amx a))
          | SFlags => Some (mkA ar' (asl a) (alv a) (match v with AFlags d => Some d | _ => None end) (amx a))
          end
      | _ => None
      end
  | IStore b k n s =>
      match look_r (ar a) b with
      | AStk l j =>
          store_at a l (j + k) n (match s with Some r => look_r (ar a) r | None => ATop end)
      | _ => None
      end
  | ILoad d b k =>
      let v := match look_r (ar a) b with AStk l j => look_s (asl a) (l, j + k) | _ => ATop end in
      Some (mkA ((d, v) :: ar a) (asl a) (alv a) (adf a) (amx a))
  | ISetDF b => Some (mkA (ar a) (asl a) (alv a) (Some b) (amx a))
  | IWriteMx => Some (mkA (ar a) (asl a) (alv a) (adf a) false)
  | ICall g =>
      match lookup_sum tbl g, look_r (ar a) RSP, adf a with
      | Some s, AStk l j, Some false =>
          match rel (alv a) l 0%nat with
          | Some d =>
              if d + j <=? 0 then
                Some (mkA (kill (fun r _ => Z.eqb r RSP || (existsb (Z.eqb r) gprs && Z.testbit (s_pres s) r)) (ar a))
                          (kill (fun key _ => match rel (alv a) l (fst key) with
                                              | Some d2 => d2 + j <=? snd key
                                              | None => false end) (asl a))
                          (alv a) (Some false) (amx a && s_mx s))
              else None
          | None => None
          end
      | _, _, _ => None
      end
  end.

Fixpoint tr_list (tbl : table) (is : list instr) (a : astate) : option astate :=
  match is with
  | [] => Some a
  | i :: is' => match tr tbl i a with Some a' => tr_list tbl is' a' | None => None end
  end.

(** ** Order *)

Fixpoint prefix (b a : list (nat * Z)) : bool :=
  match b, a with
  | [], _ => true
  | (p, o) :: b', (p', o') :: a' => Nat.eqb p p' && Z.eqb o o' && prefix b' a'
  | _, _ => false
  end.

Definition le_state (a b : astate) : bool :=
  prefix (alv b) (alv a) &&
  le_assoc Z.eqb (ar a) (ar b) &&
  le_assoc skey_eqb (asl a) (asl b) &&
  match adf b with None => true | Some d => match adf a with Some d' => Bool.eqb d d' | None => false end end &&
  implb (amx b) (amx a).

(** ** Exit condition and the validator *)

Definition exit_ok (s : summary) (a : astate) : bool :=
  aval_eqb (look_r (ar a) RSP) (AStk 0 0) &&
  match adf a with Some false => true | _ => false end &&
  forallb (fun r => implb (Z.testbit (s_pres s) r) (aval_eqb (look_r (ar a) r) (AEntry r))) gprs &&
  implb (s_mx s) (amx a).

Definition annot := positive -> option astate.

Definition le_to (ann : annot) (a : astate) (l : positive) : bool :=
  match ann l with Some b => le_state a b | None => false end.

Definition check_term (s : summary) (ann : annot) (t : term) (a : astate) : bool :=
  match t with
  | TJmp l => le_to ann a l
  | TJcc l1 l2 => le_to ann a l1 && le_to ann a l2
  | TRet => exit_ok s a
  end.

Definition check_code (tbl : table) (s : summary) (ann : annot) (is : list instr) (t : term) (a : astate) : bool :=
  match tr_list tbl is a with Some a' => check_term s ann t a' | None => false end.

Definition check_block (tbl : table) (s : summary) (ann : annot) (b : positive * block) : bool :=
  match ann (fst b) with
  | Some a => check_code tbl s ann (fst (snd b)) (snd (snd b)) a
  | None => false
  end.

Definition annot_of (l : list (positive * astate)) : annot :=
  let m := fold_left (fun m e => PositiveMap.add (fst e) (snd e) m) l (PositiveMap.empty astate) in
  fun p => PositiveMap.find p m.

Definition check_fn (tbl : table) (s : summary) (annl : list (positive * astate)) (f : fn) : bool :=
  let ann := annot_of annl in
  le_to ann init_state (f_entry f) && forallb (check_block tbl s ann) (f_blocks f).

(** ** Function definitions as emitted by T5, program-level checks *)

Record fdef := mkDef {
  d_name : string;
  d_creach : bool;                         (* callable from C: must satisfy the full System V summary *)
  d_sum : summary;                         (* the summary this function is validated against *)
  d_tbl : table;                           (* summaries assumed for its callees *)
  d_ann : list (positive * astate);        (* certificate *)
  d_fn : fn
}.

Definition fdef_ok (d : fdef) : bool :=
  check_fn (d_tbl d) (d_sum d) (d_ann d) (d_fn d) &&
  implb (d_creach d) (sum_le sysv (d_sum d)).

Fixpoint find_def (P : list fdef) (g : string) : option fdef :=
  match P with
  | [] => None
  | d :: P' => if String.eqb (d_name d) g then Some d else find_def P' g
  end.

(** every summary a function assumes about a callee is implied by the summary the callee was
    validated against; names that are not defined (C functions) may only be assumed System V *)
Definition link_ok (P : list fdef) (d : fdef) : bool :=
  forallb (fun e => match find_def P (fst e) with
                    | Some dg => sum_le (snd e) (d_sum dg)
                    | None => sum_le (snd e) sysv
                    end) (d_tbl d).

Definition prog_ok (P : list fdef) : bool :=
  forallb fdef_ok P && forallb (link_ok P) P.

Definition code_of (P : list fdef) (g : string) : option fn :=
  match find_def P g with Some d => Some (d_fn d) | None => None end.
