(* Extract/ExtractKeyPrep.v — extraction of the C11 key-preparation model (ExtrOcamlBasic only).
   Run from the directory that shall receive keyprep_model.ml(i):
     cd /verif/.build/ocaml && coqc -Q /verif/coq IMB /verif/coq/Extract/ExtractKeyPrep.v *)
From IMB Require Import Lib.Bytes Spec.AES Spec.SHA Spec.MD5 Spec.SM3 Spec.HMAC Spec.GCM Spec.KeyPrep.
Require Extraction.
Require Import ExtrOcamlBasic.
Extraction Language OCaml.
Extraction "keyprep_model.ml"
  kp_aes_keyexp kp_cmac_subkeys kp_xcbc_keyexp kp_hmac_ipad_opad kp_one_block md_state_bytes
  H_SHA1 H_SHA224 H_SHA256 H_SHA384 H_SHA512 H_MD5 H_SM3
  kp_gcm_pre kp_ghash_table gcm_hash_key
  kp_des_keysched kp_sm4_keyexp kp_kasumi_f8_sched kp_kasumi_f9_sched kp_snow3g_sched
  kp_zuc_eea3_iv_gen kp_zuc_eia3_iv_gen kp_snow3g_f8_iv_gen kp_snow3g_f9_iv_gen
  kp_kasumi_f8_iv_gen kp_kasumi_f9_iv_gen.
