(* Extract/ExtractStream.v — extraction of the C10 streaming models (ExtrOcamlBasic only).
   Run from the directory that shall receive stream_model.ml(i):
     cd /verif/.build/ocaml && coqc -Q /verif/coq IMB /verif/coq/Extract/ExtractStream.v *)
From IMB Require Import Lib.Bytes Spec.ChaCha20 Spec.Poly1305 Spec.ChaChaPoly Spec.GF128 Spec.AES Spec.GCM
     Struct.ChachaStream Struct.GcmStream.
Require Extraction.
Require Import ExtrOcamlBasic.
Extraction Language OCaml.
Extraction "stream_model.ml"
  cctx_garbage init_direct_spec update_direct_spec finalize_direct_spec aead_sgl_spec
  c_hash c_aad_len c_hash_len c_last_ks c_poly_key c_scratch c_lbc c_rks c_rct c_iv
  chachapoly_enc chachapoly_dec
  aesE gctx_garbage gcm_init gcm_update gcm_finalize gmac_init gmac_update gmac_finalize gcm_sgl
  g_hash g_aad_len g_in_len g_pbk g_oiv g_pre g_ctr g_pbl
  gctx_mem_aad_hash gctx_mem_counter gctx_mem_pbk_live
  gcm_enc gcm_dec gmac
  N_to_le.
