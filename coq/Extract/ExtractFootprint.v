(* Extraction of the C07 contract (Struct/Footprint.v) for the K3 contract comparison:
   ocaml/footprint_driver.ml prints objects and write ranges per job view, checks/c07.py compares
   them with the FP lines of harness/k3_place --footprint. *)
From Coq Require Import NArith List.
From IMB Require Import Struct.Footprint.
Require Extraction.
Require Import ExtrOcamlBasic.
Extraction Language OCaml.
Extraction "../../ocaml/footprint_model.ml" mk_fview fp_objs fp_W accepted.
