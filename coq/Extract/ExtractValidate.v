(* Extract/ExtractValidate.v -- extraction of the parameter-check model (ExtrOcamlBasic only:
   bool/option/list/pairs map to OCaml natives, N/positive stay Coq datatypes). *)
From Coq Require Import Extraction ExtrOcamlBasic NArith List.
From IMB Require Import Lib.Bytes Gen.GenEnums Mgr.JobView Gen.GenValidate Mgr.Validate.
Extraction Language OCaml.
Cd "../ocaml".
Extraction "validate_model.ml" is_job_invalid is_job_invalid_light job_ok violations
  well_formed outside_known_discrepancies discrepancy_flags mk_job_view mk_seg
  set_cipher_suite_id_0 set_cipher_suite_id_1 submit_burst_check burst_ok mk_burst_entry mk_burst_view.
Cd "../coq".
