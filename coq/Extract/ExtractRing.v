From Coq Require Import ZArith List.
From IMB Require Import Gen.GenConsts Mgr.Ring Mgr.RingInst.
Require Extraction.
Require Import ExtrOcamlBasic.
Extraction Language OCaml.
Extraction "../../ocaml/ring_model.ml" r_init r_step r_op_ok r_queue_sz is_done mkbjob mkst SIZEOF_IMB_JOB IMB_MAX_JOBS.
