(* Extract/ExtractK1.v — OCaml extraction of the K1 job model (ExtrOcamlBasic
   only: N / positive / nat stay Coq datatypes).  The output file name is
   relative to the working directory of coqc; checks/k1.py runs
     cd /verif/.build/ocaml && coqc -Q /verif/coq IMB /verif/coq/Extract/ExtractK1.v
   so that no generated file lands in /verif/ocaml or /verif/coq. *)
From IMB Require Import Lib.Bytes Struct.JobSem.
Require Extraction.
Require Import ExtrOcamlBasic.
Extraction Language OCaml.
Extraction "k1_model.ml" job_model job_model_niv job_model_loose mkWI.
