From Coq Require Import ZArith List.
From IMB Require Import Mgr.Ooo Mgr.OooSched.
Require Extraction.
Require Import ExtrOcamlBasic.
Extraction Language OCaml.
Extraction "ooo_model.ml" s_reset s_submit s_flush s_unused s_lens s_job.
