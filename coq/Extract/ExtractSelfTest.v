(* Extraction of the C20 model (ExtrOcamlBasic only).  Run with cwd = the output directory:
     coqc -Q /verif/coq IMB /verif/coq/Extract/ExtractSelfTest.v *)
From Coq Require Import NArith List String.
From IMB Require Import Mgr.SelfTestVec Gen.GenSelfTest Mgr.SelfTest.
Require Extraction.
Require Import ExtrOcamlBasic.
Extraction Language OCaml.
Extraction "selftest_model.ml" predict predict0 predict_nocb all_items it_type it_vec vec_descr
  sr_features sr_errno sr_events sr_corrupted sr_ret gen_FEATURE_SELF_TEST gen_FEATURE_SELF_TEST_PASS gen_ERR_SELFTEST.
