(* C13 -- prints the claimed-clean table of the model for checks/c13.py (not part of the proofs) *)
From Coq Require Import List String.
From IMB Require Import Mgr.SafeData Mgr.SafeDataInst.
Set Printing Width 200.
Set Printing Depth 100000.
Eval vm_compute in claimed_clean.
Eval vm_compute in claimed_junk.
