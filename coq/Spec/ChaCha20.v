(* Spec/ChaCha20.v — ChaCha20 (RFC 8439 §2.1-2.4) and the IMB_CIPHER_CHACHA20 job.
   Definitions only; known-answer tests are in Spec/ChaCha20_Tests.v.

   Library-defined behaviour (see CHACHA_CRC_API.md):
   * IMB_CIPHER_CHACHA20 (cipher only) requires iv_len_in_bytes = 12, key 32
     bytes, 0 < msg_len_to_cipher <= 2^38 - 64
     (/repo/lib/include/mb_mgr_job_check.h, case IMB_CIPHER_CHACHA20).
   * The initial block counter of the cipher-only job is 1, not 0
     (/repo/lib/sse_t1/chacha20_sse.asm: first states use [rel dword_1_4] =
     counters 1,2,3,4; tail blocks do "pinsrd xmm3, off/64 ; paddd xmm3,[dword_1]").
     Confirmed on the real library (sse/avx2/avx512). *)
From IMB Require Import Lib.Bytes.
Local Open Scope N_scope.

(* RFC 8439 §2.1 quarter round on four 32-bit words *)
Definition chacha_qr (q : N * N * N * N) : N * N * N * N :=
  let '(a, b, c, d) := q in
  let a := add32 a b in let d := rotl32 (N.lxor d a) 16 in
  let c := add32 c d in let b := rotl32 (N.lxor b c) 12 in
  let a := add32 a b in let d := rotl32 (N.lxor d a) 8 in
  let c := add32 c d in let b := rotl32 (N.lxor b c) 7 in
  (a, b, c, d).

(* the 4x4 state of 32-bit words, row major (x0..x3 constants, x4..x11 key,
   x12 counter, x13..x15 nonce) *)
Inductive chacha_state : Type :=
  ChaSt (x0 x1 x2 x3 x4 x5 x6 x7 x8 x9 x10 x11 x12 x13 x14 x15 : N).

(* one column round followed by one diagonal round (RFC 8439 §2.3) *)
Definition chacha_double_round (s : chacha_state) : chacha_state :=
  let '(ChaSt x0 x1 x2 x3 x4 x5 x6 x7 x8 x9 x10 x11 x12 x13 x14 x15) := s in
  let '(x0, x4, x8,  x12) := chacha_qr (x0, x4, x8,  x12) in
  let '(x1, x5, x9,  x13) := chacha_qr (x1, x5, x9,  x13) in
  let '(x2, x6, x10, x14) := chacha_qr (x2, x6, x10, x14) in
  let '(x3, x7, x11, x15) := chacha_qr (x3, x7, x11, x15) in
  let '(x0, x5, x10, x15) := chacha_qr (x0, x5, x10, x15) in
  let '(x1, x6, x11, x12) := chacha_qr (x1, x6, x11, x12) in
  let '(x2, x7, x8,  x13) := chacha_qr (x2, x7, x8,  x13) in
  let '(x3, x4, x9,  x14) := chacha_qr (x3, x4, x9,  x14) in
  ChaSt x0 x1 x2 x3 x4 x5 x6 x7 x8 x9 x10 x11 x12 x13 x14 x15.

Definition chacha_add (s t : chacha_state) : chacha_state :=
  let '(ChaSt x0 x1 x2 x3 x4 x5 x6 x7 x8 x9 x10 x11 x12 x13 x14 x15) := s in
  let '(ChaSt y0 y1 y2 y3 y4 y5 y6 y7 y8 y9 y10 y11 y12 y13 y14 y15) := t in
  ChaSt (add32 x0 y0) (add32 x1 y1) (add32 x2 y2) (add32 x3 y3)
        (add32 x4 y4) (add32 x5 y5) (add32 x6 y6) (add32 x7 y7)
        (add32 x8 y8) (add32 x9 y9) (add32 x10 y10) (add32 x11 y11)
        (add32 x12 y12) (add32 x13 y13) (add32 x14 y14) (add32 x15 y15).

Definition chacha_words (s : chacha_state) : list N :=
  let '(ChaSt x0 x1 x2 x3 x4 x5 x6 x7 x8 x9 x10 x11 x12 x13 x14 x15) := s in
  [x0; x1; x2; x3; x4; x5; x6; x7; x8; x9; x10; x11; x12; x13; x14; x15].

Definition chacha_serialize (s : chacha_state) : bytes :=
  flat_map le32 (chacha_words s).

(* initial state: constants "expand 32-byte k", key as 8 LE words, 32-bit block
   counter, nonce as 3 LE words.  A short key / nonce is read as if zero padded
   (only 32-byte keys and 12-byte nonces are meaningful). *)
Definition chacha_init (key : bytes) (counter : N) (nonce : bytes) : chacha_state :=
  let k := words_le 4 (firstn 32 key) in
  let n := words_le 4 (firstn 12 nonce) in
  ChaSt 1634760805 857760878 2036477234 1797285236   (* 0x61707865 0x3320646e 0x79622d32 0x6b206574 *)
        (nth_N k 0) (nth_N k 1) (nth_N k 2) (nth_N k 3)
        (nth_N k 4) (nth_N k 5) (nth_N k 6) (nth_N k 7)
        (w32 counter) (nth_N n 0) (nth_N n 1) (nth_N n 2).

(* RFC 8439 §2.3: chacha20_block key(32) counter nonce(12) : 64 bytes *)
Definition chacha20_block (key : bytes) (counter : N) (nonce : bytes) : bytes :=
  let s0 := chacha_init key counter nonce in
  chacha_serialize (chacha_add (iter 10 chacha_double_round s0) s0).

(* xor successive 64-byte chunks with successive key stream blocks; the block
   counter is a 32-bit word (chacha_init reduces it with w32). *)
Fixpoint chacha20_chunks (key nonce : bytes) (counter : N) (cs : list bytes) : bytes :=
  match cs with
  | [] => []
  | c :: t => xor_bytes c (chacha20_block key counter nonce)
              ++ chacha20_chunks key nonce (counter + 1) t
  end.

(* RFC 8439 §2.4: chacha20 key(32) nonce(12) initial_counter msg; output has the
   length of msg; encryption = decryption. *)
Definition chacha20 (key nonce : bytes) (counter : N) (msg : bytes) : bytes :=
  chacha20_chunks key nonce counter (chunks 64 msg).

(* First [n] bytes of key stream starting at block [counter] *)
Definition chacha20_keystream (key nonce : bytes) (counter : N) (n : nat) : bytes :=
  chacha20 key nonce counter (zeros n).

(* What an IMB_CIPHER_CHACHA20 job (either direction) writes to dst for
   src[cipher_start .. cipher_start+len) = msg, enc_keys = key (32 raw bytes, no
   key expansion), iv = 12 bytes: RFC 8439 ChaCha20 with initial counter 1. *)
Definition chacha20_job_initial_counter : N := 1.
Definition chacha20_job_iv_len : nat := 12.
Definition chacha20_job (key iv msg : bytes) : bytes :=
  chacha20 key iv chacha20_job_initial_counter msg.
