(* Spec/AESModes.v — block cipher modes of operation as used by intel-ipsec-mb,
   generic over the block function, instantiated with AES (Spec/AES.v).
   Definitions only.  Conventions: see Spec/README_AGENTS.md.  A precise list
   of exports and of the library-defined behaviours is in Spec/AES_API.md.

   Section [Modes] is generic over [E D : bytes -> bytes] (16-byte block ->
   16-byte block; D is only used by ECB/CBC/CBCS/DOCSIS decryption).  The
   generic definitions carry the suffix [_gen]; they are reused for SM4.
   The AES instances take the RAW key (16/24/32 bytes; the key length selects
   AES-128/192/256) and expand it once per message.

   Library-defined behaviour modelled here (all determined by running
   libIPSec_MB.so through the job API with init_mb_mgr_sse/avx2/avx512; the
   three managers agree on everything in the accepted domain):

   * IMB_CIPHER_CNTR: 12-byte IV -> counter block IV || 00 00 00 01; 16-byte IV
     -> used as is.  Only the LAST 32 BITS (big endian) count, +1 per block
     mod 2^32, no carry into byte 11
     (/repo/lib/sse_t1/aes128_cntr_by8_sse.asm: [%define %%PADD paddd] on the
     byte-swapped block; same on AVX2-VAES and AVX512-VAES kernels).
   * IMB_CIPHER_CNTR_BITLEN: IV must be 16 bytes; the LAST 64 BITS count,
     mod 2^64, no carry into byte 7 ([%define %%PADD paddq], same file, and
     [vpaddq] in /repo/lib/include/aes_cntr_by16_vaes_avx512.inc).  If the bit
     length is not a multiple of 8, with r = bitlen mod 8, the last output byte
     has its r most significant bits = src xor keystream and its 8-r least
     significant bits = the byte that was in dst before the call (same file,
     "Clear all the bits that do not need to be preserved from the output").
   * IMB_CIPHER_CFB: the job API (SAFE_PARAM build) rejects lengths that are
     not a multiple of 16 (/repo/lib/include/mb_mgr_job_check.h, case
     IMB_CIPHER_CFB: [msg_len_to_cipher_in_bytes & 15] -> IMB_ERR_JOB_CIPH_LEN).
     With IMB_SUBMIT_JOB_NOCHECK the SSE kernels implement the usual CFB128
     truncated last segment (as modelled here and as IMB_AES128_CFB_ONE does),
     but the VAES kernels (AVX2 decrypt; AVX512 both directions) leave the
     trailing partial block of dst untouched.
   * IMB_CIPHER_CBCS_1_9: blocks 0,10,20,... are CBC-chained among themselves,
     the 9 following blocks are "in the clear": the library does not touch the
     corresponding bytes of dst at all (so out of place they are NOT copied
     from src).  [cbcs_enc/dec] model the in-place result; [cbcs_oop] the
     out-of-place one.  next_iv := last ciphertext block at a position that is
     a multiple of 10.  The library only has an AES-128 kernel but its job check
     accepts 24/32-byte keys; see [cbcs_enc_lib].
   * IMB_CIPHER_DOCSIS_SEC_BPI (/repo/lib/include/docsis_common.h): keys of 16
     or 32 bytes; len >= 16: CBC over the floor(len/16) whole blocks, remaining
     r bytes xored with the first r bytes of E(last ciphertext block); len < 16:
     xored with E(iv); len = 0 accepted.                                       *)
From IMB Require Import Lib.Bytes Spec.AES.
Local Open Scope N_scope.

(* ------------------------------------------------------------------------- *)
(* Helpers                                                                    *)
(* ------------------------------------------------------------------------- *)

(* first [n] 16-byte blocks of [l] and the rest *)
Fixpoint split_blocks (n : nat) (l : bytes) : list bytes * bytes :=
  match n with
  | O => ([], l)
  | S k => let '(bs, tl) := split_blocks k (skipn 16 l) in (firstn 16 l :: bs, tl)
  end.

(* all whole 16-byte blocks of [l] and the trailing 0..15 bytes *)
Definition blocks16 (l : bytes) : list bytes * bytes :=
  split_blocks (Nat.div (length l) 16) l.

(* apply [f] to the last element only *)
Fixpoint map_last (f : N -> N) (l : bytes) : bytes :=
  match l with
  | [] => []
  | [x] => [f x]
  | x :: t => x :: map_last f t
  end.

Section Modes.
  Variable E : bytes -> bytes.   (* forward block function, 16 -> 16 bytes *)
  Variable D : bytes -> bytes.   (* inverse block function *)

  (* ----------------------------------------------------------------------- *)
  (* ECB.  Library domain: length a non-zero multiple of 16.  (Totality:      *)
  (* trailing 1..15 bytes are returned unchanged.)                            *)
  (* ----------------------------------------------------------------------- *)
  Fixpoint ecb_blocks (f : bytes -> bytes) (bs : list bytes) : list bytes :=
    match bs with
    | [] => []
    | b :: r => f b :: ecb_blocks f r
    end.

  Definition ecb_gen (f : bytes -> bytes) (msg : bytes) : bytes :=
    let '(bs, tl) := blocks16 msg in concat (ecb_blocks f bs) ++ tl.

  Definition ecb_enc_gen (msg : bytes) : bytes := ecb_gen E msg.
  Definition ecb_dec_gen (msg : bytes) : bytes := ecb_gen D msg.

  (* ----------------------------------------------------------------------- *)
  (* CBC.  Library domain: 16-byte IV, length a non-zero multiple of 16.      *)
  (* (Totality: trailing 1..15 bytes are returned unchanged.)                 *)
  (* ----------------------------------------------------------------------- *)
  (* [ch] = chaining value (IV, then previous ciphertext block) *)
  Fixpoint cbc_enc_blocks (ch : bytes) (bs : list bytes) : list bytes :=
    match bs with
    | [] => []
    | b :: r => let c := E (xor_bytes b ch) in c :: cbc_enc_blocks c r
    end.

  Fixpoint cbc_dec_blocks (ch : bytes) (bs : list bytes) : list bytes :=
    match bs with
    | [] => []
    | c :: r => xor_bytes (D c) ch :: cbc_dec_blocks c r
    end.

  Definition cbc_enc_gen (iv msg : bytes) : bytes :=
    let '(bs, tl) := blocks16 msg in concat (cbc_enc_blocks iv bs) ++ tl.
  Definition cbc_dec_gen (iv msg : bytes) : bytes :=
    let '(bs, tl) := blocks16 msg in concat (cbc_dec_blocks iv bs) ++ tl.

  (* ----------------------------------------------------------------------- *)
  (* CTR with a big-endian counter occupying the last [nb] bytes of the       *)
  (* 16-byte counter block, incremented modulo 2^(8*nb) without carry into    *)
  (* the preceding bytes.  Any message length.                                *)
  (* ----------------------------------------------------------------------- *)
  (* [cs] = 16-byte chunks of the message, the last one possibly shorter;
     [xor_bytes] truncates the keystream block to the chunk length. *)
  Fixpoint ctr_loop (pre : bytes) (nb : nat) (mask c : N) (cs : list bytes)
    : list bytes :=
    match cs with
    | [] => []
    | m :: r =>
      xor_bytes m (E (pre ++ N_to_be nb c))
        :: ctr_loop pre nb mask (N.land (c + 1) mask) r
    end.

  Definition ctr_w_gen (nb : nat) (ctrblk msg : bytes) : bytes :=
    let pre := firstn (16 - nb) ctrblk in
    let c0 := be_to_N (skipn (16 - nb) ctrblk) in
    let mask := N.ones (8 * N.of_nat nb) in
    concat (ctr_loop pre nb mask c0 (chunks 16 msg)).

  (* IMB_CIPHER_CNTR initial counter block: 12-byte IV (nonce||ESP IV) gets the
     32-bit block counter 1 appended; anything else (library: only 16) is used
     as is. *)
  Definition ctr_iv_block (iv : bytes) : bytes :=
    if Nat.eqb (length iv) 12 then iv ++ [0; 0; 0; 1] else iv.

  (* IMB_CIPHER_CNTR: 32-bit counter *)
  Definition ctr_gen (iv msg : bytes) : bytes :=
    ctr_w_gen 4 (ctr_iv_block iv) msg.

  (* IMB_CIPHER_CNTR_BITLEN: 16-byte IV, 64-bit counter, length in bits.
     Uses the first ceil(bitlen/8) bytes of [msg]; returns that many bytes.
     [dst_orig] = previous contents of the destination buffer (only its byte at
     index ceil(bitlen/8)-1 matters, and only if bitlen mod 8 <> 0; for an
     in-place operation pass [msg]). *)
  Definition ctr_bits_gen (iv msg : bytes) (bitlen : N) (dst_orig : bytes) : bytes :=
    let nbytes := N.to_nat (N.shiftr (bitlen + 7) 3) in
    let r := N.land bitlen 7 in
    let full := ctr_w_gen 8 iv (firstn nbytes msg) in
    match r with
    | 0 => full
    | _ =>
      let keep := N.shiftr 255 r in           (* low 8-r bits: preserved *)
      let d := nth (nbytes - 1) dst_orig 0 in
      map_last (fun x => N.lor (N.land x (N.lxor keep 255)) (N.land d keep)) full
    end.

  (* ----------------------------------------------------------------------- *)
  (* CFB128, any length (last segment truncated).  Library job API: multiples *)
  (* of 16 only (see header).  Decryption also only uses E.                   *)
  (* ----------------------------------------------------------------------- *)
  Fixpoint cfb_enc_loop (fb : bytes) (cs : list bytes) : list bytes :=
    match cs with
    | [] => []
    | m :: r => let c := xor_bytes m (E fb) in c :: cfb_enc_loop c r
    end.

  Fixpoint cfb_dec_loop (fb : bytes) (cs : list bytes) : list bytes :=
    match cs with
    | [] => []
    | c :: r => xor_bytes c (E fb) :: cfb_dec_loop c r
    end.

  Definition cfb_enc_gen (iv msg : bytes) : bytes :=
    concat (cfb_enc_loop iv (chunks 16 msg)).
  Definition cfb_dec_gen (iv msg : bytes) : bytes :=
    concat (cfb_dec_loop iv (chunks 16 msg)).

  (* ----------------------------------------------------------------------- *)
  (* CBCS 1:9 pattern (ISO 23001-7 'cbcs' with crypt:skip = 1:9).             *)
  (* Library domain: 16-byte IV, length a non-zero multiple of 16.            *)
  (* [k] = number of blocks to skip before the next encrypted one.            *)
  (* (Totality: trailing 1..15 bytes are returned unchanged.)                 *)
  (* ----------------------------------------------------------------------- *)
  Fixpoint cbcs_enc_blocks (ch : bytes) (k : nat) (bs : list bytes) : list bytes :=
    match bs with
    | [] => []
    | b :: r =>
      match k with
      | O => let c := E (xor_bytes b ch) in c :: cbcs_enc_blocks c 9 r
      | S k' => b :: cbcs_enc_blocks ch k' r
      end
    end.

  Fixpoint cbcs_dec_blocks (ch : bytes) (k : nat) (bs : list bytes) : list bytes :=
    match bs with
    | [] => []
    | c :: r =>
      match k with
      | O => xor_bytes (D c) ch :: cbcs_dec_blocks c 9 r
      | S k' => c :: cbcs_dec_blocks ch k' r
      end
    end.

  Definition cbcs_enc_gen (iv msg : bytes) : bytes :=
    let '(bs, tl) := blocks16 msg in concat (cbcs_enc_blocks iv 0 bs) ++ tl.
  Definition cbcs_dec_gen (iv msg : bytes) : bytes :=
    let '(bs, tl) := blocks16 msg in concat (cbcs_dec_blocks iv 0 bs) ++ tl.

  (* ----------------------------------------------------------------------- *)
  (* DOCSIS SEC BPI: CBC + CFB residual termination.  Any length incl. 0.     *)
  (* ----------------------------------------------------------------------- *)
  Definition docsis_enc_gen (iv msg : bytes) : bytes :=
    let '(bs, tl) := blocks16 msg in
    match bs with
    | [] => match tl with [] => [] | _ => xor_bytes tl (E iv) end
    | _ =>
      let cs := cbc_enc_blocks iv bs in
      concat cs ++ match tl with [] => [] | _ => xor_bytes tl (E (last cs iv)) end
    end.

  Definition docsis_dec_gen (iv msg : bytes) : bytes :=
    let '(bs, tl) := blocks16 msg in
    match bs with
    | [] => match tl with [] => [] | _ => xor_bytes tl (E iv) end
    | _ =>
      concat (cbc_dec_blocks iv bs)
        ++ match tl with [] => [] | _ => xor_bytes tl (E (last bs iv)) end
    end.
End Modes.

(* ------------------------------------------------------------------------- *)
(* CBCS helpers that do not depend on the block function                      *)
(* ------------------------------------------------------------------------- *)

(* the last block at a position = 0 mod 10 ([k] as above), default [ch] *)
Fixpoint cbcs_last_blocks (ch : bytes) (k : nat) (bs : list bytes) : bytes :=
  match bs with
  | [] => ch
  | c :: r =>
    match k with
    | O => cbcs_last_blocks c 9 r
    | S k' => cbcs_last_blocks ch k' r
    end
  end.

(* Value written to job->cipher_fields.CBCS.next_iv, as a function of the IV
   and of the CIPHERTEXT (encrypt: the output; decrypt: the input). *)
Definition cbcs_next_iv (iv ct : bytes) : bytes :=
  cbcs_last_blocks iv 0 (fst (blocks16 ct)).

(* take the block from [xs] at positions = 0 mod 10 and from [ys] elsewhere *)
Fixpoint cbcs_select (k : nat) (xs ys : list bytes) : list bytes :=
  match xs, ys with
  | x :: xr, y :: yr =>
    match k with
    | O => x :: cbcs_select 9 xr yr
    | S k' => y :: cbcs_select k' xr yr
    end
  | _, _ => []
  end.

(* Out-of-place CBCS job: [res] = cbcs_enc/dec key iv src, [dst_orig] =
   previous contents of dst (same length, multiple of 16).  Only the blocks at
   positions 0,10,20,... are written. *)
Definition cbcs_oop (res dst_orig : bytes) : bytes :=
  concat (cbcs_select 0 (fst (blocks16 res)) (fst (blocks16 dst_orig))).

(* ------------------------------------------------------------------------- *)
(* AES instances.  [key] = raw key, 16/24/32 bytes.                           *)
(* ------------------------------------------------------------------------- *)

(* IMB_CIPHER_ECB *)
Definition ecb_enc (key msg : bytes) : bytes :=
  ecb_enc_gen (aes_enc_rk (aes_key_expand key)) msg.
Definition ecb_dec (key msg : bytes) : bytes :=
  ecb_dec_gen (aes_dec_rk (aes_key_expand key)) msg.

(* IMB_CIPHER_CBC *)
Definition cbc_enc (key iv msg : bytes) : bytes :=
  cbc_enc_gen (aes_enc_rk (aes_key_expand key)) iv msg.
Definition cbc_dec (key iv msg : bytes) : bytes :=
  cbc_dec_gen (aes_dec_rk (aes_key_expand key)) iv msg.

(* IMB_CIPHER_CNTR (encrypt = decrypt) *)
Definition ctr (key iv msg : bytes) : bytes :=
  ctr_gen (aes_enc_rk (aes_key_expand key)) iv msg.

(* IMB_CIPHER_CNTR_BITLEN (encrypt = decrypt) *)
Definition ctr_bits (key iv msg : bytes) (bitlen : N) (dst_orig : bytes) : bytes :=
  ctr_bits_gen (aes_enc_rk (aes_key_expand key)) iv msg bitlen dst_orig.

(* IMB_CIPHER_CFB *)
Definition cfb_enc (key iv msg : bytes) : bytes :=
  cfb_enc_gen (aes_enc_rk (aes_key_expand key)) iv msg.
Definition cfb_dec (key iv msg : bytes) : bytes :=
  cfb_dec_gen (aes_enc_rk (aes_key_expand key)) iv msg.

(* IMB_CIPHER_CBCS_1_9, in place; the cipher is AES with the full key schedule
   of [key] (for a 16-byte key this is what the library computes). *)
Definition cbcs_enc (key iv msg : bytes) : bytes :=
  cbcs_enc_gen (aes_enc_rk (aes_key_expand key)) iv msg.
Definition cbcs_dec (key iv msg : bytes) : bytes :=
  cbcs_dec_gen (aes_dec_rk (aes_key_expand key)) iv msg.

(* Exactly what the library computes for IMB_CIPHER_CBCS_1_9 with
   key_len_in_bytes = 16, 24 or 32 when enc_keys/dec_keys come from
   IMB_AES_KEYEXP_{128,192,256}: its only kernel is the 10-round AES-128 one
   (/repo/lib/include/mb_mgr_job_api.h: SUBMIT_JOB_AES128_CBCS_1_9_ENC/DEC for
   every key size, while is_job_invalid accepts 16/24/32), so it uses round
   keys 0..10 of whatever schedule it is given: enc_keys[0..10] with
   AESENC/AESENCLAST and dec_keys[0..10] with AESDEC/AESDECLAST.  For 24/32
   byte keys these two are not inverse of each other. *)
Definition cbcs_enc_lib (key iv msg : bytes) : bytes :=
  cbcs_enc_gen (aes_enc_rk (firstn 11 (aes_key_expand key))) iv msg.
Definition cbcs_dec_lib (key iv msg : bytes) : bytes :=
  cbcs_dec_gen (aes_eqdec_dk (firstn 11 (aes_dec_schedule key))) iv msg.

(* IMB_CIPHER_DOCSIS_SEC_BPI (library: 16 or 32 byte keys only) *)
Definition docsis_aes_enc (key iv msg : bytes) : bytes :=
  let rk := aes_key_expand key in
  docsis_enc_gen (aes_enc_rk rk) iv msg.
Definition docsis_aes_dec (key iv msg : bytes) : bytes :=
  let rk := aes_key_expand key in
  docsis_dec_gen (aes_enc_rk rk) (aes_dec_rk rk) iv msg.
