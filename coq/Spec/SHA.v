(* Spec/SHA.v — SHA-1, SHA-224, SHA-256, SHA-384, SHA-512 (FIPS 180-4), plus the
   generic Merkle–Damgård plumbing ([md_pad], [md_blocks], record [md_hash])
   shared with Spec/MD5.v, Spec/SM3.v and Spec/HMAC.v.  Definitions only.

   Conventions
   * a hash state is a [list N] of 5 (SHA-1) or 8 words, each < 2^32 (2^64 for
     SHA-384/512); SHA-224 / SHA-384 keep the full 8-word state, truncation
     happens only in [X_digest_of_state];
   * a block is [bytes] of exactly 64 (128 for SHA-384/512) bytes;
   * [X_pad total data] takes the TOTAL message length (in bytes) separately
     from the trailing data it pads, so that "some prefix blocks already
     compressed" (HMAC ipad/opad, the library's extra-block construction in
     /repo/lib/include/mb_mgr_hmac*.inc, sha_generic.h) can be expressed:
       X (p ++ m) = X_digest_of_state (X_blocks (X_blocks X_init p)
                                         (X_pad (length p + length m) m))
     whenever length p is a multiple of the block size. *)
From IMB Require Import Lib.Bytes.
Local Open Scope N_scope.

(* ------------------------------------------------------------------------- *)
(* Generic Merkle–Damgård plumbing                                            *)
(* ------------------------------------------------------------------------- *)

(* [md_pad B L be total data] = data ++ 0x80 ++ 0^k ++ len, where len is
   8*total encoded on L bytes (big-endian iff [be]; truncated mod 2^(8L)) and
   k >= 0 is minimal such that the result length is a multiple of B.
   B = block size in bytes (64/128), L = 8 or 16. *)
Definition md_pad (B L : nat) (be : bool) (total : nat) (data : bytes) : bytes :=
  let r := Nat.modulo (length data + 1 + L) B in
  let k := Nat.modulo (B - r) B in
  let bits := 8 * N.of_nat total in
  data ++ 128 :: zeros k ++ (if be then N_to_be L bits else N_to_le L bits).

(* Fold a compression function over the complete B-byte blocks of [data]
   (a trailing partial block, if any, is ignored).  fuel = length data. *)
Fixpoint md_blocks_fuel (B : nat) (f : list N -> bytes -> list N)
         (fuel : nat) (st : list N) (data : bytes) : list N :=
  match fuel with
  | O => st
  | S fu =>
      let blk := firstn B data in
      if Nat.eqb (length blk) B
      then md_blocks_fuel B f fu (f st blk) (skipn B data)
      else st
  end.
Definition md_blocks (B : nat) (f : list N -> bytes -> list N)
           (st : list N) (data : bytes) : list N :=
  match B with
  | O => st
  | _ => md_blocks_fuel B f (length data) st data
  end.

(* Description of one Merkle–Damgård hash, used by Spec/HMAC.v.
   [md_ser]/[md_deser] are the LIBRARY's raw-state serialisation, i.e. the byte
   layout of the buffers written by IMB_SHAxxx_ONE_BLOCK / IMB_MD5_ONE_BLOCK /
   sm3_one_block_sse and consumed through job->u.HMAC._hashed_auth_key_xor_ipad
   / _opad (see /repo/lib/x86_64/hmac_ipad_opad.c); this is NOT the digest byte
   order for the SHA family (state words are stored as native little-endian
   uint32/uint64, all 8 words even for SHA-224/384). *)
Record md_hash : Type := MkMdHash {
  md_block : nat;                             (* block size in bytes *)
  md_dlen : nat;                              (* digest size in bytes *)
  md_init : list N;
  md_compress : list N -> bytes -> list N;
  md_padf : nat -> bytes -> bytes;            (* X_pad *)
  md_digest : list N -> bytes;                (* X_digest_of_state *)
  md_ser : list N -> bytes;                   (* library raw state bytes *)
  md_deser : bytes -> list N;                 (* inverse of md_ser *)
  md_ipad_long_key : bool                     (* imb_hmac_ipad_opad accepts keys > block *)
}.

Definition md_run_blocks (X : md_hash) (st : list N) (data : bytes) : list N :=
  md_blocks (md_block X) (md_compress X) st data.

(* state after absorbing [data] as the tail of a message whose total length is
   [total] bytes, starting from state [st] (which has absorbed total - length
   data bytes, a multiple of the block size) *)
Definition md_finish (X : md_hash) (st : list N) (total : nat) (data : bytes) : bytes :=
  md_digest X (md_run_blocks X st (md_padf X total data)).

Definition md_full (X : md_hash) (msg : bytes) : bytes :=
  md_finish X (md_init X) (length msg) msg.

(* ------------------------------------------------------------------------- *)
(* Word parsing / serialisation                                               *)
(* ------------------------------------------------------------------------- *)

Fixpoint be32s (l : bytes) : list N :=
  match l with
  | a :: b :: c :: d :: t =>
      N.lor (N.shiftl (w8 a) 24)
        (N.lor (N.shiftl (w8 b) 16) (N.lor (N.shiftl (w8 c) 8) (w8 d))) :: be32s t
  | _ => []
  end.

Fixpoint le32s (l : bytes) : list N :=
  match l with
  | a :: b :: c :: d :: t =>
      N.lor (N.shiftl (w8 d) 24)
        (N.lor (N.shiftl (w8 c) 16) (N.lor (N.shiftl (w8 b) 8) (w8 a))) :: le32s t
  | _ => []
  end.

Fixpoint be64s (l : bytes) : list N :=
  match l with
  | a :: b :: c :: d :: e :: f :: g :: h :: t =>
      N.lor (N.shiftl (w8 a) 56) (N.lor (N.shiftl (w8 b) 48)
       (N.lor (N.shiftl (w8 c) 40) (N.lor (N.shiftl (w8 d) 32)
        (N.lor (N.shiftl (w8 e) 24) (N.lor (N.shiftl (w8 f) 16)
         (N.lor (N.shiftl (w8 g) 8) (w8 h))))))) :: be64s t
  | _ => []
  end.

Fixpoint le64s (l : bytes) : list N :=
  match l with
  | a :: b :: c :: d :: e :: f :: g :: h :: t =>
      N.lor (N.shiftl (w8 h) 56) (N.lor (N.shiftl (w8 g) 48)
       (N.lor (N.shiftl (w8 f) 40) (N.lor (N.shiftl (w8 e) 32)
        (N.lor (N.shiftl (w8 d) 24) (N.lor (N.shiftl (w8 c) 16)
         (N.lor (N.shiftl (w8 b) 8) (w8 a))))))) :: le64s t
  | _ => []
  end.

Definition ser_be32 (st : list N) : bytes := flat_map be32 st.
Definition ser_le32 (st : list N) : bytes := flat_map le32 st.
Definition ser_be64 (st : list N) : bytes := flat_map be64 st.
Definition ser_le64 (st : list N) : bytes := flat_map le64 st.

(* pointwise modular addition of two states *)
Fixpoint add32s (a b : list N) : list N :=
  match a, b with
  | x :: a', y :: b' => add32 x y :: add32s a' b'
  | _, _ => []
  end.
Fixpoint add64s (a b : list N) : list N :=
  match a, b with
  | x :: a', y :: b' => add64 x y :: add64s a' b'
  | _, _ => []
  end.

(* ------------------------------------------------------------------------- *)
(* SHA-1 (FIPS 180-4 §6.1)                                                    *)
(* ------------------------------------------------------------------------- *)

Definition sha1_init : list N :=
  [0x67452301; 0xefcdab89; 0x98badcfe; 0x10325476; 0xc3d2e1f0].

Definition f_ch32 (x y z : N) : N := N.lxor (N.land x y) (N.land (not32 x) z).
Definition f_parity (x y z : N) : N := N.lxor x (N.lxor y z).
Definition f_maj (x y z : N) : N :=
  N.lxor (N.land x y) (N.lxor (N.land x z) (N.land y z)).

(* message schedule; [rw] holds W_{t-1} :: W_{t-2} :: ... (newest first) *)
Fixpoint sha1_sched (n : nat) (rw : list N) : list N :=
  match n with
  | O => rw
  | S k =>
      match rw with
      | _ :: _ :: w3 :: _ :: _ :: _ :: _ :: w8_ :: _ :: _ :: _ :: _ :: _ :: w14 :: _ :: w16 :: _ =>
          sha1_sched k (rotl32 (N.lxor (N.lxor w3 w8_) (N.lxor w14 w16)) 1 :: rw)
      | _ => rw
      end
  end.
Definition sha1_W (block : bytes) : list N := rev (sha1_sched 64 (rev (be32s block))).

Definition st5 : Type := (N * N * N * N * N)%type.

(* [n] rounds with function f and constant k, consuming the head of [ws];
   returns the remaining schedule *)
Fixpoint sha1_rounds (n : nat) (f : N -> N -> N -> N) (k : N) (ws : list N) (s : st5)
  : list N * st5 :=
  match n with
  | O => (ws, s)
  | S n' =>
      match ws with
      | [] => (ws, s)
      | w :: ws' =>
          let '(a, b, c, d, e) := s in
          let t := w32 (rotl32 a 5 + f b c d + e + k + w) in
          sha1_rounds n' f k ws' (t, a, rotl32 b 30, c, d)
      end
  end.

Definition sha1_compress (st : list N) (block : bytes) : list N :=
  match st with
  | [a; b; c; d; e] =>
      let s0 := (a, b, c, d, e) in
      let (w1, s1) := sha1_rounds 20 f_ch32 0x5a827999 (sha1_W block) s0 in
      let (w2, s2) := sha1_rounds 20 f_parity 0x6ed9eba1 w1 s1 in
      let (w3, s3) := sha1_rounds 20 f_maj 0x8f1bbcdc w2 s2 in
      let (_, s4) := sha1_rounds 20 f_parity 0xca62c1d6 w3 s3 in
      let '(a', b', c', d', e') := s4 in
      [add32 a a'; add32 b b'; add32 c c'; add32 d d'; add32 e e']
  | _ => st
  end.

Definition sha1_pad (total : nat) (data : bytes) : bytes := md_pad 64 8 true total data.
Definition sha1_blocks (st : list N) (data : bytes) : list N := md_blocks 64 sha1_compress st data.
Definition sha1_digest_of_state (st : list N) : bytes := ser_be32 st.
Definition sha1 (msg : bytes) : bytes :=
  sha1_digest_of_state (sha1_blocks sha1_init (sha1_pad (length msg) msg)).

(* ------------------------------------------------------------------------- *)
(* SHA-256 / SHA-224 (FIPS 180-4 §6.2, §6.3)                                  *)
(* ------------------------------------------------------------------------- *)

Definition sha256_K : list N :=
  [0x428a2f98; 0x71374491; 0xb5c0fbcf; 0xe9b5dba5; 0x3956c25b; 0x59f111f1; 0x923f82a4; 0xab1c5ed5;
   0xd807aa98; 0x12835b01; 0x243185be; 0x550c7dc3; 0x72be5d74; 0x80deb1fe; 0x9bdc06a7; 0xc19bf174;
   0xe49b69c1; 0xefbe4786; 0x0fc19dc6; 0x240ca1cc; 0x2de92c6f; 0x4a7484aa; 0x5cb0a9dc; 0x76f988da;
   0x983e5152; 0xa831c66d; 0xb00327c8; 0xbf597fc7; 0xc6e00bf3; 0xd5a79147; 0x06ca6351; 0x14292967;
   0x27b70a85; 0x2e1b2138; 0x4d2c6dfc; 0x53380d13; 0x650a7354; 0x766a0abb; 0x81c2c92e; 0x92722c85;
   0xa2bfe8a1; 0xa81a664b; 0xc24b8b70; 0xc76c51a3; 0xd192e819; 0xd6990624; 0xf40e3585; 0x106aa070;
   0x19a4c116; 0x1e376c08; 0x2748774c; 0x34b0bcb5; 0x391c0cb3; 0x4ed8aa4a; 0x5b9cca4f; 0x682e6ff3;
   0x748f82ee; 0x78a5636f; 0x84c87814; 0x8cc70208; 0x90befffa; 0xa4506ceb; 0xbef9a3f7; 0xc67178f2].

Definition sha256_init : list N :=
  [0x6a09e667; 0xbb67ae85; 0x3c6ef372; 0xa54ff53a; 0x510e527f; 0x9b05688c; 0x1f83d9ab; 0x5be0cd19].
Definition sha224_init : list N :=
  [0xc1059ed8; 0x367cd507; 0x3070dd17; 0xf70e5939; 0xffc00b31; 0x68581511; 0x64f98fa7; 0xbefa4fa4].

Definition bsig0_256 (x : N) : N := N.lxor (rotr32 x 2) (N.lxor (rotr32 x 13) (rotr32 x 22)).
Definition bsig1_256 (x : N) : N := N.lxor (rotr32 x 6) (N.lxor (rotr32 x 11) (rotr32 x 25)).
Definition ssig0_256 (x : N) : N := N.lxor (rotr32 x 7) (N.lxor (rotr32 x 18) (N.shiftr x 3)).
Definition ssig1_256 (x : N) : N := N.lxor (rotr32 x 17) (N.lxor (rotr32 x 19) (N.shiftr x 10)).

Fixpoint sha256_sched (n : nat) (rw : list N) : list N :=
  match n with
  | O => rw
  | S k =>
      match rw with
      | _ :: w2 :: _ :: _ :: _ :: _ :: w7 :: _ :: _ :: _ :: _ :: _ :: _ :: _ :: w15 :: w16 :: _ =>
          sha256_sched k (w32 (ssig1_256 w2 + w7 + ssig0_256 w15 + w16) :: rw)
      | _ => rw
      end
  end.
Definition sha256_W (block : bytes) : list N := rev (sha256_sched 48 (rev (be32s block))).

Definition st8 : Type := (N * N * N * N * N * N * N * N)%type.

Definition sha256_round (s : st8) (k w : N) : st8 :=
  let '(a, b, c, d, e, f, g, h) := s in
  let t1 := h + bsig1_256 e + f_ch32 e f g + k + w in
  let t2 := bsig0_256 a + f_maj a b c in
  (w32 (t1 + t2), a, b, c, w32 (d + t1), e, f, g).

Fixpoint sha256_rounds (ks ws : list N) (s : st8) : st8 :=
  match ks, ws with
  | k :: ks', w :: ws' => sha256_rounds ks' ws' (sha256_round s k w)
  | _, _ => s
  end.

Definition sha256_compress (st : list N) (block : bytes) : list N :=
  match st with
  | [a; b; c; d; e; f; g; h] =>
      let '(a', b', c', d', e', f', g', h') :=
        sha256_rounds sha256_K (sha256_W block) (a, b, c, d, e, f, g, h) in
      [add32 a a'; add32 b b'; add32 c c'; add32 d d';
       add32 e e'; add32 f f'; add32 g g'; add32 h h']
  | _ => st
  end.

Definition sha256_pad (total : nat) (data : bytes) : bytes := md_pad 64 8 true total data.
Definition sha256_blocks (st : list N) (data : bytes) : list N :=
  md_blocks 64 sha256_compress st data.
Definition sha256_digest_of_state (st : list N) : bytes := ser_be32 st.
Definition sha256 (msg : bytes) : bytes :=
  sha256_digest_of_state (sha256_blocks sha256_init (sha256_pad (length msg) msg)).

Definition sha224_compress : list N -> bytes -> list N := sha256_compress.
Definition sha224_pad : nat -> bytes -> bytes := sha256_pad.
Definition sha224_blocks : list N -> bytes -> list N := sha256_blocks.
Definition sha224_digest_of_state (st : list N) : bytes := firstn 28 (ser_be32 st).
Definition sha224 (msg : bytes) : bytes :=
  sha224_digest_of_state (sha224_blocks sha224_init (sha224_pad (length msg) msg)).

(* ------------------------------------------------------------------------- *)
(* SHA-512 / SHA-384 (FIPS 180-4 §6.4, §6.5)                                  *)
(* ------------------------------------------------------------------------- *)

Definition sha512_K : list N :=
  [0x428a2f98d728ae22; 0x7137449123ef65cd; 0xb5c0fbcfec4d3b2f; 0xe9b5dba58189dbbc;
   0x3956c25bf348b538; 0x59f111f1b605d019; 0x923f82a4af194f9b; 0xab1c5ed5da6d8118;
   0xd807aa98a3030242; 0x12835b0145706fbe; 0x243185be4ee4b28c; 0x550c7dc3d5ffb4e2;
   0x72be5d74f27b896f; 0x80deb1fe3b1696b1; 0x9bdc06a725c71235; 0xc19bf174cf692694;
   0xe49b69c19ef14ad2; 0xefbe4786384f25e3; 0x0fc19dc68b8cd5b5; 0x240ca1cc77ac9c65;
   0x2de92c6f592b0275; 0x4a7484aa6ea6e483; 0x5cb0a9dcbd41fbd4; 0x76f988da831153b5;
   0x983e5152ee66dfab; 0xa831c66d2db43210; 0xb00327c898fb213f; 0xbf597fc7beef0ee4;
   0xc6e00bf33da88fc2; 0xd5a79147930aa725; 0x06ca6351e003826f; 0x142929670a0e6e70;
   0x27b70a8546d22ffc; 0x2e1b21385c26c926; 0x4d2c6dfc5ac42aed; 0x53380d139d95b3df;
   0x650a73548baf63de; 0x766a0abb3c77b2a8; 0x81c2c92e47edaee6; 0x92722c851482353b;
   0xa2bfe8a14cf10364; 0xa81a664bbc423001; 0xc24b8b70d0f89791; 0xc76c51a30654be30;
   0xd192e819d6ef5218; 0xd69906245565a910; 0xf40e35855771202a; 0x106aa07032bbd1b8;
   0x19a4c116b8d2d0c8; 0x1e376c085141ab53; 0x2748774cdf8eeb99; 0x34b0bcb5e19b48a8;
   0x391c0cb3c5c95a63; 0x4ed8aa4ae3418acb; 0x5b9cca4f7763e373; 0x682e6ff3d6b2b8a3;
   0x748f82ee5defb2fc; 0x78a5636f43172f60; 0x84c87814a1f0ab72; 0x8cc702081a6439ec;
   0x90befffa23631e28; 0xa4506cebde82bde9; 0xbef9a3f7b2c67915; 0xc67178f2e372532b;
   0xca273eceea26619c; 0xd186b8c721c0c207; 0xeada7dd6cde0eb1e; 0xf57d4f7fee6ed178;
   0x06f067aa72176fba; 0x0a637dc5a2c898a6; 0x113f9804bef90dae; 0x1b710b35131c471b;
   0x28db77f523047d84; 0x32caab7b40c72493; 0x3c9ebe0a15c9bebc; 0x431d67c49c100d4c;
   0x4cc5d4becb3e42b6; 0x597f299cfc657e2a; 0x5fcb6fab3ad6faec; 0x6c44198c4a475817].

Definition sha512_init : list N :=
  [0x6a09e667f3bcc908; 0xbb67ae8584caa73b; 0x3c6ef372fe94f82b; 0xa54ff53a5f1d36f1;
   0x510e527fade682d1; 0x9b05688c2b3e6c1f; 0x1f83d9abfb41bd6b; 0x5be0cd19137e2179].
Definition sha384_init : list N :=
  [0xcbbb9d5dc1059ed8; 0x629a292a367cd507; 0x9159015a3070dd17; 0x152fecd8f70e5939;
   0x67332667ffc00b31; 0x8eb44a8768581511; 0xdb0c2e0d64f98fa7; 0x47b5481dbefa4fa4].

Definition f_ch64 (x y z : N) : N := N.lxor (N.land x y) (N.land (not64 x) z).
Definition bsig0_512 (x : N) : N := N.lxor (rotr64 x 28) (N.lxor (rotr64 x 34) (rotr64 x 39)).
Definition bsig1_512 (x : N) : N := N.lxor (rotr64 x 14) (N.lxor (rotr64 x 18) (rotr64 x 41)).
Definition ssig0_512 (x : N) : N := N.lxor (rotr64 x 1) (N.lxor (rotr64 x 8) (N.shiftr x 7)).
Definition ssig1_512 (x : N) : N := N.lxor (rotr64 x 19) (N.lxor (rotr64 x 61) (N.shiftr x 6)).

Fixpoint sha512_sched (n : nat) (rw : list N) : list N :=
  match n with
  | O => rw
  | S k =>
      match rw with
      | _ :: w2 :: _ :: _ :: _ :: _ :: w7 :: _ :: _ :: _ :: _ :: _ :: _ :: _ :: w15 :: w16 :: _ =>
          sha512_sched k (w64 (ssig1_512 w2 + w7 + ssig0_512 w15 + w16) :: rw)
      | _ => rw
      end
  end.
Definition sha512_W (block : bytes) : list N := rev (sha512_sched 64 (rev (be64s block))).

Definition sha512_round (s : st8) (k w : N) : st8 :=
  let '(a, b, c, d, e, f, g, h) := s in
  let t1 := h + bsig1_512 e + f_ch64 e f g + k + w in
  let t2 := bsig0_512 a + f_maj a b c in
  (w64 (t1 + t2), a, b, c, w64 (d + t1), e, f, g).

Fixpoint sha512_rounds (ks ws : list N) (s : st8) : st8 :=
  match ks, ws with
  | k :: ks', w :: ws' => sha512_rounds ks' ws' (sha512_round s k w)
  | _, _ => s
  end.

Definition sha512_compress (st : list N) (block : bytes) : list N :=
  match st with
  | [a; b; c; d; e; f; g; h] =>
      let '(a', b', c', d', e', f', g', h') :=
        sha512_rounds sha512_K (sha512_W block) (a, b, c, d, e, f, g, h) in
      [add64 a a'; add64 b b'; add64 c c'; add64 d d';
       add64 e e'; add64 f f'; add64 g g'; add64 h h']
  | _ => st
  end.

Definition sha512_pad (total : nat) (data : bytes) : bytes := md_pad 128 16 true total data.
Definition sha512_blocks (st : list N) (data : bytes) : list N :=
  md_blocks 128 sha512_compress st data.
Definition sha512_digest_of_state (st : list N) : bytes := ser_be64 st.
Definition sha512 (msg : bytes) : bytes :=
  sha512_digest_of_state (sha512_blocks sha512_init (sha512_pad (length msg) msg)).

Definition sha384_compress : list N -> bytes -> list N := sha512_compress.
Definition sha384_pad : nat -> bytes -> bytes := sha512_pad.
Definition sha384_blocks : list N -> bytes -> list N := sha512_blocks.
Definition sha384_digest_of_state (st : list N) : bytes := firstn 48 (ser_be64 st).
Definition sha384 (msg : bytes) : bytes :=
  sha384_digest_of_state (sha384_blocks sha384_init (sha384_pad (length msg) msg)).

(* ------------------------------------------------------------------------- *)
(* md_hash instances.  Library raw-state layout (validated against            *)
(* IMB_SHAxxx_ONE_BLOCK on the sse/avx2/avx512 managers, see HASH_API.md):    *)
(* every state word stored little-endian, all 5 / 8 words, no truncation.     *)
(* ------------------------------------------------------------------------- *)

Definition H_SHA1 : md_hash :=
  MkMdHash 64 20 sha1_init sha1_compress sha1_pad sha1_digest_of_state ser_le32 le32s true.
Definition H_SHA224 : md_hash :=
  MkMdHash 64 28 sha224_init sha224_compress sha224_pad sha224_digest_of_state ser_le32 le32s true.
Definition H_SHA256 : md_hash :=
  MkMdHash 64 32 sha256_init sha256_compress sha256_pad sha256_digest_of_state ser_le32 le32s true.
Definition H_SHA384 : md_hash :=
  MkMdHash 128 48 sha384_init sha384_compress sha384_pad sha384_digest_of_state ser_le64 le64s true.
Definition H_SHA512 : md_hash :=
  MkMdHash 128 64 sha512_init sha512_compress sha512_pad sha512_digest_of_state ser_le64 le64s true.
