(* Spec/DES.v — DES (FIPS 46-3), DES-CBC, 3DES-EDE-CBC, DOCSIS-DES, and the
   intel-ipsec-mb key-schedule memory layout.  Definitions only.

   Bit conventions.  A 64-bit block / key is the N obtained with [be_to_N] from
   its 8 bytes, so that FIPS 46-3 "bit 1" (the most significant bit of the
   first byte) is bit 63 of the N and FIPS "bit 64" is bit 0.  More generally a
   w-bit quantity has FIPS bit i (1-based) at N-bit (w - i).  A 48-bit round
   subkey K_n is an N < 2^48 with FIPS bit 1 of K_n at N-bit 47.

   All tables are the literal FIPS 46-3 tables (1-based bit numbers).
   PC-1, PC-2 and the shift schedule are also literally present in
   /repo/lib/x86_64/des_key.c (pc1c/pc1d/pc2_table_fips46_3, shift_tab_fips46_3). *)
From IMB Require Import Lib.Bytes.
Local Open Scope N_scope.

(* ------------------------------------------------------------------------- *)
(* Table-driven bit permutation / selection.                                  *)
(* A table entry t (1-based FIPS bit number, bit 1 = most significant bit of  *)
(* a w-bit word, w = 8*g) is looked up in the input presented as g groups of  *)
(* 8 bits, MSB first: t -> (group (t-1)/8, position (t-1) mod 8).  The        *)
(* two-level lookup only serves speed (short [nth] walks).                    *)
(* [permute g (map idx2 tbl) x]: output has [length tbl] bits; output FIPS    *)
(* bit j (1-based, MSB first) = FIPS bit (nth (j-1) tbl) of the 8g-bit x.     *)
(* ------------------------------------------------------------------------- *)
Fixpoint bits_msb (w : nat) (x : N) (acc : list bool) : list bool :=
  match w with
  | O => acc
  | S w' => bits_msb w' (N.div2 x) (N.odd x :: acc)
  end.

(* the low 8*g bits of x as g lists of 8 bits, everything MSB first *)
Fixpoint groups_msb (g : nat) (x : N) (acc : list (list bool)) : list (list bool) :=
  match g with
  | O => acc
  | S g' => groups_msb g' (N.shiftr x 8) (bits_msb 8 x [] :: acc)
  end.

Definition idx2 (t : nat) : nat * nat := (Nat.div (t - 1) 8, Nat.modulo (t - 1) 8).

Definition permute (g : nat) (tbl : list (nat * nat)) (x : N) : N :=
  let gs := groups_msb g x [] in
  fold_left (fun acc (ab : nat * nat) =>
               let (a, b) := ab in
               if nth b (nth a gs []) false then N.succ_double acc else N.double acc)
            tbl 0.

(* Initial permutation IP *)
Definition des_IP_tbl : list nat :=
  [58; 50; 42; 34; 26; 18; 10; 2;
   60; 52; 44; 36; 28; 20; 12; 4;
   62; 54; 46; 38; 30; 22; 14; 6;
   64; 56; 48; 40; 32; 24; 16; 8;
   57; 49; 41; 33; 25; 17;  9; 1;
   59; 51; 43; 35; 27; 19; 11; 3;
   61; 53; 45; 37; 29; 21; 13; 5;
   63; 55; 47; 39; 31; 23; 15; 7]%nat.

(* Final permutation IP^-1 *)
Definition des_FP_tbl : list nat :=
  [40; 8; 48; 16; 56; 24; 64; 32;
   39; 7; 47; 15; 55; 23; 63; 31;
   38; 6; 46; 14; 54; 22; 62; 30;
   37; 5; 45; 13; 53; 21; 61; 29;
   36; 4; 44; 12; 52; 20; 60; 28;
   35; 3; 43; 11; 51; 19; 59; 27;
   34; 2; 42; 10; 50; 18; 58; 26;
   33; 1; 41;  9; 49; 17; 57; 25]%nat.

(* Expansion E : 32 -> 48 bits *)
Definition des_E_tbl : list nat :=
  [32;  1;  2;  3;  4;  5;
    4;  5;  6;  7;  8;  9;
    8;  9; 10; 11; 12; 13;
   12; 13; 14; 15; 16; 17;
   16; 17; 18; 19; 20; 21;
   20; 21; 22; 23; 24; 25;
   24; 25; 26; 27; 28; 29;
   28; 29; 30; 31; 32;  1]%nat.

(* Permutation P : 32 -> 32 bits *)
Definition des_P_tbl : list nat :=
  [16;  7; 20; 21; 29; 12; 28; 17;
    1; 15; 23; 26;  5; 18; 31; 10;
    2;  8; 24; 14; 32; 27;  3;  9;
   19; 13; 30;  6; 22; 11;  4; 25]%nat.

(* Permuted choice 1 (C half then D half) : 64 -> 56 bits *)
Definition des_PC1_tbl : list nat :=
  [57; 49; 41; 33; 25; 17;  9;
    1; 58; 50; 42; 34; 26; 18;
   10;  2; 59; 51; 43; 35; 27;
   19; 11;  3; 60; 52; 44; 36;
   63; 55; 47; 39; 31; 23; 15;
    7; 62; 54; 46; 38; 30; 22;
   14;  6; 61; 53; 45; 37; 29;
   21; 13;  5; 28; 20; 12;  4]%nat.

(* Permuted choice 2 : 56 -> 48 bits *)
Definition des_PC2_tbl : list nat :=
  [14; 17; 11; 24;  1;  5;
    3; 28; 15;  6; 21; 10;
   23; 19; 12;  4; 26;  8;
   16;  7; 27; 20; 13;  2;
   41; 52; 31; 37; 47; 55;
   30; 40; 51; 45; 33; 48;
   44; 49; 39; 56; 34; 53;
   46; 42; 50; 36; 29; 32]%nat.

(* Left-shift schedule *)
Definition des_shifts : list N := [1; 1; 2; 2; 2; 2; 2; 2; 1; 2; 2; 2; 2; 2; 2; 1].

(* S-boxes S1..S8, each 4 rows (0..3) of 16 columns (0..15), as printed in FIPS 46-3. *)
Definition des_S1 : list (list N) :=
  [[14;  4; 13;  1;  2; 15; 11;  8;  3; 10;  6; 12;  5;  9;  0;  7];
   [ 0; 15;  7;  4; 14;  2; 13;  1; 10;  6; 12; 11;  9;  5;  3;  8];
   [ 4;  1; 14;  8; 13;  6;  2; 11; 15; 12;  9;  7;  3; 10;  5;  0];
   [15; 12;  8;  2;  4;  9;  1;  7;  5; 11;  3; 14; 10;  0;  6; 13]].
Definition des_S2 : list (list N) :=
  [[15;  1;  8; 14;  6; 11;  3;  4;  9;  7;  2; 13; 12;  0;  5; 10];
   [ 3; 13;  4;  7; 15;  2;  8; 14; 12;  0;  1; 10;  6;  9; 11;  5];
   [ 0; 14;  7; 11; 10;  4; 13;  1;  5;  8; 12;  6;  9;  3;  2; 15];
   [13;  8; 10;  1;  3; 15;  4;  2; 11;  6;  7; 12;  0;  5; 14;  9]].
Definition des_S3 : list (list N) :=
  [[10;  0;  9; 14;  6;  3; 15;  5;  1; 13; 12;  7; 11;  4;  2;  8];
   [13;  7;  0;  9;  3;  4;  6; 10;  2;  8;  5; 14; 12; 11; 15;  1];
   [13;  6;  4;  9;  8; 15;  3;  0; 11;  1;  2; 12;  5; 10; 14;  7];
   [ 1; 10; 13;  0;  6;  9;  8;  7;  4; 15; 14;  3; 11;  5;  2; 12]].
Definition des_S4 : list (list N) :=
  [[ 7; 13; 14;  3;  0;  6;  9; 10;  1;  2;  8;  5; 11; 12;  4; 15];
   [13;  8; 11;  5;  6; 15;  0;  3;  4;  7;  2; 12;  1; 10; 14;  9];
   [10;  6;  9;  0; 12; 11;  7; 13; 15;  1;  3; 14;  5;  2;  8;  4];
   [ 3; 15;  0;  6; 10;  1; 13;  8;  9;  4;  5; 11; 12;  7;  2; 14]].
Definition des_S5 : list (list N) :=
  [[ 2; 12;  4;  1;  7; 10; 11;  6;  8;  5;  3; 15; 13;  0; 14;  9];
   [14; 11;  2; 12;  4;  7; 13;  1;  5;  0; 15; 10;  3;  9;  8;  6];
   [ 4;  2;  1; 11; 10; 13;  7;  8; 15;  9; 12;  5;  6;  3;  0; 14];
   [11;  8; 12;  7;  1; 14;  2; 13;  6; 15;  0;  9; 10;  4;  5;  3]].
Definition des_S6 : list (list N) :=
  [[12;  1; 10; 15;  9;  2;  6;  8;  0; 13;  3;  4; 14;  7;  5; 11];
   [10; 15;  4;  2;  7; 12;  9;  5;  6;  1; 13; 14;  0; 11;  3;  8];
   [ 9; 14; 15;  5;  2;  8; 12;  3;  7;  0;  4; 10;  1; 13; 11;  6];
   [ 4;  3;  2; 12;  9;  5; 15; 10; 11; 14;  1;  7;  6;  0;  8; 13]].
Definition des_S7 : list (list N) :=
  [[ 4; 11;  2; 14; 15;  0;  8; 13;  3; 12;  9;  7;  5; 10;  6;  1];
   [13;  0; 11;  7;  4;  9;  1; 10; 14;  3;  5; 12;  2; 15;  8;  6];
   [ 1;  4; 11; 13; 12;  3;  7; 14; 10; 15;  6;  8;  0;  5;  9;  2];
   [ 6; 11; 13;  8;  1;  4; 10;  7;  9;  5;  0; 15; 14;  2;  3; 12]].
Definition des_S8 : list (list N) :=
  [[13;  2;  8;  4;  6; 15; 11;  1; 10;  9;  3; 14;  5;  0; 12;  7];
   [ 1; 15; 13;  8; 10;  3;  7;  4; 12;  5;  6; 11;  0; 14;  9;  2];
   [ 7; 11;  4;  1;  9; 12; 14;  2;  0;  6; 10; 13; 15;  3;  5;  8];
   [ 2;  1; 14;  7;  4; 10;  8; 13; 15; 12;  9;  0;  3;  5;  6; 11]].

(* in reverse order: S8 (acting on the least significant 6 bits) first *)
Definition des_sboxes_rev : list (list (list N)) :=
  [des_S8; des_S7; des_S6; des_S5; des_S4; des_S3; des_S2; des_S1].

(* ------------------------------------------------------------------------- *)
(* Round function                                                            *)
(* ------------------------------------------------------------------------- *)

(* One S-box lookup on a 6-bit value b = b1 b2 b3 b4 b5 b6 (b1 = MSB):
   row = b1 b6, column = b2 b3 b4 b5. *)
Definition des_sbox_lookup (S : list (list N)) (b : N) : N :=
  let row := N.lor (N.shiftl (N.land (N.shiftr b 5) 1) 1) (N.land b 1) in
  let col := N.land (N.shiftr b 1) 15 in
  nth (N.to_nat col) (nth (N.to_nat row) S []) 0.

(* 48 -> 32 bits: S1 acts on the most significant 6 bits, ..., S8 on the least.
   [des_S_aux sb x]: sb = S-boxes still to apply, last one (lowest 6 bits) first. *)
Fixpoint des_S_aux (sb : list (list (list N))) (x : N) : N :=
  match sb with
  | [] => 0
  | sbox :: t => N.lor (des_sbox_lookup sbox (N.land x 63))
                    (N.shiftl (des_S_aux t (N.shiftr x 6)) 4)
  end.
Definition des_S (x : N) : N := des_S_aux des_sboxes_rev x.

(* (group, position) index tables derived from the literal FIPS tables *)
Definition des_IP_idx  : list (nat * nat) := Eval vm_compute in map idx2 des_IP_tbl.
Definition des_FP_idx  : list (nat * nat) := Eval vm_compute in map idx2 des_FP_tbl.
Definition des_E_idx   : list (nat * nat) := Eval vm_compute in map idx2 des_E_tbl.
Definition des_P_idx   : list (nat * nat) := Eval vm_compute in map idx2 des_P_tbl.
Definition des_PC1_idx : list (nat * nat) := Eval vm_compute in map idx2 des_PC1_tbl.
Definition des_PC2_idx : list (nat * nat) := Eval vm_compute in map idx2 des_PC2_tbl.

Definition des_E (r : N) : N := permute 4 des_E_idx r.   (* 32 -> 48 bits *)
Definition des_P (x : N) : N := permute 4 des_P_idx x.   (* 32 -> 32 bits *)

(* f(R, K) = P(S(E(R) xor K)) ; R : 32 bits, K : 48 bits, result : 32 bits *)
Definition des_f (r k : N) : N := des_P (des_S (N.lxor (des_E r) k)).

(* ------------------------------------------------------------------------- *)
(* Key schedule (FIPS 46-3)                                                  *)
(* ------------------------------------------------------------------------- *)
Definition mask28 : N := 268435455.
Definition rotl28 (x n : N) : N :=
  N.land (N.lor (N.shiftl x n) (N.shiftr (N.land x mask28) (28 - n))) mask28.

(* (C_n, D_n) -> K_n *)
Definition des_PC2 (c d : N) : N := permute 7 des_PC2_idx (N.lor (N.shiftl c 28) d).

Fixpoint des_ks_rounds (shifts : list N) (c d : N) : list N :=
  match shifts with
  | [] => []
  | s :: t => let c' := rotl28 c s in
              let d' := rotl28 d s in
              des_PC2 c' d' :: des_ks_rounds t c' d'
  end.

(* 16 subkeys K1..K16 (48-bit each) from the 64-bit key given as an N.
   The 8 parity bits (LSB of every key byte) are ignored (not checked). *)
Definition des_key_schedule_N (k : N) : list N :=
  let cd := permute 8 des_PC1_idx k in
  des_ks_rounds des_shifts (N.shiftr cd 28) (N.land cd mask28).

Definition des_key_schedule_std (key : bytes) : list N :=
  des_key_schedule_N (be_to_N key).

(* ------------------------------------------------------------------------- *)
(* Block cipher: IP, 16 Feistel rounds, swap, IP^-1                           *)
(* ------------------------------------------------------------------------- *)
Definition des_IP (x : N) : N := permute 8 des_IP_idx x.
Definition des_FP (x : N) : N := permute 8 des_FP_idx x.

(* One Feistel round: (L, R) -> (R, L xor f(R, K)) *)
Definition des_round (lr : N * N) (k : N) : N * N :=
  let (l, r) := lr in (r, N.lxor l (des_f r k)).

Definition des_rounds (ks : list N) (lr : N * N) : N * N := fold_left des_round ks lr.

Definition des_split (x : N) : N * N := (N.land (N.shiftr x 32) mask32, N.land x mask32).
(* pre-output block is R16 L16 (halves swapped) *)
Definition des_join_swapped (lr : N * N) : N :=
  let (l, r) := lr in N.lor (N.shiftl r 32) l.

(* The DES network on a 64-bit word for an arbitrary list of subkeys.
   Encryption uses K1..K16; decryption is the SAME network with the subkeys in
   reverse order (K16..K1). *)
Definition des_block_ks (ks : list N) (x : N) : N :=
  des_FP (des_join_swapped (des_rounds ks (des_split (des_IP x)))).

Definition des_enc_N (ks : list N) (x : N) : N := des_block_ks ks x.
Definition des_dec_N (ks : list N) (x : N) : N := des_block_ks (rev ks) x.

(* Small helper lemmas (generic Feistel inversion, independent of des_f):
   running the rounds with the reversed subkey list on the swapped halves
   undoes the rounds.  Together with IP/FP being mutually inverse and
   des_split (des_join_swapped lr) = des_swap lr (for 32-bit halves) this gives
   des_dec_N ks (des_enc_N ks x) = x. *)
Definition des_swap (lr : N * N) : N * N := (snd lr, fst lr).

Lemma des_round_swap_inv : forall lr k,
  des_round (des_swap (des_round lr k)) k = des_swap lr.
Proof.
  intros [l r] k. unfold des_round, des_swap. simpl.
  rewrite N.lxor_assoc, N.lxor_nilpotent, N.lxor_0_r. reflexivity.
Qed.

Lemma des_rounds_rev_inv : forall ks lr,
  des_rounds (rev ks) (des_swap (des_rounds ks lr)) = des_swap lr.
Proof.
  unfold des_rounds. induction ks as [|k ks IH]; intros lr; simpl.
  - reflexivity.
  - rewrite fold_left_app. simpl. rewrite IH. apply des_round_swap_inv.
Qed.

(* key : 8 bytes, block : 8 bytes -> 8 bytes *)
Definition des_encrypt_block (key blk : bytes) : bytes :=
  N_to_be 8 (des_enc_N (des_key_schedule_std key) (be_to_N blk)).
Definition des_decrypt_block (key blk : bytes) : bytes :=
  N_to_be 8 (des_dec_N (des_key_schedule_std key) (be_to_N blk)).

(* ------------------------------------------------------------------------- *)
(* Modes over a 64-bit block function.                                       *)
(* The message is cut into 8-byte chunks ([chunks 8 msg]); only the last     *)
(* chunk can be short.  With [cfb = false] a short last chunk is dropped     *)
(* (the library's des_*_cbc_basic use nblocks = size / 8; the job API rejects *)
(* such lengths anyway).  With [cfb = true] (DOCSIS) a short last chunk is   *)
(* XORed with E(previous ciphertext block), or E(IV) if there is no previous *)
(* block ("residual termination", CM-SP-SECv3.1; docsis_des_enc/dec_basic in *)
(* /repo/lib/x86_64/des_basic.c).                                            *)
(* ------------------------------------------------------------------------- *)
(* E / D : block encryption / decryption on 64-bit words;
   cfb : DOCSIS residual termination on/off. *)
Definition cfb64_residue (E : N -> N) (cfb : bool) (iv : N) (c : bytes) : bytes :=
  if cfb then xor_bytes c (N_to_be 8 (E iv)) else [].

Fixpoint cbc64_enc (E : N -> N) (cfb : bool) (iv : N) (cs : list bytes) : bytes :=
  match cs with
  | [] => []
  | c :: t =>
      if Nat.eqb (length c) 8
      then let y := E (N.lxor (be_to_N c) iv) in N_to_be 8 y ++ cbc64_enc E cfb y t
      else cfb64_residue E cfb iv c
  end.

Fixpoint cbc64_dec (E D : N -> N) (cfb : bool) (iv : N) (cs : list bytes) : bytes :=
  match cs with
  | [] => []
  | c :: t =>
      if Nat.eqb (length c) 8
      then let x := be_to_N c in N_to_be 8 (N.lxor (D x) iv) ++ cbc64_dec E D cfb x t
      else cfb64_residue E cfb iv c
  end.

(* IMB_CIPHER_DES: DES-CBC. key, iv : 8 bytes; length msg multiple of 8. *)
Definition des_cbc_enc (key iv msg : bytes) : bytes :=
  let ks := des_key_schedule_std key in
  cbc64_enc (des_enc_N ks) false (be_to_N iv) (chunks 8 msg).
Definition des_cbc_dec (key iv msg : bytes) : bytes :=
  let ks := des_key_schedule_std key in
  let rks := rev ks in
  cbc64_dec (des_block_ks ks) (des_block_ks rks) false (be_to_N iv) (chunks 8 msg).

(* IMB_CIPHER_DES3: TDEA CBC, EDE:  C = E_k3(D_k2(E_k1(P xor IV))). *)
Definition des3_cbc_enc (k1 k2 k3 iv msg : bytes) : bytes :=
  let ks1 := des_key_schedule_std k1 in
  let rks2 := rev (des_key_schedule_std k2) in
  let ks3 := des_key_schedule_std k3 in
  cbc64_enc (fun x => des_block_ks ks3 (des_block_ks rks2 (des_block_ks ks1 x)))
            false (be_to_N iv) (chunks 8 msg).
Definition des3_cbc_dec (k1 k2 k3 iv msg : bytes) : bytes :=
  let ks1 := des_key_schedule_std k1 in
  let rks1 := rev ks1 in
  let ks2 := des_key_schedule_std k2 in
  let rks2 := rev ks2 in
  let ks3 := des_key_schedule_std k3 in
  let rks3 := rev ks3 in
  cbc64_dec (fun x => des_block_ks ks3 (des_block_ks rks2 (des_block_ks ks1 x)))
            (fun x => des_block_ks rks1 (des_block_ks ks2 (des_block_ks rks3 x)))
            false (be_to_N iv) (chunks 8 msg).

(* IMB_CIPHER_DOCSIS_DES: any length >= 1. *)
Definition docsis_des_enc (key iv msg : bytes) : bytes :=
  let ks := des_key_schedule_std key in
  cbc64_enc (des_block_ks ks) true (be_to_N iv) (chunks 8 msg).
Definition docsis_des_dec (key iv msg : bytes) : bytes :=
  let ks := des_key_schedule_std key in
  let rks := rev ks in
  cbc64_dec (des_block_ks ks) (des_block_ks rks) true (be_to_N iv) (chunks 8 msg).

(* des_cfb_one() (exported direct API, /repo/lib/x86_64/des_basic.c):
   out = in xor first (length in) bytes of E_key(iv); length in <= 8. *)
Definition des_cfb_one (key iv inp : bytes) : bytes :=
  xor_bytes inp (des_encrypt_block key iv).

(* ------------------------------------------------------------------------- *)
(* Library key-schedule layout: des_key_schedule() / IMB_DES_KEYSCHED        *)
(* (/repo/lib/x86_64/des_key.c) writes uint64_t ks[16].  The C code works on *)
(* bit-reflected bytes, so that word-bit n holds FIPS bit n+1, and stores    *)
(* K_n "6 bits per byte, little endian" (expand_8x6_to_8x8).  Consequently,  *)
(* memory byte j (0..7) of ks[n] holds FIPS bits 6j+1 .. 6j+6 of K_{n+1},     *)
(* with FIPS bit 6j+1 in the byte's bit 0 and FIPS bit 6j+6 in bit 5, i.e.   *)
(* the 6-bit group that feeds S-box j+1, bit-reversed; bits 6,7 are zero.    *)
(* ------------------------------------------------------------------------- *)
Definition reflect6 (b : N) : N :=
  N.lor (N.lor (N.lor (N.shiftl (N.land b 1) 5) (N.shiftl (N.land b 2) 3))
               (N.lor (N.shiftl (N.land b 4) 1) (N.shiftr (N.land b 8) 1)))
        (N.lor (N.shiftr (N.land b 16) 3) (N.shiftr (N.land b 32) 5)).

Definition des_subkey_lib_bytes (k : N) : bytes :=
  map (fun sh => reflect6 (N.land (N.shiftr k sh) 63)) [42; 36; 30; 24; 18; 12; 6; 0].

(* 128 bytes: memory image of uint64_t ks[16] on a little-endian machine *)
Definition des_key_schedule_lib (key : bytes) : bytes :=
  flat_map des_subkey_lib_bytes (des_key_schedule_std key).

(* The same as 16 uint64 values (ks[0..15]) *)
Definition des_key_schedule_lib_words (key : bytes) : list N :=
  map (fun k => le_to_N (des_subkey_lib_bytes k)) (des_key_schedule_std key).
