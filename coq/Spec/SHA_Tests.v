(* Spec/SHA_Tests.v — KNOWN-ANSWER TESTS (not theorems about all inputs) for Spec/SHA.v.
   Vectors: FIPS 180-4 / NIST CSRC "Examples with intermediate values"
   (SHA1.pdf, SHA224.pdf, SHA256.pdf, SHA384.pdf, SHA512.pdf) and the empty
   string digests from the NIST CAVS ShortMsg files. *)
From Coq Require Import String.
From IMB Require Import Lib.Bytes Spec.Hex Spec.SHA.
Local Open Scope N_scope.

Definition m_abc : bytes := ascii_bytes "abc".
Definition m_448 : bytes :=
  ascii_bytes "abcdbcdecdefdefgefghfghighijhijkijkljklmklmnlmnomnopnopq".
Definition m_896 : bytes :=
  ascii_bytes ("abcdefghbcdefghicdefghijdefghijkefghijklfghijklmghijklmnhijklmno"
               ++ "ijklmnopjklmnopqklmnopqrlmnopqrsmnopqrstnopqrstu").

(* ---- SHA-1 ---- *)
Example test_sha1_abc : sha1 m_abc = hex "a9993e364706816aba3e25717850c26c9cd0d89d".
Proof. vm_compute. reflexivity. Qed.
Example test_sha1_empty : sha1 [] = hex "da39a3ee5e6b4b0d3255bfef95601890afd80709".
Proof. vm_compute. reflexivity. Qed.
Example test_sha1_448 : sha1 m_448 = hex "84983e441c3bd26ebaae4aa1f95129e5e54670f1".
Proof. vm_compute. reflexivity. Qed.
Example test_sha1_896 : sha1 m_896 = hex "a49b2446a02c645bf419f995b67091253a04a259".
Proof. vm_compute. reflexivity. Qed.

(* ---- SHA-224 ---- *)
Example test_sha224_abc :
  sha224 m_abc = hex "23097d223405d8228642a477bda255b32aadbce4bda0b3f7e36c9da7".
Proof. vm_compute. reflexivity. Qed.
Example test_sha224_empty :
  sha224 [] = hex "d14a028c2a3a2bc9476102bb288234c415a2b01f828ea62ac5b3e42f".
Proof. vm_compute. reflexivity. Qed.
Example test_sha224_448 :
  sha224 m_448 = hex "75388b16512776cc5dba5da1fd890150b0c6455cb4f58b1952522525".
Proof. vm_compute. reflexivity. Qed.
Example test_sha224_896 :
  sha224 m_896 = hex "c97ca9a559850ce97a04a96def6d99a9e0e0e2ab14e6b8df265fc0b3".
Proof. vm_compute. reflexivity. Qed.

(* ---- SHA-256 ---- *)
Example test_sha256_abc :
  sha256 m_abc = hex "ba7816bf8f01cfea414140de5dae2223b00361a396177a9cb410ff61f20015ad".
Proof. vm_compute. reflexivity. Qed.
Example test_sha256_empty :
  sha256 [] = hex "e3b0c44298fc1c149afbf4c8996fb92427ae41e4649b934ca495991b7852b855".
Proof. vm_compute. reflexivity. Qed.
Example test_sha256_448 :
  sha256 m_448 = hex "248d6a61d20638b8e5c026930c3e6039a33ce45964ff2167f6ecedd419db06c1".
Proof. vm_compute. reflexivity. Qed.
Example test_sha256_896 :
  sha256 m_896 = hex "cf5b16a778af8380036ce59e7b0492370b249b11e8f07a51afac45037afee9d1".
Proof. vm_compute. reflexivity. Qed.

(* ---- SHA-384 ---- *)
Example test_sha384_abc :
  sha384 m_abc = hex ("cb00753f45a35e8bb5a03d699ac65007272c32ab0eded163"
                      ++ "1a8b605a43ff5bed8086072ba1e7cc2358baeca134c825a7").
Proof. vm_compute. reflexivity. Qed.
Example test_sha384_empty :
  sha384 [] = hex ("38b060a751ac96384cd9327eb1b1e36a21fdb71114be0743"
                   ++ "4c0cc7bf63f6e1da274edebfe76f65fbd51ad2f14898b95b").
Proof. vm_compute. reflexivity. Qed.
Example test_sha384_448 :
  sha384 m_448 = hex ("3391fdddfc8dc7393707a65b1b4709397cf8b1d162af05ab"
                      ++ "fe8f450de5f36bc6b0455a8520bc4e6f5fe95b1fe3c8452b").
Proof. vm_compute. reflexivity. Qed.
Example test_sha384_896 :
  sha384 m_896 = hex ("09330c33f71147e83d192fc782cd1b4753111b173b3b05d2"
                      ++ "2fa08086e3b0f712fcc7c71a557e2db966c3e9fa91746039").
Proof. vm_compute. reflexivity. Qed.

(* ---- SHA-512 ---- *)
Example test_sha512_abc :
  sha512 m_abc = hex ("ddaf35a193617abacc417349ae20413112e6fa4e89a97ea20a9eeee64b55d39a"
                      ++ "2192992a274fc1a836ba3c23a3feebbd454d4423643ce80e2a9ac94fa54ca49f").
Proof. vm_compute. reflexivity. Qed.
Example test_sha512_empty :
  sha512 [] = hex ("cf83e1357eefb8bdf1542850d66d8007d620e4050b5715dc83f4a921d36ce9ce"
                   ++ "47d0d13c5d85f2b0ff8318d2877eec2f63b931bd47417a81a538327af927da3e").
Proof. vm_compute. reflexivity. Qed.
Example test_sha512_448 :
  sha512 m_448 = hex ("204a8fc6dda82f0a0ced7beb8e08a41657c16ef468b228a8279be331a703c335"
                      ++ "96fd15c13b1b07f9aa1d3bea57789ca031ad85c7a71dd70354ec631238ca3445").
Proof. vm_compute. reflexivity. Qed.
Example test_sha512_896 :
  sha512 m_896 = hex ("8e959b75dae313da8cf4f72814fc143f8f7779c6eb9f7fa17299aeadb6889018"
                      ++ "501d289e4900f7e4331b99dec4b5433ac7d329eeb6dd26545e96e55b874be909").
Proof. vm_compute. reflexivity. Qed.

(* ---- padding shape ---- *)
Example test_pad_len_55 : length (sha256_pad 55 (zeros 55)) = 64%nat.
Proof. vm_compute. reflexivity. Qed.
Example test_pad_len_56 : length (sha256_pad 56 (zeros 56)) = 128%nat.
Proof. vm_compute. reflexivity. Qed.
Example test_pad_len_111 : length (sha512_pad 111 (zeros 111)) = 128%nat.
Proof. vm_compute. reflexivity. Qed.
Example test_pad_len_112 : length (sha512_pad 112 (zeros 112)) = 256%nat.
Proof. vm_compute. reflexivity. Qed.
Example test_pad_abc :
  sha1_pad 3 m_abc = hex "61626380" ++ zeros 52 ++ hex "0000000000000018".
Proof. vm_compute. reflexivity. Qed.

(* ---- "prefix blocks already processed" form (total length separate) ---- *)
Example test_sha256_split :
  sha256_digest_of_state
    (sha256_blocks (sha256_blocks sha256_init (firstn 64 m_896))
                   (sha256_pad 112 (skipn 64 m_896)))
  = sha256 m_896.
Proof. vm_compute. reflexivity. Qed.
Example test_sha512_split :
  md_finish H_SHA512 (md_run_blocks H_SHA512 sha512_init (zeros 128)) 131 m_abc
  = sha512 (zeros 128 ++ m_abc).
Proof. vm_compute. reflexivity. Qed.
Example test_md_full_sha1 : md_full H_SHA1 m_448 = sha1 m_448.
Proof. vm_compute. reflexivity. Qed.

(* trailing partial block ignored by X_blocks *)
Example test_blocks_partial :
  sha256_blocks sha256_init (zeros 100) = sha256_compress sha256_init (zeros 64).
Proof. vm_compute. reflexivity. Qed.
