(* Spec/GCM.v — AES-GCM / GMAC (NIST SP 800-38D) and the library's stand-alone
   GHASH job.  Definitions only.

   The generic part is parameterised by the block cipher with the key already
   fixed, E : bytes(16) -> bytes(16); the end of the file instantiates it with
   AES (Spec/AES.v).

   Library entry points modelled (all in /repo/lib):
     IMB_CIPHER_GCM + IMB_AUTH_AES_GMAC  (include/mb_mgr_job_api.h
         SUBMIT_JOB_AES_GCM_ENC/DEC -> aes_gcm_{enc,dec}_var_iv_{128,192,256}_ARCH)
     IMB_AUTH_AES_GMAC_128/192/256       (include/job_api_gcm.h process_gmac)
     IMB_AUTH_GHASH                      (include/job_api_gcm.h process_ghash) *)
From IMB Require Import Lib.Bytes Spec.GF128 Spec.AES.
Local Open Scope N_scope.

Section GCM_generic.
  (* block cipher under a fixed key *)
  Variable E : bytes -> bytes.

  (* hash subkey H = E(0^128) as an integer (SP 800-38D 7.1 step 1) *)
  Definition gcm_hash_subkey : N := be_to_N (E (zeros 16)).

  (* Pre-counter block J0 (7.1 step 2).  12-byte IV: IV || 0^31 || 1.
     Any other length >= 1:  GHASH_H(IV || 0^{s+64} || [len(IV)]_64), s making
     the IV a multiple of 128 bits.  The library takes the 12-byte shortcut iff
     iv_len_in_bytes = 12 (include/gcm_sse.inc GCM_INIT / CALC_J0). *)
  Definition gcm_j0 (h : N) (iv : bytes) : bytes :=
    if Nat.eqb (length iv) 12 then iv ++ [0; 0; 0; 1]
    else N_to_be 16
           (ghash_step h (ghash_from h 0 iv)
                       (zeros 8 ++ be64 (8 * N.of_nat (length iv)))).

  (* GCTR (6.5) with the counter block split as 12-byte prefix || 32-bit
     big-endian counter; inc_32 wraps modulo 2^32 and never carries into the
     prefix.  The last block may be short: xor_bytes truncates the key stream. *)
  Fixpoint gctr_blocks (pre : bytes) (ctr : N) (blks : list bytes) : bytes :=
    match blks with
    | [] => []
    | b :: t => xor_bytes b (E (pre ++ be32 ctr)) ++ gctr_blocks pre (w32 (ctr + 1)) t
    end.

  (* GCTR starting at inc_32(J0) *)
  Definition gcm_ctr (j0 data : bytes) : bytes :=
    gctr_blocks (firstn 12 j0) (w32 (be_to_N (skipn 12 j0) + 1)) (chunks 16 data).

  (* S = GHASH_H(A || 0^v || C || 0^u || [len(A)]_64 || [len(C)]_64), T = MSB_t(E(J0) xor S) *)
  Definition gcm_tag (h : N) (j0 aad ct : bytes) (taglen : nat) : bytes :=
    let y1 := ghash_from h 0 aad in
    let y2 := ghash_from h y1 ct in
    let s := ghash_step h y2 (gcm_len_block (length aad) (length ct)) in
    firstn taglen (xor_bytes (E j0) (N_to_be 16 s)).

  (* Authenticated encryption: (ciphertext, tag of taglen bytes, 1 <= taglen <= 16) *)
  Definition gcm_enc_gen (iv aad pt : bytes) (taglen : nat) : bytes * bytes :=
    let h := gcm_hash_subkey in
    let j0 := gcm_j0 h iv in
    let ct := gcm_ctr j0 pt in
    (ct, gcm_tag h j0 aad ct taglen).

  (* Decryption direction exactly as the library job behaves: it outputs the
     plaintext unconditionally and the *computed* tag (over the received
     ciphertext); comparing it with the received tag is left to the caller. *)
  Definition gcm_dec_gen (iv aad ct : bytes) (taglen : nat) : bytes * bytes :=
    let h := gcm_hash_subkey in
    let j0 := gcm_j0 h iv in
    (gcm_ctr j0 ct, gcm_tag h j0 aad ct taglen).

  (* GMAC: GCM with empty plaintext, the message being the AAD. *)
  Definition gmac_gen (iv msg : bytes) (taglen : nat) : bytes :=
    snd (gcm_enc_gen iv msg [] taglen).
End GCM_generic.

(* ---------- AES instantiation (key of 16, 24 or 32 bytes) ---------- *)

Definition gcm_enc (key iv aad pt : bytes) (taglen : nat) : bytes * bytes :=
  let rks := aes_key_expand key in
  gcm_enc_gen (aes_enc_rk rks) iv aad pt taglen.

Definition gcm_dec (key iv aad ct : bytes) (taglen : nat) : bytes * bytes :=
  let rks := aes_key_expand key in
  gcm_dec_gen (aes_enc_rk rks) iv aad ct taglen.

(* IMB_AUTH_AES_GMAC_128/192/256 (cipher_mode NULL): key = u.GMAC._key built by
   IMB_AESxxx_GCM_PRE from the raw AES key, iv = u.GMAC._iv of any length >= 1,
   message = src[hash_start .. +msg_len_to_hash_in_bytes) (may be empty). *)
Definition gmac (key iv msg : bytes) (taglen : nat) : bytes :=
  let rks := aes_key_expand key in
  gmac_gen (aes_enc_rk rks) iv msg taglen.

(* What IMB_AESxxx_GCM_PRE derives from the key besides the AES round keys:
   the 16-byte hash subkey H (the struct stores H<<1 mod poly and its powers). *)
Definition gcm_hash_key (key : bytes) : bytes :=
  aes_enc_rk (aes_key_expand key) (zeros 16).

(* ---------- IMB_AUTH_GHASH job ---------- *)
(* Key material: u.GHASH._key = struct gcm_key_data filled by
   IMB_GHASH_PRE(mgr, hkey, &kd) from the *16-byte hash key H itself* (no AES
   involved).  process_ghash (include/job_api_gcm.h):
       memcpy(auth_tag_output, u.GHASH._init_tag, auth_tag_output_len_in_bytes);
       IMB_GHASH(mgr, key, src+off, msg_len_to_hash_in_bytes,
                 auth_tag_output, auth_tag_output_len_in_bytes);
   and ghash_ARCH (include/gcm_gmac_api_sse.inc etc.) load a full 16-byte block
   from io_tag, hash the message into it (trailing partial block zero-padded,
   NO length block), and store back only tag_len bytes.

   Consequences modelled here:
   - the starting value Y0 is  firstn taglen init_tag ++ skipn taglen old_out,
     where old_out are the 16 bytes found at auth_tag_output before the job
     (for taglen = 16, the only length the library's own tests use, Y0 = init_tag);
   - msg = [] : with SAFE_PARAM (default build) IMB_GHASH rejects in_len = 0
     and leaves io_tag untouched, so the output is firstn taglen init_tag;
     mathematically GHASH over no blocks is also the identity, so no case split
     is needed. *)
Definition ghash_job (hkey init_tag old_out msg : bytes) (taglen : nat) : bytes :=
  let y0 := firstn taglen init_tag ++ skipn taglen (firstn 16 old_out) in
  firstn taglen (ghash_update hkey y0 msg).

(* Common case: 16-byte tag, Y0 = init_tag. *)
Definition ghash_job16 (hkey init_tag msg : bytes) : bytes :=
  ghash_update hkey init_tag msg.
