(* Spec/Hex.v — hex string literal to bytes, for test vectors. *)
From Coq Require Import String Ascii NArith List.
From IMB Require Import Lib.Bytes.
Import ListNotations.
Local Open Scope N_scope.

Definition hexval (c : ascii) : option N :=
  let n := N_of_ascii c in
  if (48 <=? n) && (n <=? 57) then Some (n - 48)
  else if (97 <=? n) && (n <=? 102) then Some (n - 87)
  else if (65 <=? n) && (n <=? 70) then Some (n - 55)
  else None.

(* ignores any non-hex character (spaces, newlines, colons) *)
Fixpoint hex_aux (s : string) (hi : option N) : bytes :=
  match s with
  | EmptyString => []
  | String c t =>
      match hexval c with
      | None => hex_aux t hi
      | Some v => match hi with
                  | None => hex_aux t (Some v)
                  | Some h => (h * 16 + v) :: hex_aux t None
                  end
      end
  end.
Definition hex (s : string) : bytes := hex_aux s None.

Fixpoint ascii_bytes (s : string) : bytes :=
  match s with EmptyString => [] | String c t => N_of_ascii c :: ascii_bytes t end.
