(* Spec/CMAC.v — AES-CMAC (RFC 4493 / NIST SP 800-38B), its 3GPP bit-length
   variant, and AES-XCBC-MAC-96 (RFC 3566).  Definitions only.

   The generic part is parameterised by the block cipher with the key already
   fixed, E : bytes(16) -> bytes(16); the end of the file instantiates it with
   AES (Spec/AES.v).

   Library entry points modelled (all in /repo/lib):
     IMB_AES_CMAC_SUBKEY_GEN_128/256   x86_64/aes_cmac_subkey_gen.asm
     IMB_AUTH_AES_CMAC, _CMAC_256      include/mb_mgr_aes_cmac_submit_flush_sse.inc (and avx2/avx512 twins)
     IMB_AUTH_AES_CMAC_BITLEN          same file, label _not_complete_block_3gpp
     IMB_AES_XCBC_KEYEXP               x86_64/aes_xcbc_expand_key.c
     IMB_AUTH_AES_XCBC                 sse_t1/mb_mgr_aes128_xcbc_submit_x4_sse.asm etc. *)
From IMB Require Import Lib.Bytes Spec.AES.
Local Open Scope N_scope.

(* Doubling in GF(2^128) with the CMAC convention (SP 800-38B 6.1): the block
   is a big-endian integer, shift left by one, and if the bit shifted out was
   set xor R_128 = 0^120 10000111. *)
Definition cmac_dbl (b : bytes) : bytes :=
  let x := be_to_N b in
  let y := w128 (N.shiftl x 1) in
  N_to_be 16 (if N.testbit x 127 then N.lxor y 135 else y).

(* 10* padding of a block shorter than 16 bytes *)
Definition pad_10 (b : bytes) : bytes := pad_right 16 (b ++ [128]).

Section CBCMAC_generic.
  Variable E : bytes -> bytes.

  (* CBC-MAC over [blks] starting from chaining value [x]; the final block
     (or the empty block if there is none) is first transformed by [fin],
     which performs padding and subkey xor. *)
  Fixpoint cbcmac_loop (fin : bytes -> bytes) (x : bytes) (blks : list bytes) : bytes :=
    match blks with
    | [] => E (xor_bytes (fin []) x)
    | b :: t =>
        match t with
        | [] => E (xor_bytes (fin b) x)
        | _ :: _ => cbcmac_loop fin (E (xor_bytes b x)) t
        end
    end.

  (* Final-block rule shared by CMAC (ka = K1, kb = K2) and XCBC (ka = K2, kb = K3):
     complete 16-byte block -> xor ka; otherwise (including the empty message)
     pad with 10* and xor kb. *)
  Definition mac_fin (ka kb : bytes) (b : bytes) : bytes :=
    if Nat.eqb (length b) 16 then xor_bytes b ka else xor_bytes (pad_10 b) kb.

  (* ---- CMAC ---- *)
  Definition cmac_subkeys_gen : bytes * bytes :=
    let l := E (zeros 16) in
    let k1 := cmac_dbl l in
    (k1, cmac_dbl k1).

  Definition cmac_gen (msg : bytes) : bytes :=
    let '(k1, k2) := cmac_subkeys_gen in
    cbcmac_loop (mac_fin k1 k2) (zeros 16) (chunks 16 msg).

  (* Bit-length variant.  [bitlen] = message length in bits, message bits are
     taken msb-first from [msg]; only the first ceil(bitlen/8) bytes of [msg]
     are read.  If bitlen is a multiple of 8 this is cmac_gen on bitlen/8 bytes.
     Otherwise (rbits = bitlen mod 8 <> 0) the last byte keeps its top rbits
     bits, the next bit is set to 1 (the padding bit), the lower bits are
     cleared — the library MASKS the unused low bits of the last byte, it does
     not require them to be zero (pandn with 0xff>>rbits, por with the single
     bit, mb_mgr_aes_cmac_submit_flush_sse.inc lines 466-503) — the block is
     zero-filled to 16 bytes and xored with K2 (never K1, even when the padded
     bit lands in byte 15 of a block). *)
  Definition cmac_bits_gen (msg : bytes) (bitlen : N) : bytes :=
    let nbytes := N.to_nat (N.shiftr (bitlen + 7) 3) in
    let rbits := N.land bitlen 7 in
    let m := firstn nbytes msg in
    if rbits =? 0 then cmac_gen m
    else
      let '(k1, k2) := cmac_subkeys_gen in
      let lastb := nth (nbytes - 1) m 0 in
      let keep := N.lxor 255 (N.shiftr 255 rbits) in          (* top rbits bits *)
      let one := N.shiftr 128 rbits in                          (* padding bit *)
      let m' := firstn (nbytes - 1) m ++ [N.lor (N.land lastb keep) one] in
      cbcmac_loop (fun b => xor_bytes (pad_right 16 b) k2) (zeros 16) (chunks 16 m').

  (* ---- XCBC core, E is already E_{K1}; k2, k3 given ---- *)
  Definition xcbc_mac_gen (k2 k3 msg : bytes) : bytes :=
    cbcmac_loop (mac_fin k2 k3) (zeros 16) (chunks 16 msg).
End CBCMAC_generic.

(* ---------- AES instantiation ---------- *)

(* K1, K2 as 16-byte strings exactly as IMB_AES_CMAC_SUBKEY_GEN_128 (16-byte
   key) / _256 (32-byte key) store them (RFC 4493 byte order). *)
Definition cmac_subkeys (key : bytes) : bytes * bytes :=
  cmac_subkeys_gen (aes_enc_rk (aes_key_expand key)).

(* Full 16-byte CMAC tag; the job writes firstn auth_tag_output_len_in_bytes
   (1..16) of it.  msg may be empty. *)
Definition cmac (key msg : bytes) : bytes :=
  let rks := aes_key_expand key in
  cmac_gen (aes_enc_rk rks) msg.

(* IMB_AUTH_AES_CMAC_BITLEN (128-bit key only in the library); bitlen = 0 allowed. *)
Definition cmac_bits (key msg : bytes) (bitlen : N) : bytes :=
  let rks := aes_key_expand key in
  cmac_bits_gen (aes_enc_rk rks) msg bitlen.

(* IMB_AES_XCBC_KEYEXP(key16, k1_exp, k2, k3): K1 = E_K(0x01^16) delivered as
   its AES-128 encryption key schedule (11 round keys of 16 bytes, i.e. the
   176-byte k1_exp buffer is their concatenation), K2 = E_K(0x02^16),
   K3 = E_K(0x03^16). *)
Definition xcbc_keys (key : bytes) : list bytes * bytes * bytes :=
  let e := aes_enc_rk (aes_key_expand key) in
  (aes_key_expand (e (repeat 1 16)), e (repeat 2 16), e (repeat 3 16)).

(* Full 16-byte XCBC value from already expanded keys (what the job sees). *)
Definition xcbc_expanded (k1_exp : list bytes) (k2 k3 msg : bytes) : bytes :=
  xcbc_mac_gen (aes_enc_rk k1_exp) k2 k3 msg.

(* AES-XCBC-MAC; the library writes firstn 12 (or 16) bytes of this.  msg may be empty. *)
Definition xcbc (key msg : bytes) : bytes :=
  let '(k1e, k2, k3) := xcbc_keys key in
  xcbc_expanded k1e k2 k3 msg.
