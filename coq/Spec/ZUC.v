(* Spec/ZUC.v — ZUC-128 (ETSI/SAGE "Specification of the 3GPP Confidentiality and
   Integrity Algorithms 128-EEA3 & 128-EIA3", Documents 1 & 2, v1.6 / v1.7) and ZUC-256
   ("The ZUC-256 Stream Cipher", 2018, and "A new initialization scheme of the ZUC-256
   stream cipher", tag sizes 32/64/128), as computed by intel-ipsec-mb jobs
   IMB_CIPHER_ZUC_EEA3, IMB_AUTH_ZUC_EIA3_BITLEN, IMB_AUTH_ZUC256_EIA3_BITLEN.
   Executable Gallina definitions only; known-answer tests are in Spec/ZUC_Tests.v.

   Conventions: bytes are [list N] (each < 256), 32-bit words are [N] reduced with
   [N.land]; LFSR cells are 31-bit [N]; word counts are [nat]; bit lengths are [N]
   (3GPP vectors have bit lengths above 2000, so no nat literals).  All functions are
   total: missing key/IV bytes read as 0, extra bytes are ignored.

   Library-defined behaviour (see Spec/ZUC_SNOW3G_API.md for the list) is marked LIB. *)
From IMB Require Import Lib.Bytes.
Local Open Scope N_scope.

(* ------------------------------------------------------------------------- *)
(** * S-boxes S0, S1 (ZUC spec Document 2, section 3.4.1, tables 3.1 and 3.2).
    The library has no literal table (it computes S0 by nibble permutations and S1 via
    AESENC, /repo/lib/include/zuc_sbox.inc); values are from the standard and are
    exercised by the keystream KATs (2000-word vector 4) and by tens of thousands of
    keystream words compared with the real library on random keys. *)
Definition zuc_S0 : list N :=
  [0x3e;0x72;0x5b;0x47;0xca;0xe0;0x00;0x33;0x04;0xd1;0x54;0x98;0x09;0xb9;0x6d;0xcb;
   0x7b;0x1b;0xf9;0x32;0xaf;0x9d;0x6a;0xa5;0xb8;0x2d;0xfc;0x1d;0x08;0x53;0x03;0x90;
   0x4d;0x4e;0x84;0x99;0xe4;0xce;0xd9;0x91;0xdd;0xb6;0x85;0x48;0x8b;0x29;0x6e;0xac;
   0xcd;0xc1;0xf8;0x1e;0x73;0x43;0x69;0xc6;0xb5;0xbd;0xfd;0x39;0x63;0x20;0xd4;0x38;
   0x76;0x7d;0xb2;0xa7;0xcf;0xed;0x57;0xc5;0xf3;0x2c;0xbb;0x14;0x21;0x06;0x55;0x9b;
   0xe3;0xef;0x5e;0x31;0x4f;0x7f;0x5a;0xa4;0x0d;0x82;0x51;0x49;0x5f;0xba;0x58;0x1c;
   0x4a;0x16;0xd5;0x17;0xa8;0x92;0x24;0x1f;0x8c;0xff;0xd8;0xae;0x2e;0x01;0xd3;0xad;
   0x3b;0x4b;0xda;0x46;0xeb;0xc9;0xde;0x9a;0x8f;0x87;0xd7;0x3a;0x80;0x6f;0x2f;0xc8;
   0xb1;0xb4;0x37;0xf7;0x0a;0x22;0x13;0x28;0x7c;0xcc;0x3c;0x89;0xc7;0xc3;0x96;0x56;
   0x07;0xbf;0x7e;0xf0;0x0b;0x2b;0x97;0x52;0x35;0x41;0x79;0x61;0xa6;0x4c;0x10;0xfe;
   0xbc;0x26;0x95;0x88;0x8a;0xb0;0xa3;0xfb;0xc0;0x18;0x94;0xf2;0xe1;0xe5;0xe9;0x5d;
   0xd0;0xdc;0x11;0x66;0x64;0x5c;0xec;0x59;0x42;0x75;0x12;0xf5;0x74;0x9c;0xaa;0x23;
   0x0e;0x86;0xab;0xbe;0x2a;0x02;0xe7;0x67;0xe6;0x44;0xa2;0x6c;0xc2;0x93;0x9f;0xf1;
   0xf6;0xfa;0x36;0xd2;0x50;0x68;0x9e;0x62;0x71;0x15;0x3d;0xd6;0x40;0xc4;0xe2;0x0f;
   0x8e;0x83;0x77;0x6b;0x25;0x05;0x3f;0x0c;0x30;0xea;0x70;0xb7;0xa1;0xe8;0xa9;0x65;
   0x8d;0x27;0x1a;0xdb;0x81;0xb3;0xa0;0xf4;0x45;0x7a;0x19;0xdf;0xee;0x78;0x34;0x60].

Definition zuc_S1 : list N :=
  [0x55;0xc2;0x63;0x71;0x3b;0xc8;0x47;0x86;0x9f;0x3c;0xda;0x5b;0x29;0xaa;0xfd;0x77;
   0x8c;0xc5;0x94;0x0c;0xa6;0x1a;0x13;0x00;0xe3;0xa8;0x16;0x72;0x40;0xf9;0xf8;0x42;
   0x44;0x26;0x68;0x96;0x81;0xd9;0x45;0x3e;0x10;0x76;0xc6;0xa7;0x8b;0x39;0x43;0xe1;
   0x3a;0xb5;0x56;0x2a;0xc0;0x6d;0xb3;0x05;0x22;0x66;0xbf;0xdc;0x0b;0xfa;0x62;0x48;
   0xdd;0x20;0x11;0x06;0x36;0xc9;0xc1;0xcf;0xf6;0x27;0x52;0xbb;0x69;0xf5;0xd4;0x87;
   0x7f;0x84;0x4c;0xd2;0x9c;0x57;0xa4;0xbc;0x4f;0x9a;0xdf;0xfe;0xd6;0x8d;0x7a;0xeb;
   0x2b;0x53;0xd8;0x5c;0xa1;0x14;0x17;0xfb;0x23;0xd5;0x7d;0x30;0x67;0x73;0x08;0x09;
   0xee;0xb7;0x70;0x3f;0x61;0xb2;0x19;0x8e;0x4e;0xe5;0x4b;0x93;0x8f;0x5d;0xdb;0xa9;
   0xad;0xf1;0xae;0x2e;0xcb;0x0d;0xfc;0xf4;0x2d;0x46;0x6e;0x1d;0x97;0xe8;0xd1;0xe9;
   0x4d;0x37;0xa5;0x75;0x5e;0x83;0x9e;0xab;0x82;0x9d;0xb9;0x1c;0xe0;0xcd;0x49;0x89;
   0x01;0xb6;0xbd;0x58;0x24;0xa2;0x5f;0x38;0x78;0x99;0x15;0x90;0x50;0xb8;0x95;0xe4;
   0xd0;0x91;0xc7;0xce;0xed;0x0f;0xb4;0x6f;0xa0;0xcc;0xf0;0x02;0x4a;0x79;0xc3;0xde;
   0xa3;0xef;0xea;0x51;0xe6;0x6b;0x18;0xec;0x1b;0x2c;0x80;0xf7;0x74;0xe7;0xff;0x21;
   0x5a;0x6a;0x54;0x1e;0x41;0x31;0x92;0x35;0xc4;0x33;0x07;0x0a;0xba;0x7e;0x0e;0x34;
   0x88;0xb1;0x98;0x7c;0xf3;0x3d;0x60;0x6c;0x7b;0xca;0xd3;0x1f;0x32;0x65;0x04;0x28;
   0x64;0xbe;0x85;0x9b;0x2f;0x59;0x8a;0xd7;0xb0;0x25;0xac;0xaf;0x12;0x03;0xe2;0xf2].

(* Table lookup.  [nth (N.to_nat b) t 0] costs ~12 us under vm_compute (unary nat), so the
   256-entry tables are turned once (Eval vm_compute) into complete binary trees indexed by
   the bits of the index, least significant bit first; a lookup is 8 steps.
   [zuc_bt_lookup (zuc_bt_build 8 t) b = nth (N.to_nat b) t 0] for b < 256 is checked
   exhaustively in Spec/ZUC_Tests.v. *)
Inductive zuc_btree := ZLeaf (v : N) | ZNode (l r : zuc_btree).

Fixpoint zuc_split_eo (l : list N) : list N * list N :=
  match l with
  | a :: b :: t => let (e, o) := zuc_split_eo t in (a :: e, b :: o)
  | _ => (l, [])
  end.

Fixpoint zuc_bt_build (depth : nat) (l : list N) : zuc_btree :=
  match depth with
  | O => ZLeaf (hd 0 l)
  | S d => let (e, o) := zuc_split_eo l in ZNode (zuc_bt_build d e) (zuc_bt_build d o)
  end.

Fixpoint zuc_bt_zero (t : zuc_btree) : N :=
  match t with ZLeaf v => v | ZNode l _ => zuc_bt_zero l end.

Fixpoint zuc_bt_get (t : zuc_btree) (p : positive) : N :=
  match t with
  | ZLeaf v => v
  | ZNode l r => match p with
                 | xH => zuc_bt_zero r
                 | xO p' => zuc_bt_get l p'
                 | xI p' => zuc_bt_get r p'
                 end
  end.

Definition zuc_bt_lookup (t : zuc_btree) (i : N) : N :=
  match i with N0 => zuc_bt_zero t | Npos p => zuc_bt_get t p end.

Definition zuc_S0_tree : zuc_btree := Eval vm_compute in zuc_bt_build 8 zuc_S0.
Definition zuc_S1_tree : zuc_btree := Eval vm_compute in zuc_bt_build 8 zuc_S1.

(* S = (S0, S1, S0, S1) on the four bytes of a 32-bit word, most significant first *)
Definition zuc_S (x : N) : N :=
  N.lor (N.lor (N.shiftl (zuc_bt_lookup zuc_S0_tree (N.shiftr x 24)) 24)
               (N.shiftl (zuc_bt_lookup zuc_S1_tree (w8 (N.shiftr x 16))) 16))
        (N.lor (N.shiftl (zuc_bt_lookup zuc_S0_tree (w8 (N.shiftr x 8))) 8)
               (zuc_bt_lookup zuc_S1_tree (w8 x))).

(** * Linear transforms L1, L2 (section 3.4.2)
      L1(X) = X ^ (X <<< 2) ^ (X <<< 10) ^ (X <<< 18) ^ (X <<< 24)
      L2(X) = X ^ (X <<< 8) ^ (X <<< 14) ^ (X <<< 22) ^ (X <<< 30)
    For a 32-bit X, X <<< k = ((X << k) mod 2^32) xor ((X << k) >> 32); xor commutes with
    both parts, so the five terms are xored as (up to 62-bit) integers first and the part
    above bit 31 is folded down once.  ([zuc_L1_ref]/[zuc_L2_ref] are the literal forms;
    agreement is tested in Spec/ZUC_Tests.v.) *)
Definition zuc_fold32 (a : N) : N := N.lxor (N.land a mask32) (N.shiftr a 32).
Definition zuc_L1 (x : N) : N :=
  zuc_fold32 (N.lxor (N.lxor (N.lxor (N.lxor x (N.shiftl x 2)) (N.shiftl x 10)) (N.shiftl x 18))
                     (N.shiftl x 24)).
Definition zuc_L2 (x : N) : N :=
  zuc_fold32 (N.lxor (N.lxor (N.lxor (N.lxor x (N.shiftl x 8)) (N.shiftl x 14)) (N.shiftl x 22))
                     (N.shiftl x 30)).
Definition zuc_L1_ref (x : N) : N :=
  N.lxor (N.lxor (N.lxor (N.lxor x (rotl32 x 2)) (rotl32 x 10)) (rotl32 x 18)) (rotl32 x 24).
Definition zuc_L2_ref (x : N) : N :=
  N.lxor (N.lxor (N.lxor (N.lxor x (rotl32 x 8)) (rotl32 x 14)) (rotl32 x 22)) (rotl32 x 30).

(** * The LFSR over GF(2^31 - 1) (section 3.2)
      v   = 2^15 s15 + 2^17 s13 + 2^21 s10 + 2^20 s4 + (1 + 2^8) s0  mod (2^31 - 1)
      s16 = (v + u) mod (2^31 - 1);  if s16 = 0 then s16 = 2^31 - 1
    Cells stay in the range 1 .. 2^31-1 (2^31-1 represents 0).  The sum is formed exactly in
    N (it is below 2^53) and reduced by folding the bits above bit 30 back onto the low 31
    bits (2^31 = 1 mod 2^31-1).  For a non-zero sum the first fold gives a value in
    1 .. 2^31-1+2^22 and the second the unique representative in 1 .. 2^31-1, which is what
    the standard prescribes, including the "0 becomes 2^31-1" rule. *)
Definition zuc_mask31 : N := 2147483647.
Definition zuc_fold31 (t : N) : N := N.land t zuc_mask31 + N.shiftr t 31.

(* LFSRWithInitialisationMode(u); LFSRWithWorkMode() is the case u = 0.
   The LFSR is the list [s0; ...; s15]. *)
Definition zuc_lfsr_step (s : list N) (u : N) : list N :=
  match s with
  | [s0; s1; s2; s3; s4; s5; s6; s7; s8; s9; s10; s11; s12; s13; s14; s15] =>
      let v := zuc_fold31 (zuc_fold31
                 (N.shiftl s15 15 + N.shiftl s13 17 + N.shiftl s10 21 +
                  N.shiftl s4 20 + N.shiftl s0 8 + s0 + u)) in
      [s1; s2; s3; s4; s5; s6; s7; s8; s9; s10; s11; s12; s13; s14; s15; v]
  | _ => s
  end.

(** * Bit reorganisation (section 3.3): X0..X3 *)
Definition zuc_H (x : N) : N := N.shiftr x 15.          (* bits 30..15 of a 31-bit cell *)
Definition zuc_Lo (x : N) : N := N.land x mask16.       (* bits 15..0 *)
Definition zuc_cat16 (hi lo : N) : N := N.lor (N.shiftl hi 16) lo.

Definition zuc_bitreorg (s : list N) : N * N * N * N :=
  match s with
  | [s0; s1; s2; s3; s4; s5; s6; s7; s8; s9; s10; s11; s12; s13; s14; s15] =>
      (zuc_cat16 (zuc_H s15) (zuc_Lo s14),
       zuc_cat16 (zuc_Lo s11) (zuc_H s9),
       zuc_cat16 (zuc_Lo s7) (zuc_H s5),
       zuc_cat16 (zuc_Lo s2) (zuc_H s0))
  | _ => (0, 0, 0, 0)
  end.

(** * Nonlinear function F (section 3.4): returns (W, R1', R2') *)
Definition zuc_F (x0 x1 x2 r1 r2 : N) : N * N * N :=
  let w  := add32 (N.lxor x0 r1) r2 in
  let w1 := add32 r1 x1 in
  let w2 := N.lxor r2 x2 in
  (* W1L || W2H and W2L || W1H *)
  let r1' := zuc_S (zuc_L1 (zuc_cat16 (zuc_Lo w1) (N.shiftr w2 16))) in
  let r2' := zuc_S (zuc_L2 (zuc_cat16 (zuc_Lo w2) (N.shiftr w1 16))) in
  (w, r1', r2').

Record zuc_state := mk_zuc_state { zuc_lfsr : list N; zuc_r1 : N; zuc_r2 : N }.

(* one round of the initialisation stage: u = W >> 1 *)
Definition zuc_init_round (st : zuc_state) : zuc_state :=
  let '(x0, x1, x2, _) := zuc_bitreorg (zuc_lfsr st) in
  let '(w, r1, r2) := zuc_F x0 x1 x2 (zuc_r1 st) (zuc_r2 st) in
  mk_zuc_state (zuc_lfsr_step (zuc_lfsr st) (N.shiftr w 1)) r1 r2.

(* one round of the working stage: output word Z = W xor X3 *)
Definition zuc_work_round (st : zuc_state) : N * zuc_state :=
  let '(x0, x1, x2, x3) := zuc_bitreorg (zuc_lfsr st) in
  let '(w, r1, r2) := zuc_F x0 x1 x2 (zuc_r1 st) (zuc_r2 st) in
  (N.lxor w x3, mk_zuc_state (zuc_lfsr_step (zuc_lfsr st) 0) r1 r2).

(* section 3.6.1 initialisation stage (32 rounds) followed by the first, discarded,
   round of the working stage (section 3.6.2 step 1); [s] is the loaded LFSR *)
Definition zuc_init (s : list N) : zuc_state :=
  snd (zuc_work_round (iter 32 zuc_init_round (mk_zuc_state s 0 0))).

Fixpoint zuc_gen (n : nat) (st : zuc_state) : list N :=
  match n with
  | O => []
  | S k => let '(z, st') := zuc_work_round st in z :: zuc_gen k st'
  end.

(** * ZUC-128 key loading (section 3.5): s_i = k_i || d_i || iv_i  (8 + 15 + 8 bits) *)
Definition zuc_d : list N :=
  [0x44D7; 0x26BC; 0x626B; 0x135E; 0x5789; 0x35E2; 0x7135; 0x09AF;
   0x4D78; 0x2F13; 0x6BC4; 0x1AF1; 0x5E26; 0x3C4D; 0x789A; 0x47AC].

Definition zuc_load128 (key iv : bytes) : list N :=
  map (fun i => N.lor (N.lor (N.shiftl (w8 (nth_N key i)) 23) (N.shiftl (nth_N zuc_d i) 8))
                      (w8 (nth_N iv i)))
      (upto 16).

(* [nwords] 32-bit keystream words z1, z2, ... for a 16-byte key and 16-byte IV *)
Definition zuc_keystream (key iv : bytes) (nwords : nat) : list N :=
  zuc_gen nwords (zuc_init (zuc_load128 key iv)).

(** * ZUC-256 key/IV loading (ZUC-256 spec, section 2 "Key/IV loading";
      cross-checked with INIT_LFSR_256 in /repo/lib/sse_t1/zuc_x4_sse.asm).
    K = 32 bytes, IV = 17 bytes IV0..IV16 followed by eight 6-bit values IV17..IV24.
    d constants depend on the use (tables EK256_d64 / EK256_EIA3_4/8/16 in the same file). *)
Definition zuc256_d_cipher : list N :=
  [0x22; 0x2F; 0x24; 0x2A; 0x6D; 0x40; 0x40; 0x40; 0x40; 0x40; 0x40; 0x40; 0x40; 0x52; 0x10; 0x30].
Definition zuc256_d_mac32 : list N :=
  [0x22; 0x2F; 0x25; 0x2A; 0x6D; 0x40; 0x40; 0x40; 0x40; 0x40; 0x40; 0x40; 0x40; 0x52; 0x10; 0x30].
Definition zuc256_d_mac64 : list N :=
  [0x23; 0x2F; 0x24; 0x2A; 0x6D; 0x40; 0x40; 0x40; 0x40; 0x40; 0x40; 0x40; 0x40; 0x52; 0x10; 0x30].
Definition zuc256_d_mac128 : list N :=
  [0x23; 0x2F; 0x25; 0x2A; 0x6D; 0x40; 0x40; 0x40; 0x40; 0x40; 0x40; 0x40; 0x40; 0x52; 0x10; 0x30].

(* d constants by tag length in bytes; 0 (or anything else) = cipher *)
Definition zuc256_d (taglen : nat) : list N :=
  match taglen with
  | 4%nat => zuc256_d_mac32
  | 8%nat => zuc256_d_mac64
  | 16%nat => zuc256_d_mac128
  | _ => zuc256_d_cipher
  end.

(* LIB: a 23-byte IV is 17 bytes followed by 6 bytes that pack IV17..IV24 as eight 6-bit
   values, most significant first (EXPAND_FROM_6_TO_8_BYTES in
   /repo/lib/sse_t1/mb_mgr_zuc_submit_flush_sse.asm).  Result: the 25-byte form. *)
Definition zuc256_iv_expand23 (iv : bytes) : bytes :=
  let v := be_to_N (firstn 6 (skipn 17 iv)) in
  firstn 17 iv ++ map (fun i => N.land (N.shiftr v (6 * (7 - N.of_nat i))) 63) (upto 8).

(* LIB: the job takes a 25-byte IV whose bytes 17..24 carry IV17..IV24 in their low 6 bits
   (the two top bits are ignored: pand clear_iv_mask), or a 23-byte IV (above). *)
Definition zuc256_iv25 (iv : bytes) : bytes :=
  let iv := if Nat.eqb (length iv) 23%nat then zuc256_iv_expand23 iv else iv in
  firstn 17 iv ++ map (fun b => N.land b 63) (firstn 8 (skipn 17 iv)).

Definition zuc256_cell (a b c d : N) : N :=    (* 8 || 7 || 8 || 8 bits *)
  N.lor (N.lor (N.shiftl (w8 a) 23) (N.shiftl (N.land b 127) 16)) (N.lor (N.shiftl (w8 c) 8) (w8 d)).

Definition zuc_load256 (d : list N) (key iv : bytes) : list N :=
  let K := nth_N key in
  let I := nth_N (zuc256_iv25 iv) in
  let D := nth_N d in
  [ zuc256_cell (K 0%nat) (D 0%nat) (K 21%nat) (K 16%nat);
    zuc256_cell (K 1%nat) (D 1%nat) (K 22%nat) (K 17%nat);
    zuc256_cell (K 2%nat) (D 2%nat) (K 23%nat) (K 18%nat);
    zuc256_cell (K 3%nat) (D 3%nat) (K 24%nat) (K 19%nat);
    zuc256_cell (K 4%nat) (D 4%nat) (K 25%nat) (K 20%nat);
    zuc256_cell (I 0%nat) (N.lor (D 5%nat) (I 17%nat)) (K 5%nat) (K 26%nat);
    zuc256_cell (I 1%nat) (N.lor (D 6%nat) (I 18%nat)) (K 6%nat) (K 27%nat);
    zuc256_cell (I 10%nat) (N.lor (D 7%nat) (I 19%nat)) (K 7%nat) (I 2%nat);
    zuc256_cell (K 8%nat) (N.lor (D 8%nat) (I 20%nat)) (I 3%nat) (I 11%nat);
    zuc256_cell (K 9%nat) (N.lor (D 9%nat) (I 21%nat)) (I 12%nat) (I 4%nat);
    zuc256_cell (I 5%nat) (N.lor (D 10%nat) (I 22%nat)) (K 10%nat) (K 28%nat);
    zuc256_cell (K 11%nat) (N.lor (D 11%nat) (I 23%nat)) (I 6%nat) (I 13%nat);
    zuc256_cell (K 12%nat) (N.lor (D 12%nat) (I 24%nat)) (I 7%nat) (I 14%nat);
    zuc256_cell (K 13%nat) (D 13%nat) (I 15%nat) (I 8%nat);
    zuc256_cell (K 14%nat) (N.lor (D 14%nat) (N.shiftr (w8 (K 31%nat)) 4)) (I 16%nat) (I 9%nat);
    zuc256_cell (K 15%nat) (N.lor (D 15%nat) (N.land (K 31%nat) 15)) (K 30%nat) (K 29%nat) ].

(* keystream of ZUC-256 for the use selected by [taglen] (0 = cipher, 4/8/16 = MAC);
   initialisation and working stages are those of ZUC-128 *)
Definition zuc256_keystream (taglen : nat) (key iv : bytes) (nwords : nat) : list N :=
  zuc_gen nwords (zuc_init (zuc_load256 (zuc256_d taglen) key iv)).

(** * 128-EEA3 (Document 1, section 3) on whole bytes
    LIB: IMB_CIPHER_ZUC_EEA3 takes msg_len_to_cipher_in_bytes (1..8188); every byte,
    including all 8 bits of the last one, is xored with the big-endian keystream. *)
Definition zuc_ks_bytes (ks : list N) : bytes := flat_map be32 ks.
Definition zuc_nwords_for_bytes (n : nat) : nat := Nat.div (n + 3) 4.

Definition zuc_eea3 (key iv msg : bytes) : bytes :=
  xor_bytes msg (zuc_ks_bytes (zuc_keystream key iv (zuc_nwords_for_bytes (length msg)))).

Definition zuc256_eea3 (key iv msg : bytes) : bytes :=
  xor_bytes msg (zuc_ks_bytes (zuc256_keystream 0 key iv (zuc_nwords_for_bytes (length msg)))).

(* LIB: the job selects ZUC-128 / ZUC-256 by key_len_in_bytes (16 / 32),
   /repo/lib/include/mb_mgr_job_check.h case IMB_CIPHER_ZUC_EEA3 *)
Definition zuc_eea3_job (key iv msg : bytes) : bytes :=
  if Nat.eqb (length key) 32%nat then zuc256_eea3 key iv msg else zuc_eea3 key iv msg.

(** * Universal-hash core shared by 128-EIA3 and ZUC-256 MAC
    [zuc_eia_acc ks msg bitlen] = XOR of the 32-bit keystream windows
    ks[i .. i+31] over the message bits i < bitlen that are 1, xored with the window at
    i = bitlen.  (Bit i of the message is bit 7 - i mod 8 of byte i / 8.) *)

(* first [n] bits of [l], zero padded to a whole number of bytes *)
Fixpoint zuc_take_bits (n : N) (l : bytes) : bytes :=
  match l with
  | [] => []
  | b :: t =>
      if n =? 0 then []
      else if 8 <=? n then b :: zuc_take_bits (n - 8) t
      else [N.land b (N.land (N.shiftl 255 (8 - n)) 255)]
  end.

(* message word [m] (32 bits), window [w] = z_j || z_(j+1) (64 bits); bit k-1 of m
   (k counts down from 32) is message bit 32-k of the word and selects w >> k *)
Fixpoint zuc_eia_bits (fuel : nat) (k : N) (m w t : N) : N :=
  match fuel with
  | O => t
  | S f =>
      let k' := N.pred k in
      zuc_eia_bits f k' m w (if N.testbit m k' then N.lxor t (w32 (N.shiftr w k)) else t)
  end.

Fixpoint zuc_eia_words (ms ks : list N) (t : N) : N :=
  match ms, ks with
  | m :: ms', z0 :: ((z1 :: _) as ks') =>
      zuc_eia_words ms' ks' (zuc_eia_bits 32 32 m (N.lor (N.shiftl z0 32) z1) t)
  | _, _ => t
  end.

(* 32-bit keystream window starting at bit [i] *)
Definition zuc_window (ks : list N) (i : N) : N :=
  let q := N.to_nat (N.shiftr i 5) in
  let r := N.land i 31 in
  w32 (N.shiftr (N.lor (N.shiftl (nth_N ks q) 32) (nth_N ks (S q))) (32 - r)).

Definition zuc_msg_words (msg : bytes) (bitlen : N) : list N :=
  let m := zuc_take_bits bitlen msg in
  words_be 4 (m ++ zeros (Nat.modulo (4 - Nat.modulo (length m) 4) 4)).

Definition zuc_eia_acc (ks : list N) (msg : bytes) (bitlen : N) : N :=
  N.lxor (zuc_eia_words (zuc_msg_words msg bitlen) ks 0) (zuc_window ks bitlen).

Definition zuc_nwords_for_bits (bitlen : N) : nat := N.to_nat (N.shiftr (bitlen + 31) 5).

(** * 128-EIA3 (Document 1, section 4): L = ceil(LENGTH/32) + 2 keystream words,
      MAC = T xor z[L-1], output as 4 big-endian bytes.
    LIB: IMB_AUTH_ZUC_EIA3_BITLEN, msg_len_to_hash_in_bits in 1..65504; message bits beyond
    bitlen in the last byte are ignored; the tag is always 4 bytes. *)
Definition zuc_eia3 (key iv msg : bytes) (bitlen : N) : bytes :=
  let L := (zuc_nwords_for_bits bitlen + 2)%nat in
  let ks := zuc_keystream key iv L in
  be32 (N.lxor (zuc_eia_acc ks msg bitlen) (nth_N ks (L - 1))).

(** * ZUC-256 MAC (ZUC-256 spec section 3; tag of t = 32, 64 or 128 bits):
      L = ceil(l/32) + 2 t/32 words; T = z[0 .. t-1]; for each message bit i that is 1,
      T ^= z[t+i .. t+i+t-1]; finally T ^= z[t+l .. t+l+t-1].
    Word k of T therefore is z_k xor zuc_eia_acc applied to the keystream from word t/32 + k.
    LIB: IMB_AUTH_ZUC256_EIA3_BITLEN, auth_tag_output_len_in_bytes in {4, 8, 16}; the
    d constants depend on the tag length; tag words are stored big-endian. *)
Definition zuc256_eia3 (key iv msg : bytes) (bitlen : N) (taglen : nat) : bytes :=
  let tw := Nat.div taglen 4 in
  let L := (zuc_nwords_for_bits bitlen + 2 * tw)%nat in
  let ks := zuc256_keystream taglen key iv L in
  flat_map (fun k => be32 (N.lxor (nth_N ks k) (zuc_eia_acc (skipn (tw + k) ks) msg bitlen)))
           (upto tw).

(** * 3GPP IV generators, /repo/lib/x86_64/zuc_iv.c.  [None] = the C function returns -1
    (bearer >= 32 or dir > 1).  COUNT is a 32-bit word stored big-endian. *)
Definition zuc_eea3_iv_gen (count bearer dir : N) : option bytes :=
  if (32 <=? bearer) || (1 <? dir) then None
  else
    let h := be32 count ++ [w8 (N.shiftl bearer 3 + N.shiftl dir 2); 0; 0; 0] in
    Some (h ++ h).

Definition zuc_eia3_iv_gen (count bearer dir : N) : option bytes :=
  if (32 <=? bearer) || (1 <? dir) then None
  else
    let c := be32 count in
    let b := w8 (N.shiftl bearer 3) in
    let d := N.shiftl dir 7 in
    Some (c ++ [b; 0; 0; 0] ++
          [N.lxor (nth_N c 0) d; nth_N c 1; nth_N c 2; nth_N c 3; b; 0; N.lxor 0 d; 0]).
