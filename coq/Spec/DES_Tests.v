(* Spec/DES_Tests.v — TESTS (known-answer vectors) for Spec/DES.v.
   These are checks on individual inputs, not theorems about all inputs.
   Sources: FIPS 46-3 / FIPS 81 / NIST SP 800-17 / SP 800-67 published vectors,
   the intel-ipsec-mb KAT files (/repo/test/kat-app/des_test.json.c), and
   vectors produced by the real library (libIPSec_MB.so, job API, managers
   init_mb_mgr_sse / _avx2 / _avx512 all agreeing, one job in flight). *)
From Coq Require Import String.
From IMB Require Import Lib.Bytes Spec.Hex Spec.DES.
Local Open Scope string_scope.
Local Open Scope N_scope.

(* ---- single block, published ---- *)

(* classic worked example (Grabbe); also in many FIPS 46 tutorials *)

Example des_kat_block_enc :
  des_encrypt_block (hex "133457799BBCDFF1") (hex "0123456789ABCDEF")
  = (hex "85E813540F0AB405").
Proof. vm_compute. reflexivity. Qed.

Example des_kat_block_dec :
  des_decrypt_block (hex "133457799BBCDFF1") (hex "85E813540F0AB405")
  = (hex "0123456789ABCDEF").
Proof. vm_compute. reflexivity. Qed.

(* its subkeys K1, K2, K16 (48-bit, FIPS bit 1 = MSB) *)

Example des_kat_subkeys :
  map (nth_N (des_key_schedule_std (hex "133457799BBCDFF1"))) [0; 1; 15]%nat
  = [0x1B02EFFC7072; 0x79AED9DBC9E5; 0xCB3D8B0E17F5].
Proof. vm_compute. reflexivity. Qed.

(* FIPS 81 ECB example: key 0123456789abcdef, "Now is the time for all " *)

Example des_kat_fips81_ecb_1 :
  des_encrypt_block (hex "0123456789abcdef") (hex "4e6f772069732074")
  = (hex "3fa40e8a984d4815").
Proof. vm_compute. reflexivity. Qed.

Example des_kat_fips81_ecb_2 :
  des_encrypt_block (hex "0123456789abcdef") (hex "68652074696d6520")
  = (hex "6a271787ab8883f9").
Proof. vm_compute. reflexivity. Qed.

Example des_kat_fips81_ecb_3 :
  des_encrypt_block (hex "0123456789abcdef") (hex "666f7220616c6c20")
  = (hex "893d51ec4b563b53").
Proof. vm_compute. reflexivity. Qed.

(* NIST SP 800-17 variable plaintext / variable key known answers *)

Example des_kat_sp80017_vp1 :
  des_encrypt_block (hex "0101010101010101") (hex "8000000000000000")
  = (hex "95F8A5E5DD31D900").
Proof. vm_compute. reflexivity. Qed.

Example des_kat_sp80017_vp2 :
  des_encrypt_block (hex "0101010101010101") (hex "4000000000000000")
  = (hex "DD7F121CA5015619").
Proof. vm_compute. reflexivity. Qed.

Example des_kat_sp80017_vk1 :
  des_encrypt_block (hex "8001010101010101") (hex "0000000000000000")
  = (hex "95A8D72813DAA94D").
Proof. vm_compute. reflexivity. Qed.

(* structural sanity checks on sample inputs *)
Example des_test_roundtrip :
  des_decrypt_block (hex "0e329232ea6d0d73") (des_encrypt_block (hex "0e329232ea6d0d73") (hex "8787878787878787"))
  = hex "8787878787878787".
Proof. vm_compute. reflexivity. Qed.
(* weak key: encryption is an involution *)
Example des_test_weak_key :
  des_encrypt_block (hex "0101010101010101") (des_encrypt_block (hex "0101010101010101") (hex "0123456789abcdef"))
  = hex "0123456789abcdef".
Proof. vm_compute. reflexivity. Qed.
(* complementation property E_{~k}(~x) = ~E_k(x) *)
Example des_test_complement :
  des_encrypt_block (map (N.lxor 255) (hex "133457799BBCDFF1")) (map (N.lxor 255) (hex "0123456789ABCDEF"))
  = map (N.lxor 255) (hex "85E813540F0AB405").
Proof. vm_compute. reflexivity. Qed.
(* decryption = the same network with reversed subkeys (definitional) *)
Example des_test_dec_is_rev :
  des_dec_N (des_key_schedule_std (hex "133457799BBCDFF1")) 0x85E813540F0AB405
  = des_block_ks (rev (des_key_schedule_std (hex "133457799BBCDFF1"))) 0x85E813540F0AB405.
Proof. reflexivity. Qed.

(* ---- DES-CBC (IMB_CIPHER_DES) ---- *)
(* FIPS 81 CBC example *)

Example des_cbc_kat_fips81_enc :
  des_cbc_enc (hex "0123456789abcdef") (hex "1234567890abcdef") (hex "4e6f77206973207468652074696d6520666f7220616c6c20")
  = (hex "e5c7cdde872bf27c43e934008c389c0f683788499a7c05f6").
Proof. vm_compute. reflexivity. Qed.

Example des_cbc_kat_fips81_dec :
  des_cbc_dec (hex "0123456789abcdef") (hex "1234567890abcdef") (hex "e5c7cdde872bf27c43e934008c389c0f683788499a7c05f6")
  = (hex "4e6f77206973207468652074696d6520666f7220616c6c20").
Proof. vm_compute. reflexivity. Qed.

(* /repo/test/kat-app/des_test.json.c : des_test_json (CM-SP-SECv3.1 I.7) *)

Example des_cbc_kat_repo_1_enc :
  des_cbc_enc (hex "e6600fd8852ef5ab") (hex "810e528e1c5fda1a") (hex "000102030405060708090a0b88416506")
  = (hex "0dda5acbd05e55679f04d1b6413d4eed").
Proof. vm_compute. reflexivity. Qed.

Example des_cbc_kat_repo_1_dec :
  des_cbc_dec (hex "e6600fd8852ef5ab") (hex "810e528e1c5fda1a") (hex "0dda5acbd05e55679f04d1b6413d4eed")
  = (hex "000102030405060708090a0b88416506").
Proof. vm_compute. reflexivity. Qed.

Example des_cbc_kat_repo_2_enc :
  des_cbc_enc (hex "3b3898371520f75e") (hex "02a811774dcde13b") (hex "05eff700e9a13ae5ca0bcbd0484764bd1f231ea81c7b64c514735ac55e4b79633b706424119e09dcaad4acf21b10af3b33cde3504847155cbb6f2219ba9b7df5")
  = (hex "f3318d01194da800a42c10b533d6bc1197592dcc9b5d359ac3045d074c86bf72e51a722582225403de8b7a585c6c28df410e38d62a86e34fa27c22396006036f").
Proof. vm_compute. reflexivity. Qed.

Example des_cbc_kat_repo_2_dec :
  des_cbc_dec (hex "3b3898371520f75e") (hex "02a811774dcde13b") (hex "f3318d01194da800a42c10b533d6bc1197592dcc9b5d359ac3045d074c86bf72e51a722582225403de8b7a585c6c28df410e38d62a86e34fa27c22396006036f")
  = (hex "05eff700e9a13ae5ca0bcbd0484764bd1f231ea81c7b64c514735ac55e4b79633b706424119e09dcaad4acf21b10af3b33cde3504847155cbb6f2219ba9b7df5").
Proof. vm_compute. reflexivity. Qed.


(* ---- 3DES-CBC (IMB_CIPHER_DES3) ---- *)
(* NIST SP 800-67 Appendix B.1 TECB example, block by block through CBC with IV = 0 *)

Example des3_kat_sp80067_1_enc :
  des3_cbc_enc (hex "0123456789ABCDEF") (hex "23456789ABCDEF01") (hex "456789ABCDEF0123") (zeros 8) (hex "5468652071756663")
  = (hex "A826FD8CE53B855F").
Proof. vm_compute. reflexivity. Qed.

Example des3_kat_sp80067_1_dec :
  des3_cbc_dec (hex "0123456789ABCDEF") (hex "23456789ABCDEF01") (hex "456789ABCDEF0123") (zeros 8) (hex "A826FD8CE53B855F")
  = (hex "5468652071756663").
Proof. vm_compute. reflexivity. Qed.

Example des3_kat_sp80067_2_enc :
  des3_cbc_enc (hex "0123456789ABCDEF") (hex "23456789ABCDEF01") (hex "456789ABCDEF0123") (zeros 8) (hex "6B2062726F776E20")
  = (hex "CCE21C8112256FE6").
Proof. vm_compute. reflexivity. Qed.

Example des3_kat_sp80067_2_dec :
  des3_cbc_dec (hex "0123456789ABCDEF") (hex "23456789ABCDEF01") (hex "456789ABCDEF0123") (zeros 8) (hex "CCE21C8112256FE6")
  = (hex "6B2062726F776E20").
Proof. vm_compute. reflexivity. Qed.

Example des3_kat_sp80067_3_enc :
  des3_cbc_enc (hex "0123456789ABCDEF") (hex "23456789ABCDEF01") (hex "456789ABCDEF0123") (zeros 8) (hex "666F78206A756D70")
  = (hex "68D5C05DD9B6B900").
Proof. vm_compute. reflexivity. Qed.

Example des3_kat_sp80067_3_dec :
  des3_cbc_dec (hex "0123456789ABCDEF") (hex "23456789ABCDEF01") (hex "456789ABCDEF0123") (zeros 8) (hex "68D5C05DD9B6B900")
  = (hex "666F78206A756D70").
Proof. vm_compute. reflexivity. Qed.

(* /repo/test/kat-app/des_test.json.c : des3_test_json (key = k1 || k2 || k3) *)

Example des3_cbc_kat_repo_1_enc :
  des3_cbc_enc (hex "0001020304050607") (hex "08090a0b0c0d0e0f") (hex "0001020304050607") (hex "0001020304050607") (hex "0000000000000000")
  = (hex "df0b6c9c31cd0ce4").
Proof. vm_compute. reflexivity. Qed.

Example des3_cbc_kat_repo_1_dec :
  des3_cbc_dec (hex "0001020304050607") (hex "08090a0b0c0d0e0f") (hex "0001020304050607") (hex "0001020304050607") (hex "df0b6c9c31cd0ce4")
  = (hex "0000000000000000").
Proof. vm_compute. reflexivity. Qed.

Example des3_cbc_kat_repo_2_enc :
  des3_cbc_enc (hex "0001020304050607") (hex "08090a0b0c0d0e0f") (hex "0001020304050607") (hex "0001020304050607") (hex "000102030405060708090a0b0c0d0e0f")
  = (hex "ddada161e8d79673ed7532e59223cd0d").
Proof. vm_compute. reflexivity. Qed.

Example des3_cbc_kat_repo_2_dec :
  des3_cbc_dec (hex "0001020304050607") (hex "08090a0b0c0d0e0f") (hex "0001020304050607") (hex "0001020304050607") (hex "ddada161e8d79673ed7532e59223cd0d")
  = (hex "000102030405060708090a0b0c0d0e0f").
Proof. vm_compute. reflexivity. Qed.

Example des3_cbc_kat_repo_3_enc :
  des3_cbc_enc (hex "0001020304050607") (hex "08090a0b0c0d0e0f") (hex "1011121314151617") (hex "0001020304050607") (hex "0000000000000000")
  = (hex "58ed248f77f6b19e").
Proof. vm_compute. reflexivity. Qed.

Example des3_cbc_kat_repo_3_dec :
  des3_cbc_dec (hex "0001020304050607") (hex "08090a0b0c0d0e0f") (hex "1011121314151617") (hex "0001020304050607") (hex "58ed248f77f6b19e")
  = (hex "0000000000000000").
Proof. vm_compute. reflexivity. Qed.

Example des3_cbc_kat_repo_4_enc :
  des3_cbc_enc (hex "0001020304050607") (hex "08090a0b0c0d0e0f") (hex "1011121314151617") (hex "0001020304050607") (hex "000102030405060708090a0b0c0d0e0f")
  = (hex "894bc3085426a441f27f73ae26abbf74").
Proof. vm_compute. reflexivity. Qed.

Example des3_cbc_kat_repo_4_dec :
  des3_cbc_dec (hex "0001020304050607") (hex "08090a0b0c0d0e0f") (hex "1011121314151617") (hex "0001020304050607") (hex "894bc3085426a441f27f73ae26abbf74")
  = (hex "000102030405060708090a0b0c0d0e0f").
Proof. vm_compute. reflexivity. Qed.


(* ---- DOCSIS DES (IMB_CIPHER_DOCSIS_DES) ---- *)
(* /repo/test/kat-app/des_test.json.c : des_docsis_test_json (CM-SP-SECv3.1 I.7) *)

Example docsis_des_kat_repo_1_enc :
  docsis_des_enc (hex "e6600fd8852ef5ab") (hex "810e528e1c5fda1a") (hex "000102030405060708090a0b88416506")
  = (hex "0dda5acbd05e55679f04d1b6413d4eed").
Proof. vm_compute. reflexivity. Qed.

Example docsis_des_kat_repo_1_dec :
  docsis_des_dec (hex "e6600fd8852ef5ab") (hex "810e528e1c5fda1a") (hex "0dda5acbd05e55679f04d1b6413d4eed")
  = (hex "000102030405060708090a0b88416506").
Proof. vm_compute. reflexivity. Qed.

Example docsis_des_kat_repo_2_enc :
  docsis_des_enc (hex "e6600fd8852ef5ab") (hex "810e528e1c5fda1a") (hex "000102030405060708090a0b0c0d0e91d2d19f")
  = (hex "0dda5acbd05e5567514746868a71e577efac88").
Proof. vm_compute. reflexivity. Qed.

Example docsis_des_kat_repo_2_dec :
  docsis_des_dec (hex "e6600fd8852ef5ab") (hex "810e528e1c5fda1a") (hex "0dda5acbd05e5567514746868a71e577efac88")
  = (hex "000102030405060708090a0b0c0d0e91d2d19f").
Proof. vm_compute. reflexivity. Qed.

Example docsis_des_kat_repo_3_enc :
  docsis_des_enc (hex "e6600fd8852ef5ab") (hex "514746868a71e577") (hex "d2d19f")
  = (hex "efac88").
Proof. vm_compute. reflexivity. Qed.

Example docsis_des_kat_repo_3_dec :
  docsis_des_dec (hex "e6600fd8852ef5ab") (hex "514746868a71e577") (hex "efac88")
  = (hex "d2d19f").
Proof. vm_compute. reflexivity. Qed.

(* des_cfb_test_json : des_cfb_one() direct API *)

Example des_cfb_one_kat_repo_1 :
  des_cfb_one (hex "e6600fd8852ef5ab") (hex "514746868a71e577") (hex "d2d19f")
  = (hex "efac88").
Proof. vm_compute. reflexivity. Qed.


(* ---- library-derived vectors (random inputs; sse, avx2, avx512 managers agree) ---- *)

Example docsis_des_lib_len1_enc :
  docsis_des_enc (hex "7a4c2c7896a31f0d") (hex "ebe1aa2a68911155") (hex "92")
  = (hex "e2").
Proof. vm_compute. reflexivity. Qed.

Example docsis_des_lib_len1_dec :
  docsis_des_dec (hex "ce02fcacf1c6afd7") (hex "642d96cc02fd1b94") (hex "38")
  = (hex "b3").
Proof. vm_compute. reflexivity. Qed.

Example docsis_des_lib_len5_enc :
  docsis_des_enc (hex "6bf316db1cb345f0") (hex "b0bfab666adef650") (hex "e527b79b58")
  = (hex "5919729855").
Proof. vm_compute. reflexivity. Qed.

Example docsis_des_lib_len5_dec :
  docsis_des_dec (hex "e6c0f175064824a8") (hex "e93f7b4a0cbd418c") (hex "bfb80e42da")
  = (hex "dd0b94c96c").
Proof. vm_compute. reflexivity. Qed.

Example docsis_des_lib_len7_enc :
  docsis_des_enc (hex "455c0b97a3893a5a") (hex "86b0408ec3245786") (hex "d1c5cb1dde34ba")
  = (hex "3fb06c863571cf").
Proof. vm_compute. reflexivity. Qed.

Example docsis_des_lib_len7_dec :
  docsis_des_dec (hex "5d896b5c10d40275") (hex "ce0694845d18a2d1") (hex "76756b07b92c3f")
  = (hex "8182394aa20725").
Proof. vm_compute. reflexivity. Qed.

Example docsis_des_lib_len8_enc :
  docsis_des_enc (hex "d4290f4e67a66ae9") (hex "f3500a9e667ef9e2") (hex "4e72335aa37fe4f8")
  = (hex "ccdd285055038faa").
Proof. vm_compute. reflexivity. Qed.

Example docsis_des_lib_len8_dec :
  docsis_des_dec (hex "1724673cf31fd30f") (hex "f9b9ab453dd8f7e1") (hex "e3aa073ee5aa1512")
  = (hex "7ab545c48efb0c93").
Proof. vm_compute. reflexivity. Qed.

Example docsis_des_lib_len9_enc :
  docsis_des_enc (hex "b0c46135030bef37") (hex "24eca10b8a7bf4b5") (hex "bcf39d137bf3f3e281")
  = (hex "78e0ba078692f12152").
Proof. vm_compute. reflexivity. Qed.

Example docsis_des_lib_len9_dec :
  docsis_des_dec (hex "20ff5e30c9a05cee") (hex "f1eb4470c81117c3") (hex "51e329c06bd642fc3f")
  = (hex "470339b8c92bb18f80").
Proof. vm_compute. reflexivity. Qed.

Example docsis_des_lib_len15_enc :
  docsis_des_enc (hex "70286709bdff713c") (hex "1b14a0e63c69823c") (hex "570431753bb0ed504f70e30ce301db")
  = (hex "62f59da2f1ddebb72f81074ea40cc3").
Proof. vm_compute. reflexivity. Qed.

Example docsis_des_lib_len15_dec :
  docsis_des_dec (hex "0829a68d22cb5e5c") (hex "4cb2321593f687af") (hex "87125fa3cd8cf435a13446d77496fb")
  = (hex "3bf40e5db7fe61f98f29b5ed119ef5").
Proof. vm_compute. reflexivity. Qed.

Example docsis_des_lib_len16_enc :
  docsis_des_enc (hex "b24c34fb6fed083b") (hex "eb7e82bed40041f6") (hex "a214e654dd7c0b41a3993076e3e279b8")
  = (hex "0fcfe9b0188c4f919dfcdf81360c992d").
Proof. vm_compute. reflexivity. Qed.

Example docsis_des_lib_len16_dec :
  docsis_des_dec (hex "5fb6b21a758ed7e8") (hex "1e8d742a1bbada2f") (hex "a151ba3d3cec6af47f6fa328043d0fab")
  = (hex "9fb53e3bb7fdbd2e2a8b73d68944e8b0").
Proof. vm_compute. reflexivity. Qed.

Example docsis_des_lib_len17_enc :
  docsis_des_enc (hex "8550d9eea51290f3") (hex "d4a3490da7e6225d") (hex "0c3d62e134464410955b342b9ee622f40b")
  = (hex "f3791dc7b19f0da05a4960cd28f885bb15").
Proof. vm_compute. reflexivity. Qed.

Example docsis_des_lib_len17_dec :
  docsis_des_dec (hex "6bcd4f0de90d7fff") (hex "8736df98879921b4") (hex "cfd13dff23c836b4dd28954826ea354552")
  = (hex "9dd1ad60ddc1d52b4e44e8f4ce900247fe").
Proof. vm_compute. reflexivity. Qed.

Example docsis_des_lib_len23_enc :
  docsis_des_enc (hex "85e69ad6e32cc180") (hex "57e51dd80e5ddd02") (hex "80a220cd8add824b432d5d84a9d616b68caaa5f7dfa58c")
  = (hex "7b530960a484e9ad7ed45075e467f9a4e5355effc2ac63").
Proof. vm_compute. reflexivity. Qed.

Example docsis_des_lib_len23_dec :
  docsis_des_dec (hex "1362f2d71ebf0a2a") (hex "b9b3dbd08971c065") (hex "e1317c07f141dcd36247d48eafbcad2277472d1fae861a")
  = (hex "3b966c6197746b62a56ee5b361f640e069a1a07b5fdbbc").
Proof. vm_compute. reflexivity. Qed.

Example docsis_des_lib_len33_enc :
  docsis_des_enc (hex "6db9f672a8b70d6e") (hex "03f092df042af62d") (hex "ded51111f8422c9c3f705d8714b8edea879a95c583030c799ee2cd29540fe30581")
  = (hex "3d51594c3681866f53be7eb2ffcec011071ffc384ecd6388dcea6c43ee110dc21a").
Proof. vm_compute. reflexivity. Qed.

Example docsis_des_lib_len33_dec :
  docsis_des_dec (hex "a1f8bfe92bccffbe") (hex "9b0b2a82e0135f9b") (hex "cc265fbf2c2adc2d351bc6fad023295b57cffe9c5a27d6db47e4b82199c45efbd0")
  = (hex "709ebff3167d7bd236b134a14db729182687ce6dc3a7e4651f54ab6e637dd20db4").
Proof. vm_compute. reflexivity. Qed.

Example docsis_des_lib_len100_enc :
  docsis_des_enc (hex "6fcdbb89e4c778b4") (hex "b0c4fe25fbd2f44d") (hex "9728b41072490772a38cd02e488f5ca79da293e16722f71969af20fcbc27b43b0db1babeb81f886a7a345420122899e50cafe4d8765369c5035afcbc0cd020db8d50eb1c0cfb4a3bd2d61fce7a8d9522619d8c437e692b346059ac3e703b32dec625a23a")
  = (hex "e0f00726cefee57e61a0c77c11aa50ba32c73cdabec170f8d44053eaae079dcdc7ac20d5cf1f4365e87ec1592372f0a5c60fc20e0f3e4c4e5d4d6794d93635812bb1a85fd244d86221afa3dd7147481615e67a0cb739f54a626011893ad6e08393c5f66d").
Proof. vm_compute. reflexivity. Qed.

Example docsis_des_lib_len100_dec :
  docsis_des_dec (hex "aceec6027eacf611") (hex "1d507d4b3453e073") (hex "b12fe3ea24aca2009e20c78a2348b0e3d9b6f75a555b17af3446b39c6670e6ee853fbcceca54c6f5b549f8c698ec7f746562b044260fd0965303fd197006a34559f477a4bf3915fa24a3187158e9a17a62fc6ccd9499e93f53d528ab094b39bf51fb3d7d")
  = (hex "43c357eaa22355697b91882c7de398e1c5b1c8c6ac775d168ab7f391421cad56317a2028d96d49c87b4ac1137da07a52606ae051d0dba27a2385754c21dbd37ee47f8ccd238e44acf99f548df4a730c3cef18e3ba42db32477962ef3cb97568e673939cb").
Proof. vm_compute. reflexivity. Qed.

Example des_cbc_lib_len8_enc :
  des_cbc_enc (hex "0b02e536a14ed61a") (hex "edc1cd6969986c34") (hex "564894e02f9ac4ed")
  = (hex "e45ea1bfec2b273d").
Proof. vm_compute. reflexivity. Qed.

Example des_cbc_lib_len8_dec :
  des_cbc_dec (hex "41a81ee038492a4e") (hex "9e87ffc2adb31833") (hex "8623a771b764ce50")
  = (hex "ebb569fb7c0e7429").
Proof. vm_compute. reflexivity. Qed.

Example des_cbc_lib_len24_enc :
  des_cbc_enc (hex "82d437ff01e93513") (hex "26a69eb7a70b7df5") (hex "d0fe734606c31cdad8ce0f9e16a040097f47f80bf361b666")
  = (hex "3654a5d7174b39e4e88016bc373c967a4b04f1b1b17cbcae").
Proof. vm_compute. reflexivity. Qed.

Example des_cbc_lib_len24_dec :
  des_cbc_dec (hex "ee0b7be5aaa9cdbc") (hex "49d2ca3ae73b9370") (hex "9b7779c84bd37e00bb1362794c5774abcf137c0d522d5221")
  = (hex "1b4017b92d049df230e83a19555258ee4264ff2986ae23e4").
Proof. vm_compute. reflexivity. Qed.

Example des_cbc_lib_len128_enc :
  des_cbc_enc (hex "67add33525938a7b") (hex "5e49657a4ce7c15f") (hex "e22aabb5f62f29e47624ff063684e787d2694e2bae6d577dc92795eab13d9433509efec200a8cca372779b615da3325e374ebbb3008e1ca67cd8dccad35a558d61f3af8d2981ba1946261102908f69993d4e15f6c4cb16fa603e528113e79ed3bd6132a87ead95336110d79d0c3655a6cbc63d596bfb834e67d6ebff81b21f33")
  = (hex "99d1249e12b40c5a3b4ff17f10ba5fd27c96a8901b011cacb58955b9bbedef8f6bffd15210572ad4609e796c04e745b22cec6962fcbee8b72a67e8e2ef73ee1bbadd27ab116f3da06d16840b2724b8fb7debc2803ba940610b3d9535a1d1ede65945d0276fa4229166e7643885762e7853c2c551816da36d6f6e59978a685c04").
Proof. vm_compute. reflexivity. Qed.

Example des_cbc_lib_len128_dec :
  des_cbc_dec (hex "6806a6050eb5d13f") (hex "ef0f3ecb05c6fb6d") (hex "59af9391c1c4a65ea6e1e1a15cebf56a0833931535389e796b917143a7b09de480c7c60e8c4125496a4c2dd635b0492712b9f4ca1066869a439af1bf02c40a8db98ad7853d1e058cf5b635288943aff94c24f260dced001e9b57191d801588ca3143911feb15dc96ea22ef9e27e772b5d1e4ed41bc9b35dcb26633754146714d")
  = (hex "87c2b7e2b9bc049c6a3c50a969c159c6556eb32abc28e50685ee5b23ee1a640bd077647ab1bc0b84e88d497186ad40301606233ad08009145c4d3c870ef489f26a8f607070af65ddd5f311c0342a34a3a62c949d5097abe0ec8e0730584ce4fcad96f41f0357e96dcc58de0bfcdedcba11aeda249e11b139c5b10c9f7e709706").
Proof. vm_compute. reflexivity. Qed.

Example des3_cbc_lib_len8_enc :
  des3_cbc_enc (hex "7e79448600231ebc") (hex "2e8fa0e7c3a3e5be") (hex "6fa9524fb5df2ebb") (hex "119330e8f9216e13") (hex "4e190ce118dce134")
  = (hex "a407efa93a43b34f").
Proof. vm_compute. reflexivity. Qed.

Example des3_cbc_lib_len8_dec :
  des3_cbc_dec (hex "0dc17b044971aeb1") (hex "ec23f2414c71d36f") (hex "d454cf0b4eb12e0e") (hex "ede2af4ff73f7ead") (hex "6a004598755bac91")
  = (hex "9154e5ee8063c002").
Proof. vm_compute. reflexivity. Qed.

Example des3_cbc_lib_len40_enc :
  des3_cbc_enc (hex "5845793c7bfc98e6") (hex "7e6f9a1b7a1991b9") (hex "3c2ee551cc0242f6") (hex "b98290cd745c51b9") (hex "48d989f4f7003e207997e8b4f9a9f4fc87b17c3f1d2eb4fb2ce64e9979535b12fd0755143202fc0c")
  = (hex "4139b9f14e6650a9421eabf57448052d9a415652fb295a0044a852c3e69a3833aa7abd7fb373c677").
Proof. vm_compute. reflexivity. Qed.

Example des3_cbc_lib_len40_dec :
  des3_cbc_dec (hex "6e0e252f93fb070e") (hex "462d1e8384adbb10") (hex "154b7dab9fe1221d") (hex "92ff2e257063a7bb") (hex "6c2c1b89a991d53485ce657af4cde42b8bbf0ec86c2e73e8f508d0a75b4b9652aeccd8e88f6aed21")
  = (hex "311ff803bd57c0b0a7b05a6addb417be61c455a58783318f64d3a7a324f350c2a6607b81f53642cf").
Proof. vm_compute. reflexivity. Qed.

Example des3_cbc_lib_len128_enc :
  des3_cbc_enc (hex "e007eed62f68c473") (hex "59559fd538fb8a1c") (hex "1c5f48040c907402") (hex "f0f82b04cc2edc73") (hex "c827ea17e640ed144c08760d700d061f18610935beb3ef035202d36328ad9dc1c7af0a31b1e0196c1b6c99dbebd503433c70d1d84581a6c4da9d9d96015eaac17fbe91a9642d3b3da3c54a29d2b6debb248f354019ed4fa0e9edd090e164a980dec11c00c38b4cfa1d6e3a6df2613ccb8b36a484c05a483e59f13234ccf326e5")
  = (hex "f29aa311033cc3582c2ffdb6f4aaaa7f97249d51bba391d744779e007cdd620be34e1e27e628f1cc8fe386fc4cdeecde0af8bf7cad7aea6d31fbb914d75a80b8c6f569f82141ff02442a88721eb1a86824e719861654746eb553fbf1350cb1a4aa23cdca8218cf3c83f6107cd1a7bafe6063a91982639c36245f0ff29f6398ae").
Proof. vm_compute. reflexivity. Qed.

Example des3_cbc_lib_len128_dec :
  des3_cbc_dec (hex "1fd1f861cf1ea940") (hex "c3233d38de59c0d9") (hex "b6e1cb2d03ac7404") (hex "3fb3c46b45391058") (hex "0bcf3475d2da9456982b451fc6473aca93e8582fa528fbb00bbb2149bbbafcb08efb4d670ba260023d685f5c995211e7f8acc97e50506c529155992515338a6746f94eb7065b09913f5ee8bf53cf81ee2f9ba94a625a6231a237c2b676583db72e755b4a9d26fc3e51f86631420fb5cb5848d9e0865e8af939fc7ba944664983")
  = (hex "2c96330d37e4d472234e4a1c48f99a74071e992c8dd27a7bcef4d5b31d469455a3b3c478ac1533382b9098adeaed43b5f1b54cd226f28a93a9877b973278e00c70c7a4a2aae11b9cbc2225a8eb8c0cf8b1b499a768e2d559543273dc54c39e4293f03f6eb9eef2852fab838b6569ab41b4e487eb929402cc0e71dfd51f60f328").
Proof. vm_compute. reflexivity. Qed.

(* des_cfb_one() direct call, len = 7 (library writes len & 7 bytes: len = 8 writes nothing) *)

Example des_cfb_one_lib_len7 :
  des_cfb_one (hex "e6600fd8852ef5ab") (hex "514746868a71e577") (hex "d2d19f01020304")
  = (hex "efac88e9ec8337").
Proof. vm_compute. reflexivity. Qed.


(* des_key_schedule() / IMB_DES_KEYSCHED memory image (16 x uint64, 128 bytes) *)

Example des_ks_lib_weak_0101 :
  des_key_schedule_lib (hex "0101010101010101")
  = (hex "0000000000000000000000000000000000000000000000000000000000000000000000000000000000000000000000000000000000000000000000000000000000000000000000000000000000000000000000000000000000000000000000000000000000000000000000000000000000000000000000000000000000000000").
Proof. vm_compute. reflexivity. Qed.

Example des_ks_lib_weak_fefe :
  des_key_schedule_lib (hex "fefefefefefefefe")
  = (hex "3f3f3f3f3f3f3f3f3f3f3f3f3f3f3f3f3f3f3f3f3f3f3f3f3f3f3f3f3f3f3f3f3f3f3f3f3f3f3f3f3f3f3f3f3f3f3f3f3f3f3f3f3f3f3f3f3f3f3f3f3f3f3f3f3f3f3f3f3f3f3f3f3f3f3f3f3f3f3f3f3f3f3f3f3f3f3f3f3f3f3f3f3f3f3f3f3f3f3f3f3f3f3f3f3f3f3f3f3f3f3f3f3f3f3f3f3f3f3f3f3f3f3f3f3f3f3f3f").
Proof. vm_compute. reflexivity. Qed.

Example des_ks_lib_weak_e0f1 :
  des_key_schedule_lib (hex "e0e0e0e0f1f1f1f1")
  = (hex "3f3f3f3f000000003f3f3f3f000000003f3f3f3f000000003f3f3f3f000000003f3f3f3f000000003f3f3f3f000000003f3f3f3f000000003f3f3f3f000000003f3f3f3f000000003f3f3f3f000000003f3f3f3f000000003f3f3f3f000000003f3f3f3f000000003f3f3f3f000000003f3f3f3f000000003f3f3f3f00000000").
Proof. vm_compute. reflexivity. Qed.

Example des_ks_lib_weak_1f0e :
  des_key_schedule_lib (hex "1f1f1f1f0e0e0e0e")
  = (hex "000000003f3f3f3f000000003f3f3f3f000000003f3f3f3f000000003f3f3f3f000000003f3f3f3f000000003f3f3f3f000000003f3f3f3f000000003f3f3f3f000000003f3f3f3f000000003f3f3f3f000000003f3f3f3f000000003f3f3f3f000000003f3f3f3f000000003f3f3f3f000000003f3f3f3f000000003f3f3f3f").
Proof. vm_compute. reflexivity. Qed.

Example des_ks_lib_zero :
  des_key_schedule_lib (hex "0000000000000000")
  = (hex "0000000000000000000000000000000000000000000000000000000000000000000000000000000000000000000000000000000000000000000000000000000000000000000000000000000000000000000000000000000000000000000000000000000000000000000000000000000000000000000000000000000000000000").
Proof. vm_compute. reflexivity. Qed.

Example des_ks_lib_ones :
  des_key_schedule_lib (hex "ffffffffffffffff")
  = (hex "3f3f3f3f3f3f3f3f3f3f3f3f3f3f3f3f3f3f3f3f3f3f3f3f3f3f3f3f3f3f3f3f3f3f3f3f3f3f3f3f3f3f3f3f3f3f3f3f3f3f3f3f3f3f3f3f3f3f3f3f3f3f3f3f3f3f3f3f3f3f3f3f3f3f3f3f3f3f3f3f3f3f3f3f3f3f3f3f3f3f3f3f3f3f3f3f3f3f3f3f3f3f3f3f3f3f3f3f3f3f3f3f3f3f3f3f3f3f3f3f3f3f3f3f3f3f3f3f").
Proof. vm_compute. reflexivity. Qed.

Example des_ks_lib_semiweak_01fe :
  des_key_schedule_lib (hex "01fe01fe01fe01fe")
  = (hex "092a3c290223192f361503163d1c2610361503163d1c2610361503163d1c2610361503163d1c2610361503163d1c2610361503163d1c2610361503163d1c2610092a3c290223192f092a3c290223192f092a3c290223192f092a3c290223192f092a3c290223192f092a3c290223192f092a3c290223192f361503163d1c2610").
Proof. vm_compute. reflexivity. Qed.

Example des_ks_lib_133457799bbcdff1 :
  des_key_schedule_lib (hex "133457799bbcdff1")
  = (hex "1803343d3f3820131e1637261b0f39292a3e1314020d1f260e153b1a1b330a2e3e1c0338172b1c0506170a1f0a380d3d3704123b2f21110f2f07051703323d37072c3d35371e1e200d3e2c381d09263c042a3f323b2d1c182e3a382b29183e25290f3a221f3525203a0b1c3b0f1d0e173d27182c3c320f1413331b3430213e2b").
Proof. vm_compute. reflexivity. Qed.

Example des_ks_lib_bit0 :
  des_key_schedule_lib (hex "8000000000000000")
  = (hex "0000000200000000000800000000000000000800000000000000002000000000000200000000000000001000000000000800000000000000000000000000000000100000000000000000020000000000020000000000000000040000000000000000001000000000040000000000000000000000000000000000200000000000").
Proof. vm_compute. reflexivity. Qed.

Example des_ks_lib_bit7 :
  des_key_schedule_lib (hex "0100000000000000")
  = (hex "0000000000000000000000000000000000000000000000000000000000000000000000000000000000000000000000000000000000000000000000000000000000000000000000000000000000000000000000000000000000000000000000000000000000000000000000000000000000000000000000000000000000000000").
Proof. vm_compute. reflexivity. Qed.

Example des_ks_lib_bit8 :
  des_key_schedule_lib (hex "0080000000000000")
  = (hex "0008000000000000200000000000000000010000000000001000000000000000000000040000000000000000000000000000010000000000001000000000000000000008000000000000000000000000000000010000000001000000000000000000040000000000002000000000000000002000000000000000000200000000").
Proof. vm_compute. reflexivity. Qed.

Example des_ks_lib_bit35 :
  des_key_schedule_lib (hex "0000000010000000")
  = (hex "0000000400000000000010000000000008000000000000000000000000000000000000080000000000000000000000000000000100000000010000000000000000000010000000000400000000000000000000000000000000000002000000002000000000000000000100000000000010000000000000000002000000000000").
Proof. vm_compute. reflexivity. Qed.

Example des_ks_lib_bit63 :
  des_key_schedule_lib (hex "0000000000000001")
  = (hex "0000000000000000000000000000000000000000000000000000000000000000000000000000000000000000000000000000000000000000000000000000000000000000000000000000000000000000000000000000000000000000000000000000000000000000000000000000000000000000000000000000000000000000").
Proof. vm_compute. reflexivity. Qed.

Example des_ks_lib_rand0 :
  des_key_schedule_lib (hex "a13c6dd46739890f")
  = (hex "14101f12070a0f0f063b0408212f270010243b0919142e0b0b1820371d0e1708250e0e011a18163203211d383d1b002c1c36242205393c10202a32152d140c3920143c06240b282e28290333023738183713290027041a2d101d162c1221373c1a220a163a2d182726043125002b2b25091f0118133509032900273c390e2037").
Proof. vm_compute. reflexivity. Qed.

Example des_ks_lib_rand1 :
  des_key_schedule_lib (hex "589e1cb8de1f539f")
  = (hex "0c0f180c37253f1f292133243b3f2a151a1b2500373c2f0d103c1b0c1f3c371f0a102a3c3f2e1737060e0321393b2737031619193d3f2d0b0d1416320d1e3f1b172805182b3b3d2e04342d050d373c2f013822330f371f39270a2f023e111f3f223d1c203e3b393e18272a32263f3837360a303427372b3d30321c073e2f2e36").
Proof. vm_compute. reflexivity. Qed.

Example des_ks_lib_rand2 :
  des_key_schedule_lib (hex "e525356fbe810779")
  = (hex "0815272f1d222532151c132a17030c0b2a120e1d090a1d1c072512232a20142a3b0625190b13302d053d141604351d243c202e190c310a3b072921263603191132383033201d3c112d0f2a0e2f042b2032091c30130526161c27092f3a3e0e04311230341c2822050c0b170f133c01193b301900251817070a132919013b0322").
Proof. vm_compute. reflexivity. Qed.

(* the 16 uint64 words for the classic key *)
Example des_ks_lib_words_first :
  nth_N (des_key_schedule_lib_words (hex "133457799BBCDFF1")) 0 = le_to_N (firstn 8 (des_key_schedule_lib (hex "133457799BBCDFF1"))).
Proof. vm_compute. reflexivity. Qed.
