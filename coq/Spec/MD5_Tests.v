(* Spec/MD5_Tests.v — KNOWN-ANSWER TESTS (not theorems about all inputs) for Spec/MD5.v.
   Vectors: RFC 1321 appendix A.5 test suite. *)
From Coq Require Import String.
From IMB Require Import Lib.Bytes Spec.Hex Spec.SHA Spec.MD5.
Local Open Scope N_scope.

Example test_md5_empty : md5 [] = hex "d41d8cd98f00b204e9800998ecf8427e".
Proof. vm_compute. reflexivity. Qed.
Example test_md5_a : md5 (ascii_bytes "a") = hex "0cc175b9c0f1b6a831c399e269772661".
Proof. vm_compute. reflexivity. Qed.
Example test_md5_abc : md5 (ascii_bytes "abc") = hex "900150983cd24fb0d6963f7d28e17f72".
Proof. vm_compute. reflexivity. Qed.
Example test_md5_msgdigest :
  md5 (ascii_bytes "message digest") = hex "f96b697d7cb7938d525a2f31aaf161d0".
Proof. vm_compute. reflexivity. Qed.
Example test_md5_alpha :
  md5 (ascii_bytes "abcdefghijklmnopqrstuvwxyz") = hex "c3fcd3d76192e4007dfb496cca67e13b".
Proof. vm_compute. reflexivity. Qed.
Example test_md5_alnum :
  md5 (ascii_bytes "ABCDEFGHIJKLMNOPQRSTUVWXYZabcdefghijklmnopqrstuvwxyz0123456789")
  = hex "d174ab98d277d9f5a5611c2c9f419d9f".
Proof. vm_compute. reflexivity. Qed.
Example test_md5_digits :
  md5 (ascii_bytes ("1234567890123456789012345678901234567890"
                    ++ "1234567890123456789012345678901234567890"))
  = hex "57edf4a22be3c955ac49da2e2107b67a".
Proof. vm_compute. reflexivity. Qed.

(* table sanity: md5_K has 64 entries *)
Example test_md5_K_len : length md5_K = 64%nat.
Proof. vm_compute. reflexivity. Qed.

(* little-endian length field *)
Example test_md5_pad_abc :
  md5_pad 3 (ascii_bytes "abc") = hex "61626380" ++ zeros 52 ++ hex "1800000000000000".
Proof. vm_compute. reflexivity. Qed.

(* prefix-block form *)
Example test_md5_split :
  md_finish H_MD5 (md5_blocks md5_init (zeros 64)) 67 (ascii_bytes "abc")
  = md5 (zeros 64 ++ ascii_bytes "abc").
Proof. vm_compute. reflexivity. Qed.
