(* Spec/KASUMI_Tests.v — KNOWN-ANSWER TESTS for Spec/KASUMI.v (tests, not theorems).
   Sources: 3GPP TS 35.203 (KASUMI block cipher test sets 1-3, f8 test sets 1-5,
   f9 test sets) as carried in /repo/test/kat-app/kasumi_f8.json.c (tcId 301-305,
   201, 202) and /repo/test/kat-app/kasumi_f9.json.c (tcId 1-10, 101-105);
   plus samples of real-library output (job API, identical on the SSE / AVX2 /
   AVX512 managers) pinning the library-defined buffer semantics. *)
From IMB Require Import Lib.Bytes Spec.Hex Spec.KASUMI.
From Coq Require Import String.
Local Open Scope N_scope.
Local Open Scope string_scope.

(* ---- TS 35.203 section 3: KASUMI block cipher test sets ---- *)
Example kasumi_block_set1 :
  kasumi_block (hex "2BD6459F82C5B300952C49104881FF48") (hex "EA024714AD5C4D84") = hex "DF1F9B251C0BF45F".
Proof. vm_compute. reflexivity. Qed.
Example kasumi_block_set2 :
  kasumi_block (hex "8CE33E2CC3C0B5FC1F3DE8A6DC66B1F3") (hex "D3C5D592327FB11C") = hex "DE551988CEB2F9B7".
Proof. vm_compute. reflexivity. Qed.
Example kasumi_block_set3 :
  kasumi_block (hex "4035C6680AF8C6D1A8FF8667B1714013") (hex "62A540981BA6F9B7") = hex "4592B0E78690F71B".
Proof. vm_compute. reflexivity. Qed.

(* key schedule shape *)
Example kasumi_key_schedule_len :
  List.length (kasumi_key_schedule (hex "2BD6459F82C5B300952C49104881FF48")) = 64%nat.
Proof. vm_compute. reflexivity. Qed.

(* ---- TS 35.203 section 4: f8 test sets 1-5 (kasumi_f8.json.c tcId 301-305), in-place job,
   bit lengths 798, 510, 253, 120, 837; trailing bits of the last byte are preserved ---- *)
Example kasumi_f8_lib201_800bits :
  kasumi_f8 (hex "2bd6459f82c5b300952c49104881ff48") (hex "72a4f20f64000000")
    (hex "7ec61272743bf1614726446a6c38ced166f6ca76eb5430044286346cef130f92922b03450d3a9975e5bd2ea0eb55ad8e1b199e3ec4316020e9a1b285e762795359b7bdfd39bef4b2484583d5afe082aee638bf5fd5a606193901a08f4ab41aab9b134880") 800 0
  = hex "d1e2de70eef86c6964fb542bc2d460aabfaa10a4a093262b7d199e706fc2d4891553296910f3a973012682e41c4e2b02be2017b7253bbf9309de5819cb42e81956f4c99bc9765caf53b1d0bb8279826adbbc5522e915c120a618a5a7f5e897089339650f".
Proof. vm_compute. reflexivity. Qed.
Example kasumi_f8_lib202_512bits :
  kasumi_f8 (hex "2bd6459f82c5b300952c49104881ff48") (hex "72a4f20f64000000")
    (hex "10111231e060253a43fd3f57e37607ab2827b599b6b1bbda37a8abcc5a8c550d1bfb2f494624fb50367fa36ce3bc68f11cf93b1510376b02130f812a9fa169d8") 512 0
  = hex "bf35de337aa3b83260202f164d9aa9d0f17b6f4bfd76adf5083701d0da5d8e169c8305655bedcb56d2e40f2814a7ee7db9c0b29cf13db4b1f3706bb6b381f892".
Proof. vm_compute. reflexivity. Qed.
Example kasumi_f8_set1 :
  kasumi_f8 (hex "2bd6459f82c5b300952c49104881ff48") (hex "72a4f20f64000000")
    (hex "7ec61272743bf1614726446a6c38ced166f6ca76eb5430044286346cef130f92922b03450d3a9975e5bd2ea0eb55ad8e1b199e3ec4316020e9a1b285e762795359b7bdfd39bef4b2484583d5afe082aee638bf5fd5a606193901a08f4ab41aab9b134883") 798 0
  = hex "d1e2de70eef86c6964fb542bc2d460aabfaa10a4a093262b7d199e706fc2d4891553296910f3a973012682e41c4e2b02be2017b7253bbf9309de5819cb42e81956f4c99bc9765caf53b1d0bb8279826adbbc5522e915c120a618a5a7f5e897089339650f".
Proof. vm_compute. reflexivity. Qed.
Example kasumi_f8_set2 :
  kasumi_f8 (hex "efa8b2229e720c2a7c36ea55e9605695") (hex "e28bcf7bc0000000")
    (hex "10111231e060253a43fd3f57e37607ab2827b599b6b1bbda37a8abcc5a8c550d1bfb2f494624fb50367fa36ce3bc68f11cf93b1510376b02130f812a9fa169db") 510 0
  = hex "3deacc7c15821caa89eecade9b5bd3614bd0c8419d710385ddbe5849ef1bac5ae8b14a5b0a6741521eb4e00bb9ecf3e9f7ccb9cae74152d7f4e2a034b6ea00ef".
Proof. vm_compute. reflexivity. Qed.
Example kasumi_f8_set3 :
  kasumi_f8 (hex "d3c5d592327fb11c4035c6680af8c6d1") (hex "398a59b42c000000")
    (hex "981ba6824c1bfb1ab485472029b71d808ce33e2cc3c0b5fc1f3de8a6dc66b1f7") 253 0
  = hex "5bb9431bb1e98bd11b93db7c3d45136559bb86a295aa204ecbebf6f7a5101517".
Proof. vm_compute. reflexivity. Qed.
Example kasumi_f8_set4 :
  kasumi_f8 (hex "5acb1d644c0d51204ea5f1451010d852") (hex "fa556b261c000000")
    (hex "ad9c441f890b38c457a49d421407e8") 120 0
  = hex "9bc92ca803c67b28a11a4bee5a0c25".
Proof. vm_compute. reflexivity. Qed.
Example kasumi_f8_set5 :
  kasumi_f8 (hex "6090eae04c83706eecbf652be8e36566") (hex "72a4f20f48000000")
    (hex "40981ba6824c1bfb4286b299783daf442c099f7ab0f58d5c8e46b104f08f01b41ab485472029b71d36bd1a3d90dc3a41b46d51672ac4c9663a2be063da4bc8d2808ce33e2cccbfc634e1b259060876a0fbb5a437ebcc8d31c19e4454318745e3987645987a986f2cb7") 837 0
  = hex "ddb364dd2aaec24dff291957b78bad063ac579cd9041babe89fd195c0578cb9fde4217566178d20240206d07cfa619ec059f63514459fc10d42dc9934e56ebc0cbc60d4d2df174774cbdcd5da4a350317a7f12e1949471f8a295f272e68fc07159b07d8e2d26e4599f".
Proof. vm_compute. reflexivity. Qed.

(* f8 IV of test set 1: COUNT=72A4F20F BEARER=0C DIRECTION=1 *)
Example kasumi_f8_iv_gen_set1 : kasumi_f8_iv_gen 0x72A4F20F 0x0C 1 = Some (hex "72a4f20f64000000").
Proof. vm_compute. reflexivity. Qed.
Example kasumi_f8_iv_gen_bad_bearer : kasumi_f8_iv_gen 1 32 0 = None.
Proof. vm_compute. reflexivity. Qed.
Example kasumi_f8_iv_gen_bad_dir : kasumi_f8_iv_gen 1 0 2 = None.
Proof. vm_compute. reflexivity. Qed.
Example kasumi_f9_iv_gen_set1 : kasumi_f9_iv_gen 0x38A6F056 0x05D2EC49 = hex "38a6f05605d2ec49".
Proof. vm_compute. reflexivity. Qed.

(* ---- TS 35.203 section 5: f9 test sets (kasumi_f9.json.c tcId 1-10): the job message is
   COUNT || FRESH || MESSAGE || DIRECTION || 1 || 0* already assembled ---- *)
Example kasumi_f9_tc1 :
  kasumi_f9 (hex "2bd6459f82c5b300952c49104881ff48")
    (hex "38a6f05605d2ec496b227737296f393c8079353edc87e2e805d2ec49a4f2d8e2")
  = hex "f63bd72c".
Proof. vm_compute. reflexivity. Qed.
Example kasumi_f9_tc2 :
  kasumi_f9 (hex "d42f682428201cafcd9f97945e6de7b7")
    (hex "3edc87e2a4f2d8e2b5924384328a4ae00b737109f8b6c8dd2b4db63dd533981ceb19aad52a5b2bc3")
  = hex "a9daf1ff".
Proof. vm_compute. reflexivity. Qed.
Example kasumi_f9_tc3 :
  kasumi_f9 (hex "c736c6aab22bfff91e2698d2e22ad57e")
    (hex "14793e410397e8fdd0a7d463df9fb2b278833fa02e235aa172bd970c1473e12907fb648b6599aaa0b24a038665422b20a499276a50427009c0")
  = hex "dd7dfadd".
Proof. vm_compute. reflexivity. Qed.
Example kasumi_f9_tc4 :
  kasumi_f9 (hex "7e5e94431e11d73828d739cc6ced4573")
    (hex "36af61449838f03ab3d3c9170a4e1632f60f861013d22d84b726b6a278d802d1eeaf1321ba5929df")
  = hex "2beef3ac".
Proof. vm_compute. reflexivity. Qed.
Example kasumi_f9_tc5 :
  kasumi_f9 (hex "fdb9cfdf28936cc483a31869d81b8fab")
    (hex "36af61449838f03a5932bc0ace2b0aba33d8ac188ac54f346fad10bf9dee2920b43bd0c53a915cb7df6caa72053abff380")
  = hex "1537d316".
Proof. vm_compute. reflexivity. Qed.
Example kasumi_f9_tc6 :
  kasumi_f9 (hex "6832a65cff4473621ebdd4ba26a921fe")
    (hex "36af61449838f03ad3c53839626820717765667620323837636240981ba6824c1bfb1ab485472029b71d808ce33e2cc3c0b5fc1f3de8a6dc80")
  = hex "8b2d570f".
Proof. vm_compute. reflexivity. Qed.
Example kasumi_f9_tc7 :
  kasumi_f9 (hex "d3419be821087acd02123a9248033359")
    (hex "c7590ea957d5df7dbbb057038809496bcff86d6fbc8ce5b135a06b166054f2d565be8ace75dc851e0bcdd8f07141c495872fb5d8c0c66a8b6da556663e4e461205d84580bee5bc7e80")
  = hex "02158170".
Proof. vm_compute. reflexivity. Qed.
Example kasumi_f9_tc8 :
  kasumi_f9 (hex "83fd23a244a74cf358da3019f1722635")
    (hex "36af61444f302ad235c68716633c66fb750c266865d53c11ea05b1e9fa49c8398d48e1efa5909d3947902837f5ae96d5a05bc8d61ca8dbef1b13a4b4abfe4fb1006045b674bb54729304c382be53a5af05556176f6eaa2ef1d05e4b083181ee674cda5a485f74d7ac0")
  = hex "95ae41ba".
Proof. vm_compute. reflexivity. Qed.
Example kasumi_f9_tc9 :
  kasumi_f9 (hex "f4ebec69e73eaf2eb2cf6af4b3120ffd")
    (hex "296f393c6b22773710bfff839e0c71658dbb2d1707e145724f41c16f48bf403c3b18e38fd5d1663b6f6d900193e3cea8bb4f1b4f5be822032232a78d7d75238d5e6daecd3b4322cf59bc7ea84ab18811b5bfb7bc553f4fe44478ce287a14879990d18d12ca79d2c855149021cd5ce8ca0371ca04fcce143e3d7cfee94585b5885cac46068bc0")
  = hex "c383839d".
Proof. vm_compute. reflexivity. Qed.
Example kasumi_f9_tc10 :
  kasumi_f9 (hex "5d0a80d8134ae19677824b671e838af4")
    (hex "7827fab2a56c6ca270dedf2dc42c5cbd3a96f8a0b11418b3608d5733604a2cd36aabc70ce3193bb5153be2d3c06dfdb2d16e9c357158be6a41d6b861e491db3fbfeb518efcf048d7d58953730ff30c9ec470ffcd663dc34201c36addc0111c35b38afee7cfdb582e3731f8b4baa8d1a89c06e81199a9716227be344efcb436ddd0f096c064c3b5e2c399993fc77394f9e09720a811850ef23b2ee05d9e6173609d86e1c0c18ea51a012a00bb413b9cb8188a703cd6bae31cc67b34b1b00019e6a2b2a690f02671fe7c9ef8dec0094e533763478d58d2c5f5b827a0148c5948a96931acf84f465a64e62ce74007e991e37ea823fa0fb21923b79905b733b631e6c7d6860a3831ac351a9c730c52ff72d9d308eedbab21fde143a0ea17e23edc1f74cbb3638a2033aaa15464eaa733385dbbeb6fd73509b857e6a419dca1d8907af977fbac4dfa35ef")
  = hex "3ae4bff3".
Proof. vm_compute. reflexivity. Qed.

(* f9 from separate COUNT / FRESH / DIRECTION / bit length (kasumi_f9.json.c tcId 101-105,
   iv field = DIRECTION byte || COUNT || FRESH) via kasumi_f9_3gpp ---- *)
Example kasumi_f9_3gpp_tc101 :
  kasumi_f9_3gpp (hex "2bd6459f82c5b300952c49104881ff48") 950464598 97709129 false
    (hex "6b227737296f393c8079353edc87e2e805d2ec49a4f2d8e0") 189
  = hex "f63bd72c".
Proof. vm_compute. reflexivity. Qed.
Example kasumi_f9_3gpp_tc102 :
  kasumi_f9_3gpp (hex "d42f682428201cafcd9f97945e6de7b7") 1054640098 2767378658 true
    (hex "b5924384328a4ae00b737109f8b6c8dd2b4db63dd533981ceb19aad52a5b2bc0") 254
  = hex "a9daf1ff".
Proof. vm_compute. reflexivity. Qed.
Example kasumi_f9_3gpp_tc103 :
  kasumi_f9_3gpp (hex "fdb9cfdf28936cc483a31869d81b8fab") 917463364 2553868346 true
    (hex "5932bc0ace2b0aba33d8ac188ac54f346fad10bf9dee2920b43bd0c53a915cb7df6caa72053abff2") 319
  = hex "1537d316".
Proof. vm_compute. reflexivity. Qed.
Example kasumi_f9_3gpp_tc104 :
  kasumi_f9_3gpp (hex "c736c6aab22bfff91e2698d2e22ad57e") 343490113 60287229 true
    (hex "d0a7d463df9fb2b278833fa02e235aa172bd970c1473e12907fb648b6599aaa0b24a038665422b20a499276a50427009") 384
  = hex "dd7dfadd".
Proof. vm_compute. reflexivity. Qed.
Example kasumi_f9_3gpp_tc105 :
  kasumi_f9_3gpp (hex "f4ebec69e73eaf2eb2cf6af4b3120ffd") 695155004 1797420855 true
    (hex "10bfff839e0c71658dbb2d1707e145724f41c16f48bf403c3b18e38fd5d1663b6f6d900193e3cea8bb4f1b4f5be822032232a78d7d75238d5e6daecd3b4322cf59bc7ea84ab18811b5bfb7bc553f4fe44478ce287a14879990d18d12ca79d2c855149021cd5ce8ca0371ca04fcce143e3d7cfee94585b5885cac46068b") 1000
  = hex "c383839d".
Proof. vm_compute. reflexivity. Qed.

(* ---- samples of real library output (job API; SSE = AVX2 = AVX512) pinning buffer semantics ---- *)
(* byte path, out-of-place, byte offset: output lands at dst+0 *)
Example kasumi_f8_lib_sample1 :
  kasumi_f8_job (hex "3fc9f2c2aac567b61b8d4968b9ac55a3") (hex "f7c88c2f735d2f26")
    (hex "92ded9c91e49b415069633cb9fd319d40292d3e209cdf30c1cb0")
    (hex "be5bcaff87dee346c6d31287eda1e593f5ac81e65413135d1eea") 16 120
  = hex "d735caff87dee346c6d31287eda1e593f5ac81e65413135d1eea".
Proof. vm_compute. reflexivity. Qed.
(* byte path, in-place, byte offset: output lands at msg+0 *)
Example kasumi_f8_lib_sample2 :
  kasumi_f8_job (hex "a1ba300bae985856802666fa3761bbd5") (hex "70f6abb7aa23d64f")
    (hex "58a97e2ec93aca8aca961bab2f66b0d8beb9f54f65b6b2668542b668aeda10")
    (hex "58a97e2ec93aca8aca961bab2f66b0d8beb9f54f65b6b2668542b668aeda10") 16 160
  = hex "7fe17e2ec93aca8aca961bab2f66b0d8beb9f54f65b6b2668542b668aeda10".
Proof. vm_compute. reflexivity. Qed.
(* bit path, single-block quirk: bitlen=2, bit offset 7, only 1 byte stored (out-of-place) *)
Example kasumi_f8_lib_sample3 :
  kasumi_f8_job (hex "2cd493682b74c8a497ff8b2d347ef089") (hex "4b7bcafe2ca8d970")
    (hex "f3bbc2aa5e70d52deb1fdd")
    (hex "57a4161f2cc30f9aacd343") 2 7
  = hex "57a4161f2cc30f9aacd343".
Proof. vm_compute. reflexivity. Qed.
(* bit path, single-block quirk: bitlen=2, bit offset 7, only 1 byte stored (in-place) *)
Example kasumi_f8_lib_sample4 :
  kasumi_f8_job (hex "03d64ab135fd6571094d50b81c6fbd09") (hex "ab78fbc7e6c1d637")
    (hex "539c2d3cff9b967bfb986e")
    (hex "539c2d3cff9b967bfb986e") 2 7
  = hex "529c2d3cff9b967bfb986e".
Proof. vm_compute. reflexivity. Qed.
(* bit path, single-block quirk: bitlen=8, bit offset 1 *)
Example kasumi_f8_lib_sample5 :
  kasumi_f8_job (hex "c22d883a339637abe3d064b20d975c28") (hex "61635a37a2175db1")
    (hex "d56e70da124ac57dcfb1fe")
    (hex "940147c1e68f0418efd828") 8 1
  = hex "e40147c1e68f0418efd828".
Proof. vm_compute. reflexivity. Qed.
(* bit path, bitlen=57, bit offset 7 (exactly one block) *)
Example kasumi_f8_lib_sample6 :
  kasumi_f8_job (hex "000bdb944d903a9fc0094ec3dce0ede5") (hex "8cba0f206b21a8b5")
    (hex "2b28cb4295995b8d7e648ba4e1cb50cd58")
    (hex "cf741f80c9a0e1a76dcca7ceb03a4f913b") 57 7
  = hex "ced432d0dcc5fd9c6dcca7ceb03a4f913b".
Proof. vm_compute. reflexivity. Qed.
(* bit path, bitlen=56, bit offset 7 (single block path, 63 bits) *)
Example kasumi_f8_lib_sample7 :
  kasumi_f8_job (hex "003de5ba3af172bf29263595aed20789") (hex "8291537194c10b1f")
    (hex "6b72b1ea2925df49d1d171c04d51f5ec60")
    (hex "e2ac28be206e44b5b91029a6d31584e351") 56 7
  = hex "e28b14f71f192cb5b91029a6d31584e351".
Proof. vm_compute. reflexivity. Qed.
(* bit path with byte+bit offset, out-of-place, 129 bits *)
Example kasumi_f8_lib_sample8 :
  kasumi_f8_job (hex "05567374338d5a82e1ae18e992e6fd43") (hex "287bef491a695b36")
    (hex "d055e7b9de3a6bd0df838a5ae7bebbd34528841c73188df46c8e0e4027")
    (hex "e273d62eb8c5e6db50fd5d7d77454c50ecaca1ec5a7bff5200ae80fe6d") 129 27
  = hex "e273d63d70ac76a021b62dbbe4e522fa15b94c2c5a7bff5200ae80fe6d".
Proof. vm_compute. reflexivity. Qed.
(* bit path with byte+bit offset, in-place, 193 bits *)
Example kasumi_f8_lib_sample9 :
  kasumi_f8_job (hex "b4a1d75b1325ac4b9f2b9ee24b956dcf") (hex "0b79cc4f2ca3265d")
    (hex "254b018ad5c98634ed4d24fca679af0eecd17bfaae31f87c0849c109242e44f525d42f11ff105c")
    (hex "254b018ad5c98634ed4d24fca679af0eecd17bfaae31f87c0849c109242e44f525d42f11ff105c") 193 45
  = hex "254b018ad5ca5c942db71a3dabeb0db5a51e55da2b16cf0742dc5207b91244f525d42f11ff105c".
Proof. vm_compute. reflexivity. Qed.
(* bit path, 500 bits, offset 6, out-of-place *)
Example kasumi_f8_lib_sample10 :
  kasumi_f8_job (hex "1b55c8356190aee2e12ce48e784f61fe") (hex "17c4f8125b567ceb")
    (hex "f93130cc5231ab6ac94fcc3c1be05692847dc081b137c096e8515ddef564ecce67265abf482b336c65bcdf461f7b50c08fd10558424d33966533739be1a026e599bcd3f97b445cbfa6")
    (hex "bc94c1fb41ea7420e3c5d7c5a6a13531775288f88474050e97f1afe7a35f32f7b698b743aaaa2914cf8f63bf16e65393759d88e9f3caf0dbd95930b895e60c7bcceaae4944d13a9849") 500 6
  = hex "bfd7a2c0811a0457c2cc33646cb8f7cfeafb5b41ddef802488140eb761cca80d9570b7abb6c0f507ff2f7073a9820146ece1503dd36a55b72070ba987d409f7bcceaae4944d13a9849".
Proof. vm_compute. reflexivity. Qed.
(* library f9 job, 9-byte message (no padding added, zero extension to 64 bits) *)
Example kasumi_f9_lib_sample_9 :
  kasumi_f9 (hex "bb8d60394dd870b27b5df2edf59d6ce8") (hex "433de94672ed28d16b") = hex "0d46fed2".
Proof. vm_compute. reflexivity. Qed.
(* library f9 job, 17-byte message (no padding added, zero extension to 64 bits) *)
Example kasumi_f9_lib_sample_17 :
  kasumi_f9 (hex "8a28279fb6e394031fa3381a2a774ee9") (hex "e94fc660599859843aa4835b73ab88695e") = hex "4e21817b".
Proof. vm_compute. reflexivity. Qed.
(* library f9 job, 100-byte message (no padding added, zero extension to 64 bits) *)
Example kasumi_f9_lib_sample_100 :
  kasumi_f9 (hex "10d1b3fa176a4cc24baade97abb541ec") (hex "d1ecbf2ce55b2e2c0eccac2b541d73634ef69e7ba1052bb59c4888351bafac0537f80a8e7528147d9188e15fa08e8aa0325acf4ad2dc513d93bfc7031577943e3fa191804eb829a051f689941f022e511ea8cc3fa6d2e2e3bae5e1d3d0cd3a4b3445e93a") = hex "2f77755b".
Proof. vm_compute. reflexivity. Qed.
(* IMB_KASUMI_INIT_F8_KEY_SCHED / IMB_KASUMI_INIT_F9_KEY_SCHED output (sk16, msk16) *)
Example kasumi_f8_key_sched_lib :
  kasumi_f8_key_sched (hex "b93611ab9471ca721852c485b34dcd89") =
  ([29293; 7642; 13666; 59022; 34244; 1949; 46697; 65433; 9046; 1949; 36402; 32285; 19891; 59022; 14769; 47125; 10467; 59022; 20057; 50457; 35277; 32285; 55078; 21708; 38117; 32285; 2627; 65433; 14009; 50457; 25141; 7642; 12452; 50457; 37048; 47125; 43793; 65433; 12942; 1949; 35083; 65433; 27062; 21708; 29076; 47125; 22862; 59022; 26267; 47125; 45369; 7642; 29386; 21708; 17162; 32285; 39699; 21708; 9943; 1949; 21016; 7642; 47248; 50457],
   [55495; 18575; 40904; 46043; 53393; 21192; 7363; 43724; 35324; 21192; 9368; 11080; 6374; 46043; 37659; 60736; 33353; 46043; 58611; 36940; 56472; 11080; 32140; 409; 15951; 11080; 41193; 43724; 25580; 36940; 51359; 18575; 39438; 36940; 14866; 60736; 65092; 43724; 38948; 21192; 9121; 43724; 49948; 409; 9409; 60736; 62436; 46043; 52273; 60736; 7059; 18575; 10143; 409; 59808; 11080; 12729; 409; 35965; 21192; 1869; 18575; 4666; 36940]).
Proof. vm_compute. reflexivity. Qed.
Example kasumi_f9_key_sched_lib :
  kasumi_f9_key_sched (hex "b93611ab9471ca721852c485b34dcd89") =
  ([29293; 7642; 13666; 59022; 34244; 1949; 46697; 65433; 9046; 1949; 36402; 32285; 19891; 59022; 14769; 47125; 10467; 59022; 20057; 50457; 35277; 32285; 55078; 21708; 38117; 32285; 2627; 65433; 14009; 50457; 25141; 7642; 12452; 50457; 37048; 47125; 43793; 65433; 12942; 1949; 35083; 65433; 27062; 21708; 29076; 47125; 22862; 59022; 26267; 47125; 45369; 7642; 29386; 21708; 17162; 32285; 39699; 21708; 9943; 1949; 21016; 7642; 47248; 50457],
   [10040; 46960; 24631; 19492; 12142; 44343; 58172; 21811; 30211; 44343; 56167; 54455; 59161; 19492; 27876; 4799; 32182; 19492; 6924; 28595; 9063; 54455; 33395; 65126; 49584; 54455; 24342; 21811; 39955; 28595; 14176; 46960; 26097; 28595; 50669; 4799; 443; 21811; 26587; 44343; 56414; 21811; 15587; 65126; 56126; 4799; 3099; 19492; 13262; 4799; 58476; 46960; 55392; 65126; 5727; 54455; 52806; 65126; 29570; 44343; 63666; 46960; 60869; 28595]).
Proof. vm_compute. reflexivity. Qed.
