(* Spec/SNOWV.v — SNOW-V stream cipher and SNOW-V-GCM AEAD
   (P. Ekdahl, T. Johansson, A. Maximov, J. Yang, "A new SNOW stream cipher called
   SNOW-V", IACR ToSC 2019(3) / ePrint 2018/1143) as computed by the intel-ipsec-mb
   jobs IMB_CIPHER_SNOW_V and IMB_CIPHER_SNOW_V_AEAD + IMB_AUTH_SNOW_V_AEAD
   (/repo/lib/sse_t1/snow_v_sse.asm, /repo/lib/avx2_t1/snow_v_avx.asm,
    /repo/lib/include/job_api_snowv.h).
   Definitions only.  Known-answer tests are in Spec/SNOWV_Tests.v.

   Conventions: LFSR-A / LFSR-B are lists of 16 16-bit words, index i = a_i / b_i.
   128-bit registers (R1, R2, R3, T1, T2, z) are 16 bytes in memory
   (little-endian) order, i.e. byte 0 is the least significant byte of the
   128-bit value and of 32-bit lane 0; this is also the order in which key, IV
   and key stream bytes are read / written. *)
From IMB Require Import Lib.Bytes.
Local Open Scope N_scope.

(* ------------------------------------------------------------------ *)
(* Private AES encryption round (FIPS-197 SubBytes, ShiftRows, MixColumns) with
   an all-zero round key — the AES^R of the paper / `aesenc x, 0`. *)
Definition snowv_aes_sbox : list N := [
    99; 124; 119; 123; 242; 107; 111; 197; 48; 1; 103; 43; 254; 215; 171; 118;
    202; 130; 201; 125; 250; 89; 71; 240; 173; 212; 162; 175; 156; 164; 114; 192;
    183; 253; 147; 38; 54; 63; 247; 204; 52; 165; 229; 241; 113; 216; 49; 21;
    4; 199; 35; 195; 24; 150; 5; 154; 7; 18; 128; 226; 235; 39; 178; 117;
    9; 131; 44; 26; 27; 110; 90; 160; 82; 59; 214; 179; 41; 227; 47; 132;
    83; 209; 0; 237; 32; 252; 177; 91; 106; 203; 190; 57; 74; 76; 88; 207;
    208; 239; 170; 251; 67; 77; 51; 133; 69; 249; 2; 127; 80; 60; 159; 168;
    81; 163; 64; 143; 146; 157; 56; 245; 188; 182; 218; 33; 16; 255; 243; 210;
    205; 12; 19; 236; 95; 151; 68; 23; 196; 167; 126; 61; 100; 93; 25; 115;
    96; 129; 79; 220; 34; 42; 144; 136; 70; 238; 184; 20; 222; 94; 11; 219;
    224; 50; 58; 10; 73; 6; 36; 92; 194; 211; 172; 98; 145; 149; 228; 121;
    231; 200; 55; 109; 141; 213; 78; 169; 108; 86; 244; 234; 101; 122; 174; 8;
    186; 120; 37; 46; 28; 166; 180; 198; 232; 221; 116; 31; 75; 189; 139; 138;
    112; 62; 181; 102; 72; 3; 246; 14; 97; 53; 87; 185; 134; 193; 29; 158;
    225; 248; 152; 17; 105; 217; 142; 148; 155; 30; 135; 233; 206; 85; 40; 223;
    140; 161; 137; 13; 191; 230; 66; 104; 65; 153; 45; 15; 176; 84; 187; 22
].

Definition snowv_sub (x : N) : N := nth (N.to_nat x) snowv_aes_sbox 0.

Definition permute (perm : list nat) (st : bytes) : bytes :=
  map (fun i => nth i st 0) perm.

(* state byte i is row (i mod 4), column (i / 4): out[r+4c] = in[r + 4((c+r) mod 4)] *)
Definition snowv_shiftrows_perm : list nat :=
  [0;5;10;15;4;9;14;3;8;13;2;7;12;1;6;11]%nat.

Definition xtime (x : N) : N :=
  N.lxor (w8 (N.shiftl x 1)) (if N.testbit x 7 then 0x1b else 0).

Definition mixcolumn (c : bytes) : bytes :=
  match c with
  | [a0; a1; a2; a3] =>
      let x3 a := N.lxor (xtime a) a in
      [ N.lxor (N.lxor (xtime a0) (x3 a1)) (N.lxor a2 a3);
        N.lxor (N.lxor a0 (xtime a1)) (N.lxor (x3 a2) a3);
        N.lxor (N.lxor a0 a1) (N.lxor (xtime a2) (x3 a3));
        N.lxor (N.lxor (x3 a0) a1) (N.lxor a2 (xtime a3)) ]
  | _ => c
  end.

Definition snowv_aes_round (st : bytes) : bytes :=
  flat_map mixcolumn (chunks 4 (permute snowv_shiftrows_perm (map snowv_sub st))).

(* ------------------------------------------------------------------ *)
(* 128-bit helpers *)
Definition add32x4 (a b : bytes) : bytes :=
  flat_map le32 (map (fun p => add32 (fst p) (snd p)) (combine (words_le 4 a) (words_le 4 b))).

Definition words16_of_bytes (b : bytes) : list N := words_le 2 b.
Definition bytes_of_words16 (w : list N) : bytes := flat_map (N_to_le 2) w.

(* sigma = [0,4,8,12,1,5,9,13,2,6,10,14,3,7,11,15]: out[i] = in[sigma[i]] *)
Definition snowv_sigma_perm : list nat :=
  [0;4;8;12;1;5;9;13;2;6;10;14;3;7;11;15]%nat.

(* ------------------------------------------------------------------ *)
(* LFSRs over GF(2^16):
   g^A(x) = x^16+x^15+x^12+x^11+x^8+x^3+x^2+x+1      (0x990f),  alpha^-1 const 0xcc87
   g^B(x) = x^16+x^15+x^14+x^11+x^8+x^6+x^5+x+1      (0xc963),  beta^-1  const 0xe4b1 *)
Definition mul_x (v c : N) : N :=
  if N.testbit v 15 then N.lxor (w16 (N.shiftl v 1)) c else w16 (N.shiftl v 1).
Definition mul_x_inv (v d : N) : N :=
  if N.testbit v 0 then N.lxor (N.shiftr v 1) d else N.shiftr v 1.

Record snowv_state := mkSnowV {
  sv_A : list N; sv_B : list N; sv_R1 : bytes; sv_R2 : bytes; sv_R3 : bytes }.

Definition lfsr_step (ab : list N * list N) : list N * list N :=
  let '(A, B) := ab in
  let a i := nth_N A i in
  let b i := nth_N B i in
  let u := N.lxor (N.lxor (mul_x (a 0%nat) 0x990f) (a 1%nat))
                  (N.lxor (mul_x_inv (a 8%nat) 0xcc87) (b 0%nat)) in
  let v := N.lxor (N.lxor (mul_x (b 0%nat) 0xc963) (b 3%nat))
                  (N.lxor (mul_x_inv (b 8%nat) 0xe4b1) (a 0%nat)) in
  (tl A ++ [u], tl B ++ [v]).

(* one key-stream step clocks both LFSRs 8 times *)
Definition lfsr_update (ab : list N * list N) : list N * list N := iter 8 lfsr_step ab.

Definition snowv_T1 (s : snowv_state) : bytes := bytes_of_words16 (skipn 8 (sv_B s)).
Definition snowv_T2 (s : snowv_state) : bytes := bytes_of_words16 (firstn 8 (sv_A s)).

(* z = (R1 [+]32 T1) xor R2 *)
Definition snowv_z (s : snowv_state) : bytes :=
  xor_bytes (add32x4 (sv_R1 s) (snowv_T1 s)) (sv_R2 s).

(* FSM update then LFSR update *)
Definition snowv_clock (s : snowv_state) : snowv_state :=
  let r1' := permute snowv_sigma_perm (add32x4 (sv_R2 s) (xor_bytes (sv_R3 s) (snowv_T2 s))) in
  let r2' := snowv_aes_round (sv_R1 s) in
  let r3' := snowv_aes_round (sv_R2 s) in
  let '(A', B') := lfsr_update (sv_A s, sv_B s) in
  mkSnowV A' B' r1' r2' r3'.

(* ------------------------------------------------------------------ *)
(* Initialisation (paper section 2.3; snow_v_common_init in snow_v_sse.asm).
   (a15..a8) = key[0..16), (a7..a0) = iv, (b15..b8) = key[16..32),
   (b7..b0) = 0 for plain SNOW-V; in AEAD mode (b7..b0) =
   (6D6F 6854 676E 694A 2064 6B45 7865 6C41) = ASCII "AlexEkd JingThom" in memory order.
   16 rounds with z fed back into (a15..a8); R1 ^= key[0..16) after round 15,
   R1 ^= key[16..32) after round 16. *)
Definition snowv_aead_b_lo : list N :=
  [0x6C41; 0x7865; 0x6B45; 0x2064; 0x694A; 0x676E; 0x6854; 0x6D6F].

Definition snowv_init_round (s : snowv_state) : snowv_state :=
  let z := snowv_z s in
  let s' := snowv_clock s in
  let A := sv_A s' in
  let hi := map (fun p => N.lxor (fst p) (snd p)) (combine (skipn 8 A) (words16_of_bytes z)) in
  mkSnowV (firstn 8 A ++ hi) (sv_B s') (sv_R1 s') (sv_R2 s') (sv_R3 s').

Definition snowv_xor_R1 (s : snowv_state) (k : bytes) : snowv_state :=
  mkSnowV (sv_A s) (sv_B s) (xor_bytes (sv_R1 s) k) (sv_R2 s) (sv_R3 s).

Definition snowv_init (aead : bool) (key iv : bytes) : snowv_state :=
  let key := firstn 32 (pad_right 32 key) in
  let iv := firstn 16 (pad_right 16 iv) in
  let klo := firstn 16 key in
  let khi := skipn 16 key in
  let s0 := mkSnowV (words16_of_bytes iv ++ words16_of_bytes klo)
                    ((if aead then snowv_aead_b_lo else repeat 0 8) ++ words16_of_bytes khi)
                    (zeros 16) (zeros 16) (zeros 16) in
  let s14 := iter 14 snowv_init_round s0 in
  let s15 := snowv_xor_R1 (snowv_init_round s14) klo in
  snowv_xor_R1 (snowv_init_round s15) khi.

(* n 16-byte key-stream blocks from a state *)
Fixpoint snowv_ks_from (n : nat) (s : snowv_state) : bytes :=
  match n with
  | O => []
  | S n' => snowv_z s ++ snowv_ks_from n' (snowv_clock s)
  end.

(* SNOW-V key stream: key 32 bytes, iv 16 bytes, nblocks blocks of 16 bytes *)
Definition snowv_keystream (key iv : bytes) (nblocks : nat) : bytes :=
  snowv_ks_from nblocks (snowv_init false key iv).

Definition nblocks16 (l : bytes) : nat := Nat.div (length l + 15) 16.

(* IMB_CIPHER_SNOW_V job: dst[0..n) = src[off..off+n) xor key stream (any n >= 0;
   encrypt = decrypt; cipher_direction is ignored). *)
Definition snowv (key iv msg : bytes) : bytes :=
  xor_bytes msg (snowv_keystream key iv (nblocks16 msg)).

(* ------------------------------------------------------------------ *)
(* Private GF(2^128) multiplication and GHASH as in NIST SP 800-38D (GCM).
   A 16-byte block is the big-endian number of its bytes; bit 127 of the number
   is the coefficient of x^0. *)
Definition gf128_R : N := N.shiftl 0xe1 120.

Fixpoint gf128_mul_loop (n : nat) (x z v : N) : N :=
  match n with
  | O => z
  | S n' =>
      let z' := if N.testbit x (N.of_nat n') then N.lxor z v else z in
      let v' := if N.testbit v 0 then N.lxor (N.shiftr v 1) gf128_R else N.shiftr v 1 in
      gf128_mul_loop n' x z' v'
  end.
Definition gf128_mul (x y : N) : N := gf128_mul_loop 128 x 0 y.

(* absorb the 16-byte chunks of [data] (last one zero padded) into y *)
Definition ghash_absorb (h y : N) (data : bytes) : N :=
  fold_left (fun acc c => gf128_mul (N.lxor acc (be_to_N (pad_right 16 c))) h) (chunks 16 data) y.

Definition snowv_ghash (h : bytes) (aad ct : bytes) : bytes :=
  let hN := be_to_N h in
  let y1 := ghash_absorb hN 0 aad in
  let y2 := ghash_absorb hN y1 ct in
  let lens := be64 (8 * N.of_nat (length aad)) ++ be64 (8 * N.of_nat (length ct)) in
  N_to_be 16 (ghash_absorb hN y2 lens).

(* ------------------------------------------------------------------ *)
(* SNOW-V-GCM (paper section 6; submit_snow_v_aead_job in job_api_snowv.h):
   AEAD-mode init, H = z_0 (GHASH key), endpad = z_1 (tag mask), data key stream
   = z_2, z_3, ...;  tag = GHASH_H(aad, ct) xor endpad, always 16 bytes.
   The library never verifies a tag: in the decrypt direction it outputs the
   plaintext and the tag computed over the received ciphertext. *)
Definition snowv_aead_core (key iv : bytes) (nblocks : nat) : bytes * bytes * bytes :=
  let ks := snowv_ks_from (2 + nblocks) (snowv_init true key iv) in
  (firstn 16 ks, firstn 16 (skipn 16 ks), skipn 32 ks).

Definition snowv_aead_enc (key iv aad pt : bytes) : bytes * bytes :=
  let '(h, endpad, ks) := snowv_aead_core key iv (nblocks16 pt) in
  let ct := xor_bytes pt ks in
  (ct, xor_bytes (snowv_ghash h aad ct) endpad).

Definition snowv_aead_dec (key iv aad ct : bytes) : bytes * bytes :=
  let '(h, endpad, ks) := snowv_aead_core key iv (nblocks16 ct) in
  (xor_bytes ct ks, xor_bytes (snowv_ghash h aad ct) endpad).

(* convenience for callers that want verification (NOT done by the library) *)
Definition snowv_aead_dec_verify (key iv aad ct tag : bytes) : option bytes :=
  let '(pt, t) := snowv_aead_dec key iv aad ct in
  if list_eq_dec N.eq_dec t tag then Some pt else None.
