(* Spec/KASUMI.v — KASUMI block cipher (3GPP TS 35.202), f8 / f9 (TS 35.201) as the
   intel-ipsec-mb job API computes them (IMB_CIPHER_KASUMI_UEA1_BITLEN,
   IMB_AUTH_KASUMI_UIA1), and the IV generators of lib/x86_64/kasumi_iv.c.
   Definitions only.  Known-answer tests are in Spec/KASUMI_Tests.v.

   Conventions: bytes = list N, 16-bit words and 64-bit blocks are N.
   A 64-bit block is the big-endian value of its 8 bytes (bit 63 = first bit). *)
From IMB Require Import Lib.Bytes.
Local Open Scope N_scope.

(* ------------------------------------------------------------------ *)
(* S-boxes S7 (7 -> 7 bits) and S9 (9 -> 9 bits), TS 35.202 section 4.5.
   Values recovered from /repo/lib/include/kasumi_internal.h
   (sso_kasumi_S7e[x] = ((S7[x] xor x) << 9) | x,
    sso_kasumi_S9e[y] = ((S9[y] land 0x7f) << 9) | S9[y]) and identical to the
   decimal tables printed in TS 35.202. *)
Definition kasumi_S7 : list N := [
    54; 50; 62; 56; 22; 34; 94; 96; 38; 6; 63; 93; 2; 18; 123; 33;
    55; 113; 39; 114; 21; 67; 65; 12; 47; 73; 46; 27; 25; 111; 124; 81;
    53; 9; 121; 79; 52; 60; 58; 48; 101; 127; 40; 120; 104; 70; 71; 43;
    20; 122; 72; 61; 23; 109; 13; 100; 77; 1; 16; 7; 82; 10; 105; 98;
    117; 116; 76; 11; 89; 106; 0; 125; 118; 99; 86; 69; 30; 57; 126; 87;
    112; 51; 17; 5; 95; 14; 90; 84; 91; 8; 35; 103; 32; 97; 28; 66;
    102; 31; 26; 45; 75; 4; 85; 92; 37; 74; 80; 49; 68; 29; 115; 44;
    64; 107; 108; 24; 110; 83; 36; 78; 42; 19; 15; 41; 88; 119; 59; 3
].

Definition kasumi_S9 : list N := [
    167; 239; 161; 379; 391; 334; 9; 338; 38; 226; 48; 358; 452; 385; 90; 397;
    183; 253; 147; 331; 415; 340; 51; 362; 306; 500; 262; 82; 216; 159; 356; 177;
    175; 241; 489; 37; 206; 17; 0; 333; 44; 254; 378; 58; 143; 220; 81; 400;
    95; 3; 315; 245; 54; 235; 218; 405; 472; 264; 172; 494; 371; 290; 399; 76;
    165; 197; 395; 121; 257; 480; 423; 212; 240; 28; 462; 176; 406; 507; 288; 223;
    501; 407; 249; 265; 89; 186; 221; 428; 164; 74; 440; 196; 458; 421; 350; 163;
    232; 158; 134; 354; 13; 250; 491; 142; 191; 69; 193; 425; 152; 227; 366; 135;
    344; 300; 276; 242; 437; 320; 113; 278; 11; 243; 87; 317; 36; 93; 496; 27;
    487; 446; 482; 41; 68; 156; 457; 131; 326; 403; 339; 20; 39; 115; 442; 124;
    475; 384; 508; 53; 112; 170; 479; 151; 126; 169; 73; 268; 279; 321; 168; 364;
    363; 292; 46; 499; 393; 327; 324; 24; 456; 267; 157; 460; 488; 426; 309; 229;
    439; 506; 208; 271; 349; 401; 434; 236; 16; 209; 359; 52; 56; 120; 199; 277;
    465; 416; 252; 287; 246; 6; 83; 305; 420; 345; 153; 502; 65; 61; 244; 282;
    173; 222; 418; 67; 386; 368; 261; 101; 476; 291; 195; 430; 49; 79; 166; 330;
    280; 383; 373; 128; 382; 408; 155; 495; 367; 388; 274; 107; 459; 417; 62; 454;
    132; 225; 203; 316; 234; 14; 301; 91; 503; 286; 424; 211; 347; 307; 140; 374;
    35; 103; 125; 427; 19; 214; 453; 146; 498; 314; 444; 230; 256; 329; 198; 285;
    50; 116; 78; 410; 10; 205; 510; 171; 231; 45; 139; 467; 29; 86; 505; 32;
    72; 26; 342; 150; 313; 490; 431; 238; 411; 325; 149; 473; 40; 119; 174; 355;
    185; 233; 389; 71; 448; 273; 372; 55; 110; 178; 322; 12; 469; 392; 369; 190;
    1; 109; 375; 137; 181; 88; 75; 308; 260; 484; 98; 272; 370; 275; 412; 111;
    336; 318; 4; 504; 492; 259; 304; 77; 337; 435; 21; 357; 303; 332; 483; 18;
    47; 85; 25; 497; 474; 289; 100; 269; 296; 478; 270; 106; 31; 104; 433; 84;
    414; 486; 394; 96; 99; 154; 511; 148; 413; 361; 409; 255; 162; 215; 302; 201;
    266; 351; 343; 144; 441; 365; 108; 298; 251; 34; 182; 509; 138; 210; 335; 133;
    311; 352; 328; 141; 396; 346; 123; 319; 450; 281; 429; 228; 443; 481; 92; 404;
    485; 422; 248; 297; 23; 213; 130; 466; 22; 217; 283; 70; 294; 360; 419; 127;
    312; 377; 7; 468; 194; 2; 117; 295; 463; 258; 224; 447; 247; 187; 80; 398;
    284; 353; 105; 390; 299; 471; 470; 184; 57; 200; 348; 63; 204; 188; 33; 451;
    97; 30; 310; 219; 94; 160; 129; 493; 64; 179; 263; 102; 189; 207; 114; 402;
    438; 477; 387; 122; 192; 42; 381; 5; 145; 118; 180; 449; 293; 323; 136; 380;
    43; 66; 60; 455; 341; 445; 202; 432; 8; 237; 15; 376; 436; 464; 59; 461
].

Definition S7 (x : N) : N := nth (N.to_nat x) kasumi_S7 0.
Definition S9 (x : N) : N := nth (N.to_nat x) kasumi_S9 0.

(* ------------------------------------------------------------------ *)
(* FI: 16-bit -> 16-bit, subkey KI (16 bits: KI,1 = top 7 bits, KI,2 = low 9 bits).
   TS 35.202 section 4.4. *)
Definition kasumi_FI (x ki : N) : N :=
  let nine0  := N.shiftr x 7 in
  let seven0 := N.land x 127 in
  let nine1  := N.lxor (S9 nine0) seven0 in
  let seven1 := N.lxor (S7 seven0) (N.land nine1 127) in
  let seven2 := N.lxor seven1 (N.shiftr ki 9) in
  let nine2  := N.lxor nine1 (N.land ki 511) in
  let nine3  := N.lxor (S9 nine2) seven2 in
  let seven3 := N.lxor (S7 seven2) (N.land nine3 127) in
  N.lor (N.shiftl seven3 9) nine3.

(* FL: 32-bit -> 32-bit, subkeys KL1, KL2.  TS 35.202 section 4.3. *)
Definition kasumi_FL (x kl1 kl2 : N) : N :=
  let l := N.shiftr x 16 in
  let r := w16 x in
  let r' := N.lxor r (rotl16 (N.land l kl1) 1) in
  let l' := N.lxor l (rotl16 (N.lor r' kl2) 1) in
  N.lor (N.shiftl l' 16) r'.

(* FO: 32-bit -> 32-bit, subkeys KO1..3, KI1..3.  TS 35.202 section 4.2. *)
Definition kasumi_FO (x ko1 ki1 ko2 ki2 ko3 ki3 : N) : N :=
  let l0 := N.shiftr x 16 in
  let r0 := w16 x in
  let l1 := N.lxor (kasumi_FI (N.lxor l0 ko1) ki1) r0 in
  let r1 := N.lxor (kasumi_FI (N.lxor r0 ko2) ki2) l1 in
  let l2 := N.lxor (kasumi_FI (N.lxor l1 ko3) ki3) r1 in
  N.lor (N.shiftl r1 16) l2.

(* ------------------------------------------------------------------ *)
(* Key schedule, TS 35.202 section 4.6.
   Output: 64 16-bit words, round i (0..7) at offsets 8i..8i+7 in the order
     [KL_i1; KL_i2; KO_i1; KI_i1; KO_i2; KI_i2; KO_i3; KI_i3]
   which is exactly the layout of kasumi_key_sched_t.sk16 built by
   kasumi_key_schedule_sk() in /repo/lib/include/kasumi_internal.h. *)
Definition kasumi_C : list N :=
  [0x0123; 0x4567; 0x89AB; 0xCDEF; 0xFEDC; 0xBA98; 0x7654; 0x3210].

Definition kasumi_round_keys (k k' : list N) (n : nat) : list N :=
  let K  i := nth_N k  (Nat.modulo (n + i) 8) in
  let K' i := nth_N k' (Nat.modulo (n + i) 8) in
  [ rotl16 (K 0%nat) 1; K' 2%nat;
    rotl16 (K 1%nat) 5; K' 4%nat;
    rotl16 (K 5%nat) 8; K' 3%nat;
    rotl16 (K 6%nat) 13; K' 7%nat ].

Definition kasumi_key_schedule (key : bytes) : list N :=
  let k  := words_be 2 (firstn 16 (pad_right 16 key)) in
  let k' := map (fun p => N.lxor (fst p) (snd p)) (combine k kasumi_C) in
  flat_map (kasumi_round_keys k k') (upto 8).

(* ------------------------------------------------------------------ *)
(* The 8-round Feistel network on a 64-bit block given a 64-word schedule.
   TS 35.202 section 4.1: odd rounds f_i = FO(FL(.)), even rounds f_i = FL(FO(.)). *)
Definition kasumi_f_odd (x : N) (rk : list N) : N :=
  match rk with
  | [kl1; kl2; ko1; ki1; ko2; ki2; ko3; ki3] =>
      kasumi_FO (kasumi_FL x kl1 kl2) ko1 ki1 ko2 ki2 ko3 ki3
  | _ => 0
  end.
Definition kasumi_f_even (x : N) (rk : list N) : N :=
  match rk with
  | [kl1; kl2; ko1; ki1; ko2; ki2; ko3; ki3] =>
      kasumi_FL (kasumi_FO x ko1 ki1 ko2 ki2 ko3 ki3) kl1 kl2
  | _ => 0
  end.

(* two rounds (one odd, one even) per step; 4 steps *)
Fixpoint kasumi_rounds (n : nat) (sk : list N) (l r : N) : N * N :=
  match n with
  | O => (l, r)
  | S n' =>
      let r1 := N.lxor r (kasumi_f_odd l (firstn 8 sk)) in
      let l1 := N.lxor l (kasumi_f_even r1 (firstn 8 (skipn 8 sk))) in
      kasumi_rounds n' (skipn 16 sk) l1 r1
  end.

(* 64-bit block -> 64-bit block under an expanded key *)
Definition kasumi_enc_w (sk : list N) (x : N) : N :=
  let '(l, r) := kasumi_rounds 4 sk (w32 (N.shiftr x 32)) (w32 x) in
  N.lor (N.shiftl l 32) r.

(* byte interface: key 16 bytes, blk 8 bytes -> 8 bytes *)
Definition kasumi_block (key blk : bytes) : bytes :=
  be64 (kasumi_enc_w (kasumi_key_schedule key) (be_to_N (firstn 8 (pad_right 8 blk)))).

(* ------------------------------------------------------------------ *)
(* Library key schedules (kasumi_compute_sched in kasumi_internal.h):
   kasumi_key_sched_t = { sk16 = schedule(key); msk16 = schedule(key xor m^16) }
   with modifier byte m = 0x55 for f8 (KM of TS 35.201) and 0xAA for f9. *)
Definition kasumi_mod_key (m : N) (key : bytes) : bytes := map (fun b => N.lxor b m) key.
Definition kasumi_f8_key_sched (key : bytes) : list N * list N :=
  (kasumi_key_schedule key, kasumi_key_schedule (kasumi_mod_key 0x55 key)).
Definition kasumi_f9_key_sched (key : bytes) : list N * list N :=
  (kasumi_key_schedule key, kasumi_key_schedule (kasumi_mod_key 0xAA key)).

(* ------------------------------------------------------------------ *)
(* f8 keystream (TS 35.201 section 3): A = KASUMI[IV]_{CK xor KM},
   KSB_0 = 0, KSB_n = KASUMI[A xor (n-1) xor KSB_{n-1}]_CK,  n = 1..nblocks.
   IV is the 8-byte job IV = COUNT(32) || BEARER(5) || DIRECTION(1) || 0^26. *)
Fixpoint kasumi_f8_ks_loop (n : nat) (sk : list N) (a prev cnt : N) : list N :=
  match n with
  | O => []
  | S n' =>
      let b := kasumi_enc_w sk (N.lxor (N.lxor a cnt) prev) in
      b :: kasumi_f8_ks_loop n' sk a b (cnt + 1)
  end.

Definition kasumi_f8_keystream_w (key iv : bytes) (nblocks : nat) : list N :=
  let '(sk, msk) := kasumi_f8_key_sched key in
  let a := kasumi_enc_w msk (be_to_N (firstn 8 (pad_right 8 iv))) in
  kasumi_f8_ks_loop nblocks sk a 0 0.

Definition kasumi_f8_keystream (key iv : bytes) (nblocks : nat) : bytes :=
  flat_map be64 (kasumi_f8_keystream_w key iv nblocks).

(* ------------------------------------------------------------------ *)
(* IMB_CIPHER_KASUMI_UEA1_BITLEN job.  submit_kasumi_uea1_job in
   /repo/lib/include/job_api_kasumi.h, kasumi_f8_1_buffer and
   kasumi_f8_1_buffer_bit in /repo/lib/include/kasumi_internal.h.

   [src] / [dst] are the byte buffers at job->src / job->dst,
   [bitlen] = msg_len_to_cipher_in_bits (1..20000),
   [bitoff] = cipher_start_src_offset_in_bits.  The result is the content of
   the dst buffer after the job (same length as [dst] when [dst] is long enough).
   Bits are numbered MSB first inside a byte.

   Library-defined behaviour modelled here (all confirmed empirically):
   (1) byte path, bitlen mod 8 = 0 and bitoff mod 8 = 0:
       dst[0 .. n) = src[q .. q+n) xor KS, n = bitlen/8, q = bitoff/8.
       NOTE the output is written at dst + 0, NOT at dst + q.
   (2) bit path (otherwise): with q = bitoff / 8, r = bitoff mod 8, both the
       read and the write position are at byte q; the key stream starts at bit
       r of byte q.  dst bits in [8q+r, 8q+r+bitlen) become src xor KS, the r
       leading bits of byte q and the trailing bits of the last byte keep the
       value they had in dst.
   (3) bit path quirk: when bitlen < 64 - r ("single block" case) only
       ceil(bitlen/8) bytes are stored, i.e. fewer than ceil((r+bitlen)/8);
       message bits falling in later bytes are silently left unprocessed. *)

Definition ceil_div8 (n : N) : N := N.shiftr (n + 7) 3.
Definition ceil_div64 (n : N) : N := N.shiftr (n + 63) 6.

(* key stream bytes shifted right by r (0..7) bits: byte stream of 0^r || KS *)
Fixpoint shift_stream (r prev : N) (ks : bytes) : bytes :=
  match ks with
  | [] => []
  | k :: t => w8 (N.lor (N.shiftl prev (8 - r)) (N.shiftr k r)) :: shift_stream r k t
  end.

(* mask of the bits of the byte covering bit positions [pos, pos+8) that lie in [lo, hi) *)
Definition bit_window_mask (lo hi pos : N) : N :=
  N.land (N.shiftr 255 (lo - pos)) (w8 (N.shiftl 255 (pos + 8 - hi))).

Fixpoint f8_merge (cs src dst : bytes) (lo hi pos : N) : bytes :=
  match cs with
  | [] => dst
  | c :: cs' =>
      let s := hd 0 src in
      let d := hd 0 dst in
      let m := bit_window_mask lo hi pos in
      N.lor (N.land d (N.lxor m 255)) (N.land (N.lxor s c) m)
        :: f8_merge cs' (tl src) (tl dst) lo hi (pos + 8)
  end.

Definition kasumi_f8_job (key iv src dst : bytes) (bitlen bitoff : N) : bytes :=
  let q := N.to_nat (N.shiftr bitoff 3) in
  let r := N.land bitoff 7 in
  if (N.land bitlen 7 =? 0) && (r =? 0) then
    let n := N.to_nat (N.shiftr bitlen 3) in
    let ks := kasumi_f8_keystream key iv (N.to_nat (ceil_div64 bitlen)) in
    xor_bytes (firstn n (pad_right n (skipn q src))) ks ++ skipn n dst
  else
    let nb := if bitlen <? 64 - r then ceil_div8 bitlen else ceil_div8 (r + bitlen) in
    let ks := kasumi_f8_keystream key iv (N.to_nat (ceil_div64 (r + bitlen))) in
    let cs := firstn (N.to_nat nb) (shift_stream r 0 ks) in
    firstn q dst ++ f8_merge cs (skipn q src) (skipn q dst) r (r + bitlen) 0.

(* in-place job (job->src = job->dst = msg) *)
Definition kasumi_f8 (key iv msg : bytes) (bitlen bitoff : N) : bytes :=
  kasumi_f8_job key iv msg msg bitlen bitoff.

(* whole-buffer byte-aligned convenience: bitlen = 8 * length msg, offset 0 *)
Definition kasumi_f8_bytes (key iv msg : bytes) : bytes :=
  xor_bytes msg (kasumi_f8_keystream key iv (Nat.div (length msg + 7) 8)).

(* ------------------------------------------------------------------ *)
(* IMB_AUTH_KASUMI_UIA1 job = kasumi_f9_1_buffer (kasumi_internal.h) over
   msg_len_to_hash_in_bytes bytes (job check: 9 <= len <= 2500).
   The library adds NO padding and takes no COUNT/FRESH/DIRECTION: the caller
   passes the complete f9 input string
       COUNT(4) || FRESH(4) || MESSAGE || DIRECTION bit || 1 || 0*
   already padded to a byte boundary; the library zero-extends it to a
   multiple of 64 bits (which is exactly the 0* of TS 35.201 section 4).
   A_0 = B_0 = 0, A_i = KASUMI[A_{i-1} xor PS_i]_IK, B_i = B_{i-1} xor A_i,
   MAC = left 32 bits of KASUMI[B]_{IK xor KM}, KM = 0xAA..AA, output big endian. *)
Fixpoint kasumi_f9_loop (sk : list N) (blocks : list N) (a b : N) : N :=
  match blocks with
  | [] => b
  | p :: t => let a' := kasumi_enc_w sk (N.lxor a p) in
              kasumi_f9_loop sk t a' (N.lxor b a')
  end.

Definition kasumi_f9 (key msg : bytes) : bytes :=
  let '(sk, msk) := kasumi_f9_key_sched key in
  let blocks := map (fun c => be_to_N (pad_right 8 c)) (chunks 8 msg) in
  let b := kasumi_f9_loop sk blocks 0 0 in
  be32 (N.shiftr (kasumi_enc_w msk b) 32).

(* Build the byte string the job expects from the TS 35.201 f9 inputs.
   [msg] holds [bitlen] message bits MSB first (bitlen <= 8 * length msg). *)
Fixpoint bits_of_bytes (l : bytes) : list bool :=
  match l with
  | [] => []
  | b :: t => map (fun i => N.testbit b i) [7;6;5;4;3;2;1;0] ++ bits_of_bytes t
  end.
Fixpoint byte_of_bits (n : nat) (acc : N) (l : list bool) : N * list bool :=
  match n with
  | O => (acc, l)
  | S n' => match l with
            | [] => byte_of_bits n' (N.shiftl acc 1) []
            | x :: t => byte_of_bits n' (N.lor (N.shiftl acc 1) (if x then 1 else 0)) t
            end
  end.
Fixpoint bytes_of_bits (fuel : nat) (l : list bool) : bytes :=
  match fuel with
  | O => []
  | S f => match l with
           | [] => []
           | _ => let '(b, t) := byte_of_bits 8 0 l in b :: bytes_of_bits f t
           end
  end.

Definition kasumi_f9_input (count fresh : N) (dir : bool) (msg : bytes) (bitlen : N) : bytes :=
  let bits := firstn (N.to_nat bitlen) (bits_of_bytes msg) ++ [dir; true] in
  be32 count ++ be32 fresh ++ bytes_of_bits (length bits) bits.

(* f9 of TS 35.201 through the job API *)
Definition kasumi_f9_3gpp (key : bytes) (count fresh : N) (dir : bool) (msg : bytes) (bitlen : N) : bytes :=
  kasumi_f9 key (kasumi_f9_input count fresh dir msg bitlen).

(* ------------------------------------------------------------------ *)
(* IV generators, /repo/lib/x86_64/kasumi_iv.c.
   kasumi_f8_iv_gen: IV = COUNT (big endian) || (BEARER << 3 | DIR << 2) || 0 0 0;
   returns None where the C function returns -1 (bearer >= 32 or dir > 1).
   count is reduced to 32 bits (uint32_t parameter). *)
Definition kasumi_f8_iv_gen (count bearer dir : N) : option bytes :=
  if (bearer <? 32) && (dir <? 2)
  then Some (be32 count ++ [w8 (N.shiftl bearer 3 + N.shiftl dir 2); 0; 0; 0])
  else None.

(* kasumi_f9_iv_gen: IV = COUNT (big endian) || FRESH (big endian); never fails
   for a non-NULL pointer.  (This IV is only used by the direct API
   IMB_KASUMI_F9_1_BUFFER_USER, not by the job API.) *)
Definition kasumi_f9_iv_gen (count fresh : N) : bytes := be32 count ++ be32 fresh.
