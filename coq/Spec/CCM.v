(* Spec/CCM.v — AES-CCM (RFC 3610 / NIST SP 800-38C).  Definitions only.

   The generic part is parameterised by the block cipher with the key already
   fixed, E : bytes(16) -> bytes(16); the end of the file instantiates it with
   AES (Spec/AES.v).

   Library entry point modelled: IMB_CIPHER_CCM + IMB_AUTH_AES_CCM job
   (/repo/lib/include/mb_mgr_aes_ccm_submit_flush_sse.inc builds B0 and the
   encoded AAD itself; /repo/lib/sse_t1/aes128_cntr_ccm_by8_sse.asm is the
   counter part).  job->iv is the nonce N (7..13 bytes, L = 15 - |N|),
   u.CCM.aad/aad_len_in_bytes the AAD (library limit: at most 46 bytes,
   IMB_CCM_AAD_MAX_SIZE), auth_tag_output_len_in_bytes = M in {4,6,..,16},
   msg_len_to_cipher = msg_len_to_hash <= 65534 (MB_MAX_LEN16).  Key 16 or
   32 bytes.  See Spec/AEAD_API.md for the empirically confirmed details. *)
From IMB Require Import Lib.Bytes Spec.AES.
Local Open Scope N_scope.

(* RFC 3610 2.2: encoding of l(a) in front of the AAD (nothing if l(a) = 0) *)
Definition ccm_aad_len_enc (alen : N) : bytes :=
  if alen =? 0 then []
  else if alen <? 65280 then N_to_be 2 alen                  (* < 2^16 - 2^8 *)
  else if alen <? 4294967296 then [255; 254] ++ N_to_be 4 alen
  else [255; 255] ++ N_to_be 8 alen.

Section CCM_generic.
  Variable E : bytes -> bytes.

  (* one CBC-MAC step on a block of at most 16 bytes, zero-padded *)
  Definition ccm_mac_step (x : bytes) (b : bytes) : bytes :=
    E (xor_bytes (pad_right 16 b) x).

  (* B_0 = flags || N || l(m),  flags = 64*Adata + 8*((M-2)/2) + (L-1) *)
  Definition ccm_b0 (nonce : bytes) (has_aad : bool) (taglen : nat) (mlen : N) : bytes :=
    let L := (15 - length nonce)%nat in
    let flags := (if has_aad then 64 else 0)
                 + 8 * N.div2 (N.of_nat taglen - 2)
                 + (N.of_nat L - 1) in
    (flags :: nonce) ++ N_to_be L mlen.

  (* T = CBC-MAC(B_0, encoded AAD zero-padded, message zero-padded) — 16 bytes *)
  Definition ccm_cbcmac (nonce aad msg : bytes) (taglen : nat) : bytes :=
    let has_aad := negb (Nat.eqb (length aad) 0) in
    let x0 := E (ccm_b0 nonce has_aad taglen (N.of_nat (length msg))) in
    let ablocks := chunks 16 (ccm_aad_len_enc (N.of_nat (length aad)) ++ aad) in
    let x1 := fold_left ccm_mac_step ablocks x0 in
    fold_left ccm_mac_step (chunks 16 msg) x1.

  (* counter block A_i = (L-1) || N || [i]_L *)
  Definition ccm_ctr_block (nonce : bytes) (i : N) : bytes :=
    let L := (15 - length nonce)%nat in
    ((N.of_nat L - 1) :: nonce) ++ N_to_be L i.

  Fixpoint ccm_ctr_blocks (nonce : bytes) (i : N) (blks : list bytes) : bytes :=
    match blks with
    | [] => []
    | b :: t => xor_bytes b (E (ccm_ctr_block nonce i)) ++ ccm_ctr_blocks nonce (i + 1) t
    end.

  (* message blocks use S_1, S_2, ... *)
  Definition ccm_ctr (nonce data : bytes) : bytes :=
    ccm_ctr_blocks nonce 1 (chunks 16 data).

  (* U = first M bytes of (T xor S_0) *)
  Definition ccm_tag (nonce aad pt : bytes) (taglen : nat) : bytes :=
    firstn taglen (xor_bytes (ccm_cbcmac nonce aad pt taglen) (E (ccm_ctr_block nonce 0))).

  Definition ccm_enc_gen (nonce aad pt : bytes) (taglen : nat) : bytes * bytes :=
    (ccm_ctr nonce pt, ccm_tag nonce aad pt taglen).

  (* Decrypt direction as the library job behaves: plaintext is output
     unconditionally together with the tag *computed* over that plaintext;
     comparison with the received tag is the caller's business. *)
  Definition ccm_dec_gen (nonce aad ct : bytes) (taglen : nat) : bytes * bytes :=
    let pt := ccm_ctr nonce ct in
    (pt, ccm_tag nonce aad pt taglen).
End CCM_generic.

(* ---------- AES instantiation (key of 16 or 32 bytes; 24 also computes) ---------- *)

Definition ccm_enc (key nonce aad pt : bytes) (taglen : nat) : bytes * bytes :=
  let rks := aes_key_expand key in
  ccm_enc_gen (aes_enc_rk rks) nonce aad pt taglen.

Definition ccm_dec (key nonce aad ct : bytes) (taglen : nat) : bytes * bytes :=
  let rks := aes_key_expand key in
  ccm_dec_gen (aes_enc_rk rks) nonce aad ct taglen.
