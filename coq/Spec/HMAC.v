(* Spec/HMAC.v — HMAC (RFC 2104 / FIPS 198-1), generic over a hash, with
   instances for SHA-1/224/256/384/512, MD5 and SM3, plus the library's
   precomputed ipad/opad-state formulation (imb_hmac_ipad_opad + job API).
   Definitions only. *)
From IMB Require Import Lib.Bytes Spec.SHA Spec.MD5 Spec.SM3.
Local Open Scope N_scope.

(* ------------------------------------------------------------------------- *)
(* RFC 2104, generic over block size B (bytes) and hash H                     *)
(* ------------------------------------------------------------------------- *)
Section HMAC_GEN.
  Variable B : nat.
  Variable H : bytes -> bytes.

  (* K0: key hashed if longer than a block, then zero-padded to B bytes *)
  Definition hmac_key0 (key : bytes) : bytes :=
    pad_right B (if Nat.ltb B (length key) then H key else key).

  Definition hmac_ipad_block (key : bytes) : bytes := xor_bytes (hmac_key0 key) (repeat 0x36 B).
  Definition hmac_opad_block (key : bytes) : bytes := xor_bytes (hmac_key0 key) (repeat 0x5c B).

  (* H((K0 xor opad) || H((K0 xor ipad) || msg)) — full-length digest *)
  Definition hmac_gen (key msg : bytes) : bytes :=
    H (hmac_opad_block key ++ H (hmac_ipad_block key ++ msg)).
End HMAC_GEN.

Definition hmac_sha1   : bytes -> bytes -> bytes := hmac_gen 64 sha1.
Definition hmac_sha224 : bytes -> bytes -> bytes := hmac_gen 64 sha224.
Definition hmac_sha256 : bytes -> bytes -> bytes := hmac_gen 64 sha256.
Definition hmac_sha384 : bytes -> bytes -> bytes := hmac_gen 128 sha384.
Definition hmac_sha512 : bytes -> bytes -> bytes := hmac_gen 128 sha512.
Definition hmac_md5    : bytes -> bytes -> bytes := hmac_gen 64 md5.
Definition hmac_sm3    : bytes -> bytes -> bytes := hmac_gen 64 sm3.

(* same thing through the [md_hash] record (X = H_SHA1, H_SHA224, H_SHA256, H_SHA384, H_SHA512, H_MD5, H_SM3) *)
Definition hmac_md (X : md_hash) (key msg : bytes) : bytes :=
  hmac_gen (md_block X) (md_full X) key msg.

(* ------------------------------------------------------------------------- *)
(* Library formulation: precomputed inner/outer states                        *)
(*                                                                            *)
(* imb_hmac_ipad_opad(mgr, alg, key, key_len, ipad_hash, opad_hash)           *)
(* (/repo/lib/x86_64/hmac_ipad_opad.c) hashes keys longer than the block      *)
(* size, builds K0 xor 0x36.. / 0x5c.., runs ONE compression from the         *)
(* initial state and stores the raw state words ([md_ser X]): little-endian   *)
(* uint32 for SHA-1 (20 bytes) / SHA-224 / SHA-256 (32 bytes, all 8 words     *)
(* also for 224) / MD5 (16 bytes) / SM3 (32 bytes, sm3_one_block_sse — NOT   *)
(* the big-endian SM3 digest layout), little-endian uint64 for SHA-384 /      *)
(* SHA-512 (64 bytes, all 8 words also for 384).                              *)
(* For IMB_AUTH_MD5 the helper refuses key_len > 64 (IMB_ERR_KEY_LEN = 2032,  *)
(* outputs untouched): modelled as [None].                                    *)
(* ------------------------------------------------------------------------- *)

Definition md_state_bytes (X : md_hash) : nat := length (md_ser X (md_init X)).

Definition hmac_pad_state (X : md_hash) (padbyte : N) (key : bytes) : option bytes :=
  if Nat.ltb (md_block X) (length key) && negb (md_ipad_long_key X) then None
  else
    let k0 := hmac_key0 (md_block X) (md_full X) key in
    Some (md_ser X (md_compress X (md_init X) (xor_bytes k0 (repeat padbyte (md_block X))))).

Definition hmac_ipad_state (X : md_hash) (key : bytes) : option bytes :=
  hmac_pad_state X 0x36 key.
Definition hmac_opad_state (X : md_hash) (key : bytes) : option bytes :=
  hmac_pad_state X 0x5c key.

(* What an IMB_AUTH_HMAC_xxx / IMB_AUTH_MD5 / IMB_AUTH_HMAC_SM3 job computes
   from the two buffers job->u.HMAC._hashed_auth_key_xor_ipad/_opad (only the
   first [md_state_bytes X] bytes of each are read) and the message:
     inner = finish(ipad-state, total = B + |msg|, msg)
     tag   = finish(opad-state, total = B + |inner|, inner)
   Full digest; the job writes [firstn auth_tag_output_len_in_bytes] of it.
   The library requires |msg| >= 1 for these jobs (IMB_ERR_JOB_AUTH_LEN). *)
Definition hmac_precomp (X : md_hash) (ipad opad msg : bytes) : bytes :=
  let B := md_block X in
  let n := md_state_bytes X in
  let inner := md_finish X (md_deser X (firstn n ipad)) (B + length msg) msg in
  md_finish X (md_deser X (firstn n opad)) (B + length inner) inner.

(* helper + job composed: Some tag iff the helper accepts the key *)
Definition hmac_lib (X : md_hash) (key msg : bytes) : option bytes :=
  match hmac_ipad_state X key, hmac_opad_state X key with
  | Some i, Some o => Some (hmac_precomp X i o msg)
  | _, _ => None
  end.
